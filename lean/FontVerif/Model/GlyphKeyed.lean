/-
C18 — IFT glyph-keyed patch application, font level.

Transcribes incremental-font-transfer/src/glyph_keyed.rs
  `apply_glyph_keyed_patches` (decode loop, parse loop, the per-tag loop with its four arms
  glyf / gvar / CFF / CFF2 and `processed_tables`, the applied-bit loop, `copy_unprocessed_tables`),
  `table_tag_list`; font_patch.rs `FontRef::apply_glyph_keyed_patches`.
The arms: `GlyfAndLoca` (Model/GlyphSplice.lean), `Gvar` (Model/GvarKeyed.lean),
`CFFAndCharStrings` (Model/CffKeyed.lean); all share `patchOffsetArray` (Model/GlyphSplice.lean).
-/
import FontVerif.Model.GvarKeyed
import FontVerif.Model.CffKeyed
namespace FontVerif.Ift

/-- `table_tag_list`: each patch's tags strictly ascending; union as a sorted set -/
def strictlyAscending : List Nat → Bool
  | a :: b :: rest => a < b && strictlyAscending (b :: rest)
  | _ => true

def insertSorted (t : Nat) : List Nat → List Nat
  | [] => [t]
  | x :: xs => if t < x then t :: x :: xs else if t = x then x :: xs else x :: insertSorted t xs

def tableTagList (gps : List GlyphPatches) : Except PErr (List Tag) :=
  if gps.any (fun gp => !strictlyAscending gp.tables) then
    .error (.invalidPatch "Duplicate or unsorted table tag.")
  else .ok ((gps.flatMap (·.tables)).foldl (fun s t => insertSorted t s) [])

/-! ## the per-tag loop

The Rust loop body is an `if / else if` chain on the tag with one arm per supported table; every arm
(1) builds its view of the BASE font (never of the builder), (2) runs `patch_offset_array`, whose
`add_to_font` adds one or two tables to the builder, (3) inserts the tags of those tables into
`processed_tables`; any other tag is skipped (`continue`).  The model splits this into `armOf`
(which arm, and the tables it adds or its error) and the loop `patchTables`. -/

/-- the `Glyf::TAG` arm: `(font.table_data(glyf), font.loca(None))` must both exist;
`GlyfAndLoca::add_to_font` refuses a changed offset type and adds glyf, then loca. -/
def glyfArm (font : Font) (gps : List GlyphPatches) (maxGid : Nat) : Except PErr (List (Tag × Bytes)) :=
  match glyfAndLoca font with
  | none => .error (.invalidPatch "Trying to patch glyf/loca but base font doesn't have them.")
  | some a =>
    match dedup TAG_glyf gps with
    | .error e => .error (.patchParsingFailed e)
    | .ok repl =>
      match patchOffsetArray a repl maxGid with
      | .error e => .error e
      | .ok (t, data, offs) =>
        -- GlyfAndLoca::add_to_font
        if t ≠ a.offsetType then .error (.serializationError SER_OFFSET_OVERFLOW)
        else .ok [(TAG_glyf, data), (TAG_loca, offs)]

/-- one table out of a single-table arm -/
def oneTable (tag : Tag) (r : Except PErr Bytes) : Except PErr (List (Tag × Bytes)) :=
  match r with
  | .error e => .error e
  | .ok b => .ok [(tag, b)]

/-- which arm a tag of `table_tag_list` selects (`none`: "All other table tags are ignored"), and
what that arm adds to the font builder.  The CFF / CFF2 arms read the charstrings offset from the
font's `IFT ` table (never `IFTX`). -/
def armOf (font : Font) (gps : List GlyphPatches) (maxGid : Nat) (tag : Tag) :
    Option (Except PErr (List (Tag × Bytes))) :=
  if tag = TAG_glyf then some (glyfArm font gps maxGid)
  else if tag = TAG_gvar then some (oneTable TAG_gvar (gvarPatch (font.get TAG_gvar) gps maxGid))
  else if tag = TAG_CFF then
    some (oneTable TAG_CFF (cffPatch false (font.get TAG_IFT) (font.get TAG_CFF) gps maxGid))
  else if tag = TAG_CFF2 then
    some (oneTable TAG_CFF2 (cffPatch true (font.get TAG_IFT) (font.get TAG_CFF2) gps maxGid))
  else none

/-- `font_builder.add_raw(tag, data); processed_tables.insert(tag)` for every table of an arm -/
def addOuts (outs : List (Tag × Bytes)) (st : List Tag × Font) : List Tag × Font :=
  outs.foldl (fun st td => (td.1 :: st.1, insertTable td.1 td.2 st.2)) st

/-- the per-tag loop of `apply_glyph_keyed_patches`; state = (processed_tables, font_builder) -/
def patchTables (font : Font) (gps : List GlyphPatches) (maxGid : Nat) :
    List Tag → List Tag × Font → Except PErr (List Tag × Font)
  | [], st => .ok st
  | tag :: rest, st =>
    match armOf font gps maxGid tag with
    | none => patchTables font gps maxGid rest st
    | some (.error e) => .error e
    | some (.ok outs) => patchTables font gps maxGid rest (addOuts outs st)

/-- `*byte |= 1 << bit_index` at `application_flag_bit_index` -/
def setAppliedBit (data : Bytes) (bit : Nat) : Option Bytes :=
  match data[bit / 8]? with
  | none => none
  | some b => some (data.set (bit / 8) (b ||| (1 <<< (bit % 8))))

/-- "Mark patches applied in IFT and IFTX": state = (new_itf_data, new_itfx_data) -/
def markApplied : List PatchInfo → Option Bytes × Option Bytes → Except PErr (Option Bytes × Option Bytes)
  | [], st => .ok st
  | info :: rest, (ift, iftx) =>
    match (if info.iftx then iftx else ift) with
    | none => .error .internalError
    | some d =>
      match setAppliedBit d info.bit with
      | none => .error .internalError
      | some d' => markApplied rest (if info.iftx then (ift, some d') else (some d', iftx))

/-- the decode loop at the top of `apply_glyph_keyed_patches`: format check and decode interleaved -/
def decodeAll (dec : Decoder) : List GKHeader → Nat → Except PErr (List Bytes)
  | [], _ => .ok []
  | h :: rest, i =>
    if h.format ≠ TAG_ifgk then .error (.invalidPatch "Patch file tag is not 'ifgk'")
    else
      match dec i h.stream none h.maxLen with
      | .error d => .error (PErr.ofDec d)
      | .ok raw =>
        match decodeAll dec rest (i + 1) with
        | .error e => .error e
        | .ok more => .ok (raw :: more)

def parseAll : List (Bytes × GKHeader) → Except PErr (List GlyphPatches)
  | [] => .ok []
  | (raw, h) :: rest =>
    match gpRead raw h.wide with
    | .error e => .error (.patchParsingFailed e)
    | .ok gp =>
      match parseAll rest with
      | .error e => .error e
      | .ok more => .ok (gp :: more)

/-- everything in `apply_glyph_keyed_patches` after decoding and parsing -/
def applyGlyphPatches (infos : List PatchInfo) (gps : List GlyphPatches) (font : Font) :
    Except PErr Font :=
  match font.get TAG_maxp with
  | none => .error (.fontParsingFailed (.tableIsMissing TAG_maxp))
  | some maxp =>
    let numGlyphs := beValue (sliceLen maxp 4 2)
    if numGlyphs = 0 then .error (.fontParsingFailed (.malformedData "Font has no glyphs."))
    else
      match tableTagList gps with
      | .error e => .error e
      | .ok tags =>
        match patchTables font gps (numGlyphs - 1) tags ([TAG_IFTX, TAG_IFT], []) with
        | .error e => .error e
        | .ok (processed, builder) =>
          match markApplied infos (font.get TAG_IFT, font.get TAG_IFTX) with
          | .error e => .error e
          | .ok (ift, iftx) =>
            let b1 := match ift with | some d => insertTable TAG_IFT d builder | none => builder
            let b2 := match iftx with | some d => insertTable TAG_IFTX d b1 | none => b1
            .ok (copyUnprocessed font processed b2)

/-- glyph_keyed.rs `apply_glyph_keyed_patches` -/
def applyGlyphKeyedCore (patches : List (PatchInfo × GKHeader)) (font : Font) (dec : Decoder) :
    Except PErr Font :=
  match decodeAll dec (patches.map (·.2)) 0 with
  | .error e => .error e
  | .ok raws =>
    match parseAll (List.zip raws (patches.map (·.2))) with
    | .error e => .error e
    | .ok gps => applyGlyphPatches (patches.map (·.1)) gps font

/-- font_patch.rs `FontRef::apply_glyph_keyed_patches`: per patch, font compat id (cached per
table tag — the cache only avoids recomputation) = info's id, parse header, = patch's id; nothing
is decoded until every patch has passed. -/
def checkGlyphKeyed (font : Font) : List (PatchInfo × Bytes) → Except PErr (List (PatchInfo × GKHeader))
  | [] => .ok []
  | (info, p) :: rest =>
    match fontCompatId font info.tag with
    | .error e => .error e
    | .ok fontId =>
      if fontId ≠ info.compat then .error .incompatiblePatch
      else
        match gkRead p with
        | .error e => .error (.patchParsingFailed e)
        | .ok h =>
          if fontId ≠ h.compat then .error .incompatiblePatch
          else
            match checkGlyphKeyed font rest with
            | .error e => .error e
            | .ok more => .ok ((info, h) :: more)

def applyGlyphKeyed (patches : List (PatchInfo × Bytes)) (font : Font) (dec : Decoder) :
    Except PErr Font :=
  match checkGlyphKeyed font patches with
  | .error e => .error e
  | .ok hs => applyGlyphKeyedCore hs font dec

end FontVerif.Ift
