/-
Model of skrifa's projection / freedom vector machinery and point movement primitives, in the
overflow-checked profile (plain `+ - *`, unary `-`, `abs` on `i32` trap: `none`; `F26Dot6`
operators and `Wrapping<_>` wrap):
  skrifa/src/outline/glyf/hint/math.rs        `normalize14`
  skrifa/src/outline/glyf/hint/projection.rs  `update_projection_state`, `project`, `dual_project`,
                                              `dual_project_unscaled`
  skrifa/src/outline/glyf/hint/zone.rs        `move_point`, `move_original`, `move_zp2_point`,
                                              `point_displacement`
  skrifa/src/outline/glyf/hint/engine/graphics.rs  `line_vector`, `op_svtca`, `op_svtl`,
                                              `op_sdpvtl`, `op_spvfs`, `op_sfvfs`, `op_sfvtpv`
  skrifa/src/outline/glyf/hint/engine/data.rs `op_gc`, `op_scfs`, `op_md` (value computation)
State of the code: /repo HEAD (after fix 8215eeb, SDPVTL with coincident original points).
-/
import FontVerif.Model.HintMove
import FontVerif.Model.TtState
set_option linter.unusedVariables false
namespace FontVerif.HintVec
open FontVerif FontVerif.HintMath FontVerif.HintMove FontVerif.HintRound FontVerif.Tt

/-! ### `normalize14` -/

/-- number of significant bits of a non-negative value (`32 - leading_zeros` for a `u32`). -/
def bitLen : Nat → Int → Int
  | 0, _ => 0
  | n + 1, l => if l ≤ 0 then 0 else 1 + bitLen n (l / 2)

/-- `u32::leading_zeros`. -/
def clz32 (l : Int) : Int := 32 - bitLen 32 l

/-- `2^s` for a shift count. -/
def pow2 (s : Int) : Int := (2 : Int) ^ s.toNat

/-- `if ux > uy { ux + (uy >> 1) } else { uy + (ux >> 1) }` on `Wrapping<u32>`. -/
def approxLen (ux uy : Int) : Int :=
  if ux > uy then wrapU32 (ux + uy / 2) else wrapU32 (uy + ux / 2)

/-- the Newton iteration of `normalize14` (the `loop { … if z <= 0 { break } }`).  `x y b` are
`Wrapping<i32>`; the result is `(u, v)` as `u32`.  `none`: the plain negation
`-((u * u + v * v).0 as i32)` traps on `i32::MIN`, or the fuel ran out (64 iterations; the harness
reports a disagreement if that ever happened, the real loop has no bound). -/
def normLoop : Nat → Int → Int → Int → Option (Int × Int)
  | 0, _, _, _ => none
  | fuel + 1, x, y, b =>
    -- u = Wrapping((x + ((x * b) >> 16)).0 as u32)
    let u := wrapU32 (wrapI32 (x + wrapI32 (x * b) / 65536))
    let v := wrapU32 (wrapI32 (y + wrapI32 (y * b) / 65536))
    -- z = Wrapping(-((u * u + v * v).0 as i32)) / Wrapping(0x200)
    let s := wrapI32 (wrapU32 (wrapU32 (u * u) + wrapU32 (v * v)))
    if s = -2147483648 then none
    else
      let z := Int.tdiv (-s) 512
      -- z = z * ((Wrapping(0x10000) + b) >> 8) / Wrapping(0x10000)
      let z := Int.tdiv (wrapI32 (z * (wrapI32 (65536 + b) / 256))) 65536
      -- b += z; if z <= 0 { break }
      if z ≤ 0 then some (u, v) else normLoop fuel x y (wrapI32 (b + z))

/-- `shift = len.leading_zeros(); shift -= 15 + if len >= (0xAAAAAAAA >> shift) { 1 } else { 0 }`
(`Wrapping<u32> >> usize` masks the count with 31). -/
def normShift (len : Int) : Int :=
  let lz := clz32 len
  wrapI32 (lz - wrapI32 (15 + (if len ≥ 2863311530 / pow2 (lz % 32) then 1 else 0)))

/-- the prenormalisation `if shift > 0 { ux <<= s; uy <<= s; len = … } else { ux >>= -shift; … }`:
new `(ux, uy, len)`. -/
def prenorm (ux uy len shift : Int) : Int × Int × Int :=
  if shift > 0 then
    let ux' := wrapU32 (ux * pow2 shift)
    let uy' := wrapU32 (uy * pow2 shift)
    (ux', uy', approxLen ux' uy')
  else
    (ux / pow2 (-shift), uy / pow2 (-shift), len / pow2 (-shift))

/-- `normalize14` between the trivial cases and the final sign / `/ 4` step: `ux uy` are the
magnitudes as `Wrapping<u32>`, both non-zero; result `(u, v)` of the Newton iteration
(`b = 0x10000 - len as i32`, `x = ux as i32`, `y = uy as i32`). -/
def normCore (ux uy : Int) : Option (Int × Int) :=
  let p := prenorm ux uy (approxLen ux uy) (normShift (approxLen ux uy))
  normLoop 64 (wrapI32 p.1) (wrapI32 p.2.1) (wrapI32 (65536 - wrapI32 p.2.2))

/-- math.rs `normalize14(x, y)`. -/
def normalize14 (x y : Int) : Option Vec :=
  let ux0 := wrapU32 x
  let uy0 := wrapU32 y
  -- if x < 0 { ux = ZERO - ux; sx = -sx }
  let ux := if x < 0 then wrapU32 (0 - ux0) else ux0
  let sx : Int := if x < 0 then -1 else 1
  let uy := if y < 0 then wrapU32 (0 - uy0) else uy0
  let sy : Int := if y < 0 then -1 else 1
  if ux = 0 then
    -- result.x = x / 4; if uy > 0 { result.y = sy * 0x10000 / 4 }
    some ⟨Int.tdiv x 4, if uy > 0 then Int.tdiv (wrapI32 (sy * 65536)) 4 else 0⟩
  else if uy = 0 then
    some ⟨if ux > 0 then Int.tdiv (wrapI32 (sx * 65536)) 4 else 0, Int.tdiv y 4⟩
  else
    (normCore ux uy).map fun (u, v) =>
      -- (Wrapping(u.0 as i32) * sx / Wrapping(4)).0
      ⟨Int.tdiv (wrapI32 (wrapI32 u * sx)) 4, Int.tdiv (wrapI32 (wrapI32 v * sy)) 4⟩

/-! ### cached projection state -/

inductive Axis
  | both
  | x
  | y
deriving DecidableEq, Repr

/-- what `update_projection_state` leaves in the graphics state. -/
structure Proj where
  pv : Vec
  dv : Vec
  fv : Vec
  fdotp : Int
  projAxis : Axis
  dualAxis : Axis
  freeAxis : Axis
deriving DecidableEq, Repr

/-- projection.rs `update_projection_state` (the three vectors have just been written). -/
def updateProjectionState (pv dv fv : Vec) : Option Proj :=
  -- fdotp
  (if fv.x = 16384 then some pv.x
   else if fv.y = 16384 then some pv.y
   else
     -- (px * fx + py * fy) >> 14, checked `i32` operations
     (chk (pv.x * fv.x)).bind fun a =>
     (chk (pv.y * fv.y)).bind fun b =>
     (chk (a + b)).map fun s => s / 16384).bind fun fdotp =>
  let projAxis := if pv.x = 16384 then Axis.x else if pv.y = 16384 then Axis.y else Axis.both
  let dualAxis := if dv.x = 16384 then Axis.x else if dv.y = 16384 then Axis.y else Axis.both
  let freeAxis :=
    if fdotp = 16384 then
      (if fv.x = 16384 then Axis.x else if fv.y = 16384 then Axis.y else Axis.both)
    else Axis.both
  -- if self.fdotp.abs() < 0x400 { self.fdotp = ONE }   (`i32::abs` traps on MIN)
  (chk (iabs fdotp)).map fun (a : Int) =>
  { pv := pv, dv := dv, fv := fv, fdotp := if a < (1024 : Int) then (16384 : Int) else fdotp,
    projAxis := projAxis, dualAxis := dualAxis, freeAxis := freeAxis }

/-- `project(v1, v2)`. -/
def project (g : Proj) (v1 v2 : Vec) : Option Int :=
  match g.projAxis with
  | .x => some (wsub v1.x v2.x)
  | .y => some (wsub v1.y v2.y)
  | .both => dot14 (wsub v1.x v2.x) (wsub v1.y v2.y) g.pv.x g.pv.y

/-- `dual_project(v1, v2)`. -/
def dualProject (g : Proj) (v1 v2 : Vec) : Option Int :=
  match g.dualAxis with
  | .x => some (wsub v1.x v2.x)
  | .y => some (wsub v1.y v2.y)
  | .both => dot14 (wsub v1.x v2.x) (wsub v1.y v2.y) g.dv.x g.dv.y

/-- `dual_project_unscaled(v1, v2)`: plain `i32` subtractions. -/
def dualProjectUnscaled (g : Proj) (v1 v2 : Vec) : Option Int :=
  match g.dualAxis with
  | .x => chk (v1.x - v2.x)
  | .y => chk (v1.y - v2.y)
  | .both =>
    (chk (v1.x - v2.x)).bind fun dx =>
    (chk (v1.y - v2.y)).bind fun dy => dot14 dx dy g.dv.x g.dv.y

/-! ### moving points -/

/-- the current position and touch flags of a point. -/
structure MPt where
  x : Int
  y : Int
  tx : Bool
  ty : Bool
deriving DecidableEq, Repr

/-- zone.rs `move_point(zone, point_ix, distance)`; `bc` = `backward_compatibility`,
`iup` = `did_iup_x && did_iup_y`. -/
def movePoint (g : Proj) (bc iup : Bool) (p : MPt) (d : Int) : MPt :=
  match g.freeAxis with
  | .x => { p with x := if bc then p.x else wadd p.x d, tx := true }
  | .y => { p with y := if bc ∧ iup then p.y else wadd p.y d, ty := true }
  | .both =>
    let p1 : MPt :=
      if g.fv.x ≠ 0 then
        { p with x := if bc then p.x else wadd p.x (mulDiv d g.fv.x g.fdotp), tx := true }
      else p
    if g.fv.y ≠ 0 then
      { p1 with y := if bc ∧ iup then p1.y else wadd p1.y (mulDiv d g.fv.y g.fdotp), ty := true }
    else p1

/-- zone.rs `move_original`. -/
def moveOriginal (g : Proj) (p : Vec) (d : Int) : Vec :=
  match g.freeAxis with
  | .x => ⟨wadd p.x d, p.y⟩
  | .y => ⟨p.x, wadd p.y d⟩
  | .both =>
    let x := if g.fv.x ≠ 0 then wadd p.x (mulDiv d g.fv.x g.fdotp) else p.x
    let y := if g.fv.y ≠ 0 then wadd p.y (mulDiv d g.fv.y g.fdotp) else p.y
    ⟨x, y⟩

/-- zone.rs `move_zp2_point(point_ix, dx, dy, do_touch)`. -/
def moveZp2Point (g : Proj) (bc iup : Bool) (p : MPt) (dx dy : Int) (touch : Bool) : MPt :=
  let p1 : MPt :=
    if g.fv.x ≠ 0 then
      { p with x := if bc then p.x else wadd p.x dx, tx := if touch then true else p.tx }
    else p
  if g.fv.y ≠ 0 then
    { p1 with y := if bc ∧ iup then p1.y else wadd p1.y dy, ty := if touch then true else p1.ty }
  else p1

/-- zone.rs `point_displacement`: `(dx, dy)` for the reference point's current / original
position. -/
def pointDisplacement (g : Proj) (cur org : Vec) : Option (Int × Int) :=
  (project g cur org).map fun d => (mulDiv d g.fv.x g.fdotp, mulDiv d g.fv.y g.fdotp)

/-! ### measuring and setting coordinates: GC, SCFS, MD -/

/-- `op_gc`: `a` = opcode bit 0 (1 = original position, dual projection). -/
def gc (g : Proj) (a : Bool) (org cur : Vec) : Option Int :=
  if a then dualProject g org Vec.zero else project g cur Vec.zero

/-- `op_scfs`: the moved point (the twilight-zone copy `original = point` is done by the step
function). -/
def scfs (g : Proj) (bc iup : Bool) (p : MPt) (value : Int) : Option MPt :=
  (project g ⟨p.x, p.y⟩ Vec.zero).map fun k => movePoint g bc iup p (wsub value k)

/-- `op_md`: `a` = opcode bit 0 (1 = current positions).  `p2` is the point popped second (zp0),
`p1` the one popped first (zp1); `twilight` = `zp0` or `zp1` is the twilight zone;
`scale` = `unscaled_to_pixels()`. -/
def md (g : Proj) (a twilight : Bool) (scale : Int) (p2 p1 : ZPt) : Option Int :=
  if a then project g p2.cur p1.cur
  else if twilight then dualProject g p2.org p1.org
  else (dualProjectUnscaled g p2.orus p1.orus).map fun d => mul d scale

/-! ### setting the vectors -/

/-- engine/graphics.rs `line_vector(p1, p2, is_parallel)`. -/
def lineVector (p1 p2 : Vec) (parallel : Bool) : Option Vec :=
  let a := wsub p1.x p2.x
  let b := wsub p1.y p2.y
  if a = 0 ∧ b = 0 then normalize14 16384 0
  else if ¬ parallel then normalize14 (wneg b) a
  else normalize14 a b

/-- `op_svtca(opcode)`, opcode 0‥5: new `(pv, dv, fv)`. -/
def svtca (opcode : Int) (pv dv fv : Vec) : Vec × Vec × Vec :=
  let x := (opcode % 2) * 16384
  let y := if x = 16384 then 0 else 16384
  let (pv, dv) := if opcode < 4 then (Vec.mk x y, Vec.mk x y) else (pv, dv)
  let fv := if opcode / 2 % 2 = 0 then Vec.mk x y else fv
  (pv, dv, fv)

/-- `op_svtl(opcode)`, opcode 6‥9; `p1` = `zp1.point(index2)`, `p2` = `zp2.point(index1)`. -/
def svtl (opcode : Int) (p1 p2 : Vec) (pv dv fv : Vec) : Option (Vec × Vec × Vec) :=
  (lineVector p1 p2 (opcode % 2 = 0)).map fun v =>
    if opcode < 8 then (v, v, fv) else (pv, dv, v)

/-- `op_sdpvtl(opcode)`; `o1 o2` original, `c1 c2` current positions. -/
def sdpvtl (opcode : Int) (o1 o2 c1 c2 : Vec) (fv : Vec) : Option (Vec × Vec × Vec) :=
  let parallel := opcode % 2 = 0
  (lineVector o1 o2 parallel).bind fun dv =>
  let parallel := if o1 = o2 then true else parallel
  (lineVector c1 c2 parallel).map fun pv => (pv, dv, fv)

/-- `value_stack.pop()? as i16 as i32`. -/
def asI16 (v : Int) : Int := wrapI16 v

/-- `op_spvfs`: `y` popped first, then `x`. -/
def spvfs (x y : Int) (pv dv fv : Vec) : Option (Vec × Vec × Vec) :=
  let x := asI16 x
  let y := asI16 y
  (if x = 0 ∧ y = 0 then some pv else normalize14 x y).map fun v => (v, v, fv)

/-- `op_sfvfs`. -/
def sfvfs (x y : Int) (pv dv fv : Vec) : Option (Vec × Vec × Vec) :=
  let x := asI16 x
  let y := asI16 y
  (if x = 0 ∧ y = 0 then some fv else normalize14 x y).map fun v => (pv, dv, v)

end FontVerif.HintVec
