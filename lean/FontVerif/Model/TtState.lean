/-
Shared data of the two TrueType-interpreter models of C03 (skrifa: Model/HintVec.lean, HintStep.lean;
FreeType 2.12.1: Model/FtVec.lean, FtStep.lean).  Only DATA lives here (vectors, zone points, the
machine state and the abstract instruction list the driver protocol carries): every operation on it
is transcribed twice, once per code base.

Values are `Int`s.  On the skrifa side coordinates and stack values are `i32` (`F26Dot6`), on the
FreeType side `FT_Long`/`FT_Pos`/`FT_F26Dot6` = 64-bit `long` (x86-64 LP64).  The state type is shared
so that the equality theorems can say "same resulting state" literally; each side's step function
applies its own wrapping.
-/
import FontVerif.Model.Base
namespace FontVerif.Tt
open FontVerif

/-- a point / vector (`Point<F26Dot6>`, `Point<i32>`; `FT_Vector`, `FT_UnitVector`). -/
structure Vec where
  x : Int
  y : Int
deriving DecidableEq, Repr, Inhabited

/-- one point of a zone: scaled original position (`Zone::original` / `zone->org`), current position
(`Zone::points` / `zone->cur`), unscaled position (`Zone::unscaled` / `zone->orus`), the two touch
flags (`PointMarker::TOUCHED_X/Y` / `FT_CURVE_TAG_TOUCH_X/Y`) and the on-curve flag. -/
structure ZPt where
  org : Vec
  cur : Vec
  orus : Vec
  tx : Bool
  ty : Bool
  on : Bool
deriving DecidableEq, Repr, Inhabited

/-- the part of the interpreter state the modelled opcodes read or write.
`zp*`: 0 = twilight zone, 1 = glyph zone.  `stack`: head = top.
Cached projection state (`fdotp`, axes / function pointers) is NOT stored: both code bases recompute
it from the three vectors after every write of a vector (`update_projection_state`, `Compute_Funcs`),
the models recompute it at every use (Model/HintVec.lean `updateProjectionState`, Model/FtVec.lean
`computeFuncs`). -/
structure St where
  glyph : List ZPt
  twi : List ZPt
  /-- last point of every contour of the glyph zone -/
  ends : List Nat
  stack : List Int
  pv : Vec
  dv : Vec
  fv : Vec
  rp0 : Nat
  rp1 : Nat
  rp2 : Nat
  zp0 : Nat
  zp1 : Nat
  zp2 : Nat
  loop : Int
  /-- round state: mode as in the driver protocol (0 Grid … 5 Off, 6 Super, 7 Super45), threshold,
  phase, period -/
  rmode : Int
  rthr : Int
  rph : Int
  rper : Int
  cutin : Int
  sw : Int
  swci : Int
  md : Int
  autoFlip : Bool
  deltaBase : Int
  deltaShift : Int
  instructControl : Int
  scanControl : Bool
  scanType : Int
  /-- backward compatibility mode (`GraphicsState::backward_compatibility`,
  `exc->backward_compatibility` of the v40 interpreter) and the two "IUP has been executed" flags -/
  bc : Bool
  iupx : Bool
  iupy : Bool
  composite : Bool
  /-- the control value program (`prep`) is running (`Program::ControlValue` / `tt_coderange_cvt`) -/
  inPrep : Bool
  /-- 16.16 scale (`RetainedGraphicsState::scale`, `exc->metrics.x_scale == y_scale`) and ppem -/
  scale : Int
  ppem : Int
  cvt : List Int
  store : List Int
deriving Repr, Inhabited

def Vec.zero : Vec := ⟨0, 0⟩

/-- result of a step: `ok`, or an error word of the driver protocol: `trap` (arithmetic overflow panic in
the overflow-checked profile), `oob` / `underflow` / `unmodelled` (situations the generated programs
avoid: out-of-range point, contour, cvt or zone numbers, stack underflow, unknown opcodes — both code
bases have error paths there that are NOT modelled). -/
abbrev R := Except String

def St.zone (s : St) (z : Nat) : List ZPt := if z = 0 then s.twi else s.glyph
def St.setZone (s : St) (z : Nat) (l : List ZPt) : St := if z = 0 then { s with twi := l } else { s with glyph := l }

def getPt (l : List ZPt) (i : Nat) : R ZPt :=
  match l[i]? with
  | some p => pure p
  | none => throw "oob"

/-- an index popped from the stack (`pop()? as usize` / `(FT_UShort)args[0]`): negative and huge values
are out of range for every zone the harness builds. -/
def asIndex (v : Int) : R Nat := if 0 ≤ v ∧ v < 65536 then pure v.toNat else throw "oob"

def St.pop (s : St) : R (Int × St) :=
  match s.stack with
  | v :: rest => pure (v, { s with stack := rest })
  | [] => throw "underflow"

def St.popIdx (s : St) : R (Nat × St) := do
  let (v, s) ← s.pop
  let i ← asIndex v
  pure (i, s)

def ofOpt {α : Type} (o : Option α) : R α :=
  match o with
  | some a => pure a
  | none => throw "trap"

/-- `loop` many indices popped from the stack (first popped first). -/
def St.popLoop (s : St) : Nat → R (List Nat × St)
  | 0 => pure ([], s)
  | n + 1 => do
    let (i, s) ← s.popIdx
    let (rest, s) ← s.popLoop n
    pure (i :: rest, s)

/-- 1.0 in 2.14 -/
def ONE14 : Int := 16384

end FontVerif.Tt
