/-
Model of skrifa/src/outline/glyf/hint/round.rs (`RoundState::round`) and of
`Engine::super_round` (hint/engine/graphics.rs), in the overflow-checked profile:
plain `i32` arithmetic traps (`none`), `wrapping_*` wraps.
Mode numbering (driver protocol): 0 Grid, 1 HalfGrid, 2 DoubleGrid, 3 DownToGrid, 4 UpToGrid,
5 Off, 6 Super, 7 Super45.
-/
import FontVerif.Model.HintMath
namespace FontVerif.HintRound
open FontVerif FontVerif.HintMath

def imax (a b : Int) : Int := if a ≥ b then a else b
def imin (a b : Int) : Int := if a ≤ b then a else b

/-- `x.wrapping_neg()`. -/
def wneg (x : Int) : Int := wrapI32 (-x)

/-- `RoundState::round(distance)` with `self = {mode, threshold, phase, period}` (after /repo commit
fafa2bb: the arithmetic on the distance wraps; `threshold - phase`, `-period`, `-phase`,
`/ period`, `* period` are still plain operators and trap). -/
def round (mode thr ph per d : Int) : Option Int :=
  if mode = 1 then
    -- HalfGrid: floor(d).wrapping_add(32).max(0) / floor(d.wrapping_neg()).wrapping_add(32).wrapping_neg().min(0)
    if d ≥ 0 then some (imax (wrapI32 (floor d + 32)) 0)
    else some (imin (wneg (wrapI32 (floor (wneg d) + 32))) 0)
  else if mode = 0 then
    -- Grid: round(d).max(0)  /  round(d.wrapping_neg()).wrapping_neg().min(0)
    if d ≥ 0 then some (imax (HintMath.round d) 0)
    else some (imin (wneg (HintMath.round (wneg d))) 0)
  else if mode = 2 then
    -- DoubleGrid: round_pad(d, 32)
    if d ≥ 0 then (roundPad d 32).map (imax · 0)
    else (roundPad (wneg d) 32).map fun v => imin (wneg v) 0
  else if mode = 3 then
    -- DownToGrid: floor
    if d ≥ 0 then some (imax (floor d) 0)
    else some (imin (wneg (floor (wneg d))) 0)
  else if mode = 4 then
    -- UpToGrid: ceil
    if d ≥ 0 then some (imax (ceil d) 0)
    else some (imin (wneg (ceil (wneg d))) 0)
  else if mode = 6 then
    -- Super
    if d ≥ 0 then
      -- (distance.wrapping_add(threshold - phase) & -period).wrapping_add(phase); if val < 0 { phase }
      (chk (thr - ph)).bind fun tp => (chk (-per)).map fun np =>
      let v := wrapI32 (landInt (wrapI32 (d + tp)) np + ph)
      if v < 0 then ph else v
    else
      -- ((threshold - phase).wrapping_sub(distance) & -period).wrapping_neg().wrapping_sub(phase);
      -- if val > 0 { -phase }
      (chk (thr - ph)).bind fun tp => (chk (-per)).bind fun np =>
      let v := wrapI32 (wneg (landInt (wrapI32 (tp - d)) np) - ph)
      if v > 0 then chk (-ph) else some v
  else if mode = 7 then
    -- Super45: `/ period` panics on 0 and on MIN / -1, `* period` on overflow
    if d ≥ 0 then
      (chk (thr - ph)).bind fun tp =>
      (if per = 0 then none else chk (Int.tdiv (wrapI32 (d + tp)) per)).bind fun q =>
      (chk (q * per)).map fun m =>
      let v := wrapI32 (m + ph)
      if v < 0 then ph else v
    else
      (chk (thr - ph)).bind fun tp =>
      (if per = 0 then none else chk (Int.tdiv (wrapI32 (tp - d)) per)).bind fun q =>
      (chk (q * per)).bind fun m =>
      let v := wrapI32 (wneg m - ph)
      if v > 0 then chk (-ph) else some v
  else
    -- Off
    some d

/-- `Engine::super_round(grid_period, selector)`: the new `(period, phase, threshold)`, `none` when a
plain `i32` operation overflows (`grid_period * 2`, `period * 3`, `period - 1`,
`((selector & 0x0F) - 4) * period`).  `/` truncates; `>> 8` is an arithmetic shift.  The `_` arms of
the two `match`es are unreachable (`selector & 0xC0 ∈ {0, 0x40, 0x80, 0xC0}`).  The only call
sites pass `grid_period ∈ {0x4000, 0x2D41}` (`op_sround`, `op_s45round`). -/
def superRound (gridPeriod selector : Int) : Option (Int × Int × Int) :=
  let f76 := selector / 64 % 4
  let f54 := selector / 16 % 4
  let f30 := selector % 16
  (if f76 = 0 then some (Int.tdiv gridPeriod 2)
    else if f76 = 1 then some gridPeriod
    else if f76 = 2 then chk (gridPeriod * 2)
    else some gridPeriod).bind fun period =>
  (if f54 = 0 then some 0
    else if f54 = 1 then some (Int.tdiv period 4)
    else if f54 = 2 then some (Int.tdiv period 2)
    else (chk (period * 3)).map fun p3 => Int.tdiv p3 4).bind fun phase =>
  (if f30 = 0 then chk (period - 1)
    else (chk ((f30 - 4) * period)).map fun t => Int.tdiv t 8).map fun threshold =>
  (period / 256, phase / 256, threshold / 256)

end FontVerif.HintRound
