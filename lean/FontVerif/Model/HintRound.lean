/-
Model of skrifa/src/outline/glyf/hint/round.rs (`RoundState::round`) and of
`Engine::super_round` (hint/engine/graphics.rs), in the overflow-checked profile:
plain `i32` arithmetic traps (`none`).
Mode numbering (driver protocol): 0 Grid, 1 HalfGrid, 2 DoubleGrid, 3 DownToGrid, 4 UpToGrid,
5 Off, 6 Super, 7 Super45.
-/
import FontVerif.Model.HintMath
namespace FontVerif.HintRound
open FontVerif FontVerif.HintMath

def imax (a b : Int) : Int := if a ≥ b then a else b
def imin (a b : Int) : Int := if a ≤ b then a else b

/-- `RoundState::round(distance)` with `self = {mode, threshold, phase, period}`. -/
def round (mode thr ph per d : Int) : Option Int :=
  if mode = 1 then
    -- HalfGrid: (floor(d) + 32).max(0)  /  (-(floor(-d) + 32)).min(0)
    if d ≥ 0 then (chk (floor d + 32)).map (imax · 0)
    else (chk (-d)).bind fun nd => (chk (floor nd + 32)).bind fun v => (chk (-v)).map (imin · 0)
  else if mode = 0 then
    -- Grid: round(d).max(0)  /  (-round(-d)).min(0)
    if d ≥ 0 then (HintMath.round d).map (imax · 0)
    else (chk (-d)).bind fun nd => (HintMath.round nd).bind fun v => (chk (-v)).map (imin · 0)
  else if mode = 2 then
    -- DoubleGrid: round_pad(d, 32)
    if d ≥ 0 then (roundPad d 32).map (imax · 0)
    else (chk (-d)).bind fun nd => (roundPad nd 32).bind fun v => (chk (-v)).map (imin · 0)
  else if mode = 3 then
    -- DownToGrid: floor
    if d ≥ 0 then some (imax (floor d) 0)
    else (chk (-d)).bind fun nd => (chk (-(floor nd))).map (imin · 0)
  else if mode = 4 then
    -- UpToGrid: ceil
    if d ≥ 0 then (ceil d).map (imax · 0)
    else (chk (-d)).bind fun nd => (ceil nd).bind fun v => (chk (-v)).map (imin · 0)
  else if mode = 6 then
    -- Super
    if d ≥ 0 then
      -- ((distance + (threshold - phase)) & -period) + phase ; if val < 0 { phase }
      (chk (thr - ph)).bind fun tp => (chk (d + tp)).bind fun s => (chk (-per)).bind fun np =>
      (chk (landInt s np + ph)).map fun v => if v < 0 then ph else v
    else
      -- -(((threshold - phase) - distance) & -period) - phase ; if val > 0 { -phase }
      (chk (thr - ph)).bind fun tp => (chk (tp - d)).bind fun s => (chk (-per)).bind fun np =>
      (chk (-(landInt s np))).bind fun n => (chk (n - ph)).bind fun v =>
      if v > 0 then chk (-ph) else some v
  else if mode = 7 then
    -- Super45: `/ period` panics on 0 and on MIN / -1
    if d ≥ 0 then
      (chk (thr - ph)).bind fun tp => (chk (d + tp)).bind fun s =>
      (if per = 0 then none else chk (Int.tdiv s per)).bind fun q =>
      (chk (q * per)).bind fun m => (chk (m + ph)).map fun v => if v < 0 then ph else v
    else
      (chk (thr - ph)).bind fun tp => (chk (tp - d)).bind fun s =>
      (if per = 0 then none else chk (Int.tdiv s per)).bind fun q =>
      (chk (q * per)).bind fun m => (chk (-m)).bind fun n => (chk (n - ph)).bind fun v =>
      if v > 0 then chk (-ph) else some v
  else
    -- Off
    some d

/-- `Engine::super_round(grid_period, selector)`: the new `(period, phase, threshold)`.
The only call sites pass `grid_period ∈ {0x4000, 0x2D41}`, for which no `i32` operation can
overflow (all intermediates are below 2^18); the model is the untrapped arithmetic. -/
def superRound (gridPeriod selector : Int) : Int × Int × Int :=
  let f76 := selector / 64 % 4
  let f54 := selector / 16 % 4
  let f30 := selector % 16
  let period :=
    if f76 = 0 then Int.tdiv gridPeriod 2
    else if f76 = 1 then gridPeriod
    else if f76 = 2 then gridPeriod * 2
    else gridPeriod
  let phase :=
    if f54 = 0 then 0
    else if f54 = 1 then Int.tdiv period 4
    else if f54 = 2 then Int.tdiv period 2
    else Int.tdiv (period * 3) 4
  let threshold :=
    if f30 = 0 then period - 1
    else Int.tdiv ((f30 - 4) * period) 8
  (period / 256, phase / 256, threshold / 256)

end FontVerif.HintRound
