/-
C02 core 1 — the CONTROL logic of skrifa's TrueType bytecode interpreter as an abstract small-step machine.

Transcribed from (all under /repo):
* read-fonts/src/tables/glyf/bytecode/decode.rs   `Decoder::{decode, decode_inner}`, opcode.rs `OPCODE_LENGTHS`
* skrifa/src/outline/glyf/hint/engine/dispatch.rs `Engine::{run, decode, dispatch, dispatch_inner}`, `MAX_RUN_INSTRUCTIONS`
* skrifa/src/outline/glyf/hint/engine/control_flow.rs `op_if, op_else, op_eif, op_jmpr, op_jrot, op_jrof, do_jump, decode_next_opcode`
* skrifa/src/outline/glyf/hint/engine/definition.rs `op_fdef, op_idef, op_endf, op_call, op_loopcall, op_unknown, do_def, do_call`
* skrifa/src/outline/glyf/hint/engine/mod.rs `LoopBudget::{doing_backward_jump, doing_loop_call}`
* skrifa/src/outline/glyf/hint/program.rs `ProgramState::{enter, leave}`; call_stack.rs `CallStack::{push, pop}` (MAX_DEPTH = 32)
* skrifa/src/outline/glyf/hint/definition.rs `DefinitionMap::{allocate, get}`, `Definition::new`
* skrifa/src/outline/glyf/hint/value_stack.rs `ValueStack::pop` (pedantic / non pedantic)

Every opcode that is NOT one of the control opcodes is executed by an ARBITRARY parameter function `Cfg.sem`
(it may rewrite the whole value stack and an opaque data state, or fail); the theorems of Props/C02.lean hold
for every such function.  `semSubset` is the concrete instance used by the correspondence harness.

No imports besides Model.Base (the driver is a linked exe).
-/
import FontVerif.Model.Base
namespace FontVerif.Interp

/-! ## constants -/

/-- dispatch.rs `MAX_RUN_INSTRUCTIONS` -/
def MAX_RUN_INSTRUCTIONS : Nat := 1000000
/-- call_stack.rs `MAX_DEPTH` -/
def MAX_DEPTH : Nat := 32
/-- engine/definition.rs `MAX_DEFINITION_SIZE` -/
def MAX_DEFINITION_SIZE : Nat := 65535

/-- skrifa/src/outline/glyf/mod.rs `Outlines::new`: `maxp.max_function_defs().map(|count| count.max(MIN_FUNCTION_DEFS))`
    — the length of the function definition table of a font whose version 1.0 `maxp` announces `n` functions
    (FreeType ttload.c `tt_face_load_maxp`: at least 64). Instruction definitions: the `maxp` value itself. -/
def MIN_FUNCTION_DEFS : Nat := 64
def functionSlots (maxpFunctionDefs : Nat) : Nat := max maxpFunctionDefs MIN_FUNCTION_DEFS

/-- `HintErrorKind`, payloads dropped. `data n` = any error raised by a non-control opcode. -/
inductive Err
  | unexpectedEnd | unhandledOpcode | defInGlyph | nestedDef | defTooLarge | tooManyDefs
  | invalidDef | vsOverflow | vsUnderflow | csOverflow | csUnderflow | invalidJump | budget
  | data (code : Nat)
deriving DecidableEq, Repr, Inhabited

def Err.name : Err → String
  | .unexpectedEnd => "UnexpectedEndOfBytecode"
  | .unhandledOpcode => "UnhandledOpcode"
  | .defInGlyph => "DefinitionInGlyphProgram"
  | .nestedDef => "NestedDefinition"
  | .defTooLarge => "DefinitionTooLarge"
  | .tooManyDefs => "TooManyDefinitions"
  | .invalidDef => "InvalidDefinition"
  | .vsOverflow => "ValueStackOverflow"
  | .vsUnderflow => "ValueStackUnderflow"
  | .csOverflow => "CallStackOverflow"
  | .csUnderflow => "CallStackUnderflow"
  | .invalidJump => "InvalidJump"
  | .budget => "ExceededExecutionBudget"
  | .data n => s!"Data{n}"

/-! ## decoder (read-fonts bytecode/decode.rs) -/

/-- `OPCODE_LENGTHS[op]`: negative = counted push with |len|-byte operands. -/
def opcodeLen (op : Nat) : Int :=
  if op = 0x40 then -1
  else if op = 0x41 then -2
  else if 0xB0 ≤ op ∧ op ≤ 0xB7 then (op - 0xB0 + 2 : Nat)
  else if 0xB8 ≤ op ∧ op ≤ 0xBF then ((op - 0xB8) * 2 + 3 : Nat)
  else 1

/-- `Opcode::is_push_words` -/
def isPushWords (op : Nat) : Bool := op = 0x41 || (0xB8 ≤ op && op ≤ 0xBF)

inductive Decoded
  | eof                                     -- `decode` returned `None`
  | bad                                     -- `Some(Err(DecodeError))`
  | ins (op : Nat) (operands : List Nat) (pc next : Nat)   -- operand BYTES; `next` = decoder pc afterwards
deriving Repr, DecidableEq

/-- total length in bytes of the instruction at `pc` (`opcode_len` of `decode_inner`), `none` = DecodeError
    while reading the count byte. -/
def insLen (code : Array Nat) (pc : Nat) (op : Nat) : Option Nat :=
  let l := opcodeLen op
  if l < 0 then
    match code[pc + 1]? with
    | none => none
    | some n => some ((-l).toNat * n + 2)
  else some l.toNat

/-- `Decoder::decode` at `pc`. -/
def decode (code : Array Nat) (pc : Nat) : Decoded :=
  match code[pc]? with
  | none => .eof
  | some op =>
    match insLen code pc op with
    | none => .bad
    | some len =>
      let countLen := if opcodeLen op < 0 then 1 else 0
      let inlineStart := pc + 1 + countLen
      let next := pc + len
      -- `bytecode.get(inline_start..inline_start+inline_size)` (only looked at when inline_size > 0)
      if next ≤ code.size then
        .ins op ((code.extract inlineStart next).toList) pc next
      else .bad

/-- `InlineOperands::values` -/
def operandValues (op : Nat) (bytes : List Nat) : List Int :=
  if isPushWords op then
    let rec words : List Nat → List Int
      | hi :: lo :: rest => wrapI16 ((hi * 256 + lo : Nat) : Int) :: words rest
      | _ => []
    words bytes
  else bytes.map (fun (b : Nat) => (b : Int))

/-! ## state -/

/-- `Definition` (hint/definition.rs); `prog`: 0 font, 1 control value, 2 glyph. -/
structure Def where
  start : Nat := 0
  stop : Nat := 0
  key : Int := 0
  prog : Nat := 0
  active : Bool := false
deriving Repr, DecidableEq, Inhabited

/-- `CallRecord` -/
structure Frame where
  callerProg : Nat
  returnPc : Nat
  count : Nat
  defStart : Nat
  defProg : Nat
deriving Repr, DecidableEq

inductive Status
  | running
  | done                 -- `run` returned `Ok(())`
  | failed (e : Err)     -- `run` returned `Err(HintError{kind = e, ..})`
  | stuck                -- the model's scan fuel ran out (proved unreachable: `never_stuck`)
deriving Repr, DecidableEq

/-- The machine state: `ProgramState` + `LoopBudget` + `DefinitionState` + value stack + `run`'s counter +
    an opaque data state `D` (graphics state, zones, cvt, storage…). -/
structure St (D : Type) where
  initial : Nat                -- `ProgramState::initial`
  current : Nat                -- `ProgramState::current` (also selects `decoder.bytecode`)
  pc : Nat                     -- `decoder.pc` (usize)
  calls : List Frame           -- `CallStack`, top first
  funcs : List Def
  idefs : List Def
  backJumps : Nat
  loopCalls : Nat
  count : Nat                  -- `run`'s local `count`
  vs : List Int                -- value stack, top first
  data : D
  status : Status

/-- Immutable configuration. -/
structure Cfg (D : Type) where
  font : Array Nat
  cv : Array Nat
  glyph : Array Nat
  limit : Nat                  -- `LoopBudget::limit`
  pedantic : Bool
  /-- every non-control opcode: opcode, inline operand bytes, (value stack, data) ↦ new (value stack, data) or error -/
  sem : Nat → List Nat → List Int × D → Except Err (List Int × D)
  /-- `Engine::axis_count` (number of variation axes of the font; 0 for a static font) -/
  axisCount : Nat := 0

def Cfg.code {D} (c : Cfg D) (prog : Nat) : Array Nat :=
  if prog = 0 then c.font else if prog = 1 then c.cv else c.glyph

/-! ## value stack pop (value_stack.rs `pop`) -/

def pop (pedantic : Bool) (vs : List Int) : Except Err (Int × List Int) :=
  match vs with
  | v :: rest => .ok (v, rest)
  | [] => if pedantic then .error .vsUnderflow else .ok (0, [])

/-! ## scanning loops (each bounded by the remaining bytecode) -/

/-- `op_if` false branch: skip to the matching ELSE / EIF. Returns the decoder pc afterwards.
    `none` = fuel exhausted. -/
def scanIf (code : Array Nat) : (fuel : Nat) → (pc : Nat) → (depth : Nat) → Option (Except Err Nat)
  | 0, _, _ => none
  | fuel + 1, pc, depth =>
    match decode code pc with
    | .eof => some (.error .unexpectedEnd)
    | .bad => some (.error .unexpectedEnd)
    | .ins op _ _ next =>
      if op = 0x58 then scanIf code fuel next (depth + 1)
      else if op = 0x1B then
        if depth = 1 then some (.ok next) else scanIf code fuel next depth
      else if op = 0x59 then
        if depth - 1 = 0 then some (.ok next) else scanIf code fuel next (depth - 1)
      else scanIf code fuel next depth

/-- `op_else`: skip to the matching EIF. -/
def scanElse (code : Array Nat) : (fuel : Nat) → (pc : Nat) → (depth : Nat) → Option (Except Err Nat)
  | 0, _, _ => none
  | fuel + 1, pc, depth =>
    match decode code pc with
    | .eof => some (.error .unexpectedEnd)
    | .bad => some (.error .unexpectedEnd)
    | .ins op _ _ next =>
      if op = 0x58 then scanElse code fuel next (depth + 1)
      else if op = 0x59 then
        if depth - 1 = 0 then some (.ok next) else scanElse code fuel next (depth - 1)
      else scanElse code fuel next depth

/-- `do_def` scan: find ENDF; returns (pc of the ENDF instruction, decoder pc afterwards). -/
def scanDef (code : Array Nat) : (fuel : Nat) → (pc : Nat) → Option (Except Err (Nat × Nat))
  | 0, _ => none
  | fuel + 1, pc =>
    match decode code pc with
    | .eof => some (.error .unexpectedEnd)
    | .bad => some (.error .unexpectedEnd)
    | .ins op _ ipc next =>
      if op = 0x2C ∨ op = 0x89 then some (.error .nestedDef)
      else if op = 0x2D then some (.ok (ipc, next))
      else scanDef code fuel next

/-! ## definitions (hint/definition.rs) -/

/-- `key as usize` used as an index: in range only for non-negative keys. -/
def keyIndex (defs : List Def) (key : Int) : Option Nat :=
  if 0 ≤ key ∧ key.toNat < defs.length then some key.toNat else none

/-- backward walk of `allocate`: highest-index active entry with the key, else highest-index inactive entry. -/
def allocWalk (key : Int) : List (Nat × Def) → Option Nat → Option Nat
  | [], acc => acc
  | (i, d) :: rest, acc =>
    if d.active then
      if d.key = key then some i else allocWalk key rest acc
    else if acc.isNone then allocWalk key rest (some i) else allocWalk key rest acc

/-- `DefinitionMap::allocate` for a `Mut` map: the chosen slot, which is overwritten by
    `Definition::new(Program::Font, 0..0, key)`. -/
def allocate (defs : List Def) (key : Int) : Except Err (Nat × List Def) :=
  let direct : Option Nat :=
    match keyIndex defs key with
    | some i =>
      match defs[i]? with
      | some d => if !d.active || d.key = key then some i else none
      | none => none
    | none => none
  let ix : Option Nat :=
    match direct with
    | some i => some i
    | none => allocWalk key ((List.range defs.length).zip defs).reverse none
  match ix with
  | none => .error .tooManyDefs
  | some i =>
    if i < defs.length then
      .ok (i, defs.set i { start := 0, stop := 0, key := key, prog := 0, active := true })
    else .error .tooManyDefs

/-- `DefinitionMap::get` -/
def getDef (defs : List Def) (key : Int) : Option Def :=
  let fast : Option Def :=
    match keyIndex defs key with
    | some i =>
      match defs[i]? with
      | some d => if d.active && d.key = key then some d else none
      | none => none
    | none => none
  match fast with
  | some d => some d
  | none => defs.reverse.find? (fun d => d.active && d.key = key)

/-! ## control operations -/

/-- `pc.wrapping_add_signed(off as isize)` on a 64-bit usize -/
def wrapAddPc (pc : Nat) (off : Int) : Nat := (((pc : Int) + off) % 18446744073709551616).toNat

/-- `do_jump` -/
def doJump {D} (c : Cfg D) (s : St D) (test : Bool) : Except Err (St D) :=
  match pop c.pedantic s.vs with
  | .error e => .error e
  | .ok (v, vs) =>
    let off := wrapI32 (v - 1)
    let s := { s with vs := vs }
    if test then
      if off < 0 then
        if off = -1 then .error .invalidJump
        else
          let bj := s.backJumps + 1
          if bj > c.limit then .error .budget
          else .ok { s with backJumps := bj, pc := wrapAddPc s.pc off }
      else .ok { s with pc := wrapAddPc s.pc off }
    else .ok s

/-- `ProgramState::enter` (with `CallStack::push`) -/
def enter {D} (s : St D) (d : Def) (count : Nat) : Except Err (St D) :=
  if s.calls.length < MAX_DEPTH then
    .ok { s with
      calls := { callerProg := s.current, returnPc := s.pc, count := count,
                 defStart := d.start, defProg := d.prog } :: s.calls,
      current := d.prog, pc := d.start }
  else .error .csOverflow

/-- `do_call` -/
def doCall {D} (s : St D) (isFunction : Bool) (count : Nat) (key : Int) : Except Err (St D) :=
  if count = 0 then .ok s
  else
    match getDef (if isFunction then s.funcs else s.idefs) key with
    | none => .error (if isFunction then .invalidDef else .unhandledOpcode)
    | some d => enter s d count

/-- `ProgramState::leave` -/
def leave {D} (s : St D) : Except Err (St D) :=
  match s.calls with
  | [] => .error .csUnderflow
  | f :: rest =>
    if f.count > 1 then
      -- pop, decrement, push back (the push cannot overflow: the slot was just freed)
      .ok { s with pc := f.defStart, calls := { f with count := f.count - 1 } :: rest }
    else
      .ok { s with current := f.callerProg, pc := f.returnPc, calls := rest }

/-- `do_def` -/
def doDef {D} (c : Cfg D) (s : St D) (isFunction : Bool) (key : Int) : Option (Except Err (St D)) :=
  if s.initial = 2 then some (.error .defInGlyph)
  else
    match allocate (if isFunction then s.funcs else s.idefs) key with
    | .error e => some (.error e)
    | .ok (ix, defs) =>
      let setDefs (s : St D) (defs : List Def) : St D :=
        if isFunction then { s with funcs := defs } else { s with idefs := defs }
      let s := setDefs s defs
      let start := s.pc
      let code := c.code s.current
      match scanDef code (code.size + 1) s.pc with
      | none => none
      | some (.error e) =>
        -- NB: the allocated slot stays active with the empty range 0..0 of the font program
        some (.error e)
      | some (.ok (endfPc, next)) =>
        let stop := endfPc + 1
        if c.pedantic ∧ stop - start > MAX_DEFINITION_SIZE then
          -- `*def = Default::default()`; the error is returned (state is dropped by the caller)
          some (.error .defTooLarge)
        else
          -- `Definition::new` stores start/end `as u32`
          let d : Def := { start := start % 4294967296, stop := stop % 4294967296, key := key,
                           prog := s.current, active := true }
          some (.ok { setDefs s (defs.set ix d) with pc := next })

/-- Opcodes with no handler in `dispatch_inner` (fall to `op_unknown`). -/
def isUnknownOpcode (op : Nat) : Bool :=
  op = 0x28 || op = 0x7B || op = 0x83 || op = 0x84 || op = 0x8F || op = 0x90 || (0x93 ≤ op && op ≤ 0xAF)

/-- opcodes that end in `op_unknown` for a font with `axisCount` axes: the unassigned opcodes, and GETVARIATION (0x91) /
    GETDATA (0x92) of a font without variation axes (engine/misc.rs `op_getvariation`, `op_getdata`) -/
def isUnknownFor (axisCount op : Nat) : Bool :=
  isUnknownOpcode op || (axisCount = 0 && (op = 0x91 || op = 0x92))

/-- the control opcodes handled by the machine itself -/
def isControlOpcode (op : Nat) : Bool :=
  op = 0x1B || op = 0x1C || op = 0x2A || op = 0x2B || op = 0x2C || op = 0x2D || op = 0x58 || op = 0x59
  || op = 0x78 || op = 0x79 || op = 0x89 || isUnknownOpcode op

/-- `op_if` -/
def opIf {D} (c : Cfg D) (s : St D) : Option (Except Err (St D)) :=
  let code := c.code s.current
  match pop c.pedantic s.vs with
  | .error e => some (.error e)
  | .ok (v, vs) =>
    if v = 0 then
      match scanIf code (code.size + 1) s.pc 1 with
      | none => none
      | some (.error e) => some (.error e)
      | some (.ok next) => some (.ok { s with vs := vs, pc := next })
    else some (.ok { s with vs := vs })

/-- `op_else` -/
def opElse {D} (c : Cfg D) (s : St D) : Option (Except Err (St D)) :=
  let code := c.code s.current
  match scanElse code (code.size + 1) s.pc 1 with
  | none => none
  | some (.error e) => some (.error e)
  | some (.ok next) => some (.ok { s with pc := next })

/-- `op_jrot` (`onTrue`) / `op_jrof` -/
def opJr {D} (c : Cfg D) (s : St D) (onTrue : Bool) : Except Err (St D) :=
  match pop c.pedantic s.vs with
  | .error e => .error e
  | .ok (e, vs) => doJump c { s with vs := vs } (if onTrue then e ≠ 0 else e = 0)

/-- `op_call` -/
def opCall {D} (c : Cfg D) (s : St D) : Except Err (St D) :=
  match pop c.pedantic s.vs with
  | .error e => .error e
  | .ok (f, vs) => doCall { s with vs := vs } true 1 f

/-- `op_loopcall` (with `LoopBudget::doing_loop_call`) -/
def opLoopcall {D} (c : Cfg D) (s : St D) : Except Err (St D) :=
  match pop c.pedantic s.vs with
  | .error e => .error e
  | .ok (f, vs) =>
    match pop c.pedantic vs with
    | .error e => .error e
    | .ok (count, vs) =>
      if count > 0 then
        let lc := s.loopCalls + count.toNat
        if lc > c.limit then .error .budget
        else doCall { s with vs := vs, loopCalls := lc } true count.toNat f
      else .ok { s with vs := vs }

/-- `op_fdef` (`isFunction`) / `op_idef` -/
def opDef {D} (c : Cfg D) (s : St D) (isFunction : Bool) : Option (Except Err (St D)) :=
  match pop c.pedantic s.vs with
  | .error e => some (.error e)
  | .ok (k, vs) => doDef c { s with vs := vs } isFunction k

/-- every other opcode: the parameter function -/
def opData {D} (c : Cfg D) (s : St D) (op : Nat) (operands : List Nat) : Except Err (St D) :=
  match c.sem op operands (s.vs, s.data) with
  | .error e => .error e
  | .ok (vs, d) => .ok { s with vs := vs, data := d }

/-- `dispatch_inner` for one decoded instruction (the decoder already points past it). `none` = scan fuel out. -/
def dispatch {D} (c : Cfg D) (s : St D) (op : Nat) (operands : List Nat) : Option (Except Err (St D)) :=
  if op = 0x58 then opIf c s
  else if op = 0x1B then opElse c s
  else if op = 0x59 then some (.ok s)          -- EIF
  else if op = 0x1C then some (doJump c s true)  -- JMPR
  else if op = 0x78 then some (opJr c s true)
  else if op = 0x79 then some (opJr c s false)
  else if op = 0x2B then some (opCall c s)
  else if op = 0x2A then some (opLoopcall c s)
  else if op = 0x2C then opDef c s true
  else if op = 0x89 then opDef c s false
  else if op = 0x2D then some (leave s) -- ENDF
  else if isUnknownFor c.axisCount op then some (doCall s false 1 (op : Int))
  else some (opData c s op operands)

/-- One iteration of the `while let Some(ins) = self.decode()` loop of `Engine::run`. -/
def step {D} (c : Cfg D) (s : St D) : St D :=
  match s.status with
  | .running =>
    match decode (c.code s.current) s.pc with
    | .eof => { s with status := .done }
    | .bad => { s with status := .failed .unexpectedEnd }
    | .ins op operands ipc next =>
      match dispatch c { s with pc := next } op operands with
      | none => { s with status := .stuck }
      -- the error reports the program and `ins.pc` captured before the dispatch: those of `s`
      | some (.error e) => { s with status := .failed e }
      | some (.ok s2) =>
        let n := s2.count + 1
        -- the error reports `program.current` (after the dispatch) and `ins.pc`
        if n > MAX_RUN_INSTRUCTIONS then { s2 with count := n, pc := ipc, status := .failed .budget }
        else { s2 with count := n }
  | _ => s

def iter {D} (c : Cfg D) : Nat → St D → St D
  | 0, s => s
  | n + 1, s => iter c n (step c s)

/-- executable run loop: stops as soon as the status is not `running` (agrees with `iter`, `run_eq_iter`) -/
def runLoop {D} (c : Cfg D) : Nat → St D → St D
  | 0, s => s
  | n + 1, s =>
    match s.status with
    | .running => runLoop c n (step c s)
    | _ => s

/-- `Engine::run`: at most `MAX_RUN_INSTRUCTIONS + 1` iterations are ever needed (`run_halts`). -/
def run {D} (c : Cfg D) (s : St D) : St D := runLoop c (MAX_RUN_INSTRUCTIONS + 2) s

/-- State at the start of `run_program(program)` (`Engine::reset`): call stack cleared, budget reset, value stack
    cleared (`self.value_stack.clear()`: callers pass `vs = []`; a non-empty `vs` models values pushed after the reset,
    as the unit tests do), and for the font program both definition maps reset to inactive. -/
def initSt {D} (program : Nat) (funcs idefs : List Def) (vs : List Int) (d : D) : St D :=
  { initial := program, current := program, pc := 0, calls := [],
    funcs := if program = 0 then funcs.map (fun _ => {}) else funcs,
    idefs := if program = 0 then idefs.map (fun _ => {}) else idefs,
    backJumps := 0, loopCalls := 0, count := 0, vs := vs, data := d, status := .running }

/-! ## concrete semantics of a small data subset (correspondence instance, `D = Nat` = stack capacity) -/

def b2i (b : Bool) : Int := if b then 1 else 0

/-- `ValueStack::push` with capacity `cap` -/
def push (cap : Nat) (vs : List Int) (v : Int) : Except Err (List Int) :=
  if vs.length < cap then .ok (v :: vs) else .error .vsOverflow

def applyBinary (ped : Bool) (cap : Nat) (vs : List Int) (f : Int → Int → Int) : Except Err (List Int) :=
  match pop ped vs with
  | .error e => .error e
  | .ok (b, vs) =>
    match pop ped vs with
    | .error e => .error e
    | .ok (a, vs) => push cap vs (f a b)

def applyUnary (ped : Bool) (cap : Nat) (vs : List Int) (f : Int → Int) : Except Err (List Int) :=
  match pop ped vs with
  | .error e => .error e
  | .ok (a, vs) => push cap vs (f a)

/-- pushes, DUP POP CLEAR SWAP DEPTH, ADD SUB NEG, LT GTEQ EQ AND OR NOT, DEBUG (pop), AA (pop), and opcodes with no effect on
    the value stack that cannot fail: NROUND, SVTCA/SPVTCA/SFVTCA, RTG RTHG RTDG ROFF RUTG RDTG, FLIPON FLIPOFF.
    Any other opcode: `Err.data op` (the harness never generates those). -/
def semSubset (ped : Bool) (op : Nat) (bytes : List Nat) (x : List Int × Nat) : Except Err (List Int × Nat) :=
  let (vs, cap) := x
  let ret (r : Except Err (List Int)) : Except Err (List Int × Nat) :=
    match r with
    | .ok vs => .ok (vs, cap)
    | .error e => .error e
  if op = 0x40 ∨ op = 0x41 ∨ (0xB0 ≤ op ∧ op ≤ 0xBF) then
    let vals := operandValues op bytes
    -- `values.get_mut(base..base+count).ok_or(ValueStackOverflow)`
    if vs.length + vals.length ≤ cap then .ok (vals.reverse ++ vs, cap) else .error .vsOverflow
  else if op = 0x20 then -- DUP
    match vs with
    | v :: _ => ret (push cap vs v)
    | [] => if ped then .error .vsUnderflow else ret (push cap vs 0)
  else if op = 0x21 then ret ((pop ped vs).map (·.2))
  else if op = 0x22 then .ok ([], cap)
  else if op = 0x23 then -- SWAP
    match pop ped vs with
    | .error e => .error e
    | .ok (a, vs) =>
      match pop ped vs with
      | .error e => .error e
      | .ok (b, vs) =>
        match push cap vs a with
        | .error e => .error e
        | .ok vs => ret (push cap vs b)
  else if op = 0x24 then ret (push cap vs (vs.length : Int))
  else if op = 0x60 then ret (applyBinary ped cap vs (fun a b => wrapI32 (a + b)))
  else if op = 0x61 then ret (applyBinary ped cap vs (fun a b => wrapI32 (a - b)))
  else if op = 0x65 then ret (applyUnary ped cap vs (fun a => wrapI32 (-a)))
  else if op = 0x50 then ret (applyBinary ped cap vs (fun a b => b2i (a < b)))
  else if op = 0x53 then ret (applyBinary ped cap vs (fun a b => b2i (a ≥ b)))
  else if op = 0x54 then ret (applyBinary ped cap vs (fun a b => b2i (a = b)))
  else if op = 0x5A then ret (applyBinary ped cap vs (fun a b => b2i (a ≠ 0 ∧ b ≠ 0)))
  else if op = 0x5B then ret (applyBinary ped cap vs (fun a b => b2i (a ≠ 0 ∨ b ≠ 0)))
  else if op = 0x5C then ret (applyUnary ped cap vs (fun a => b2i (a = 0)))
  else if op = 0x4F ∨ op = 0x7F then ret ((pop ped vs).map (·.2))
  else if (0x6C ≤ op ∧ op ≤ 0x6F) ∨ op ≤ 0x05 ∨ op = 0x18 ∨ op = 0x19 ∨ op = 0x3D ∨ op = 0x4D ∨ op = 0x4E
      ∨ op = 0x7A ∨ op = 0x7C ∨ op = 0x7D then .ok (vs, cap)
  else .error (.data op)

end FontVerif.Interp
