/-
C01 — model of the *generated* table readers of read-fonts.

What is transcribed (the Rust that exists):
* `read-fonts/src/font_data.rs`  `Cursor::{advance, advance_by, read, position, remaining_bytes,
  remaining, finish}` and `FontData::{read_at, read_array, slice, split_off, read_with_args}`:
  the cursor position is a `usize` that **saturates** (`saturating_add`), lengths are computed
  with `checked_mul`, and a *single* bounds check happens in `finish` (`pos ≤ len`).
* `font-codegen/src/fields.rs::field_parse_validation_stmts / computed_len_expr` — the statement
  forms of every generated `FontRead::read` / `FontReadWithArgs::read_with_args` body (`Step`, `Len`,
  `Expr`, `Cond` below are exactly these forms);
* `font-codegen/src/table.rs::iter_shape_byte_fns` — the generated `*_byte_range()` functions of
  the marker structs, whose `start + len` is an **unchecked** `usize` addition (a panic in the
  overflow-checked profile) (`prevEnd`, `condRange`, `fieldRange`);
* `font-codegen/src/fields.rs::table_getter` — the generated getters, which `unwrap()` the result of
  `read_at` / `read_array` / `read_with_args` / `split_off` (`getterOk`).

The byte string is abstracted as a length and a byte function (`Data`), so theorems hold for any
input; the driver instantiates it with a concrete byte list.  Hand-written functions called from
generated code (`ComputeSize::compute_size` impls, `TupleIndex::tuple_len`, …) are parameters
(`Ext`) of the semantics: the generic theorem holds for *every* interpretation of them, the driver
plugs in transcriptions (Model/ShapeExt.lean).
-/
import FontVerif.Model.Base

namespace FontVerif.Shape

/-- `usize::MAX` on the 64-bit targets the crates are built for. -/
def MAXU : Nat := 18446744073709551615

/-- `usize::saturating_add` -/
def satAdd (a b : Nat) : Nat := if a + b ≤ MAXU then a + b else MAXU
/-- `usize::saturating_mul` -/
def satMul (a b : Nat) : Nat := if a * b ≤ MAXU then a * b else MAXU
/-- `usize::checked_mul` -/
def checkedMul (a b : Nat) : Option Nat := if a * b ≤ MAXU then some (a * b) else none
/-- `usize::checked_add` (also: the *unchecked* `+` of the generated range fns, where `none` is
the overflow panic of the strict profile) -/
def checkedAdd (a b : Nat) : Option Nat := if a + b ≤ MAXU then some (a + b) else none

/-- `ReadError` kinds that generated readers can produce. `other n` = an error returned by a
hand-written `compute_size`; `stuck` cannot be produced by a program that compiles (use of an
unbound local) and is excluded by `WF`. -/
inductive RErr
  | oob
  | invalidArrayLen
  | other (n : Nat)
  | stuck
  deriving DecidableEq, Repr

/-- The bytes being parsed: a length and the byte at each index. -/
structure Data where
  len : Nat
  byte : Nat → Nat

/-- big-endian value of `n` bytes starting at `pos` -/
def beRead (d : Data) (pos : Nat) : Nat → Nat
  | 0 => 0
  | n + 1 => beRead d pos n * 256 + d.byte (pos + n)

/-- `FontData::read_at::<T>(pos)` with `T::RAW_BYTE_LEN = sz`: `checked_add` then `bytes.get(pos..end)`. -/
def readAt (d : Data) (pos sz : Nat) : Option Nat :=
  match checkedAdd pos sz with
  | none => none
  | some e => if e ≤ d.len then some (beRead d pos sz) else none

/-- A scalar type as far as the readers care: its byte width and whether `as usize` sign-extends. -/
structure Ty where
  size : Nat
  signed : Bool
  deriving DecidableEq, Repr

/-- `x as usize` for a raw big-endian value of type `t` (sign extension for signed types). -/
def asUsize (t : Ty) (raw : Nat) : Nat :=
  if t.signed ∧ raw ≥ 2 ^ (8 * t.size - 1) then raw + (MAXU + 1) - 2 ^ (8 * t.size) else raw

/-- `usize::try_from(x).unwrap_or_default()` / `x.try_into().unwrap_or_default()` -/
def tryUsize (t : Ty) (raw : Nat) : Nat :=
  if t.signed ∧ raw ≥ 2 ^ (8 * t.size - 1) then 0 else raw

/-- argument of a `transforms::*` / custom count function: a local or a `N_usize` literal -/
inductive Atom
  | var (x : Nat) (t : Ty)
  | lit (n : Nat)
  deriving DecidableEq, Repr

/-- `read-fonts/src/lib.rs  codegen_prelude::transforms` -/
inductive Xform
  | subtract | add | bitmapLen | maxValueBitmapLen | addMultiply | multiplyAdd | half | subtractAddTwo
  deriving DecidableEq, Repr

/-- count expressions that occur in generated `read` bodies -/
inductive Expr
  | asUsize (x : Nat) (t : Ty)          -- `x as usize`
  | lit (n : Nat)                       -- `256_usize`
  | xform (f : Xform) (args : List Atom) -- `transforms::f(a, b, …)`
  | custom (f : Nat) (args : List Atom)  -- hand-written `Type::func(a, b, …)` (interpreted by `Ext`)
  deriving DecidableEq, Repr

/-- conditions of versioned / flag-dependent fields -/
inductive Cond
  | geU16 (x : Nat) (v : Nat)              -- `x.compatible(v)` for `u16`
  | compatMM (x : Nat) (maj min : Nat)     -- `MajorMinor::compatible((maj, min))`
  | compatV16 (x : Nat) (maj min : Nat)    -- `Version16Dot16::compatible((maj, min))`
  | contains (x : Nat) (bits : Nat)        -- bitflags `contains`
  | intersects (x : Nat) (bits : Nat)      -- bitflags `intersects`
  deriving DecidableEq, Repr

/-- element size: `T::RAW_BYTE_LEN` or `<T as ComputeSize>::compute_size(&args)?` -/
inductive Size
  | const (n : Nat)
  | compute (r : Nat) (args : List Nat)
  deriving DecidableEq, Repr

/-- how a `VarSize` type computes an item length from its length prefix:
`read_at::<Size>(pos) * mul + add` (default impl: `mul = 1`, `add = prefix size`) -/
structure VarKind where
  prefixSize : Nat
  mul : Nat
  add : Nat
  deriving DecidableEq, Repr

/-- the `*_byte_len` expressions of `computed_len_expr` -/
inductive Len
  | mul (c : Expr) (sz : Size)          -- `(c).checked_mul(sz).ok_or(OutOfBounds)?`
  | one (sz : Size)                     -- `sz` (count literal 1, or a struct with `ComputeSize`)
  | remFloor (n : Nat)                  -- `cursor.remaining_bytes() / n * n`
  | rem                                 -- `cursor.remaining_bytes()`
  | varLen (k : VarKind) (c : Expr)     -- `total_len_for_count(cursor.remaining()?, c)?`
  deriving DecidableEq, Repr

/-- one statement of a generated `read` body -/
inductive Step
  | adv (sz : Nat)                          -- `cursor.advance::<T>();`
  | readVar (x : Nat) (sz : Nat)            -- `let x: T = cursor.read()?;`
  | markStart (f : Nat) (c : Cond)          -- `let f_byte_start = C.then(|| cursor.position()).transpose()?;`
  | condAdv (c : Cond) (sz : Nat)           -- `C.then(|| cursor.advance::<T>());`
  | condRead (c : Cond) (x : Nat) (sz : Nat) -- `let x = C.then(|| cursor.read::<T>()).transpose()?.unwrap_or_default();`
  | letLen (f : Nat) (l : Len)              -- `let f_byte_len = L;`
  | advBy (f : Nat)                         -- `cursor.advance_by(f_byte_len);`
  | letLenCond (f : Nat) (c : Cond) (l : Len) -- `let f_byte_len = C.then_some(L);`
  | advByCond (f : Nat)                     -- `if let Some(value) = f_byte_len { cursor.advance_by(value); }`
  deriving DecidableEq, Repr

/-- length part of a generated `*_byte_range` fn: `T::RAW_BYTE_LEN` or `self.f_byte_len` -/
inductive FLen
  | const (n : Nat)
  | stored
  deriving DecidableEq, Repr

/-- one field of the marker layout (`iter_shape_byte_fns`) -/
structure Field where
  id : Nat
  cond : Bool       -- conditional: `let start = self.f_byte_start?;`
  len : FLen
  deriving DecidableEq, Repr

/-- an argument of a getter's `read_with_args`: `self.<field>()` or `self.shape.<arg>` -/
inductive GArg
  | field (f : Nat) (sz : Nat)
  | arg (x : Nat)
  deriving DecidableEq, Repr

/-- what a generated getter unwraps -/
inductive GKind
  | readAt (sz : Nat)                           -- `self.data.read_at(range.start).unwrap()`
  | readArray (elem : Nat)                      -- `self.data.read_array(range).unwrap()`
  | readArgsArray (r : Nat) (args : List GArg)  -- `read_with_args(range, &args).unwrap()` : ComputedArray
  | readArgsStruct (r : Nat) (args : List GArg) -- `read_with_args(range, &args).unwrap()` : a record
  | varLen                                      -- `VarLenArray::read(self.data.split_off(range.start).unwrap()).unwrap()`
  | varLenSlice                                 -- `VarLenArray::read(self.data.slice(range).unwrap()).unwrap()`
  | rangeOnly                                   -- only the range fn is evaluated (`min_byte_range`)
  deriving DecidableEq, Repr

structure Getter where
  field : Nat
  kind : GKind
  deriving DecidableEq, Repr

/-- The grouped view of a read body: one entry per field, in the six patterns that
`field_parse_validation_stmts` can emit. -/
inductive FKind
  | scalar (sz : Nat) (rd : Option Nat)
  | computed (l : Len)
  | condScalar (c : Cond) (sz : Nat) (rd : Option Nat)
  | condComputed (c : Cond) (l : Len)
  deriving DecidableEq, Repr

structure FieldP where
  id : Nat
  kind : FKind
  deriving DecidableEq, Repr

/-- One generated table reader, as extracted by `translate/shapes.py`. -/
structure Shape where
  args : List Nat            -- locals bound by `let (a, b) = *args;`
  steps : List Step          -- the statements of the `read` body, literally
  fields : List Field        -- the marker's `*_byte_range` layout, literally
  prog : List FieldP         -- grouping of `steps` by field (checked against `steps`/`fields` by `WF`)
  getters : List Getter
  deriving Repr

/-! ## interpretation of hand-written callees -/

structure Ext where
  /-- hand-written count functions (`TupleIndex::tuple_len`, …) on raw argument values -/
  custom : Nat → List Nat → Nat
  /-- `ComputeSize::compute_size` of record `r` on raw argument values -/
  size : Nat → List Nat → Except RErr Nat
  /-- does `R::read_with_args(slice of n bytes, args)` succeed -/
  recRead : Nat → List Nat → Nat → Bool

/-! ## semantics of `read` -/

abbrev Env := List (Nat × Nat)
abbrev OEnv := List (Nat × Option Nat)

structure St where
  pos : Nat
  vars : Env        -- locals: raw big-endian values
  starts : OEnv     -- `f_byte_start` locals
  lens : OEnv       -- `f_byte_len` locals (`some n`: `usize` or `Some(n)`; `none`: `None`)

def getVar (vars : Env) (x : Nat) : Nat := (vars.lookup x).getD 0

def evalCond (vars : Env) : Cond → Bool
  | .geU16 x v => decide (getVar vars x ≥ v)
  | .compatMM x maj min => decide (getVar vars x / 65536 = maj ∧ getVar vars x % 65536 ≥ min)
  | .compatV16 x maj min => decide (getVar vars x / 65536 = maj ∧ getVar vars x % 65536 / 4096 ≥ min)
  | .contains x bits => decide (Nat.land (getVar vars x) bits = bits)
  | .intersects x bits => decide (Nat.land (getVar vars x) bits ≠ 0)

def evalAtomTry (vars : Env) : Atom → Nat
  | .var x t => tryUsize t (getVar vars x)
  | .lit n => n

def evalAtomRaw (vars : Env) : Atom → Nat
  | .var x _ => getVar vars x
  | .lit n => n

/-- `codegen_prelude::transforms::*` (arguments already through `try_into().unwrap_or_default()`) -/
def evalXform : Xform → List Nat → Nat
  | .subtract, [a, b] => a - b
  | .add, [a, b] => satAdd a b
  | .bitmapLen, [a] => (a + 7) / 8
  | .maxValueBitmapLen, [a] => (a + 1 + 7) / 8
  | .addMultiply, [a, b, c] => satMul (satAdd a b) c
  | .multiplyAdd, [a, b, c] => satAdd (satMul a b) c
  | .half, [a] => a / 2
  | .subtractAddTwo, [a, b] => satAdd (a - b) 2
  | _, _ => 0

def evalExpr (ext : Ext) (vars : Env) : Expr → Nat
  | .asUsize x t => asUsize t (getVar vars x)
  | .lit n => n
  | .xform f args => evalXform f (args.map (evalAtomTry vars))
  | .custom f args => ext.custom f (args.map (evalAtomRaw vars))

def evalSize (ext : Ext) (vars : Env) : Size → Except RErr Nat
  | .const n => .ok n
  | .compute r args => ext.size r (args.map (getVar vars))

/-- `VarSize::total_len_for_count(data, count)` on the data starting at `base`
(`read.rs`; `avar.rs` for the overriding `read_len_at`). -/
def totalLen (d : Data) (base : Nat) (k : VarKind) : Nat → Nat → Option Nat
  | 0, cur => some cur
  | n + 1, cur =>
    match readAt ⟨d.len - base, fun i => d.byte (base + i)⟩ cur k.prefixSize with
    | none => none
    | some v =>
      match checkedAdd (v * k.mul) k.add with
      | none => none
      | some il =>
        match checkedAdd cur il with
        | none => none
        | some nxt => totalLen d base k n nxt

def evalLen (ext : Ext) (d : Data) (pos : Nat) (vars : Env) : Len → Except RErr Nat
  | .mul c sz =>
    match evalSize ext vars sz with
    | .error e => .error e
    | .ok n =>
      match checkedMul (evalExpr ext vars c) n with
      | none => .error .oob
      | some l => .ok l
  | .one sz => evalSize ext vars sz
  | .remFloor n => .ok ((d.len - pos) / n * n)
  | .rem => .ok (d.len - pos)
  | .varLen k c =>
    if pos ≤ d.len then
      match totalLen d pos k (evalExpr ext vars c) 0 with
      | none => .error .oob
      | some l => .ok l
    else .error .oob

def step (ext : Ext) (d : Data) (st : St) : Step → Except RErr St
  | .adv sz => .ok { st with pos := satAdd st.pos sz }
  | .readVar x sz =>
    match readAt d st.pos sz with
    | none => .error .oob
    | some v => .ok { st with pos := satAdd st.pos sz, vars := (x, v) :: st.vars }
  | .markStart f c =>
    if evalCond st.vars c then
      if st.pos ≤ d.len then .ok { st with starts := (f, some st.pos) :: st.starts }
      else .error .oob
    else .ok { st with starts := (f, none) :: st.starts }
  | .condAdv c sz =>
    if evalCond st.vars c then .ok { st with pos := satAdd st.pos sz } else .ok st
  | .condRead c x sz =>
    if evalCond st.vars c then
      match readAt d st.pos sz with
      | none => .error .oob
      | some v => .ok { st with pos := satAdd st.pos sz, vars := (x, v) :: st.vars }
    else .ok { st with vars := (x, 0) :: st.vars }
  | .letLen f l =>
    match evalLen ext d st.pos st.vars l with
    | .error e => .error e
    | .ok n => .ok { st with lens := (f, some n) :: st.lens }
  | .advBy f =>
    match st.lens.lookup f with
    | some (some n) => .ok { st with pos := satAdd st.pos n }
    | _ => .error .stuck
  | .letLenCond f c l =>
    match evalLen ext d st.pos st.vars l with
    | .error e => .error e
    | .ok n => .ok { st with lens := (f, if evalCond st.vars c then some n else none) :: st.lens }
  | .advByCond f =>
    match st.lens.lookup f with
    | some (some n) => .ok { st with pos := satAdd st.pos n }
    | some none => .ok st
    | none => .error .stuck

def runSteps (ext : Ext) (d : Data) : List Step → St → Except RErr St
  | [], st => .ok st
  | s :: ss, st =>
    match step ext d st s with
    | .error e => .error e
    | .ok st' => runSteps ext d ss st'

/-- what `cursor.finish(Marker { … })` stores -/
structure Marker where
  vars : Env
  starts : OEnv
  lens : OEnv

def St.marker (st : St) : Marker := ⟨st.vars, st.starts, st.lens⟩

def initSt (args : List Nat) (argVals : List Nat) : St :=
  ⟨0, args.zip argVals, [], []⟩

/-- `T::read(data)` / `T::read_with_args(data, &args)` of a generated table. -/
def run (ext : Ext) (s : Shape) (d : Data) (argVals : List Nat) : Except RErr Marker :=
  match runSteps ext d s.steps (initSt s.args argVals) with
  | .error e => .error e
  | .ok st => if st.pos ≤ d.len then .ok st.marker else .error .oob

/-! ## offset resolution (`read-fonts/src/offset.rs`) -/

/-- `FontData::split_off(off)` for `off ≤ len`: the bytes from `off` on -/
def Data.splitOff (d : Data) (off : Nat) : Data := ⟨d.len - off, fun i => d.byte (off + i)⟩

/-- `ReadError`s of `ResolveOffset::resolve`: its own two plus whatever `T::read` returns -/
inductive Resolved
  | null                 -- `Err(ReadError::NullOffset)` (`None` for a `Nullable` offset)
  | err (e : RErr)
  | ok (m : Marker)

/-- `off.resolve::<T>(data)` / `off.resolve_with_args::<T>(data, args)`:
`non_null().ok_or(NullOffset)`, `data.split_off(off).ok_or(OutOfBounds)` (`bytes.get(off..)`, i.e.
`off ≤ len`), then `T::read` on the remainder. -/
def resolve (ext : Ext) (s : Shape) (d : Data) (off : Nat) (argVals : List Nat) : Resolved :=
  if off = 0 then .null
  else if off ≤ d.len then
    match run ext s (d.splitOff off) argVals with
    | .ok m => .ok m
    | .error e => .err e
  else .err .oob

/-! ## the generated `*_byte_range` functions -/

/-- result of calling a `*_byte_range()` fn -/
inductive RR
  | panic                 -- `start + len` overflowed `usize`
  | absent                -- `None`
  | range (s e : Nat)
  deriving DecidableEq, Repr

/-- the stored `f_byte_len: usize` of an unconditional field -/
def Marker.len (m : Marker) (f : Nat) : Nat :=
  match m.lens.lookup f with
  | some (some n) => n
  | _ => 0

/-- the stored `f_byte_len: Option<usize>` of a conditional field -/
def Marker.olen (m : Marker) (f : Nat) : Option Nat :=
  match m.lens.lookup f with
  | some o => o
  | none => none

def Marker.start (m : Marker) (f : Nat) : Option Nat :=
  match m.starts.lookup f with
  | some o => o
  | none => none

/-- range fn of a conditional field:
`let start = self.f_byte_start?; Some(start..start + LEN)` with `LEN = T::RAW_BYTE_LEN` or `self.f_byte_len?` -/
def condRange (m : Marker) (f : Field) : RR :=
  match m.start f.id with
  | none => .absent
  | some st =>
    match (match f.len with | .const n => some n | .stored => m.olen f.id) with
    | none => .absent
    | some ln =>
      match checkedAdd st ln with
      | none => .panic
      | some e => .range st e

/-- the `prev_field_end_expr` of `iter_shape_byte_fns`, for the fields preceding the current one
(most recent first); `none` = overflow panic. -/
def prevEnd (m : Marker) : List Field → Option Nat
  | [] => some 0
  | f :: rest =>
    if f.cond then
      match condRange m f with
      | .panic => none
      | .range _ e => some e
      | .absent => prevEnd m rest
    else
      match prevEnd m rest with
      | none => none
      | some st => checkedAdd st (match f.len with | .const n => n | .stored => m.len f.id)

/-- `self.shape.f_byte_range()` where `rp` are the preceding fields, most recent first -/
def fieldRange (m : Marker) (rp : List Field) (f : Field) : RR :=
  if f.cond then condRange m f
  else
    match prevEnd m rp with
    | none => .panic
    | some st =>
      match checkedAdd st (match f.len with | .const n => n | .stored => m.len f.id) with
      | none => .panic
      | some e => .range st e

/-- look the field up by id in the layout -/
def rangeById (m : Marker) : List Field → List Field → Nat → Option RR
  | _, [], _ => none
  | rp, f :: fs, id => if f.id = id then some (fieldRange m rp f) else rangeById m (f :: rp) fs id

/-! ## the generated getters -/

/-- value of a getter argument: `self.<field>()` re-reads the field, `self.shape.<arg>` is stored -/
def gargVal (s : Shape) (d : Data) (m : Marker) : GArg → Option Nat
  | .arg x => some (getVar m.vars x)
  | .field f sz =>
    match rangeById m [] s.fields f with
    | some (.range a _) => readAt d a sz
    | _ => none

def gargVals (s : Shape) (d : Data) (m : Marker) : List GArg → Option (List Nat)
  | [] => some []
  | g :: gs =>
    match gargVal s d m g, gargVals s d m gs with
    | some v, some vs => some (v :: vs)
    | _, _ => none

/-- "The `Option`/`Result` that the generated getter unwraps is `Some`/`Ok`, and evaluating its
range fn does not overflow."  (`font_data.rs`: `read_at`, `read_array`, `slice`, `split_off`;
`array.rs`: `ComputedArray::read_with_args`.) -/
def getterOk (ext : Ext) (s : Shape) (d : Data) (m : Marker) (g : Getter) : Prop :=
  match rangeById m [] s.fields g.field with
  | none => False
  | some .panic => False
  | some .absent => True
  | some (.range a b) =>
    match g.kind with
    | .readAt sz => (readAt d a sz).isSome
    | .readArray elem => a ≤ b ∧ b ≤ d.len ∧ elem ≠ 0 ∧ (b - a) % elem = 0
    | .readArgsArray r args =>
      a ≤ b ∧ b ≤ d.len ∧
        ∃ vs, gargVals s d m args = some vs ∧ ∃ n, ext.size r vs = .ok n
    | .readArgsStruct r args =>
      a ≤ b ∧ b ≤ d.len ∧
        ∃ vs, gargVals s d m args = some vs ∧ ext.recRead r vs (b - a) = true
    | .varLen => a ≤ d.len
    | .varLenSlice => a ≤ b ∧ b ≤ d.len
    | .rangeOnly => True

/-! ## well-formedness (decidable, checked per generated table by `decide`) -/

/-- the statements `field_parse_validation_stmts` emits for one field -/
def stepsOf (fp : FieldP) : List Step :=
  match fp.kind with
  | .scalar sz none => [.adv sz]
  | .scalar sz (some x) => [.readVar x sz]
  | .computed l => [.letLen fp.id l, .advBy fp.id]
  | .condScalar c sz none => [.markStart fp.id c, .condAdv c sz]
  | .condScalar c sz (some x) => [.markStart fp.id c, .condRead c x sz]
  | .condComputed c l => [.markStart fp.id c, .letLenCond fp.id c l, .advByCond fp.id]

/-- the marker layout entry `iter_shape_byte_fns` emits for one field -/
def fieldOf (fp : FieldP) : Field :=
  match fp.kind with
  | .scalar sz _ => ⟨fp.id, false, .const sz⟩
  | .computed _ => ⟨fp.id, false, .stored⟩
  | .condScalar _ sz _ => ⟨fp.id, true, .const sz⟩
  | .condComputed _ _ => ⟨fp.id, true, .stored⟩

/-- variable bound by reading this field at parse time -/
def FieldP.readsVar (fp : FieldP) : Option Nat :=
  match fp.kind with
  | .scalar _ rd => rd
  | .condScalar _ _ rd => rd
  | _ => none

/-- is getter argument `ga` guaranteed to evaluate to the local `x` used by `read`?  `pre` are the
fields that precede the field being read (so `x` was already bound when its length was computed). -/
def gargMatches (args : List Nat) (pre : List FieldP) (ga : GArg) (x : Nat) : Bool :=
  match ga with
  | .arg y => decide (y = x) && decide (x ∈ args)
  | .field f sz => pre.any fun fp => decide (fp.id = f) && decide (fp.kind = .scalar sz (some x))

def gargsMatch (args : List Nat) (pre : List FieldP) : List GArg → List Nat → Bool
  | [], [] => true
  | ga :: gas, x :: xs => gargMatches args pre ga x && gargsMatch args pre gas xs
  | _, _ => false

def lenElemOk (elem : Nat) : Len → Bool
  | .mul _ (.const k) => decide (k = elem)
  | .one (.const k) => decide (k = elem)
  | .remFloor k => decide (k = elem)
  | _ => false

/-- is the getter's unwrap licensed by how `read` validated the field? -/
def getterCompat (args : List Nat) (pre : List FieldP) (k : FKind) : GKind → Bool
  | .rangeOnly => true
  | .readAt sz =>
    match k with
    | .scalar sz' _ => decide (sz = sz')
    | .condScalar _ sz' _ => decide (sz = sz')
    | _ => false
  | .readArray elem =>
    decide (elem ≠ 0) &&
    match k with
    | .computed l => lenElemOk elem l
    | .condComputed _ l => lenElemOk elem l
    | _ => false
  | .readArgsArray r gas =>
    match k with
    | .computed (.mul _ (.compute r' xs)) => decide (r = r') && gargsMatch args pre gas xs
    | .condComputed _ (.mul _ (.compute r' xs)) => decide (r = r') && gargsMatch args pre gas xs
    | _ => false
  | .readArgsStruct r gas =>
    match k with
    | .computed (.one (.compute r' xs)) => decide (r = r') && gargsMatch args pre gas xs
    | .condComputed _ (.one (.compute r' xs)) => decide (r = r') && gargsMatch args pre gas xs
    | _ => false
  | .varLen =>
    match k with
    | .computed _ => true
    | .condComputed _ _ => true
    | _ => false
  | .varLenSlice =>
    match k with
    | .computed _ => true
    | .condComputed _ _ => true
    | _ => false

/-- find the getter's field in the program (`pre` = fields already passed, most recent first) -/
def getterWFAux (args : List Nat) (g : Getter) : List FieldP → List FieldP → Bool
  | _, [] => false
  | pre, fp :: rest =>
    if fp.id = g.field then getterCompat args pre fp.kind g.kind
    else getterWFAux args g (fp :: pre) rest

def getterWF (s : Shape) (g : Getter) : Bool := getterWFAux s.args g [] s.prog

/-- locals bound by the read body, in order -/
def boundVars (prog : List FieldP) : List Nat := prog.filterMap FieldP.readsVar

/-- Decidable syntactic well-formedness of a generated reader:
* the statements are exactly the per-field patterns, in marker-layout order (`steps`, `fields`
  agree with `prog`) — so every conditional field uses one and the same condition for its start
  marker, its advance and its stored length, and every stored length is the one advanced by;
* field names are distinct, locals are bound once and do not shadow the arguments;
* every getter reads with the element size / arguments that `read` validated. -/
def WF (s : Shape) : Prop :=
  s.steps = s.prog.flatMap stepsOf ∧
  s.fields = s.prog.map fieldOf ∧
  (s.prog.map FieldP.id).Nodup ∧
  (boundVars s.prog).Nodup ∧
  (∀ x ∈ boundVars s.prog, x ∉ s.args) ∧
  s.args.Nodup ∧
  (s.getters.all (getterWF s) = true)

instance (s : Shape) : Decidable (WF s) := by unfold WF; infer_instance

/-- every reader of a registry is well-formed (assembled by Gen/ReadShapes*.lean from the per-table
`decide` proofs) -/
def AllWF (l : List (String × Shape)) : Prop := ∀ p ∈ l, WF p.2

theorem AllWF.nil : AllWF [] := by intro p hp; cases hp

theorem AllWF.cons {n : String} {s : Shape} {l : List (String × Shape)} (h : WF s) (t : AllWF l) :
    AllWF ((n, s) :: l) := by
  intro p hp
  cases hp with
  | head => exact h
  | tail _ hp => exact t p hp

theorem AllWF.append {a b : List (String × Shape)} (ha : AllWF a) (hb : AllWF b) : AllWF (a ++ b) := by
  intro p hp
  rcases List.mem_append.mp hp with h | h
  · exact ha p h
  · exact hb p h

end FontVerif.Shape
