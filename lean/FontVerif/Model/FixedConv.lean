/-
Float conversions of the fixed-point types (font-types/src/fixed.rs: `float_conv!`,
`Fixed::to_f32`, `F26Dot6::to_f32`) and `OtRound` (write-fonts/src/round.rs), on the exact
IEEE model of Model/Ieee.lean.
-/
import FontVerif.Model.Base
import FontVerif.Model.Ieee
namespace FontVerif.FixedConv
open FontVerif FontVerif.Ieee

/-- a fixed-point type together with its documented float type:
`float_conv!(F2Dot14, to_f32, from_f32, f32)` … `float_conv!(F26Dot6, to_f64, from_f64, f64)`. -/
structure FxTy where
  fmt : Fmt
  /-- `FRACT_BITS` -/
  k : Nat
  /-- `MIN.0`, `MAX.0` of the storage integer -/
  lo : Int
  hi : Int

def F2Dot14 : FxTy := ⟨f32, 14, -32768, 32767⟩
def F4Dot12 : FxTy := ⟨f32, 12, -32768, 32767⟩
def F6Dot10 : FxTy := ⟨f32, 10, -32768, 32767⟩
def Fixed : FxTy := ⟨f64, 16, -2147483648, 2147483647⟩
def F26Dot6 : FxTy := ⟨f64, 6, -2147483648, 2147483647⟩

/-- `iN::saturating_add(1)` / `saturating_sub(1)` on the storage integer. -/
def satInc (t : FxTy) (v : Int) : Int := if v + 1 > t.hi then t.hi else v + 1
def satDec (t : FxTy) (v : Int) : Int := if v - 1 < t.lo then t.lo else v - 1

/-- `float_conv!` `$from` (after the `fix:` commit, see known_findings.d/C15.json):
```
let scaled = x * Self::ONE.0 as $ty;
let truncated = Self(scaled as _);
let rem = scaled - truncated.0 as $ty;
if rem >= 0.5 { Self(truncated.0.saturating_add(1)) }
else if rem <= -0.5 { Self(truncated.0.saturating_sub(1)) } else { truncated }
```
-/
def fromFloat (t : FxTy) (x : FVal) : Int :=
  let scaled := mulPow2 t.fmt x t.k
  let tr := toIntSat t.lo t.hi scaled
  let rem := sub t.fmt scaled (ofInt t.fmt tr)
  if geHalf rem then satInc t tr else if leNegHalf rem then satDec t tr else tr

/-- the pre-fix `$from`: `frac = (x.is_sign_positive() as u8 as $ty) - 0.5;`
`Self((x * Self::ONE.0 as $ty + frac) as _)`: the float addition rounds, so the largest float
below one half (scaled) became 1.  (The sign of a NaN is lost by `decode`; NaN gives 0 anyway.) -/
def fromFloatPreFix (t : FxTy) (x : FVal) : Int :=
  let pos := match x with | .fin s _ _ => !s | .inf s => !s | .nan => true
  let frac := if pos then half else half.neg
  toIntSat t.lo t.hi (add t.fmt (mulPow2 t.fmt x t.k) frac)

/-- `float_conv!` `$to`:
`int = ((self.0 & INT_MASK) >> FRACT_BITS) as $ty; fract = (self.0 & !INT_MASK) as $ty / ONE.0 as $ty; int + fract`. -/
def toFloat (t : FxTy) (raw : Int) : FVal :=
  let int := ofInt t.fmt (raw / 2 ^ t.k)
  let fract := mulPow2 t.fmt (ofInt t.fmt (raw % 2 ^ t.k)) (-(t.k : Int))
  add t.fmt int fract

/-- `Fixed::to_f32` (`k = 16`) / `F26Dot6::to_f32` (`k = 6`): `self.0 as f32 * (1.0 / 2^k)`
(documented as lossy: the `i32 → f32` conversion rounds to 24 significant bits). -/
def toF32Lossy (k : Nat) (raw : Int) : FVal := mulPow2 f32 (ofInt f32 raw) (-(k : Int))

/-! ### write-fonts/src/round.rs -/

/-- `(self + 0.5).floor()`: `OtRound<f64> for f64`, `OtRound<f32> for f32`, each component of
`OtRound<Vec2> for Vec2`. -/
def otRoundF (f : Fmt) (x : FVal) : FVal := floor (add f x half)

/-- `(self + 0.5).floor() as i16` / `as u16` (`lo hi` = range of the target): `OtRound<i16>`,
`OtRound<u16>` for `f32`, `f64`; each component of `OtRound<(i16, i16)> for kurbo::Point`. -/
def otRoundInt (f : Fmt) (lo hi : Int) (x : FVal) : Int := toIntSat lo hi (otRoundF f x)

/-- `OtRound<(i16, i16)> for kurbo::Point`: `(self.x.ot_round(), self.y.ot_round())` (f64 → i16). -/
def otRoundPoint (x y : FVal) : Int × Int :=
  (otRoundInt f64 (-32768) 32767 x, otRoundInt f64 (-32768) 32767 y)

/-- `OtRound<Vec2> for kurbo::Vec2`: `Vec2::new((self.x + 0.5).floor(), (self.y + 0.5).floor())`. -/
def otRoundVec2 (x y : FVal) : FVal × FVal :=
  (floor (add f64 x half), floor (add f64 y half))

end FontVerif.FixedConv
