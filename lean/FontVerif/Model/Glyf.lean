/-
Model of the glyf/loca writer (write-fonts) and reader (read-fonts).

writer  write-fonts/src/tables/glyf/simple.rs      compute_point_deltas, flag_and_delta,
                                                    RepeatableFlag::iter_from_flags, write_into
        write-fonts/src/tables/glyf/composite.rs   compute_flag, Anchor/Transform write_into
        write-fonts/src/tables/glyf/glyf_loca_builder.rs, write-fonts/src/tables/loca.rs
reader  read-fonts/src/tables/glyf.rs              SimpleGlyph::read (generated), points_impl,
                                                    PointIter, resolve_coords_len, read_points_fast,
                                                    ComponentIter, count_and_instructions
        read-fonts/src/tables/loca.rs              Loca::read, get_raw, get_glyf

Bytes are `Nat` (< 256), flags are `Nat` bit sets, coordinates are `Int`.
`none` from a writer function = panic in the overflow-checked profile (assert!, arithmetic
overflow); reader functions return `none`/`Except` where the Rust returns `None`/`Err`.
-/
import FontVerif.Model.Base
namespace FontVerif.Glyf
open FontVerif

/-! ## flag bits (read-fonts generated_glyf.rs, SimpleGlyphFlags) -/

def ON_CURVE : Nat := 0x01
def X_SHORT : Nat := 0x02
def Y_SHORT : Nat := 0x04
def REPEAT : Nat := 0x08
def X_SAME : Nat := 0x10
def Y_SAME : Nat := 0x20

/-- `flags.contains(m)` for a single-bit mask `m`. -/
def hasBit (f m : Nat) : Bool := (f &&& m) != 0

/-- `flag & !SimpleGlyphFlags::REPEAT_FLAG` on the u8 bit set. -/
def clearRepeat (f : Nat) : Nat := f &&& 0xF7

structure Point where
  x : Int
  y : Int
  on : Bool
deriving DecidableEq, Repr

/-- `enum CoordDelta { Skip, Short(u8), Long(i16) }` -/
inductive CoordDelta
  | skip
  | short (v : Nat)
  | long (v : Int)
deriving DecidableEq, Repr

/-- big-endian bytes of a 16-bit scalar given as an `Int` (i16 or u16: value mod 2^16). -/
def be16 (v : Int) : List Nat :=
  let m := (v % 65536).toNat
  [m / 256, m % 256]

def be32 (v : Nat) : List Nat :=
  [v / 16777216 % 256, v / 65536 % 256, v / 256 % 256, v % 256]

/-- `impl FontWrite for CoordDelta` -/
def CoordDelta.bytes : CoordDelta → List Nat
  | .skip => []
  | .short v => [v]
  | .long v => be16 v

/-- `flag_and_delta(value, short_flag, same_or_pos)` (simple.rs, inside compute_point_deltas). -/
def flagAndDelta (value : Int) (shortFlag samePos : Nat) : Nat × CoordDelta :=
  if value = 0 then (samePos, .skip)
  else if -255 ≤ value ∧ value ≤ -1 then (shortFlag, .short (-value).toNat)
  else if 1 ≤ value ∧ value ≤ 255 then (shortFlag ||| samePos, .short value.toNat)
  else (0, .long value)

structure PointDelta where
  flag : Nat
  dx : CoordDelta
  dy : CoordDelta
deriving DecidableEq, Repr

/-- `SimpleGlyph::compute_point_deltas`: `d_x = point.x - last_x` is an overflow-checked i16
subtraction (`none` = panic).  -/
def computePointDeltas (lastX lastY : Int) : List Point → Option (List PointDelta)
  | [] => some []
  | p :: ps =>
    let dX := p.x - lastX
    let dY := p.y - lastY
    if inI16 dX ∧ inI16 dY then
      let fx := flagAndDelta dX X_SHORT X_SAME
      let fy := flagAndDelta dY Y_SHORT Y_SAME
      let flag := (if p.on then ON_CURVE else 0) ||| (fx.1 ||| fy.1)
      (computePointDeltas p.x p.y ps).map (fun rest => ⟨flag, fx.2, fy.2⟩ :: rest)
    else none

/-- `struct RepeatableFlag { flag, repeat: u8 }` -/
structure RepeatableFlag where
  flag : Nat
  rep : Nat
deriving DecidableEq, Repr

/-- `RepeatableFlag::iter_from_flags`: the iterator's state is `prev`; the
`decompose_single_repeat` stash (a second copy of a flag that repeated exactly once) is emitted
immediately after the first copy, as the iterator does on its next call. -/
def iterFromFlags : Option RepeatableFlag → List Nat → List RepeatableFlag
  | none, [] => []
  | some last, [] =>
    if last.rep = 1 then [⟨clearRepeat last.flag, 0⟩, ⟨clearRepeat last.flag, 0⟩] else [last]
  | none, f :: fs => iterFromFlags (some ⟨f, 0⟩) fs
  | some last, f :: fs =>
    if clearRepeat last.flag = f ∧ last.rep < 255 then
      iterFromFlags (some ⟨last.flag ||| REPEAT, last.rep + 1⟩) fs
    else if last.rep = 1 then
      ⟨clearRepeat last.flag, 0⟩ :: ⟨clearRepeat last.flag, 0⟩ :: iterFromFlags (some ⟨f, 0⟩) fs
    else last :: iterFromFlags (some ⟨f, 0⟩) fs

/-- `impl FontWrite for RepeatableFlag` (the `debug_assert_eq!(flag.contains(REPEAT), repeat > 0)`
is proved unreachable for the flags produced by `compute_point_deltas`: `C09.rle_items_wf`). -/
def RepeatableFlag.bytes (r : RepeatableFlag) : List Nat :=
  if hasBit r.flag REPEAT then [r.flag, r.rep] else [r.flag]

structure SimpleGlyph where
  xMin : Int
  yMin : Int
  xMax : Int
  yMax : Int
  contours : List (List Point)
  instructions : List Nat
deriving DecidableEq, Repr

/-- end points: `cur += contour.len(); (cur as u16 - 1).write_into(..)`; the u16 subtraction is
overflow-checked (`none` when `cur as u16 = 0`, e.g. an empty first contour). -/
def endPts : Nat → List (List Point) → Option (List Nat)
  | _, [] => some []
  | cur, c :: cs =>
    let cur' := cur + c.length
    let t := cur' % 65536
    if t = 0 then none else (endPts cur' cs).map (fun r => (t - 1) :: r)

def padEven (bs : List Nat) : List Nat := if bs.length % 2 = 0 then bs else bs ++ [0]

def flagBytes (ds : List PointDelta) : List Nat :=
  (iterFromFlags none (ds.map (·.flag))).flatMap RepeatableFlag.bytes

def xBytes (ds : List PointDelta) : List Nat := ds.flatMap (fun d => d.dx.bytes)
def yBytes (ds : List PointDelta) : List Nat := ds.flatMap (fun d => d.dy.bytes)

/-- `impl FontWrite for SimpleGlyph` (`none` = panic: the two `assert!`s, end-point underflow,
delta overflow). A glyph without contours writes nothing.  (Since `fix:` 60d64c5 the instruction
assertion is `len <= u16::MAX`, the limit `validate` uses.) -/
def writeSimple (g : SimpleGlyph) : Option (List Nat) :=
  if ¬ (g.contours.length < 32767) ∨ ¬ (g.instructions.length < 65536) then none
  else if g.contours.length = 0 then some []
  else
    match endPts 0 g.contours with
    | none => none
    | some eps =>
      match computePointDeltas 0 0 g.contours.flatten with
      | none => none
      | some ds =>
        some (padEven (be16 g.contours.length ++ be16 g.xMin ++ be16 g.yMin ++ be16 g.xMax
          ++ be16 g.yMax ++ eps.flatMap (fun (e : Nat) => be16 (e : Int)) ++ be16 g.instructions.length
          ++ g.instructions ++ flagBytes ds ++ xBytes ds ++ yBytes ds))

/-! ## reader: simple glyphs -/

def u16At (data : List Nat) (pos : Nat) : Option Nat :=
  if pos + 2 ≤ data.length then some (data.getD pos 0 * 256 + data.getD (pos + 1) 0) else none

def i16At (data : List Nat) (pos : Nat) : Option Int :=
  (u16At data pos).map (fun v => wrapI16 v)

/-- the fields of a parsed `read_fonts::tables::glyf::SimpleGlyph` -/
structure SimpleView where
  nContours : Int
  xMin : Int
  yMin : Int
  xMax : Int
  yMax : Int
  endPts : List Nat
  instructions : List Nat
  glyphData : List Nat
deriving DecidableEq, Repr

/-- generated `SimpleGlyph::read`: a negative contour count overflows `checked_mul`
(`OutOfBounds`); `instruction_length` must be readable; `finish` checks the cursor is in
bounds; `glyph_data` is everything that remains. -/
def readSimple (data : List Nat) : Option SimpleView :=
  match i16At data 0 with
  | none => none
  | some nc =>
    if nc < 0 then none else
    let n := nc.toNat
    let ipos := 10 + 2 * n
    match u16At data ipos with
    | none => none
    | some il =>
      let gpos := ipos + 2 + il
      if gpos ≤ data.length then
        some {
          nContours := nc
          xMin := (i16At data 2).getD 0
          yMin := (i16At data 4).getD 0
          xMax := (i16At data 6).getD 0
          yMax := (i16At data 8).getD 0
          endPts := (List.range n).map (fun i => (u16At data (10 + 2 * i)).getD 0)
          instructions := (data.drop (ipos + 2)).take il
          glyphData := data.drop gpos }
      else none

/-- `SimpleGlyph::num_points` -/
def SimpleView.numPoints (v : SimpleView) : Nat :=
  match v.endPts.getLast? with
  | none => 0
  | some l => l + 1

/-- `resolve_coords_len(data, points_total)`: `(flags, x_coords, y_coords)` byte lengths,
`none` for either error (`OutOfBounds`, "repeat count too large"). -/
def resolveCoordsLen : List Nat → (pos flagsLeft xLen yLen : Nat) → Option (Nat × Nat × Nat)
  | [], pos, flagsLeft, xLen, yLen => if flagsLeft = 0 then some (pos, xLen, yLen) else none
  | f :: rest, pos, flagsLeft, xLen, yLen =>
    if flagsLeft = 0 then some (pos, xLen, yLen) else
    let xl := fun (r : Nat) => xLen + (if hasBit f X_SHORT then r else 0)
      + (if (f &&& (X_SHORT ||| X_SAME)) = 0 then r * 2 else 0)
    let yl := fun (r : Nat) => yLen + (if hasBit f Y_SHORT then r else 0)
      + (if (f &&& (Y_SHORT ||| Y_SAME)) = 0 then r * 2 else 0)
    if hasBit f REPEAT then
      match rest with
      | [] => none
      | r :: rest' =>
        let repeats := r + 1
        if repeats > flagsLeft then none
        else resolveCoordsLen rest' (pos + 2) (flagsLeft - repeats) (xl repeats) (yl repeats)
    else
      resolveCoordsLen rest (pos + 1) (flagsLeft - 1) (xl 1) (yl 1)

/-- `Cursor::read::<u8>()`: value (if in bounds) and the cursor afterwards. -/
def readU8 : List Nat → Option Nat × List Nat
  | [] => (none, [])
  | b :: r => (some b, r)

/-- `Cursor::read::<i16>()`: the cursor advances two bytes even when the read fails. -/
def readI16 : List Nat → Option Int × List Nat
  | a :: b :: r => (some (wrapI16 (a * 256 + b)), r)
  | _ => (none, [])

/-- one coordinate of `PointIter::advance_points`: `(delta, cursor')`, a failed read is 0. -/
def readDelta (short same : Bool) (cur : List Nat) : Int × List Nat :=
  match short, same with
  | true, false => let r := readU8 cur; (-((r.1.getD 0 : Nat) : Int), r.2)
  | true, true => let r := readU8 cur; (((r.1.getD 0 : Nat) : Int), r.2)
  | false, false => let r := readI16 cur; (r.1.getD 0, r.2)
  | false, true => (0, cur)

/-- `struct PointIter` (after the `fix:` commit `flag_repeats` is a u16). -/
structure PointIter where
  flags : List Nat
  xCoords : List Nat
  yCoords : List Nat
  flagRepeats : Nat
  curFlags : Nat
  curX : Int
  curY : Int
deriving Repr

/-- `PointIter::advance_flags` (fixed code: `repeat as u16 + 1`, max 256, no overflow). -/
def PointIter.advanceFlags (s : PointIter) : Option PointIter :=
  if s.flagRepeats = 0 then
    match s.flags with
    | [] => none
    | f :: rest =>
      let rr : Nat × List Nat :=
        if hasBit f REPEAT then
          (match rest with
           | r :: rest' => (r, rest')
           | [] => (0, []))
        else (0, rest)
      some { s with flags := rr.2, curFlags := f, flagRepeats := rr.1 + 1 - 1 }
  else some { s with flagRepeats := s.flagRepeats - 1 }

/-- `PointIter::advance_points` (`wrapping_add` on i16). -/
def PointIter.advancePoints (s : PointIter) : PointIter :=
  let dx := readDelta (hasBit s.curFlags X_SHORT) (hasBit s.curFlags X_SAME) s.xCoords
  let dy := readDelta (hasBit s.curFlags Y_SHORT) (hasBit s.curFlags Y_SAME) s.yCoords
  { s with xCoords := dx.2, yCoords := dy.2, curX := wrapI16 (s.curX + dx.1),
           curY := wrapI16 (s.curY + dy.1) }

/-- `impl Iterator for PointIter` -/
def PointIter.next (s : PointIter) : Option (Point × PointIter) :=
  match s.advanceFlags with
  | none => none
  | some s1 =>
    let s2 := s1.advancePoints
    some (⟨s2.curX, s2.curY, hasBit s2.curFlags ON_CURVE⟩, s2)

/-- `.collect()` of the iterator; `fuel` bounds the number of items (every flag byte yields at
most 256 points, so `256 * flags.length` always exhausts it). -/
def PointIter.collect : Nat → PointIter → List Point
  | 0, _ => []
  | fuel + 1, s =>
    match s.next with
    | none => []
    | some (p, s') => p :: PointIter.collect fuel s'

def PointIter.new (flags xs ys : List Nat) : PointIter :=
  { flags := flags, xCoords := xs, yCoords := ys, flagRepeats := 0, curFlags := 0,
    curX := 0, curY := 0 }

/-- `SimpleGlyph::points()` via `points_impl`: any failure yields the empty iterator. -/
def SimpleView.points (v : SimpleView) : List Point :=
  match v.endPts.getLast? with
  | none => []
  | some last =>
    if last + 1 > 65535 then [] else
    match resolveCoordsLen v.glyphData 0 (last + 1) 0 0 with
    | none => []
    | some (fl, xl, yl) =>
      if v.glyphData.length < fl + xl + yl then [] else
      let flags := v.glyphData.take fl
      let rest := v.glyphData.drop fl
      let it := PointIter.new flags (rest.take xl) (rest.drop xl)
      it.collect (256 * flags.length)

/-! ### read_points_fast -/

/-- the flag-expansion loop of `read_points_fast`: `remaining = n_points - i > 0`.
Returns the flags written (a prefix of the output buffer) and the flag bytes consumed;
`none` = `Err(OutOfBounds)` (a repeat flag at the end of the flag window). -/
def fastFlags : List Nat → Nat → Option (List Nat × Nat)
  | [], _ => some ([], 0)
  | f :: rest, remaining =>
    if hasBit f REPEAT then
      match rest with
      | [] => none
      | r :: rest' =>
        let count := min (r + 1) remaining
        if remaining - count = 0 then some (List.replicate count f, 2)
        else (fastFlags rest' (remaining - count)).map
          (fun p => (List.replicate count f ++ p.1, p.2 + 2))
    else
      if remaining - 1 = 0 then some ([f], 1)
      else (fastFlags rest (remaining - 1)).map (fun p => (f :: p.1, p.2 + 1))

/-- one delta of `read_points_fast`: `u8` (negated unless the same/positive bit is set) for a
short vector, else `i16` unless the same bit is set, else 0; `none` = `Err(OutOfBounds)`. -/
def fastDelta (short same : Bool) (cur : List Nat) : Option (Int × List Nat) :=
  if short then
    match cur with
    | [] => none
    | b :: r => some (if same then (b : Int) else -(b : Int), r)
  else if ¬ same then
    match cur with
    | a :: b :: r => some (wrapI16 (a * 256 + b), r)
    | _ => none
  else some (0, cur)

/-- one coordinate pass of `read_points_fast` (`x = x.wrapping_add(delta)` on i32);
`none` = `Err(OutOfBounds)`. -/
def fastCoords (short same : Nat) : List Nat → List Nat → Int → Option (List Int × List Nat)
  | [], cur, _ => some ([], cur)
  | f :: fs, cur, acc =>
    match fastDelta (hasBit f short) (hasBit f same) cur with
    | none => none
    | some (d, cur') =>
      let acc' := wrapI32 (acc + d)
      (fastCoords short same fs cur' acc').map (fun p => (acc' :: p.1, p.2))

/-- `SimpleGlyph::read_points_fast::<i32>` on zero-initialised buffers of length `num_points`:
`(x, y, flag & ON_CURVE)` per point.  Since `fix:` d12a1b2 the flag window is
`n_points.saturating_mul(2).min(remaining)` bytes (a legal flag array takes up to two bytes per
point) and flags that end before every point has one are `Err(OutOfBounds)` (`i != n_points`). -/
def SimpleView.readPointsFast (v : SimpleView) : Option (List (Int × Int × Nat)) :=
  let n := v.numPoints
  let window := v.glyphData.take (min (2 * n) v.glyphData.length)
  match (if n = 0 then some ([], 0) else fastFlags window n) with
  | none => none
  | some (fl, nread) =>
    if fl.length ≠ n then none else
    let flags := fl
    match fastCoords X_SHORT X_SAME flags (v.glyphData.drop nread) 0 with
    | none => none
    | some (xs, cur) =>
      match fastCoords Y_SHORT Y_SAME flags cur 0 with
      | none => none
      | some (ys, _) =>
        some ((xs.zip (ys.zip flags)).map (fun t => (t.1, t.2.1, t.2.2 &&& 1)))

/-- write-fonts simple.rs `impl FromObjRef<read_fonts::..::SimpleGlyph> for SimpleGlyph`: the
contours are cut from the point iterator by the end points (`count = end - last_end` is a checked
usize subtraction: `none` = panic; `take(count)` on a short iterator just yields fewer points). -/
def contoursOf : Nat → List Nat → List Point → Option (List (List Point))
  | _, [], _ => some []
  | lastEnd, e :: es, pts =>
    if e + 1 < lastEnd then none
    else (contoursOf (e + 1) es (pts.drop (e + 1 - lastEnd))).map
      (fun r => pts.take (e + 1 - lastEnd) :: r)

/-! ## composite glyphs -/

inductive Anchor
  | offset (x y : Int)
  | point (base comp : Nat)
deriving DecidableEq, Repr

/-- F2Dot14 raw bits (i16) -/
structure Transform where
  xx : Int
  yx : Int
  xy : Int
  yy : Int
deriving DecidableEq, Repr

structure ComponentFlags where
  roundXyToGrid : Bool
  useMyMetrics : Bool
  scaledComponentOffset : Bool
  unscaledComponentOffset : Bool
  overlapCompound : Bool
deriving DecidableEq, Repr

structure Component where
  glyph : Nat
  anchor : Anchor
  flags : ComponentFlags
  transform : Transform
deriving DecidableEq, Repr

def ARG_WORDS : Nat := 0x0001
def ARGS_XY : Nat := 0x0002
def ROUND_XY : Nat := 0x0004
def HAVE_SCALE : Nat := 0x0008
def MORE_COMPONENTS : Nat := 0x0020
def HAVE_XY_SCALE : Nat := 0x0040
def HAVE_2X2 : Nat := 0x0080
def HAVE_INSTR : Nat := 0x0100
def USE_MY_METRICS : Nat := 0x0200
def OVERLAP_COMPOUND : Nat := 0x0400
def SCALED_OFFSET : Nat := 0x0800
def UNSCALED_OFFSET : Nat := 0x1000

/-- `Anchor::compute_flags` (read-fonts glyf.rs) -/
def Anchor.computeFlags : Anchor → Nat
  | .offset x y =>
    ARGS_XY ||| (if ¬ (-128 ≤ x ∧ x < 128) ∨ ¬ (-128 ≤ y ∧ y < 128) then ARG_WORDS else 0)
  | .point b c => if b > 255 ∨ c > 255 then ARG_WORDS else 0

/-- `Transform::compute_flags` (`F2Dot14::ONE` = 0x4000) -/
def Transform.computeFlags (t : Transform) : Nat :=
  if t.yx ≠ 0 ∨ t.xy ≠ 0 then HAVE_2X2
  else if t.xx ≠ t.yy then HAVE_XY_SCALE
  else if t.xx ≠ 16384 then HAVE_SCALE
  else 0

/-- `impl From<ComponentFlags> for CompositeGlyphFlags` -/
def ComponentFlags.bits (c : ComponentFlags) : Nat :=
  (if c.roundXyToGrid then ROUND_XY else 0) ||| (if c.useMyMetrics then USE_MY_METRICS else 0)
  ||| (if c.scaledComponentOffset then SCALED_OFFSET else 0)
  ||| (if c.unscaledComponentOffset then UNSCALED_OFFSET else 0)
  ||| (if c.overlapCompound then OVERLAP_COMPOUND else 0)

/-- `impl From<CompositeGlyphFlags> for ComponentFlags` -/
def ComponentFlags.ofBits (f : Nat) : ComponentFlags :=
  { roundXyToGrid := hasBit f ROUND_XY, useMyMetrics := hasBit f USE_MY_METRICS,
    scaledComponentOffset := hasBit f SCALED_OFFSET,
    unscaledComponentOffset := hasBit f UNSCALED_OFFSET,
    overlapCompound := hasBit f OVERLAP_COMPOUND }

/-- `Component::compute_flag` -/
def Component.computeFlag (c : Component) : Nat :=
  c.anchor.computeFlags ||| c.transform.computeFlags ||| c.flags.bits

def i8Byte (v : Int) : Nat := (v % 256).toNat

/-- `impl FontWrite for Anchor` (`*x as i8`, `*base as u8` when both arguments fit a byte) -/
def Anchor.bytes (a : Anchor) : List Nat :=
  let two := hasBit a.computeFlags ARG_WORDS
  match a with
  | .offset x y => if two then be16 x ++ be16 y else [i8Byte x, i8Byte y]
  | .point b c => if two then be16 b ++ be16 c else [b % 256, c % 256]

/-- `impl FontWrite for Transform` -/
def Transform.bytes (t : Transform) : List Nat :=
  let f := t.computeFlags
  if hasBit f HAVE_2X2 then be16 t.xx ++ be16 t.yx ++ be16 t.xy ++ be16 t.yy
  else if hasBit f HAVE_XY_SCALE then be16 t.xx ++ be16 t.yy
  else if hasBit f HAVE_SCALE then be16 t.xx
  else []

/-- `Component::write_into(writer, extra_flags)` -/
def Component.bytes (c : Component) (extra : Nat) : List Nat :=
  be16 ((c.computeFlag ||| extra : Nat) : Int) ++ be16 c.glyph ++ c.anchor.bytes ++ c.transform.bytes

structure CompositeGlyph where
  xMin : Int
  yMin : Int
  xMax : Int
  yMax : Int
  components : List Component
  instructions : List Nat
deriving DecidableEq, Repr

def componentsBytes (haveInstr : Bool) : List Component → List Nat
  | [] => []
  | [last] => last.bytes (if haveInstr then HAVE_INSTR else 0)
  | c :: cs => c.bytes MORE_COMPONENTS ++ componentsBytes haveInstr cs

/-- `impl FontWrite for CompositeGlyph`; `none` = the `expect("empty composites checked in
validation")` panic. -/
def writeComposite (g : CompositeGlyph) : Option (List Nat) :=
  if g.components.isEmpty then none else
  let hi := ! g.instructions.isEmpty
  some (padEven (be16 (-1) ++ be16 g.xMin ++ be16 g.yMin ++ be16 g.xMax ++ be16 g.yMax
    ++ componentsBytes hi g.components
    ++ (if hi then be16 g.instructions.length ++ g.instructions else [])))

/-- a `read_fonts::tables::glyf::Component` -/
structure RComponent where
  flags : Nat
  glyph : Nat
  anchor : Anchor
  transform : Transform
deriving DecidableEq, Repr

def readU16 : List Nat → Option Nat × List Nat
  | a :: b :: r => (some (a * 256 + b), r)
  | _ => (none, [])

def readI8 : List Nat → Option Int × List Nat
  | [] => (none, [])
  | b :: r => (some (wrapI8 b), r)

/-- `CompositeGlyphFlags::all().bits`: reading a flags word is `from_bits_truncate`. -/
def COMPOSITE_ALL : Nat := 0x1FEF

/-- the anchor arguments of `ComponentIter::next`: `(args_are_xy_values, args_are_words)` select
i16/i8 offsets or u16/u8 point numbers; `none` when a read fails. -/
def readAnchor (xy words : Bool) (c2 : List Nat) : Option (Anchor × List Nat) :=
  match xy, words with
  | true, true =>
    (match readI16 c2 with
     | (some x, c3) => (match readI16 c3 with
       | (some y, c4) => some (.offset x y, c4)
       | _ => none)
     | _ => none)
  | true, false =>
    (match readI8 c2 with
     | (some x, c3) => (match readI8 c3 with
       | (some y, c4) => some (.offset x y, c4)
       | _ => none)
     | _ => none)
  | false, true =>
    (match readU16 c2 with
     | (some b, c3) => (match readU16 c3 with
       | (some c, c4) => some (.point b c, c4)
       | _ => none)
     | _ => none)
  | false, false =>
    (match readU8 c2 with
     | (some b, c3) => (match readU8 c3 with
       | (some c, c4) => some (.point b c, c4)
       | _ => none)
     | _ => none)

/-- the transform of `ComponentIter::next` (default = identity, `F2Dot14::ONE` = 0x4000; a single
scale sets `yy = xx`); `none` when a read fails. -/
def readTransform (flags : Nat) (c5 : List Nat) : Option (Transform × List Nat) :=
  if hasBit flags HAVE_SCALE then
    (match readI16 c5 with
     | (some a, c6) => some (⟨a, 0, 0, a⟩, c6)
     | _ => none)
  else if hasBit flags HAVE_XY_SCALE then
    (match readI16 c5 with
     | (some a, c6) => (match readI16 c6 with
       | (some d, c7) => some (⟨a, 0, 0, d⟩, c7)
       | _ => none)
     | _ => none)
  else if hasBit flags HAVE_2X2 then
    (match readI16 c5 with
     | (some a, c6) => (match readI16 c6 with
       | (some b, c7) => (match readI16 c7 with
         | (some c, c8) => (match readI16 c8 with
           | (some d, c9) => some (⟨a, b, c, d⟩, c9)
           | _ => none)
         | _ => none)
       | _ => none)
     | _ => none)
  else some (⟨16384, 0, 0, 16384⟩, c5)

/-- `ComponentIter::next` on a cursor that is still in bounds: `none` when a read fails. -/
def readComponent (cur : List Nat) : Option (RComponent × List Nat) :=
  match readU16 cur with
  | (none, _) => none
  | (some rawFlags, c1) =>
  let flags := rawFlags &&& COMPOSITE_ALL
  match readU16 c1 with
  | (none, _) => none
  | (some glyph, c2) =>
  match readAnchor (hasBit flags ARGS_XY) (hasBit flags ARG_WORDS) c2 with
  | none => none
  | some (anchor, c5) =>
  match readTransform flags c5 with
  | none => none
  | some (t, c10) => some (⟨flags, glyph, anchor, t⟩, c10)

/-- `CompositeGlyph::components().collect()`: stops after a component without
`MORE_COMPONENTS` or at the first failed read.  `fuel`: every component consumes ≥ 6 bytes. -/
def readComponents : Nat → List Nat → List RComponent
  | 0, _ => []
  | fuel + 1, cur =>
    match readComponent cur with
    | none => []
    | some (c, cur') =>
      if hasBit c.flags MORE_COMPONENTS then c :: readComponents fuel cur' else [c]

/-- `ComponentGlyphIdFlagsIter` run to its end: component count, last flags read, and the
cursor position (`advance_by` never fails, the position may pass the end). -/
def skipComponents : Nat → List Nat → Nat → Nat → Nat → Nat × Nat × Nat
  | 0, _, pos, count, lastFlags => (count, lastFlags, pos)
  | fuel + 1, data, pos, count, lastFlags =>
    match u16At data pos with
    | none => (count, lastFlags, pos + 2)
    | some rawFlags =>
      let flags := rawFlags &&& COMPOSITE_ALL
      match u16At data (pos + 2) with
      | none => (count, flags, pos + 4)
      | some _ =>
        let p1 := pos + 4 + (if hasBit flags ARG_WORDS then 4 else 2)
        let p2 := p1 + (if hasBit flags HAVE_SCALE then 2 else if hasBit flags HAVE_XY_SCALE then 4
          else if hasBit flags HAVE_2X2 then 8 else 0)
        if hasBit flags MORE_COMPONENTS then skipComponents fuel data p2 (count + 1) flags
        else (count + 1, flags, p2)

/-- `CompositeGlyph::count_and_instructions` -/
def countAndInstructions (compData : List Nat) : Nat × Option (List Nat) :=
  let r := skipComponents (compData.length + 1) compData 0 0 0
  let instr : Option (List Nat) :=
    if hasBit r.2.1 HAVE_INSTR then
      match u16At compData r.2.2 with
      | none => none
      | some len =>
        if r.2.2 + 2 + len ≤ compData.length then some ((compData.drop (r.2.2 + 2)).take len)
        else none
    else none
  (r.1, instr)

structure CompositeView where
  xMin : Int
  yMin : Int
  xMax : Int
  yMax : Int
  components : List RComponent
  count : Nat
  instructions : Option (List Nat)
deriving DecidableEq, Repr

/-- generated `CompositeGlyph::read` (needs the 10-byte header) + the accessors. -/
def readComposite (data : List Nat) : Option CompositeView :=
  if data.length < 10 then none else
  let cd := data.drop 10
  let ci := countAndInstructions cd
  some { xMin := (i16At data 2).getD 0, yMin := (i16At data 4).getD 0,
         xMax := (i16At data 6).getD 0, yMax := (i16At data 8).getD 0,
         components := readComponents (cd.length + 1) cd, count := ci.1, instructions := ci.2 }

/-! ## loca -/

/-- `LocaFormat::new`: `true` = Long. Short iff the last offset is < 0x20000 and all are even. -/
def locaIsLong (offsets : List Nat) : Bool :=
  ! (decide ((offsets.getLast?.getD 0) < 0x20000) && offsets.all (fun o => o % 2 == 0))

/-- `impl FontWrite for Loca` (offsets are u32; short: `(off >> 1) as u16`). -/
def writeLoca (offsets : List Nat) : List Nat :=
  if locaIsLong offsets then offsets.flatMap be32
  else offsets.flatMap (fun o => be16 ((o / 2 % 65536 : Nat) : Int))

def chunks2 : List Nat → Option (List Nat)
  | [] => some []
  | a :: b :: r => (chunks2 r).map (fun t => (a * 256 + b) :: t)
  | _ => none

def chunks4 : List Nat → Option (List Nat)
  | [] => some []
  | a :: b :: c :: d :: r => (chunks4 r).map (fun t => (((a * 256 + b) * 256 + c) * 256 + d) :: t)
  | _ => none

/-- `Loca::read(data, is_long)` followed by `get_raw` on every index: the raw offsets
(`none` = `InvalidArrayLen`). -/
def readLoca (data : List Nat) (isLong : Bool) : Option (List Nat) :=
  if isLong then chunks4 data else (chunks2 data).map (fun l => l.map (· * 2))

inductive GetGlyf
  | err
  | none
  | bytes (start : Nat) (data : List Nat)
deriving DecidableEq, Repr

/-- `Loca::get_glyf(gid, glyf)` up to the call of `Glyph::read`: the byte slice handed to it. -/
def getGlyf (raw : List Nat) (glyf : List Nat) (gid : Nat) : GetGlyf :=
  match raw[gid]?, raw[gid + 1]? with
  | some start, some end_ =>
    if start = end_ then .none
    else if start ≤ end_ ∧ end_ ≤ glyf.length then .bytes start ((glyf.drop start).take (end_ - start))
    else .err
  | _, _ => .err

/-! ## glyph enum and GlyfLocaBuilder -/

inductive Glyph
  | empty
  | simple (g : SimpleGlyph)
  | composite (g : CompositeGlyph)
deriving DecidableEq, Repr

inductive WriteResult
  | ok (bytes : List Nat)
  | invalid          -- `validate()` reported an error
  | trap             -- panic
deriving DecidableEq, Repr

/-- `validate()` then `write_into` (as `dump_table` and `GlyfLocaBuilder::add_glyph` do).
Validation: simple `instructions.len() > u16::MAX` or (after `fix:` 006a7c4) more than `u16::MAX`
points in total; composite: no components or `instructions.len() > u16::MAX`. -/
def writeGlyph : Glyph → WriteResult
  | .empty => .ok []
  | .simple g =>
    if g.instructions.length > 65535 ∨ (g.contours.map List.length).sum > 65535 then .invalid else
    match writeSimple g with
    | some b => .ok b
    | none => .trap
  | .composite g =>
    if g.components.isEmpty ∨ g.instructions.length > 65535 then .invalid else
    match writeComposite g with
    | some b => .ok b
    | none => .trap

/-- `GlyfLocaBuilder`: glyph bytes are appended to one writer, `raw_loca` records the length
after each glyph (`as u32`).  `none` = some glyph was rejected or panicked. -/
def buildGlyfLoca : List Glyph → (glyf : List Nat) → (loca : List Nat) → Option (List Nat × List Nat)
  | [], glyf, loca => some (glyf, loca)
  | g :: gs, glyf, loca =>
    match writeGlyph g with
    | .ok b =>
      let glyf' := glyf ++ b
      buildGlyfLoca gs glyf' (loca ++ [glyf'.length % 4294967296])
    | _ => none

def build (gs : List Glyph) : Option (List Nat × List Nat) := buildGlyfLoca gs [] [0]

/-! ### builder histories with failures in the middle

`add_glyph` is `glyph.validate()?; glyph.write_into(&mut self.glyph_writer); raw_loca.push(len)`:
a glyph that fails validation returns `Err` BEFORE anything is written, so the builder is exactly as
it was and the caller may go on adding glyphs (the type's doc example handles the error per glyph).
A panic inside `write_into` (glyph passed validation but hits an assertion / checked arithmetic)
unwinds out of `add_glyph` with a partly written glyph: the history ends there (`none`). -/

/-- outcome of one `add_glyph` call as the caller sees it -/
inductive AddOutcome
  | ok | err | trap
deriving DecidableEq, Repr

def addOutcome (g : Glyph) : AddOutcome :=
  match writeGlyph g with
  | .ok _ => .ok
  | .invalid => .err
  | .trap => .trap

/-- the builder state after a history of `add_glyph` calls whose `Err`s were ignored by the caller -/
def buildHistFrom : List Glyph → (glyf : List Nat) → (loca : List Nat) → Option (List Nat × List Nat)
  | [], glyf, loca => some (glyf, loca)
  | g :: gs, glyf, loca =>
    match writeGlyph g with
    | .ok b =>
      let glyf' := glyf ++ b
      buildHistFrom gs glyf' (loca ++ [glyf'.length % 4294967296])
    | .invalid => buildHistFrom gs glyf loca
    | .trap => none

def buildHist (gs : List Glyph) : Option (List Nat × List Nat) := buildHistFrom gs [] [0]

/-- the glyphs of a history that were accepted (`add_glyph` returned `Ok`), in order: glyph id `i` of
the built tables is the `i`-th of these -/
def accepted (gs : List Glyph) : List Glyph := gs.filter (fun g => addOutcome g = .ok)

/-- what the caller observes call by call, up to and including the first panic -/
def histOutcomes : List Glyph → List AddOutcome
  | [] => []
  | g :: gs =>
    match addOutcome g with
    | .trap => [.trap]
    | o => o :: histOutcomes gs

end FontVerif.Glyf
