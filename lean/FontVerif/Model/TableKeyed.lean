/-
C18 — IFT table-keyed patch application.

Transcribes
  * incremental-font-transfer/src/table_keyed.rs  (`apply_table_keyed_patch`, `apply_table_patch`,
    `copy_unprocessed_tables`)
  * incremental-font-transfer/src/font_patch.rs   (`IncrementalFontPatchBase for FontRef`:
    compatibility-id checks, `From<DecodeError> for PatchingError`)
  * read-fonts generated `TableKeyedPatch::read`, `TablePatch::read`, `Offset32::resolve`
    (byte-level layout and bounds checks of the patch container)
  * write-fonts `FontBuilder::{add_raw, build}` at the level "BTreeMap tag ↦ bytes"
    (the `head.checksumAdjustment` rewrite of `build` is NOT modelled: observations zero it).

A font is an association list `tag ↦ bytes` (table directory order = ascending tag, unique tags:
what `FontBuilder::build` emits and `FontRef::table_data`'s binary search assumes).
The brotli decoder is a PARAMETER
  `dec : callIndex → stream → base? → maxLen → Except DErr Bytes`
so every theorem holds for every decoder (in particular "fails on its k-th call with error e").
-/
import FontVerif.Model.Base
namespace FontVerif.Ift

abbrev Bytes := List Nat
abbrev Tag := Nat
/-- table directory: ascending unique tags -/
abbrev Font := List (Tag × Bytes)

/-- read_fonts::ReadError (the variants reachable from the modelled code) -/
inductive RErr where
  | outOfBounds
  | nullOffset
  | invalidArrayLen
  | tableIsMissing (t : Tag)
  | malformedData (msg : String)
  deriving Repr, DecidableEq

/-- shared_brotli_patch_decoder::decode_error::DecodeError -/
inductive DErr where
  | initFailure | invalidStream | invalidDictionary | maxSizeExceeded | excessInputData | ioError
  deriving Repr, DecidableEq

/-- incremental_font_transfer::font_patch::PatchingError -/
inductive PErr where
  | patchParsingFailed (e : RErr)
  | fontParsingFailed (e : RErr)
  | serializationError (flags : Nat)
  | incompatiblePatch
  | nonIncrementalFont
  | invalidPatch (msg : String)
  | emptyPatchList
  | internalError
  | missingPatches
  deriving Repr, DecidableEq

/-- font_patch.rs `impl From<DecodeError> for PatchingError` -/
def PErr.ofDec : DErr → PErr
  | .initFailure => .invalidPatch "Failure to init brotli encoder."
  | .invalidStream => .invalidPatch "Malformed brotli stream."
  | .invalidDictionary => .invalidPatch "Malformed dictionary."
  | .maxSizeExceeded => .invalidPatch "Max size exceeded."
  | .excessInputData => .invalidPatch "Input brotli stream has excess bytes."
  | .ioError => .invalidPatch "IO error decoding input brotli stream."

/-- `SharedBrotliDecoder::decode`, with the index of the call made explicit. -/
abbrev Decoder := Nat → Bytes → Option Bytes → Nat → Except DErr Bytes

def tagOf (a b c d : Char) : Tag := ((a.toNat * 256 + b.toNat) * 256 + c.toNat) * 256 + d.toNat

def TAG_IFT : Tag := 0x49465420   -- "IFT "
def TAG_IFTX : Tag := 0x49465458  -- "IFTX"
def TAG_iftk : Tag := 0x6966746b
def TAG_ifgk : Tag := 0x6966676b
def TAG_glyf : Tag := 0x676c7966
def TAG_loca : Tag := 0x6c6f6361
def TAG_gvar : Tag := 0x67766172
def TAG_CFF : Tag := 0x43464620
def TAG_CFF2 : Tag := 0x43464632
def TAG_head : Tag := 0x68656164
def TAG_maxp : Tag := 0x6d617870

/-! ## bytes -/

/-- `data[p .. p+n]` as a big-endian number, `none` when out of bounds (`FontData::read_at`). -/
def beAt (n : Nat) (b : Bytes) (p : Nat) : Option Nat :=
  if p + n ≤ b.length then some (beValue ((b.drop p).take n)) else none

/-- `&data[a .. a+n]` (caller has checked bounds) -/
def sliceLen (b : Bytes) (a n : Nat) : Bytes := (b.drop a).take n

/-! ## FontRef / FontBuilder -/

/-- `FontRef::table_data(tag)` -/
def Font.get (f : Font) (t : Tag) : Option Bytes := f.lookup t

/-- `FontBuilder::add_raw` (`BTreeMap::insert`): ascending tags, a later insert replaces. -/
def insertTable (t : Tag) (d : Bytes) : Font → Font
  | [] => [(t, d)]
  | (t', d') :: rest =>
    if t < t' then (t, d) :: (t', d') :: rest
    else if t = t' then (t, d) :: rest
    else (t', d') :: insertTable t d rest

/-- table_keyed.rs `copy_unprocessed_tables`: every record of the base font whose tag is not in
`processed` is added to the builder. -/
def copyUnprocessed (font : Font) (processed : List Tag) (builder : Font) : Font :=
  font.foldl (fun b td => if processed.contains td.1 then b else insertTable td.1 td.2 b) builder

/-! ## compatibility ids (font_patch.rs / patchmap.rs `IftTableTag`) -/

/-- what `PatchInfo` carries: uri, source table (`IFT ` / `IFTX`) with the compatibility id the
mapping entry was read under, and the bit that marks the entry applied. -/
structure PatchInfo where
  uri : String
  iftx : Bool
  compat : Bytes
  bit : Nat
  deriving Repr, DecidableEq

def PatchInfo.tag (i : PatchInfo) : Tag := if i.iftx then TAG_IFTX else TAG_IFT

/-- `IftTableTag::font_compat_id`: `font.expect_data_for_tag(tag)` then the 16 bytes after
`format: u8, reserved: u32`.  ASSUMPTION: a present IFT/IFTX table is a well-formed mapping table
(`Ift::read` succeeds); only the `TableIsMissing` failure is modelled. -/
def fontCompatId (font : Font) (tag : Tag) : Except PErr Bytes :=
  match font.get tag with
  | none => .error (.fontParsingFailed (.tableIsMissing tag))
  | some d => .ok (sliceLen d 5 16)

/-! ## table keyed patch container (read-fonts generated_ift.rs) -/

/-- `TableKeyedPatch::read`: `format: Tag, reserved: u32, compat: [u8;16], patches_count: u16,
patch_offsets: [Offset32; count+1]`.  Returns `patches_count`. -/
def tkRead (p : Bytes) : Except RErr Nat :=
  match beAt 2 p 24 with
  | none => .error .outOfBounds
  | some c => if 26 + (c + 1) * 4 ≤ p.length then .ok c else .error .outOfBounds

/-- one resolved `TablePatch` with the stream already cut to `stream_length` -/
structure TKEntry where
  tag : Tag
  flags : Nat
  maxLen : Nat
  stream : Bytes
  deriving Repr, DecidableEq

def TKEntry.replace (e : TKEntry) : Bool := e.flags % 2 == 1          -- REPLACE_TABLE = 0b01
def TKEntry.drop (e : TKEntry) : Bool := (e.flags / 2) % 2 == 1       -- DROP_TABLE = 0b10

/-- The per-iteration front half of the loop in `apply_table_keyed_patch` for index `i`
(`i < patches_count`): resolve `patches()[i]` (`Offset32::resolve` + `TablePatch::read`), read
`patch_offsets[i]`, `[i+1]`, compute `stream_length` and bounds-check it.
Order of the checks is the order of the Rust code. -/
def tkEntryAt (p : Bytes) (i : Nat) : Except PErr TKEntry :=
  match beAt 4 p (26 + 4 * i), beAt 4 p (26 + 4 * (i + 1)) with
  | some off, some next =>
    -- table_patch.map_err(PatchParsingFailed)
    if off = 0 then .error (.patchParsingFailed .nullOffset)
    else if p.length < off then .error (.patchParsingFailed .outOfBounds)
    else if p.length - off < 9 then .error (.patchParsingFailed .outOfBounds)
    -- next_offset.checked_sub(offset).and_then(|v| v.checked_sub(STREAM_START))
    else if next < off ∨ next - off < 9 then
      .error (.invalidPatch "Patch offsets are not in sorted order.")
    else
      let streamLen := next - off - 9
      if p.length - off - 9 < streamLen then .error (.patchParsingFailed .outOfBounds)
      else .ok { tag := beValue (sliceLen p off 4), flags := (p.drop (off + 4)).headD 0,
                 maxLen := beValue (sliceLen p (off + 5) 4), stream := sliceLen p (off + 9) streamLen }
  | _, _ => .error (.invalidPatch "Missing patch offset.")

/-- loop state: `processed_tables`, `font_builder`, number of decoder calls made so far -/
structure TKAcc where
  processed : List Tag
  builder : Font
  calls : Nat
  deriving Repr

/-- back half of the loop body + `apply_table_patch`. -/
def tkStep (font : Font) (dec : Decoder) (acc : TKAcc) (e : TKEntry) : Except PErr TKAcc :=
  if acc.processed.contains e.tag then .ok acc            -- already processed: continue
  else
    let processed := e.tag :: acc.processed
    if e.drop then .ok { acc with processed := processed }  -- DROP_TABLE (wins over REPLACE)
    else
      let r : Except PErr (Except DErr Bytes) :=
        match font.get e.tag, e.replace with
        | some base, false => .ok (dec acc.calls e.stream (some base) e.maxLen)
        | none, false => .error (.invalidPatch "Trying to patch a base table that doesn't exist.")
        | _, true => .ok (dec acc.calls e.stream none e.maxLen)
      match r with
      | .error e' => .error e'
      | .ok (.error d) => .error (PErr.ofDec d)
      | .ok (.ok newTable) =>
        .ok { processed := processed, builder := insertTable e.tag newTable acc.builder,
              calls := acc.calls + 1 }

/-- the `for (i, table_patch) in patch.patches().iter().take(count).enumerate()` loop, parse and
apply interleaved exactly as in the Rust (`i` counts up, `n` iterations remain). -/
def tkLoop (p : Bytes) (font : Font) (dec : Decoder) : Nat → Nat → TKAcc → Except PErr TKAcc
  | _, 0, acc => .ok acc
  | i, n + 1, acc =>
    match tkEntryAt p i with
    | .error e => .error e
    | .ok ent =>
      match tkStep font dec acc ent with
      | .error e => .error e
      | .ok acc' => tkLoop p font dec (i + 1) n acc'

/-- table_keyed.rs `apply_table_keyed_patch` (patch already structurally read, `count` =
`patches_count`).  Result: the new table map and the number of decoder calls. -/
def applyTableKeyedCore (p : Bytes) (count : Nat) (font : Font) (dec : Decoder) :
    Except PErr (Font × Nat) :=
  if beAt 4 p 0 ≠ some TAG_iftk then .error (.invalidPatch "Patch file tag is not 'iftk'")
  else
    match tkLoop p font dec 0 count { processed := [], builder := [], calls := 0 } with
    | .error e => .error e
    | .ok acc => .ok (copyUnprocessed font acc.processed acc.builder, acc.calls)

/-- font_patch.rs `FontRef::apply_table_keyed_patch`: both compatibility checks happen before
anything is decoded. -/
def applyTableKeyed (info : PatchInfo) (p : Bytes) (font : Font) (dec : Decoder) :
    Except PErr (Font × Nat) :=
  match fontCompatId font info.tag with
  | .error e => .error e
  | .ok fontId =>
    if fontId ≠ info.compat then .error .incompatiblePatch
    else
      match tkRead p with
      | .error e => .error (.patchParsingFailed e)
      | .ok count =>
        if sliceLen p 8 16 ≠ fontId then .error .incompatiblePatch
        else applyTableKeyedCore p count font dec

end FontVerif.Ift
