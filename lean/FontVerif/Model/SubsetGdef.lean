/-
Model of klippa's GDEF subsetter (post-fix 546e1a4, 507034d, LigCaretList skip-empty fix):

  klippa/src/gdef.rs
    subset_gdef (header, version downgrade, snapshot / revert, serialisation order)
    AttachList / AttachPoint, LigCaretList / LigGlyph / CaretValue formats 1-3, MarkGlyphSets :: subset
    CollectVariationIndices for Gdef / LigCaretList / LigGlyph / CaretValue
    CollectUsedMarkSets
  klippa/src/lib.rs
    collect_layout_var_indices, remap_variation_indices, generate_varstore_inner_maps, remap_indices
    subset / try_subset (what an `Err` / a flagged serializer / an offset overflow do to the table)
    passthrough_table
  klippa/src/offset.rs, offset_array.rs
    Offset16/32::serialize_subset, serialize_serialize, ArrayOfOffsets::subset_offset
  klippa/src/serialize.rs (as far as GDEF uses it)
    push / pop_pack(share = true) / pop_discard / snapshot / revert_snapshot / add_link(Head) /
    end_serialize + resolve_links + copy_bytes
  klippa/src/variations.rs
    ItemVariationStore::subset packing order (the table logic is `SubsetHvar.subsetStore`)

Two layers.  (1) `subsetGdefSem`: WHAT survives — the loops of the subsetters on structured input,
with their error returns, producing the structured output table `GdefOut` (a sub-table that
fails with `Err(EMPTY)` is discarded by `pop_discard` / `revert_snapshot`: it simply does not appear
in the output).  (2) `encodeGdef`: HOW it is laid out — the Serializer: an object under
construction is its bytes plus its links; `pop_pack(true)` appends it to the list of packed objects
unless an identical object (bytes AND links) is already packed; the objects are pushed in the order
the code serialises them (variation store first, then mark glyph sets, mark attachment classes,
ligature carets, attachment list, glyph classes; inside a sub-table children in array order, the
coverage table last).  Objects are laid out root first, then the packed objects last-packed first;
an offset is `child.head - parent.head`.  Buffer growth (out-of-room retries) is not modelled.
-/
import FontVerif.Model.SubsetLayout
import FontVerif.Model.SubsetHvar
namespace FontVerif.SubsetGdef
open FontVerif FontVerif.Layout FontVerif.SubsetLayout

/-! ## serializer objects -/

/-- a packed object: bytes and links `(position, width in bytes, target object index)` -/
structure LObj where
  bytes : List Nat
  links : List (Nat × Nat × Nat)
  deriving Repr, DecidableEq

abbrev Packed := List LObj

/-- `pop_pack(true)` -/
def pack (pk : Packed) (o : LObj) : Packed × Nat :=
  match pk.findIdx? (· == o) with
  | some i => (pk, i)
  | none => (pk ++ [o], pk.length)

/-- serializer state seen by one `subset` call: packed objects and the current object -/
structure S where
  pk : Packed
  cur : LObj
  deriving Repr

def S.embed (s : S) (bs : List Nat) : S := { s with cur := { s.cur with bytes := s.cur.bytes ++ bs } }
def S.pos (s : S) : Nat := s.cur.bytes.length

/-- overwrite bytes at `pos` (`copy_assign`) -/
def patch (bs : List Nat) (pos : Nat) (v : List Nat) : List Nat := bs.take pos ++ v ++ bs.drop (pos + v.length)

def S.assign (s : S) (pos : Nat) (v : List Nat) : S := { s with cur := { s.cur with bytes := patch s.cur.bytes pos v } }

/-- the serialisation of one sub-table on a freshly pushed object: its object and the packed list -/
abbrev Child := Packed → LObj × Packed

def leaf (bs : List Nat) : Child := fun pk => (⟨bs, []⟩, pk)

/-- `O::serialize_subset(t, s, plan, args, pos)` / `serialize_serialize` (success path): push, run the
child, pop_pack(share) + add_link -/
def linkChild (w pos : Nat) (child : Child) (s : S) : S :=
  let (o, pk') := child s.pk
  let r := pack pk' o
  { pk := r.1, cur := { s.cur with links := s.cur.links ++ [(pos, w, r.2)] } }

/-- `array.subset_offset(idx, s, plan, args)` (success path): allocate the offset field, then
serialize_subset -/
def arrayChild (w : Nat) (child : Child) (s : S) : S :=
  linkChild w s.pos child (s.embed (List.replicate w 0))

/-! ## input tables as read-fonts presents them -/

/-- an optional sub-table behind a nullable offset -/
inductive Tbl (α : Type) where
  | absent          -- `None`
  | bad             -- `Some(Err(_))`
  | ok (t : α)
  deriving Repr

inductive CaretIn where
  | bad                                   -- `caret_values.get(idx)` is `Err`
  | f1 (bytes : List Nat)                 -- `min_table_bytes`
  | f2 (bytes : List Nat)
  | f3 (coord : Nat) (dev : Option DevIn) -- `None` = `device()` is `Err`
  deriving Repr

inductive LigIn where
  | bad
  | ok (carets : List CaretIn)
  deriving Repr

structure AttachListIn where
  cov : Option Coverage                   -- `None` = `coverage()` is `Err`
  glyphCount : Nat
  points : List (Option (List Nat))       -- per index: the AttachPoint bytes, `None` = `Err`
  deriving Repr

structure LigCaretListIn where
  cov : Option Coverage
  count : Nat
  ligs : List LigIn
  deriving Repr

structure MarkSetsIn where
  format : Nat
  sets : List (Option Coverage)           -- `None` = `Err`
  deriving Repr

structure StoreIn where
  format : Nat
  /-- `None` = `variation_region_list()` is `Err` -/
  regions : Option (Nat × List (List (Int × Int × Int)))
  subs : List SubsetHvar.SubIn
  deriving Repr

structure GdefIn where
  major : Nat
  minor : Nat
  glyphClassDef : Tbl ClassDef
  attachList : Tbl AttachListIn
  ligCaretList : Tbl LigCaretListIn
  markAttachClassDef : Tbl ClassDef
  markGlyphSets : Tbl MarkSetsIn
  varStore : Tbl StoreIn
  deriving Repr

/-! ## plan side: `collect_layout_var_indices` -/

/-- `IntSet<u32>::insert` -/
def setInsert := SubsetLayout.setInsert

/-- `LigGlyph::collect_variation_indices`: stops at the first unreadable caret value -/
def ligVarIdx : List CaretIn → List Nat → List Nat
  | [], acc => acc
  | .bad :: _, acc => acc
  | .f3 _ (some (.varIdx o i)) :: rest, acc => ligVarIdx rest (setInsert (o * 65536 + i) acc)
  | _ :: rest, acc => ligVarIdx rest acc

/-- `LigCaretList::collect_variation_indices`: `coverage.iter().zip(lig_glyphs.iter())`; an unreadable
LigGlyph ends the collection (also when its glyph is not retained) -/
def listVarIdx (p : LPlan) : List (Nat × LigIn) → List Nat → List Nat
  | [], acc => acc
  | (_, .bad) :: _, acc => acc
  | (g, .ok cs) :: rest, acc =>
    if p.glyphset.contains g then listVarIdx p rest (ligVarIdx cs acc) else listVarIdx p rest acc

/-- `gdef.collect_variation_indices(plan, &mut varidx_set)` -/
def collectVarIdx (p : LPlan) (g : GdefIn) : List Nat :=
  match g.ligCaretList with
  | .ok l =>
    match l.cov with
    | some c => listVarIdx p (c.glyphs.zip l.ligs) []
    | none => []
  | _ => []

/-- `remap_variation_indices(vardata_count, varidx_set, map)`: loop state
`(new_major, new_minor, last_major)` -/
def remapVarGo (vardataCount : Nat) : List Nat → Nat → Nat → Nat → List (Nat × Nat)
  | [], _, _, _ => []
  | v :: rest, newMajor, newMinor, lastMajor =>
    let major := v / 65536
    if major ≥ vardataCount then [] else
    let nm := if major ≠ lastMajor then (newMajor + 1, 0) else (newMajor, newMinor)
    (v, nm.1 * 65536 + nm.2) :: remapVarGo vardataCount rest nm.1 (nm.2 + 1) major

/-- `layout_varidx_delta_map` as (old, new) (the delta component is always 0) -/
def remapVarIdx (vardataCount : Nat) (set : List Nat) : List (Nat × Nat) :=
  match set with
  | [] => []
  | v0 :: _ => if vardataCount = 0 then [] else remapVarGo vardataCount set 0 0 (v0 / 65536)

/-- `generate_varstore_inner_maps`: one `IncBiMap` (its `back_map`) per source subtable -/
def innerMaps (vardataCount : Nat) (set : List Nat) : List (List Nat) :=
  if set.isEmpty ∨ vardataCount = 0 then [] else
  let used := set.takeWhile (fun v => v / 65536 < vardataCount)
  (List.range vardataCount).map fun m => (used.filter (fun v => v / 65536 = m)).map (· % 65536)

structure VarPlan where
  /-- `plan.layout_varidx_delta_map` -/
  vmap : List (Nat × Nat)
  /-- `plan.gdef_varstore_inner_maps` -/
  inner : List (List Nat)
  deriving Repr

/-- the variation part of `collect_layout_var_indices` (nothing without a readable store) -/
def varPlan (p : LPlan) (g : GdefIn) : VarPlan :=
  match g.varStore with
  | .ok st =>
    let set := collectVarIdx p g
    { vmap := remapVarIdx st.subs.length set, inner := innerMaps st.subs.length set }
  | _ => { vmap := [], inner := [] }

/-- `coverage.intersects(&plan.glyphset_gsub)` (on a well-formed coverage) -/
def setUsed (p : LPlan) : Option Coverage → Bool
  | none => false
  | some c => c.glyphs.any (fun x => p.glyphset.contains x)

/-- the loop of `MarkGlyphSets::collect_used_mark_sets` (an unreadable coverage ends it) -/
def usedGo (p : LPlan) : List (Option Coverage) → Nat → List Nat
  | [], _ => []
  | none :: _, _ => []
  | some c :: rest, i => (if setUsed p (some c) then [i] else []) ++ usedGo p rest (i + 1)

/-- `CollectUsedMarkSets` + `remap_indices`: `plan.used_mark_sets_map` (old, new).  The GDEF
subsetter does not read it (it drops the sets whose coverage subsets to empty). -/
def usedMarkSets (p : LPlan) (g : GdefIn) : List Nat :=
  match g.markGlyphSets with
  | .ok m => usedGo p m.sets 0
  | _ => []

def usedMarkSetsMap (p : LPlan) (g : GdefIn) : List (Nat × Nat) :=
  (usedMarkSets p g).zipIdx

/-! ## layer 1: what survives (`subset` implementations on structured data) -/

/-- GDEF's class definitions: `remap_class: false, keep_empty_table: false, use_class_zero: true,
glyph_filter: None` -/
def gdefCdArgs : CdArgs := { remapClass := false, keepEmpty := false, useClassZero := true, filter := none }

/-- written AttachList: coverage and the AttachPoint tables (their bytes) in coverage order -/
structure AttachOut where
  cov : CovW
  points : List (List Nat)
  deriving Repr

/-- loop of `AttachList::subset`: `(new glyph id, AttachPoint bytes)` of the kept covered glyphs -/
def attachGo (p : LPlan) (points : List (Option (List Nat))) :
    List (Nat × Nat) → M (List (Nat × List Nat))
  | [] => pure []
  | (glyph, idx) :: rest =>
    match p.get glyph with
    | none => attachGo p points rest
    | some new =>
      match points[idx]? with
      | some (some bs) => (attachGo p points rest).map ((new, bs) :: ·)
      | _ => .error .soft

/-- `AttachList::subset` -/
def attachSem (p : LPlan) (a : AttachListIn) : M AttachOut :=
  match a.cov with
  | none => .error .hard
  | some cov =>
    match attachGo p a.points ((cov.glyphs.zipIdx).take (min p.numGlyphs a.glyphCount)) with
    | .error e => .error e
    | .ok entries =>
      if entries.isEmpty then .error .empty else
      (serializeCoverage (entries.map (·.1))).map fun c => { cov := c, points := entries.map (·.2) }

/-- a written caret value: formats 1 / 2 copied, format 3 with the subset device bytes -/
inductive CaretOut where
  | plain (bytes : List Nat)
  | f3 (coord : Nat) (dev : List Nat)
  deriving Repr, DecidableEq

/-- `CaretValue::subset` -/
def caretSem (vmap : List (Nat × Nat)) : CaretIn → M CaretOut
  | .bad => .error .soft
  | .f1 bs => pure (.plain bs)
  | .f2 bs => pure (.plain bs)
  | .f3 coord dev =>
    match dev with
    | none => .error .hard
    | some d => (subsetDevice vmap d).map (.f3 coord ·)

/-- `LigGlyph::subset`: every caret value is subset (any error aborts); no caret = `Err(EMPTY)` -/
def ligGlyphSem (vmap : List (Nat × Nat)) (carets : List CaretIn) : M (List CaretOut) :=
  match carets.mapM (caretSem vmap) with
  | .error e => .error e
  | .ok out => if out.isEmpty then .error .empty else pure out

structure LigOut where
  cov : CovW
  ligs : List (List CaretOut)
  deriving Repr

/-- loop of `LigCaretList::subset` (a LigGlyph that subsets to empty is skipped) -/
def ligListGo (p : LPlan) (vmap : List (Nat × Nat)) (ligs : List LigIn) :
    List (Nat × Nat) → M (List (Nat × List CaretOut))
  | [] => pure []
  | (glyph, idx) :: rest =>
    match p.get glyph with
    | none => ligListGo p vmap ligs rest
    | some new =>
      match ligs[idx]? with
      | some (.ok carets) =>
        match ligGlyphSem vmap carets with
        | .error .empty => ligListGo p vmap ligs rest
        | .error e => .error e
        | .ok out => (ligListGo p vmap ligs rest).map ((new, out) :: ·)
      | _ => .error .soft

/-- `LigCaretList::subset` -/
def ligSem (p : LPlan) (vmap : List (Nat × Nat)) (l : LigCaretListIn) : M LigOut :=
  match l.cov with
  | none => .error .hard
  | some cov =>
    match ligListGo p vmap l.ligs ((cov.glyphs.zipIdx).take (min p.numGlyphs l.count)) with
    | .error e => .error e
    | .ok entries =>
      if entries.isEmpty then .error .empty else
      (serializeCoverage (entries.map (·.1))).map fun c => { cov := c, ligs := entries.map (·.2) }

/-- loop of `MarkGlyphSets::subset`: a coverage that subsets to empty is skipped -/
def markSetsGo (p : LPlan) : List (Option Coverage) → M (List CovW)
  | [] => pure []
  | none :: _ => .error .soft
  | some c :: rest =>
    match subsetCoverage p c with
    | .error .empty => markSetsGo p rest
    | .error e => .error e
    | .ok w => (markSetsGo p rest).map (w :: ·)

/-- `MarkGlyphSets::subset`: format and the surviving coverage tables -/
def markSetsSem (p : LPlan) (m : MarkSetsIn) : M (Nat × List CovW) :=
  match markSetsGo p m.sets with
  | .error e => .error e
  | .ok sets => if sets.isEmpty then .error .empty else pure (m.format, sets)

/-- `ItemVariationStore::subset(inner_maps)` (table logic: `SubsetHvar.subsetStore`) -/
def storeSem (st : StoreIn) (inner : List (List Nat)) : M (Nat × SubsetHvar.StoreOut) :=
  if inner.isEmpty then .error .empty else
  match st.regions with
  | none => .error .soft
  | some (axisCount, regions) =>
    match SubsetHvar.collectAll st.subs inner [] with
    | .error .fail => .error .hard
    | .error _ => .error .soft
    | .ok refs =>
      if (refs.filter (· < regions.length)).isEmpty then .error .empty else
      match SubsetHvar.subsetStore axisCount regions st.subs inner with
      | .error .fail => .error .hard
      | .error .trap => .error .trap
      | .error .dropped => .error .soft
      | .ok o => pure (st.format, o)

/-- the written GDEF table -/
structure GdefOut where
  major : Nat
  /-- minor version as written (after the downgrade) -/
  minor : Nat
  glyphClassDef : Option ClassDef
  attachList : Option AttachOut
  ligCaretList : Option LigOut
  markAttachClassDef : Option ClassDef
  /-- format, coverage tables -/
  markGlyphSets : Option (Nat × List CovW)
  /-- format, store -/
  varStore : Option (Nat × SubsetHvar.StoreOut)
  deriving Repr

/-- one optional sub-table: unreadable = error, `Err(EMPTY)` = omitted, other errors abort -/
def optSem {α β : Type} (t : Tbl α) (f : α → M β) : M (Option β) :=
  match t with
  | .absent => pure none
  | .bad => .error .soft
  | .ok x =>
    match f x with
    | .ok y => pure (some y)
    | .error .empty => pure none
    | .error e => .error e

/-- the variation store is subset only for minor version >= 3 -/
def storePart (p : LPlan) (g : GdefIn) : M (Option (Nat × SubsetHvar.StoreOut)) :=
  if g.minor ≥ 3 then optSem g.varStore (fun st => storeSem st (varPlan p g).inner) else pure none

/-- the mark glyph sets are subset only for minor version >= 2 -/
def setsPart (p : LPlan) (g : GdefIn) : M (Option (Nat × List CovW)) :=
  if g.minor ≥ 2 then optSem g.markGlyphSets (markSetsSem p) else pure none

/-- `subset_gdef(gdef, plan, s)`: without a store the version is lowered to 1.2 (mark glyph sets
written) or 1.0; `Err(EMPTY)` when nothing is written -/
def subsetGdefSem (p : LPlan) (g : GdefIn) : M GdefOut := do
  let store ← storePart p g
  let sets ← setsPart p g
  let mac ← optSem g.markAttachClassDef (fun cd => (subsetClassDef p gdefCdArgs cd).map (·.1))
  let lig ← optSem g.ligCaretList (ligSem p (varPlan p g).vmap)
  let att ← optSem g.attachList (attachSem p)
  let cls ← optSem g.glyphClassDef (fun cd => (subsetClassDef p gdefCdArgs cd).map (·.1))
  if cls.isSome || att.isSome || lig.isSome || mac.isSome || sets.isSome || store.isSome then
    pure { major := g.major,
           minor := if store.isSome then g.minor else if sets.isSome then 2 else 0,
           glyphClassDef := cls, attachList := att, ligCaretList := lig,
           markAttachClassDef := mac, markGlyphSets := sets, varStore := store }
  else throw .empty

/-! ## layer 2: how it is laid out (Serializer objects in the order the code pushes them) -/

def foldChildren (w : Nat) (children : List Child) (s : S) : S :=
  children.foldl (fun s c => arrayChild w c s) s

/-- `AttachList::subset`: header, one AttachPoint object per retained glyph, the coverage last -/
def encAttach (o : AttachOut) : Child := fun pk =>
  let s := foldChildren 2 (o.points.map leaf) ⟨pk, ⟨be16 0 ++ be16 o.points.length, []⟩⟩
  let s := linkChild 2 0 (leaf o.cov.bytes) s
  (s.cur, s.pk)

/-- `CaretValue::subset` -/
def encCaret : CaretOut → Child
  | .plain bs => leaf bs
  | .f3 coord dev => fun pk =>
    let s := linkChild 2 4 (leaf dev) ⟨pk, ⟨be16 3 ++ be16 coord ++ be16 0, []⟩⟩
    (s.cur, s.pk)

/-- `LigGlyph::subset` -/
def encLigGlyph (carets : List CaretOut) : Child := fun pk =>
  let s := foldChildren 2 (carets.map encCaret) ⟨pk, ⟨be16 carets.length, []⟩⟩
  (s.cur, s.pk)

/-- `LigCaretList::subset` -/
def encLig (o : LigOut) : Child := fun pk =>
  let s := foldChildren 2 (o.ligs.map encLigGlyph) ⟨pk, ⟨be16 0 ++ be16 o.ligs.length, []⟩⟩
  let s := linkChild 2 0 (leaf o.cov.bytes) s
  (s.cur, s.pk)

/-- `MarkGlyphSets::subset` -/
def encMarkSets (m : Nat × List CovW) : Child := fun pk =>
  let s := foldChildren 4 (m.2.map fun w => leaf w.bytes) ⟨pk, ⟨be16 m.1 ++ be16 m.2.length, []⟩⟩
  (s.cur, s.pk)

/-- `ItemVariationStore::subset`: format, region list (packed first), count, one ItemVariationData
per retained subtable -/
def encStore (st : Nat × SubsetHvar.StoreOut) : Child := fun pk =>
  let s := linkChild 4 2 (leaf (SubsetHvar.regionListBytes st.2.axisCount st.2.regions))
    ⟨pk, ⟨be16 st.1 ++ be32 0, []⟩⟩
  let s := foldChildren 4 (st.2.subs.map fun t => leaf (SubsetHvar.subBytes t)) (s.embed (be16 st.2.subs.length))
  (s.cur, s.pk)

def encOpt {α : Type} (t : Option α) (w pos : Nat) (enc : α → Child) (s : S) : S :=
  match t with
  | none => s
  | some x => linkChild w pos (enc x) s

/-- the root object and the packed objects of `subset_gdef`: header of 12 / 14 / 18 bytes (after the
`revert_snapshot`s of the downgrade), sub-tables pushed store first -/
def encodeGdefObj (o : GdefOut) : LObj × Packed :=
  let hdr := be16 o.major ++ be16 o.minor ++ List.replicate 8 0 ++
    (if o.varStore.isSome then List.replicate 6 0 else if o.markGlyphSets.isSome then List.replicate 2 0 else [])
  let s : S := ⟨[], ⟨hdr, []⟩⟩
  let s := encOpt o.varStore 4 14 encStore s
  let s := encOpt o.markGlyphSets 2 12 encMarkSets s
  let s := encOpt o.markAttachClassDef 2 10 (fun cd => leaf (classDefBytes cd)) s
  let s := encOpt o.ligCaretList 2 8 encLig s
  let s := encOpt o.attachList 2 6 encAttach s
  let s := encOpt o.glyphClassDef 2 4 (fun cd => leaf (classDefBytes cd)) s
  (s.cur, s.pk)

/-! ## `end_serialize` / `copy_bytes`: object layout and offset resolution -/

def objSize (o : LObj) : Nat := o.bytes.length

/-- head position of packed object `k` in the final buffer of total length `total` -/
def headOf (pk : Packed) (total k : Nat) : Nat := total - ((pk.take (k + 1)).map objSize).sum

/-- the resolved bytes of one object whose head is at `h`; `none` = a 16-bit offset overflows -/
def resolveObj (pk : Packed) (total h : Nat) (o : LObj) : Option (List Nat) :=
  o.links.foldl (fun acc l =>
    match acc with
    | none => none
    | some bs =>
      let off := headOf pk total l.2.2 - h
      if l.2.1 = 2 then (if off > 65535 then none else some (patch bs l.1 (be16 off)))
      else some (patch bs l.1 (be32 off))) (some o.bytes)

/-- root first, then the packed objects, last packed first -/
def layout (root : LObj) (pk : Packed) : Option (List Nat) :=
  let total := objSize root + (pk.map objSize).sum
  let objs := (root, 0) :: (pk.zipIdx.reverse.map fun ok => (ok.1, headOf pk total ok.2))
  objs.foldl (fun acc oh =>
    match acc, resolveObj pk total oh.2 oh.1 with
    | some bs, some b => some (bs ++ b)
    | _, _ => none) (some [])

/-- what `subset_font` does with the table -/
inductive Outcome where
  | ok (bytes : List Nat)
  | dropped               -- table absent from the subset, `subset_font` succeeds
  | fail                  -- `subset_font` returns `Err`
  | trap
  deriving Repr, DecidableEq

/-- the bytes of a written GDEF table; `none` = a 16-bit offset overflows -/
def encodeGdef (o : GdefOut) : Option (List Nat) :=
  let r := encodeGdefObj o
  layout r.1 r.2

/-- `Gdef::subset` + lib.rs `subset`: an `Err` without serializer error omits the table; an offset
overflow (no repacker) leaves `copy_bytes` empty, which also omits it -/
def subsetGdef (p : LPlan) (g : GdefIn) : Outcome :=
  match subsetGdefSem p g with
  | .error .empty => .dropped
  | .error .soft => .dropped
  | .error .hard => .fail
  | .error .trap => .trap
  | .ok o =>
    match encodeGdef o with
    | none => .dropped
    | some bs => .ok bs

/-! ## GSUB / GPOS: `passthrough_table`

klippa has no GSUB / GPOS subsetter: `subset_table` sends both tags to `passthrough_table`, which
copies the table bytes; the subset therefore holds the ORIGINAL lookups, stated in OLD glyph ids,
old mark-filtering-set indices and old variation indices. -/

/-- `passthrough_table`: the table bytes are copied -/
def passthrough (bytes : List Nat) : List Nat := bytes

/-- a SingleSubst subtable at the level "coverage + substitute per coverage index" (format 2; a
format 1 table is the same with `substitute = glyph + delta`) -/
structure SingleSubst where
  cov : Coverage
  subst : List Nat
  deriving Repr

/-- applying the subtable to one glyph -/
def SingleSubst.apply (t : SingleSubst) (g : Nat) : Option Nat :=
  match t.cov.get g with
  | some i => t.subst[i]?
  | none => none

/-- the glyph ids the subtable is stated in -/
def SingleSubst.mentioned (t : SingleSubst) : List Nat := t.cov.glyphs ++ t.subst

/-- the glyph ids a PairPos format 1 subtable (C16's `PairPos1`) is stated in -/
def pairMentioned {V : Type} (t : PairPos1 V) : List Nat :=
  t.cov.glyphs ++ t.pairSets.flatMap (fun ps => ps.map (·.1))

end FontVerif.SubsetGdef
