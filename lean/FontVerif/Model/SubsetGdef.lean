/-
Model of klippa's GDEF subsetter (post-fix 546e1a4, 507034d, LigCaretList skip-empty fix):

  klippa/src/gdef.rs
    subset_gdef (header, version downgrade, snapshot / revert, serialisation order)
    AttachList / AttachPoint, LigCaretList / LigGlyph / CaretValue formats 1-3, MarkGlyphSets :: subset
    CollectVariationIndices for Gdef / LigCaretList / LigGlyph / CaretValue
    CollectUsedMarkSets
  klippa/src/lib.rs
    collect_layout_var_indices, remap_variation_indices, generate_varstore_inner_maps, remap_indices
    subset / try_subset (what an `Err` / a flagged serializer / an offset overflow do to the table)
    passthrough_table
  klippa/src/offset.rs, offset_array.rs
    Offset16/32::serialize_subset, serialize_serialize, ArrayOfOffsets::subset_offset
  klippa/src/serialize.rs (as far as GDEF uses it)
    push / pop_pack(share = true) / pop_discard / snapshot / revert_snapshot / add_link(Head) /
    end_serialize + resolve_links + copy_bytes
  klippa/src/variations.rs
    ItemVariationStore::subset packing order (the table logic is `SubsetHvar.subsetStore`)

The Serializer: an object under construction is its bytes plus its links; `pop_pack(true)` appends
it to the list of packed objects unless an identical object (bytes AND links) is already packed.
Objects are laid out root first, then the packed objects last-packed first; an offset is
`child.head - parent.head`.  A failed child (`pop_discard` / `revert_snapshot`) restores the packed
list and the parent's bytes: in the model the caller simply keeps its old state.  Buffer growth
(out-of-room retries) is not modelled.
-/
import FontVerif.Model.SubsetLayout
import FontVerif.Model.SubsetHvar
namespace FontVerif.SubsetGdef
open FontVerif FontVerif.Layout FontVerif.SubsetLayout

/-! ## serializer objects -/

/-- a packed object: bytes and links `(position, width in bytes, target object index)` -/
structure LObj where
  bytes : List Nat
  links : List (Nat × Nat × Nat)
  deriving Repr, DecidableEq

abbrev Packed := List LObj

/-- `pop_pack(true)` -/
def pack (pk : Packed) (o : LObj) : Packed × Nat :=
  match pk.findIdx? (· == o) with
  | some i => (pk, i)
  | none => (pk ++ [o], pk.length)

/-- serializer state seen by one `subset` call: packed objects and the current object -/
structure S where
  pk : Packed
  cur : LObj
  deriving Repr

def S.embed (s : S) (bs : List Nat) : S := { s with cur := { s.cur with bytes := s.cur.bytes ++ bs } }
def S.pos (s : S) : Nat := s.cur.bytes.length

/-- overwrite bytes at `pos` (`copy_assign`) -/
def patch (bs : List Nat) (pos : Nat) (v : List Nat) : List Nat := bs.take pos ++ v ++ bs.drop (pos + v.length)

def S.assign (s : S) (pos : Nat) (v : List Nat) : S := { s with cur := { s.cur with bytes := patch s.cur.bytes pos v } }

/-- a `subset` / `serialize` implementation run on a freshly pushed object -/
abbrev Child := Packed → M (LObj × Packed)

def leaf (bs : List Nat) : Child := fun pk => pure (⟨bs, []⟩, pk)

/-- `O::serialize_subset(t, s, plan, args, pos)` / `serialize_serialize`: push, run the child,
pop_pack(share) + add_link on success; on error `pop_discard` (the caller keeps its state) -/
def linkChild (w pos : Nat) (child : Child) (s : S) : M S :=
  match child s.pk with
  | .error e => .error e
  | .ok (o, pk') =>
    let r := pack pk' o
    pure { pk := r.1, cur := { s.cur with links := s.cur.links ++ [(pos, w, r.2)] } }

/-- `array.subset_offset(idx, s, plan, args)`: snapshot, allocate the offset field, serialize_subset,
revert_snapshot on error -/
def arrayChild (w : Nat) (child : Child) (s : S) : M S :=
  linkChild w s.pos child (s.embed (List.replicate w 0))

/-! ## input tables as read-fonts presents them -/

/-- an optional sub-table behind a nullable offset -/
inductive Tbl (α : Type) where
  | absent          -- `None`
  | bad             -- `Some(Err(_))`
  | ok (t : α)
  deriving Repr

inductive CaretIn where
  | bad                                   -- `caret_values.get(idx)` is `Err`
  | f1 (bytes : List Nat)                 -- `min_table_bytes`
  | f2 (bytes : List Nat)
  | f3 (coord : Nat) (dev : Option DevIn) -- `None` = `device()` is `Err`
  deriving Repr

inductive LigIn where
  | bad
  | ok (carets : List CaretIn)
  deriving Repr

structure AttachListIn where
  cov : Option Coverage                   -- `None` = `coverage()` is `Err`
  glyphCount : Nat
  points : List (Option (List Nat))       -- per index: the AttachPoint bytes, `None` = `Err`
  deriving Repr

structure LigCaretListIn where
  cov : Option Coverage
  count : Nat
  ligs : List LigIn
  deriving Repr

structure MarkSetsIn where
  format : Nat
  sets : List (Option Coverage)           -- `None` = `Err`
  deriving Repr

structure StoreIn where
  format : Nat
  /-- `None` = `variation_region_list()` is `Err` -/
  regions : Option (Nat × List (List (Int × Int × Int)))
  subs : List SubsetHvar.SubIn
  deriving Repr

structure GdefIn where
  major : Nat
  minor : Nat
  glyphClassDef : Tbl ClassDef
  attachList : Tbl AttachListIn
  ligCaretList : Tbl LigCaretListIn
  markAttachClassDef : Tbl ClassDef
  markGlyphSets : Tbl MarkSetsIn
  varStore : Tbl StoreIn
  deriving Repr

/-! ## plan side: `collect_layout_var_indices` -/

/-- `IntSet<u32>::insert` -/
def setInsert := SubsetLayout.setInsert

/-- `LigGlyph::collect_variation_indices`: stops at the first unreadable caret value -/
def ligVarIdx : List CaretIn → List Nat → List Nat
  | [], acc => acc
  | .bad :: _, acc => acc
  | .f3 _ (some (.varIdx o i)) :: rest, acc => ligVarIdx rest (setInsert (o * 65536 + i) acc)
  | _ :: rest, acc => ligVarIdx rest acc

/-- `LigCaretList::collect_variation_indices`: `coverage.iter().zip(lig_glyphs.iter())`; an unreadable
LigGlyph ends the collection (also when its glyph is not retained) -/
def listVarIdx (p : LPlan) : List (Nat × LigIn) → List Nat → List Nat
  | [], acc => acc
  | (_, .bad) :: _, acc => acc
  | (g, .ok cs) :: rest, acc =>
    if p.glyphset.contains g then listVarIdx p rest (ligVarIdx cs acc) else listVarIdx p rest acc

/-- `gdef.collect_variation_indices(plan, &mut varidx_set)` -/
def collectVarIdx (p : LPlan) (g : GdefIn) : List Nat :=
  match g.ligCaretList with
  | .ok l =>
    match l.cov with
    | some c => listVarIdx p (c.glyphs.zip l.ligs) []
    | none => []
  | _ => []

/-- `remap_variation_indices(vardata_count, varidx_set, map)`: loop state
`(new_major, new_minor, last_major)` -/
def remapVarGo (vardataCount : Nat) : List Nat → Nat → Nat → Nat → List (Nat × Nat)
  | [], _, _, _ => []
  | v :: rest, newMajor, newMinor, lastMajor =>
    let major := v / 65536
    if major ≥ vardataCount then [] else
    let nm := if major ≠ lastMajor then (newMajor + 1, 0) else (newMajor, newMinor)
    (v, nm.1 * 65536 + nm.2) :: remapVarGo vardataCount rest nm.1 (nm.2 + 1) major

/-- `layout_varidx_delta_map` as (old, new) (the delta component is always 0) -/
def remapVarIdx (vardataCount : Nat) (set : List Nat) : List (Nat × Nat) :=
  match set with
  | [] => []
  | v0 :: _ => if vardataCount = 0 then [] else remapVarGo vardataCount set 0 0 (v0 / 65536)

/-- `generate_varstore_inner_maps`: one `IncBiMap` (its `back_map`) per source subtable -/
def innerMaps (vardataCount : Nat) (set : List Nat) : List (List Nat) :=
  if set.isEmpty ∨ vardataCount = 0 then [] else
  let used := set.takeWhile (fun v => v / 65536 < vardataCount)
  (List.range vardataCount).map fun m => (used.filter (fun v => v / 65536 = m)).map (· % 65536)

structure VarPlan where
  /-- `plan.layout_varidx_delta_map` -/
  vmap : List (Nat × Nat)
  /-- `plan.gdef_varstore_inner_maps` -/
  inner : List (List Nat)
  deriving Repr

/-- the variation part of `collect_layout_var_indices` (nothing without a readable store) -/
def varPlan (p : LPlan) (g : GdefIn) : VarPlan :=
  match g.varStore with
  | .ok st =>
    let set := collectVarIdx p g
    { vmap := remapVarIdx st.subs.length set, inner := innerMaps st.subs.length set }
  | _ => { vmap := [], inner := [] }

/-- `CollectUsedMarkSets` + `remap_indices`: `plan.used_mark_sets_map` (old, new).  The GDEF
subsetter does not read it (it drops the sets whose coverage subsets to empty). -/
def usedMarkSets (p : LPlan) (g : GdefIn) : List Nat :=
  match g.markGlyphSets with
  | .ok m =>
    let rec go : List (Option Coverage) → Nat → List Nat
      | [], _ => []
      | none :: _, _ => []
      | some c :: rest, i =>
        (if c.glyphs.any (fun x => p.glyphset.contains x) then [i] else []) ++ go rest (i + 1)
    go m.sets 0
  | _ => []

def usedMarkSetsMap (p : LPlan) (g : GdefIn) : List (Nat × Nat) :=
  (usedMarkSets p g).zipIdx

/-! ## sub-table subsetters -/

def coverageChild (p : LPlan) (c : Coverage) : Child := fun pk =>
  (subsetCoverage p c).map fun w => (⟨w.bytes, []⟩, pk)

def coverageSerializeChild (gs : List Nat) : Child := fun pk =>
  (serializeCoverage gs).map fun w => (⟨w.bytes, []⟩, pk)

/-- GDEF's class definitions: `remap_class: false, keep_empty_table: false, use_class_zero: true,
glyph_filter: None` -/
def gdefCdArgs : CdArgs := { remapClass := false, keepEmpty := false, useClassZero := true, filter := none }

def classDefChild (p : LPlan) (cd : ClassDef) : Child := fun pk =>
  (subsetClassDef p gdefCdArgs cd).map fun r => (⟨classDefBytes r.1, []⟩, pk)

/-- loop of `AttachList::subset`: state, retained new glyph ids (count = their number) -/
def attachGo (p : LPlan) (points : List (Option (List Nat))) :
    List (Nat × Nat) → S → List Nat → M (S × List Nat)
  | [], s, acc => pure (s, acc)
  | (glyph, idx) :: rest, s, acc =>
    match p.get glyph with
    | none => attachGo p points rest s acc
    | some new =>
      match points[idx]? with
      | some (some bs) =>
        match arrayChild 2 (leaf bs) s with
        | .error e => .error e
        | .ok s' => attachGo p points rest s' (acc ++ [new])
      | _ => .error .soft

/-- `AttachList::subset` -/
def attachListChild (p : LPlan) (a : AttachListIn) : Child := fun pk =>
  match a.cov with
  | none => .error .hard
  | some cov =>
    let items := (cov.glyphs.zipIdx).take (min p.numGlyphs a.glyphCount)
    match attachGo p a.points items ⟨pk, ⟨be16 0 ++ be16 0, []⟩⟩ [] with
    | .error e => .error e
    | .ok (s, retained) =>
      if retained.isEmpty then .error .empty else
      match linkChild 2 0 (coverageSerializeChild retained) (s.assign 2 (be16 retained.length)) with
      | .error e => .error e
      | .ok s' => pure (s'.cur, s'.pk)

/-- `CaretValue::subset` -/
def caretChild (vmap : List (Nat × Nat)) : CaretIn → Child
  | .bad => fun _ => .error .soft
  | .f1 bs => leaf bs
  | .f2 bs => leaf bs
  | .f3 coord dev => fun pk =>
    match dev with
    | none => .error .hard
    | some d =>
      let devChild : Child := fun pk => (subsetDevice vmap d).map fun bs => (⟨bs, []⟩, pk)
      match linkChild 2 4 devChild ⟨pk, ⟨be16 3 ++ be16 coord ++ be16 0, []⟩⟩ with
      | .error e => .error e
      | .ok s => pure (s.cur, s.pk)

def caretsGo (vmap : List (Nat × Nat)) : List CaretIn → S → M S
  | [], s => pure s
  | c :: rest, s =>
    match arrayChild 2 (caretChild vmap c) s with
    | .error e => .error e
    | .ok s' => caretsGo vmap rest s'

/-- `LigGlyph::subset`: every caret value is subset (any error aborts); no caret = `Err(EMPTY)` -/
def ligGlyphChild (vmap : List (Nat × Nat)) (carets : List CaretIn) : Child := fun pk =>
  match caretsGo vmap carets ⟨pk, ⟨be16 0, []⟩⟩ with
  | .error e => .error e
  | .ok s =>
    if carets.isEmpty then .error .empty else
    pure ((s.assign 0 (be16 carets.length)).cur, s.pk)

/-- loop of `LigCaretList::subset` (a LigGlyph that subsets to empty is skipped) -/
def ligListGo (p : LPlan) (vmap : List (Nat × Nat)) (ligs : List LigIn) :
    List (Nat × Nat) → S → List Nat → M (S × List Nat)
  | [], s, acc => pure (s, acc)
  | (glyph, idx) :: rest, s, acc =>
    match p.get glyph with
    | none => ligListGo p vmap ligs rest s acc
    | some new =>
      match ligs[idx]? with
      | some (.ok carets) =>
        match arrayChild 2 (ligGlyphChild vmap carets) s with
        | .error .empty => ligListGo p vmap ligs rest s acc
        | .error e => .error e
        | .ok s' => ligListGo p vmap ligs rest s' (acc ++ [new])
      | _ => .error .soft

/-- `LigCaretList::subset` -/
def ligCaretListChild (p : LPlan) (vmap : List (Nat × Nat)) (l : LigCaretListIn) : Child := fun pk =>
  match l.cov with
  | none => .error .hard
  | some cov =>
    let items := (cov.glyphs.zipIdx).take (min p.numGlyphs l.count)
    match ligListGo p vmap l.ligs items ⟨pk, ⟨be16 0 ++ be16 0, []⟩⟩ [] with
    | .error e => .error e
    | .ok (s, retained) =>
      if retained.isEmpty then .error .empty else
      match linkChild 2 0 (coverageSerializeChild retained) (s.assign 2 (be16 retained.length)) with
      | .error e => .error e
      | .ok s' => pure (s'.cur, s'.pk)

/-- loop of `MarkGlyphSets::subset`: a coverage that subsets to empty is skipped; returns the state
and the number of sets written -/
def markSetsGo (p : LPlan) : List (Option Coverage) → S → Nat → M (S × Nat)
  | [], s, n => pure (s, n)
  | none :: _, _, _ => .error .soft
  | some c :: rest, s, n =>
    match arrayChild 4 (coverageChild p c) s with
    | .error .empty => markSetsGo p rest s n
    | .error e => .error e
    | .ok s' => markSetsGo p rest s' (n + 1)

/-- `MarkGlyphSets::subset` -/
def markSetsChild (p : LPlan) (m : MarkSetsIn) : Child := fun pk =>
  match markSetsGo p m.sets ⟨pk, ⟨be16 m.format ++ be16 0, []⟩⟩ 0 with
  | .error e => .error e
  | .ok (s, n) =>
    if n = 0 then .error .empty else pure ((s.assign 2 (be16 n)).cur, s.pk)

def varDataGo : List Tent.SubTable → S → M S
  | [], s => pure s
  | st :: rest, s =>
    match arrayChild 4 (leaf (SubsetHvar.subBytes st)) s with
    | .error e => .error e
    | .ok s' => varDataGo rest s'

/-- `ItemVariationStore::subset(inner_maps)` as one object tree: format, region list (packed first),
count, one ItemVariationData per non-empty inner map -/
def storeChild (st : StoreIn) (inner : List (List Nat)) : Child := fun pk =>
  if inner.isEmpty then .error .empty else
  match st.regions with
  | none => .error .soft
  | some (axisCount, regions) =>
    match SubsetHvar.collectAll st.subs inner [] with
    | .error .fail => .error .hard
    | .error _ => .error .soft
    | .ok refs =>
      if (refs.filter (· < regions.length)).isEmpty then .error .empty else
      match SubsetHvar.subsetStore axisCount regions st.subs inner with
      | .error .fail => .error .hard
      | .error .trap => .error .trap
      | .error .dropped => .error .soft
      | .ok o =>
        let s0 : S := ⟨pk, ⟨be16 st.format ++ be32 0, []⟩⟩
        match linkChild 4 2 (leaf (SubsetHvar.regionListBytes o.axisCount o.regions)) s0 with
        | .error e => .error e
        | .ok s1 =>
          match varDataGo o.subs (s1.embed (be16 0)) with
          | .error e => .error e
          | .ok s2 => pure ((s2.assign 6 (be16 o.subs.length)).cur, s2.pk)

/-! ## `subset_gdef` -/

/-- one optional sub-table behind a 16-bit header offset: `(written?, state)` -/
def optChild {α : Type} (t : Tbl α) (w pos : Nat) (mk : α → Child) (s : S) : M (Bool × S) :=
  match t with
  | .absent => pure (false, s)
  | .bad => .error .soft
  | .ok x =>
    match linkChild w pos (mk x) s with
    | .ok s' => pure (true, s')
    | .error .empty => pure (false, s)
    | .error e => .error e

/-- `subset_gdef(gdef, plan, s)`: the root object and the packed objects -/
def subsetGdefObj (p : LPlan) (g : GdefIn) : M (LObj × Packed) := do
  let vp := varPlan p g
  let s0 : S := ⟨[], ⟨be16 g.major ++ be16 g.minor ++ List.replicate 8 0, []⟩⟩
  let s1 := if g.minor ≥ 2 then s0.embed (be16 0) else s0
  -- the variation store first, so that it ends up last
  let (hasStore, s2) ←
    if g.minor ≥ 3 then optChild g.varStore 4 s1.pos (fun st => storeChild st vp.inner) (s1.embed (be32 0))
    else pure (false, s1)
  -- a store that was not written: `revert_snapshot(snapshot_version2)` / nothing embedded
  let s2 := if hasStore then s2 else s1
  let (hasSets, s3) ←
    if g.minor ≥ 2 then optChild g.markGlyphSets 2 12 (markSetsChild p) s2 else pure (false, s2)
  -- downgrade
  let s4 :=
    if hasStore then s3
    else if hasSets then s3.assign 2 (be16 2)
    else { pk := s3.pk, cur := ⟨(patch s3.cur.bytes 2 (be16 0)).take 12, []⟩ }
  let (hasMac, s5) ← optChild g.markAttachClassDef 2 10 (classDefChild p) s4
  let (hasLig, s6) ← optChild g.ligCaretList 2 8 (ligCaretListChild p vp.vmap) s5
  let (hasAtt, s7) ← optChild g.attachList 2 6 (attachListChild p) s6
  let (hasCls, s8) ← optChild g.glyphClassDef 2 4 (classDefChild p) s7
  if hasCls || hasAtt || hasLig || hasMac || (decide (g.minor ≥ 2) && hasSets) || (decide (g.minor ≥ 3) && hasStore)
  then pure (s8.cur, s8.pk) else throw .empty

/-! ## `end_serialize` / `copy_bytes`: object layout and offset resolution -/

def objSize (o : LObj) : Nat := o.bytes.length

/-- head position of packed object `k` in the final buffer of total length `total` -/
def headOf (pk : Packed) (total k : Nat) : Nat := total - ((pk.take (k + 1)).map objSize).sum

/-- the resolved bytes of one object whose head is at `h`; `none` = a 16-bit offset overflows -/
def resolveObj (pk : Packed) (total h : Nat) (o : LObj) : Option (List Nat) :=
  o.links.foldl (fun acc l =>
    match acc with
    | none => none
    | some bs =>
      let off := headOf pk total l.2.2 - h
      if l.2.1 = 2 then (if off > 65535 then none else some (patch bs l.1 (be16 off)))
      else some (patch bs l.1 (be32 off))) (some o.bytes)

/-- root first, then the packed objects, last packed first -/
def layout (root : LObj) (pk : Packed) : Option (List Nat) :=
  let total := objSize root + (pk.map objSize).sum
  let objs := (root, 0) :: (pk.zipIdx.reverse.map fun ok => (ok.1, headOf pk total ok.2))
  objs.foldl (fun acc oh =>
    match acc, resolveObj pk total oh.2 oh.1 with
    | some bs, some b => some (bs ++ b)
    | _, _ => none) (some [])

/-- what `subset_font` does with the table -/
inductive Outcome where
  | ok (bytes : List Nat)
  | dropped               -- table absent from the subset, `subset_font` succeeds
  | fail                  -- `subset_font` returns `Err`
  | trap
  deriving Repr, DecidableEq

/-- `Gdef::subset` + lib.rs `subset`: an `Err` without serializer error omits the table; an offset
overflow (no repacker) leaves `copy_bytes` empty, which also omits it -/
def subsetGdef (p : LPlan) (g : GdefIn) : Outcome :=
  match subsetGdefObj p g with
  | .error .empty => .dropped
  | .error .soft => .dropped
  | .error .hard => .fail
  | .error .trap => .trap
  | .ok (root, pk) =>
    match layout root pk with
    | none => .dropped
    | some bs => .ok bs

/-- `passthrough_table`: the table bytes are copied -/
def passthrough (bytes : List Nat) : List Nat := bytes

end FontVerif.SubsetGdef
