/-
Model of IFT patch-map intersection (C19), part 2: decoding format-2 entries from their parsed
fields, and the format-1 glyph-map / feature-map intersection.

Transcribes `incremental-font-transfer/src/patchmap.rs`: `decode_format2_entries`,
`decode_format2_entry`, `format2_new_entry_id`, `compute_format2_new_entry_index`,
`decode_format2_codepoints` (bias + bound; the sparse-bit-set stream itself is C14's),
`add_intersecting_format1_patches`, `intersect_format1_glyph_map(_inner)`,
`intersect_format1_feature_map` (the two-pointer loop over requested tags × feature records and the
"all features" specialisation), `merge_intersecting_entries`, `PatchMapFormat1::is_entry_applied`.
-/
import FontVerif.Model.PatchMap
namespace FontVerif.PatchMap
open FontVerif

/-! ## format 2 -/

/-- the fields `EntryData::read` exposes for one mapping entry, plus the decoded (unbiased)
members of its sparse bit set (`none` = the stream does not decode) and its encoded size -/
structure RawEntry where
  flags : Nat
  feats : List Nat
  segs : List (Nat × Int × Int)
  childByte : Nat
  children : List Nat
  delta : Int
  fmt : Nat
  bias : Nat
  cps : Option Ranges
  size : Nat
  /-- the error `decode_format2_codepoints` returned when `cps = none`: the sparse bit set does not
  decode (`MalformedData`), or — byte level, Model/PatchMapBytes.lean — the bias does not fit
  (`OutOfBounds`) -/
  cpsErr : String := "err:Malformed:Failed_to_decode_sparse_bit_set_data_stream."
  deriving Repr, Inhabited

def RawEntry.hasFeatures (r : RawEntry) : Bool := r.flags % 2 = 1
def RawEntry.hasChildren (r : RawEntry) : Bool := r.flags / 2 % 2 = 1
def RawEntry.hasDelta (r : RawEntry) : Bool := r.flags / 4 % 2 = 1
def RawEntry.hasFormat (r : RawEntry) : Bool := r.flags / 8 % 2 = 1
/-- `CODEPOINTS_BIT_1` (0x10) and `CODEPOINTS_BIT_2` (0x20) as a number 0..3 -/
def RawEntry.cpMode (r : RawEntry) : Nat := r.flags / 16 % 4
def RawEntry.isIgnored (r : RawEntry) : Bool := r.flags / 64 % 2 = 1

structure F2Table where
  compat : Nat
  defaultFormat : Nat
  entriesOffset : Nat
  hasIdStrings : Bool
  idData : List Nat
  template : List Nat
  utf8Ok : Bool
  raws : List RawEntry
  deriving Repr, Inhabited

structure DecodeState where
  entries : List Entry
  startByte : Nat
  idCursor : List Nat
  deriving Inhabited

/-- `from_sparse_bit_set_bounded(data, bias, 0x10FFFF)` on the decoded members: add the bias, drop
everything above the bound -/
def biasAndBound (bias : Nat) (s : Ranges) : Ranges :=
  rsNorm (s.filterMap fun r =>
    let lo : Int := r.1 + (bias : Int)
    let hi : Int := min (r.2 + (bias : Int)) 1114111
    if lo ≤ hi then some (lo, hi) else none)

/-- design-space segments of one entry: `ranges.entry(tag).or_default().insert(start..=end)` -/
def decodeSegs : List (Nat × Int × Int) → List (Nat × Ranges) → Except String (List (Nat × Ranges))
  | [], acc => .ok acc
  | (tag, s, e) :: rest, acc =>
    if s > e then .error "err:Malformed:Design_space_segment_start_>_end."
    else decodeSegs rest (axUpdate tag (fun cur => rsAdd cur (s, e)) acc)

/-- `format2_new_entry_id` (+ `compute_format2_new_entry_index`) -/
def newEntryId (hasIdStrings : Bool) (raw : RawEntry) (last : Option Entry) (cursor : List Nat) :
    Except String (PatchId × List Nat) :=
  if !hasIdStrings then
    let lastIdx : Nat := match last with
      | some e => (match e.uri.id with | .num n => n | .str _ => 0)
      | none => 0
    let new : Int := (lastIdx : Int) + 1 + (if raw.hasDelta then raw.delta else 0)
    if new < 0 then .error "err:Malformed:Negative_entry_id_encountered."
    else if new > 4294967295 then
      .error "err:Malformed:Entry_index_exceeded_maximum_size_(unsigned_32_bit)."
    else .ok (.num new.toNat, cursor)
  else if !raw.hasDelta then
    let s : List Nat := match last with
      | some e => (match e.uri.id with | .str b => b | .num _ => [])
      | none => []
    .ok (.str s, cursor)
  else
    let len := raw.delta.toNat
    if cursor.length < len then .error "err:Malformed:ID_string_is_out_of_bounds."
    else .ok (.str (cursor.take len), cursor.drop len)

/-- `decode_format2_entry` -/
def decodeEntry (tag : TableTag) (t : F2Table) (defaultEnc : PatchFormat) (st : DecodeState)
    (raw : RawEntry) : Except String DecodeState := do
  let bit := st.startByte * 8 + 6
  -- features
  let feats : FeatureSet := if raw.hasFeatures then .set (tagsNorm raw.feats) else .set []
  -- child indices
  let maxIndex := st.entries.length
  if raw.hasChildren && raw.children.any (fun i => decide (i ≥ maxIndex)) then
    throw "err:Malformed:Child_index_must_refer_to_only_prior_entries."
  let children := if raw.hasChildren then raw.children else []
  let conj := raw.hasChildren && decide (raw.childByte / 128 % 2 = 1)
  -- design space
  let axes ← if raw.hasFeatures then decodeSegs raw.segs [] else pure []
  -- entry id
  let (id, cursor) ← newEntryId t.hasIdStrings raw st.entries.getLast? st.idCursor
  -- encoding
  let enc ← if raw.hasFormat then
      (match PatchFormat.ofNumber raw.fmt with
       | some f => pure f
       | none => throw "err:Malformed:Invalid_format_number.")
    else pure defaultEnc
  -- codepoints
  let cps ← if raw.cpMode = 0 then pure ([] : Ranges) else
      (match raw.cps with
       | none => throw raw.cpsErr
       | some s => pure (biasAndBound (if raw.cpMode = 1 then 0 else raw.bias) s))
  let entry : Entry :=
    { sd := { cps := cps, feats := feats, ds := .ranges axes }
      children := children
      conj := conj
      ignored := raw.isIgnored
      uri := { template := t.template, id := id, enc := enc, table := tag, compat := t.compat,
               bit := bit, info := IntersectionInfo.zero } }
  pure { entries := st.entries ++ [entry], startByte := st.startByte + raw.size, idCursor := cursor }

def decodeEntries (tag : TableTag) (t : F2Table) (defaultEnc : PatchFormat) :
    DecodeState → List RawEntry → Except String DecodeState
  | st, [] => .ok st
  | st, r :: rs =>
    match decodeEntry tag t defaultEnc st r with
    | .error e => .error e
    | .ok st' => decodeEntries tag t defaultEnc st' rs

/-- `decode_format2_entries` -/
def decodeF2 (tag : TableTag) (t : F2Table) : Except String (List Entry) :=
  if !t.utf8Ok then .error "err:Malformed:Invalid_UTF8_encoding_for_uri_template." else
  match PatchFormat.ofNumber t.defaultFormat with
  | none => .error "err:Malformed:Invalid_format_number."
  | some enc =>
    match decodeEntries tag t enc ⟨[], t.entriesOffset, t.idData⟩ t.raws with
    | .error e => .error e
    | .ok st => .ok st.entries

/-- `add_intersecting_format2_patches` on a table -/
def intersectF2 (tag : TableTag) (t : F2Table) (d : SubsetDef) : Except String (List PatchUri) :=
  match decodeF2 tag t with
  | .error e => .error e
  | .ok es => .ok (offeredF2 es d)

/-! ## format 1 -/

structure FeatRec where
  tag : Nat
  firstNew : Nat
  count : Nat
  deriving Repr, Inhabited, DecidableEq

structure F1Table where
  compat : Nat
  maxEntry : Nat
  maxGm : Nat
  glyphCount : Nat
  maxpGlyphs : Nat
  /-- byte offset of the applied-entries bitmap inside the table -/
  bitmapStart : Nat
  bitmap : List Nat
  template : List Nat
  utf8Ok : Bool
  patchFormat : Nat
  firstGid : Nat
  entryIndex : List Nat
  hasFeatureMap : Bool
  featRecs : List FeatRec
  /-- `(first_entry_index, last_entry_index)` records that fit completely in `entry_map_data` -/
  entryMaps : List (Nat × Nat)
  /-- byte length of `entry_map_data` -/
  entryMapBytes : Nat
  /-- `charmap.mappings()`: (codepoint, glyph id), ascending codepoints -/
  cmap : List (Nat × Nat)
  deriving Repr, Inhabited

/-- `BTreeMap<u16, SubsetDefinition>` as an index-sorted association list:
`entries.entry(k).or_default()` then `f` -/
def emUpdate (k : Nat) (f : SubsetDef → SubsetDef) : List (Nat × SubsetDef) → List (Nat × SubsetDef)
  | [] => [(k, f SubsetDef.empty)]
  | (i, s) :: rest =>
    if k < i then (k, f SubsetDef.empty) :: (i, s) :: rest
    else if k = i then (i, f s) :: rest
    else (i, s) :: emUpdate k f rest

/-- `intersect_format1_glyph_map_inner` -/
def glyphMapLoop (t : F1Table) (record : Bool) :
    List (Nat × Nat) → List (Nat × SubsetDef) → Except String (List (Nat × SubsetDef))
  | [], acc => .ok acc
  | (cp, gid) :: rest, acc =>
    if gid < t.firstGid then
      -- entry 0 (never above max_glyph_map_entry_index)
      glyphMapLoop t record rest
        (emUpdate 0 (fun s => if record then { s with cps := rsAdd s.cps ((cp : Int), (cp : Int)) } else s) acc)
    else
      match t.entryIndex[gid - t.firstGid]? with
      | none => .error "err:OutOfBounds"
      | some ei =>
        if ei > t.maxGm then glyphMapLoop t record rest acc
        else glyphMapLoop t record rest
          (emUpdate ei (fun s => if record then { s with cps := rsAdd s.cps ((cp : Int), (cp : Int)) } else s) acc)

/-- `merge_intersecting_entries` -/
def mergeIntersecting (record : Bool) (first last mapped tag : Nat)
    (entries : List (Nat × SubsetDef)) : List (Nat × SubsetDef) :=
  let inRange := entries.filter fun (p : Nat × SubsetDef) => decide (first ≤ p.1) && decide (p.1 ≤ last)
  if inRange.isEmpty then entries else
  let merged : SubsetDef :=
    if record then
      let m := inRange.foldl (fun (acc : SubsetDef) (p : Nat × SubsetDef) => acc.union p.2) SubsetDef.empty
      { m with feats := m.feats.extend [tag] }
    else SubsetDef.empty
  emUpdate mapped (fun s => s.union merged) entries

/-- the inner `for i in 0..entry_count` loop for one selected feature record -/
def entryMapLoop (t : F1Table) (record : Bool) (r : FeatRec) (cum : Nat) :
    List Nat → List (Nat × SubsetDef) → Except String (List (Nat × SubsetDef))
  | [], acc => .ok acc
  | i :: is, acc =>
    let index := i + cum
    -- `entry_map_data().get(byte_index..)` + `EntryMapRecord::read`: the record must fit
    match t.entryMaps[index]? with
    | none => .error "err:OutOfBounds"
    | some (first, last) =>
      let mapped := r.firstNew + i
      if first > last || first > t.maxGm || last > t.maxGm || mapped ≤ t.maxGm || mapped > t.maxEntry
      then entryMapLoop t record r cum is acc
      else entryMapLoop t record r cum is (mergeIntersecting record first last mapped r.tag acc)

/-- the records the two-pointer loop selects for an explicit tag set, with the running
`cumulative_entry_map_count` at which each one starts -/
def featLoopSet : List Nat → List FeatRec → Nat → Option Nat → List (FeatRec × Nat)
  | [], _, _, _ => []
  | _ :: _, [], _, _ => []
  | t :: ts, r :: rs, cum, largest =>
    if t > r.tag then featLoopSet (t :: ts) rs (cum + r.count) largest
    else if (match largest with | some l => decide (t ≤ l) | none => false) then
      featLoopSet ts (r :: rs) cum largest
    else if t < r.tag then featLoopSet ts (r :: rs) cum (some t)
    else (r, cum) :: featLoopSet (t :: ts) rs (cum + r.count) (some t)
termination_by ts rs => ts.length + rs.length

/-- the "all features" specialisation -/
def featLoopAll : List FeatRec → Nat → Option Nat → List (FeatRec × Nat)
  | [], _, _ => []
  | r :: rs, cum, largest =>
    if (match largest with | some l => decide (r.tag ≤ l) | none => false) then
      featLoopAll rs (cum + r.count) largest
    else (r, cum) :: featLoopAll rs (cum + r.count) (some r.tag)

def processSelected (t : F1Table) (record : Bool) :
    List (FeatRec × Nat) → List (Nat × SubsetDef) → Except String (List (Nat × SubsetDef))
  | [], acc => .ok acc
  | (r, cum) :: rest, acc =>
    match entryMapLoop t record r cum (List.range r.count) acc with
    | .error e => .error e
    | .ok acc' => processSelected t record rest acc'

/-- `FeatureMap::entry_records_size` -/
def entryRecordsSize (t : F1Table) : Nat :=
  let fieldWidth := if t.maxEntry < 256 then 1 else 2
  t.featRecs.foldl (fun acc r => acc + r.count * fieldWidth * 2) 0

/-- `intersect_format1_feature_map` -/
def featureMap (t : F1Table) (record : Bool) (feats : FeatureSet)
    (entries : List (Nat × SubsetDef)) : Except String (List (Nat × SubsetDef)) :=
  if !t.hasFeatureMap then .ok entries else
  if entryRecordsSize t > t.entryMapBytes then .error "err:OutOfBounds" else
  let selected := match feats with
    | .all => featLoopAll t.featRecs 0 none
    | .set tags => featLoopSet tags t.featRecs 0 none
  processSelected t record selected entries

/-- `PatchMapFormat1::is_entry_applied` -/
def isEntryApplied (bitmap : List Nat) (index : Nat) : Bool :=
  match bitmap[index / 8]? with
  | some byte => byte / 2 ^ (index % 8) % 2 = 1
  | none => false

/-- `add_intersecting_format1_patches` -/
def intersectF1 (tag : TableTag) (t : F1Table) (d : SubsetDef) : Except String (List PatchUri) :=
  if t.glyphCount ≠ t.maxpGlyphs then
    .error "err:Malformed:IFT_glyph_count_must_match_maxp_glyph_count." else
  if t.maxGm > t.maxEntry then
    .error "err:Malformed:max_glyph_map_entry_index()_must_be_>=_max_entry_index()." else
  if !t.utf8Ok then .error "err:Malformed:Invalid_unicode_string_for_the_uri_template." else
  match PatchFormat.ofNumber t.patchFormat with
  | none => .error "err:Malformed:Invalid_format_number."
  | some enc =>
    let record := enc.isInvalidating
    let pairs := t.cmap.filter fun (p : Nat × Nat) => rMem (p.1 : Int) d.cps
    match glyphMapLoop t record pairs [] with
    | .error e => .error e
    | .ok gm =>
      match featureMap t record d.feats gm with
      | .error e => .error e
      | .ok entries =>
        .ok ((entries.filter fun (p : Nat × SubsetDef) =>
                decide (p.1 > 0) && !isEntryApplied t.bitmap p.1).map fun (p : Nat × SubsetDef) =>
          { template := t.template, id := .num p.1, enc := enc, table := tag, compat := t.compat,
            bit := t.bitmapStart * 8 + p.1,
            info := if record then IntersectionInfo.fromSubset p.2 p.1 else IntersectionInfo.zero })

/-! ## a font's mapping tables -/

inductive MapTable where
  | none
  | f1 (t : F1Table)
  | f2 (t : F2Table)
  deriving Inhabited

def intersectTable (tag : TableTag) (d : SubsetDef) : MapTable → Except String (List PatchUri)
  | .none => .ok []
  | .f1 t => intersectF1 tag t d
  | .f2 t => intersectF2 tag t d

/-- `intersecting_patches`: 'IFT ' first, then 'IFTX' -/
def intersectingPatches (ift iftx : MapTable) (d : SubsetDef) : Except String (List PatchUri) :=
  match intersectTable .ift d ift with
  | .error e => .error e
  | .ok a =>
    match intersectTable .iftx d iftx with
    | .error e => .error e
    | .ok b => .ok (a ++ b)

end FontVerif.PatchMap
