/-
The iterator STATE MACHINES of `read-fonts/src/collections/int_set/{bitpage.rs, bitset.rs}` over
the concrete representation (`CPage` = `[u64; 8]` + cached length, `CBitSet` = `pages` +
`page_map`), transcribed field by field and branch by branch:

  (A) bitpage.rs `RangeIter { page, next_value_to_check }`: `next_range_in_element`, `next`
  (B) bitset.rs  `BitSetRangeIter { set, page_info_index, page_iter }`: `new`, `page_iter`,
      `move_to_next_page`, `reset_page_iter`, `next_range`, `next`
  (C) bitset.rs  `BitSet::iter` (`iter_pages` / `iter_non_empty_pages`), `BitSet::iter_after`,
      bitpage.rs `BitPage::iter` / `BitPage::iter_after`

Each machine is `State` + `next : State → Option Item × State`; the Rust `loop { … continue …
break }` bodies are fuel-bounded recursions (`nextLoop`), the fuel being the number of elements /
map entries that can still be visited (+1); `collect` runs a machine to exhaustion.  That the
fuels suffice and what the machines yield is proved in `Lemmas/IntSetIterConc.lean`.

All `u32` values are `Nat` here.  The only additions that could overflow a `u32` are
`range.end() + 1` in `BitSetRangeIter::next` (reached only when `range.end() == page_end`, and
evaluated only after a continuation range was found on a LATER map entry, i.e. when `page_end` is
not `u32::MAX`) and `r.end() + page_start` (`≤ major_end ≤ u32::MAX`); the values are transcribed
as naturals.
-/
import FontVerif.Model.BitSetConc
namespace FontVerif.IntSet

/-! ## `u64::trailing_zeros` / `u64::trailing_ones` -/

/-- the first index `i ≤ j < i + fuel` with `p j`, else `i + fuel` -/
def firstIdx (p : Nat → Bool) : Nat → Nat → Nat
  | 0, i => i
  | fuel + 1, i => if p i then i else firstIdx p fuel (i + 1)

/-- `u64::trailing_zeros`: index of the lowest set bit, `64` for `0` -/
def tzcnt64 (x : Nat) : Nat := firstIdx (fun i => x.testBit i) 64 0

/-- `u64::trailing_ones`: index of the lowest clear bit, `64` for `u64::MAX` -/
def tocnt64 (x : Nat) : Nat := firstIdx (fun i => !x.testBit i) 64 0

/-! ## (A) bitpage.rs `RangeIter` -/

/-- `RangeIter { page: &BitPage, next_value_to_check: u32 }` -/
structure PRangeIter where
  page : CPage
  nvtc : Nat
deriving Repr, DecidableEq, Inhabited

/-- `BitPage::iter_ranges` -/
def CPage.iterRanges (p : CPage) : PRangeIter := ⟨p, 0⟩

/-- `value & !ELEM_MASK` on a `u32` -/
def elemFloor (v : Nat) : Nat := v / 64 * 64

/-- `RangeIter::next_range_in_element`:
`mask = !((1 << element_bit) - 1)`, `range_start = (element & mask).trailing_zeros()`,
`range_start == ELEM_BITS` → `None`; `mask = (1 << range_start) - 1`,
`range_end = (element | mask).trailing_ones() - 1`. -/
def PRangeIter.nextRangeInElement (it : PRangeIter) : Option (Nat × Nat) :=
  if it.nvtc ≥ PAGE_BITS then none
  else
    let element := it.page.element it.nvtc
    let elementBit := it.nvtc % 64
    let major := elemFloor it.nvtc
    let mask := not64 (shl64 1 elementBit - 1)
    let rangeStart := tzcnt64 (element &&& mask)
    if rangeStart = ELEM_BITS then none
    else
      let mask := shl64 1 rangeStart - 1
      let rangeEnd := tocnt64 (element ||| mask) - 1
      some (major + rangeStart, major + rangeEnd)

/-- the `loop` of `RangeIter::next`; loop state = (`current_range`, `self`).  Every `continue`
moves `next_value_to_check` into the next element, so 9 iterations suffice (fuel `0` is
unreachable from `next`: `Lemmas/IntSetIterConc.lean`, `pnextLoop_spec`). -/
def PRangeIter.nextLoop : Nat → Option (Nat × Nat) → PRangeIter → Option (Nat × Nat) × PRangeIter
  | 0, _, it => (none, it)
  | fuel + 1, cur, it =>
    let elementEnd := elemFloor it.nvtc + ELEM_BITS - 1
    match cur with
    | none =>
      -- No more ranges in the current element, move to the next one.
      let it1 : PRangeIter := { it with nvtc := elementEnd + 1 }
      if it1.nvtc < PAGE_BITS then PRangeIter.nextLoop fuel it1.nextRangeInElement it1
      else (none, it1)
    | some range =>
      let it1 : PRangeIter := { it with nvtc := range.2 + 1 }
      if range.2 = elementEnd then
        match it1.nextRangeInElement with
        | some continuation =>
          if continuation.1 = elementEnd + 1 then
            PRangeIter.nextLoop fuel (some (range.1, continuation.2)) it1
          else (some range, it1)
        | none => (some range, it1)
      else (some range, it1)

/-- `impl Iterator for RangeIter`: `next` -/
def PRangeIter.next (it : PRangeIter) : Option (Nat × Nat) × PRangeIter :=
  PRangeIter.nextLoop 9 it.nextRangeInElement it

/-- run a page `RangeIter` until it returns `None` (at most `fuel` items) -/
def PRangeIter.collect : Nat → PRangeIter → List (Nat × Nat)
  | 0, _ => []
  | fuel + 1, it =>
    match it.next with
    | (none, _) => []
    | (some r, it') => r :: PRangeIter.collect fuel it'

/-- `page.iter_ranges().collect()` (a page has at most 512 members, hence fewer than 513 ranges) -/
def CPage.ranges (p : CPage) : List (Nat × Nat) := PRangeIter.collect (PAGE_BITS + 1) p.iterRanges

/-! ## (B) bitset.rs `BitSetRangeIter` -/

/-- `BitSetRangeIter { set, page_info_index, page_iter: Option<RangeIter> }` -/
structure SRangeIter where
  set : CBitSet
  pageInfoIndex : Nat
  pageIter : Option PRangeIter
deriving Repr, DecidableEq, Inhabited

/-- `BitSetRangeIter::page_iter(set, page_info_index)`:
`set.page_map.get(i).map(|pi| pi.index).and_then(|index| set.pages.get(index)).map(iter_ranges)` -/
def SRangeIter.pageIterAt (s : CBitSet) (i : Nat) : Option PRangeIter :=
  ((s.pageMap[i]?).bind (fun pi => s.pages[pi.2]?)).map CPage.iterRanges

/-- `BitSetRangeIter::new` -/
def SRangeIter.new (s : CBitSet) : SRangeIter := ⟨s, 0, SRangeIter.pageIterAt s 0⟩

/-- `reset_page_iter` -/
def SRangeIter.resetPageIter (it : SRangeIter) : SRangeIter :=
  { it with pageIter := SRangeIter.pageIterAt it.set it.pageInfoIndex }

/-- `move_to_next_page` → (`self.page_iter.is_some()`, self) -/
def SRangeIter.moveToNextPage (it : SRangeIter) : Bool × SRangeIter :=
  let it1 := SRangeIter.resetPageIter { it with pageInfoIndex := it.pageInfoIndex + 1 }
  (it1.pageIter.isSome, it1)

/-- `next_range`: `page_map.get(page_info_index)?`, `page_iter.as_mut()?.next()` shifted by
`major_start(page.major_value)` -/
def SRangeIter.nextRange (it : SRangeIter) : Option (Nat × Nat) × SRangeIter :=
  match it.set.pageMap[it.pageInfoIndex]? with
  | none => (none, it)
  | some page =>
    let pageStart := majorStart page.1
    match it.pageIter with
    | none => (none, it)
    | some pit =>
      let r := pit.next
      (r.1.map (fun x => (x.1 + pageStart, x.2 + pageStart)), { it with pageIter := some r.2 })

/-- the `loop` of `BitSetRangeIter::next`; loop state = (`current_range`, `self`).  Every
`continue` follows a `move_to_next_page`, so `page_map.len() - page_info_index + 1` iterations
suffice. -/
def SRangeIter.nextLoop : Nat → Option (Nat × Nat) → SRangeIter → Option (Nat × Nat) × SRangeIter
  | 0, _, it => (none, it)
  | fuel + 1, cur, it =>
    match it.set.pageMap[it.pageInfoIndex]? with
    | none => (none, it)
    | some page =>
      -- `major_end`
      let pageEnd := majorStart page.1 + (PAGE_BITS - 1)
      match cur with
      | none =>
        -- The current page has no more ranges, but there may be more pages.
        let m := it.moveToNextPage
        if !m.1 then (none, m.2)
        else
          let r := m.2.nextRange
          SRangeIter.nextLoop fuel r.1 r.2
      | some range =>
        if range.2 ≠ pageEnd then (some range, it)
        else
          -- The range goes right to the end of the current page and may continue into it.
          let m := it.moveToNextPage
          let r := m.2.nextRange
          match r.1 with
          | none => (some range, r.2)
          | some continuation =>
            if continuation.1 = range.2 + 1 then
              SRangeIter.nextLoop fuel (some (range.1, continuation.2)) r.2
            else
              -- Continuation range does not touch the current range … reset the page iterator.
              (some range, r.2.resetPageIter)

/-- `impl Iterator for BitSetRangeIter`: `next` (`self.page_iter.as_ref()?` first) -/
def SRangeIter.next (it : SRangeIter) : Option (Nat × Nat) × SRangeIter :=
  match it.pageIter with
  | none => (none, it)
  | some _ =>
    let r := it.nextRange
    SRangeIter.nextLoop (it.set.pageMap.length + 1) r.1 r.2

/-- run a `BitSetRangeIter` until it returns `None` (at most `fuel` items) -/
def SRangeIter.collect : Nat → SRangeIter → List (Nat × Nat)
  | 0, _ => []
  | fuel + 1, it =>
    match it.next with
    | (none, _) => []
    | (some r, it') => r :: SRangeIter.collect fuel it'

/-- `BitSet::iter_ranges().collect()` (every mapped page contributes at most 512 members) -/
def CBitSet.iterRanges (s : CBitSet) : List (Nat × Nat) :=
  SRangeIter.collect (PAGE_BITS * s.pageMap.length + 1) (SRangeIter.new s)

/-! ## (C) `BitPage::iter`, `BitPage::iter_after`, `BitSet::iter`, `BitSet::iter_after`

The innermost `Iter { val, forward_index, backward_index }` over one `u64` is transcribed as a
machine elsewhere; here it is the ascending list of the set bits with index `≥ from`
(`Iter::new(elem)` = from 0, `Iter::from(elem, index)` = from `index`, `index ≤ 64`).  The std
adaptors (`enumerate`, `filter`, `flat_map`, `map`, `chain`, `Option::into_iter`) are modelled by
the sequence they produce front to back.  `DoubleEndedIterator` (`BitSet::iter` only) is modelled
as a deque over that sequence (`DEIter`): `next` pops the front, `next_back` pops the back, both
return `None` once they meet — the std contract of the adaptors, given that `Iter` honours it
(`forward_index > backward_index` checks). -/

/-- items of `Iter::from(elem, from)` (and `Iter::new(elem)` for `from = 0`), front to back -/
def elemIterFrom (elem from_ : Nat) : List Nat :=
  (List.range 64).filter (fun i => decide (from_ ≤ i) && elem.testBit i)

/-- `BitPage::iter`: `storage.iter().enumerate().filter(|(_, elem)| **elem != 0).flat_map(|(i,
elem)| Iter::new(*elem).map(move |idx| i * ELEM_BITS + idx))` -/
def CPage.iterL (p : CPage) : List Nat :=
  (p.elems.zipIdx.filter (fun ei => ei.1 != 0)).flatMap
    (fun ei => (elemIterFrom ei.1 0).map (fun idx => ei.2 * ELEM_BITS + idx))

/-- `BitPage::iter_after(value)`: `storage[start_index..]`, the element at `start_index` is
iterated from `(value & ELEM_MASK) + 1`, the later ones from 0 -/
def CPage.iterAfterL (p : CPage) (value : Nat) : List Nat :=
  let startIndex := elementIndex value
  (((p.elems.drop startIndex).zipIdx).filter (fun ei => ei.1 != 0)).flatMap
    (fun ei =>
      let i := ei.2 + startIndex
      let base := i * ELEM_BITS
      let indexInElem := value % 64
      let it := if startIndex = i then elemIterFrom ei.1 (indexInElem + 1) else elemIterFrom ei.1 0
      it.map (fun idx => base + idx))

/-- `BitSet::iter_pages`: `page_map.iter().flat_map(|info| pages.get(info.index).map(|page|
(info.major_value, page)))` -/
def CBitSet.iterPages (s : CBitSet) : List (Nat × CPage) :=
  s.pageMap.filterMap (fun info => (s.pages[info.2]?).map (fun page => (info.1, page)))

/-- `BitSet::iter_non_empty_pages`: `.filter(|(_, page)| !page.is_empty())` — the CACHED length -/
def CBitSet.iterNonEmptyPages (s : CBitSet) : List (Nat × CPage) :=
  s.iterPages.filter (fun mp => !mp.2.isEmpty)

/-- `BitSet::iter`, front to back -/
def CBitSet.iter (s : CBitSet) : List Nat :=
  s.iterNonEmptyPages.flatMap (fun mp => mp.2.iterL.map (fun v => majorStart mp.1 + v))

/-- `BitSet::iter_after(value)`, front to back: `binary_search_by` → `Ok(i)`: partial first page
`pages[page_map[i].index].iter_after(value)` then the entries from `i + 1`; `Err(i)`: the entries
from `i`; follow-on pages filtered by `!is_empty()` -/
def CBitSet.iterAfter (s : CBitSet) (value : Nat) : List Nat :=
  let r := searchMap s.pageMap (majorOf value)
  let pageMapIndex := r.2
  let partialFirstPage := r.1
  let page := (s.pageMap[pageMapIndex]?).bind (fun info => (s.pages[info.2]?).map (fun p => (p, info.1)))
  let initIt := ((page.filter (fun _ => partialFirstPage)).toList).flatMap
    (fun pm => (pm.1.iterAfterL value).map (fun v => majorStart pm.2 + v))
  let followOnIndex := if partialFirstPage then pageMapIndex + 1 else pageMapIndex
  let followOnIt :=
    (((s.pageMap.drop followOnIndex).filterMap
        (fun info => (s.pages[info.2]?).map (fun page => (info.1, page)))).filter
        (fun mp => !mp.2.isEmpty)).flatMap
      (fun mp => mp.2.iterL.map (fun v => majorStart mp.1 + v))
  initIt ++ followOnIt

/-- a `DoubleEndedIterator` as the deque of the items it has not yielded yet -/
structure DEIter where
  rest : List Nat
deriving Repr, DecidableEq, Inhabited

/-- `Iterator::next` -/
def DEIter.next (it : DEIter) : Option Nat × DEIter :=
  match it.rest with
  | [] => (none, it)
  | x :: xs => (some x, ⟨xs⟩)

/-- `DoubleEndedIterator::next_back` -/
def DEIter.nextBack (it : DEIter) : Option Nat × DEIter :=
  match it.rest.getLast? with
  | none => (none, it)
  | some x => (some x, ⟨it.rest.dropLast⟩)

/-- run a schedule (`false` = `next`, `true` = `next_back`); result = (items from the front in
call order, items from the back in call order, final iterator); `None` results yield nothing -/
def DEIter.run : List Bool → DEIter → List Nat × List Nat × DEIter
  | [], it => ([], [], it)
  | false :: sched, it =>
    let r := it.next
    let t := DEIter.run sched r.2
    (r.1.toList ++ t.1, t.2.1, t.2.2)
  | true :: sched, it =>
    let r := it.nextBack
    let t := DEIter.run sched r.2
    (t.1, r.1.toList ++ t.2.1, t.2.2)

/-- `set.iter()` as a double-ended iterator -/
def CBitSet.deIter (s : CBitSet) : DEIter := ⟨s.iter⟩

/-- `set.iter().rev().collect()` -/
def CBitSet.iterRev (s : CBitSet) : List Nat :=
  (DEIter.run (List.replicate (s.iter.length + 1) true) s.deIter).2.1

end FontVerif.IntSet
