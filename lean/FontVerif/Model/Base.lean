/-
Base helpers shared by every model: machine-integer wrapping as plain `Int`
arithmetic with literal moduli (so `omega` can reason about them), and the
parsing helpers of the driver's line protocol.  No imports: the driver is a
`lean_exe`.
-/
namespace FontVerif

/-! ## machine integers as `Int` with literal moduli -/

def wrapU8 (x : Int) : Int := x % 256
def wrapU16 (x : Int) : Int := x % 65536
def wrapU24 (x : Int) : Int := x % 16777216
def wrapU32 (x : Int) : Int := x % 4294967296
def wrapU64 (x : Int) : Int := x % 18446744073709551616

def wrapI8 (x : Int) : Int :=
  let m := x % 256; if m < 128 then m else m - 256
def wrapI16 (x : Int) : Int :=
  let m := x % 65536; if m < 32768 then m else m - 65536
def wrapI32 (x : Int) : Int :=
  let m := x % 4294967296; if m < 2147483648 then m else m - 4294967296
def wrapI64 (x : Int) : Int :=
  let m := x % 18446744073709551616
  if m < 9223372036854775808 then m else m - 18446744073709551616

def inU8 (x : Int) : Prop := 0 ≤ x ∧ x < 256
def inU16 (x : Int) : Prop := 0 ≤ x ∧ x < 65536
def inU24 (x : Int) : Prop := 0 ≤ x ∧ x < 16777216
def inU32 (x : Int) : Prop := 0 ≤ x ∧ x < 4294967296
def inI8 (x : Int) : Prop := -128 ≤ x ∧ x < 128
def inI16 (x : Int) : Prop := -32768 ≤ x ∧ x < 32768
def inI32 (x : Int) : Prop := -2147483648 ≤ x ∧ x < 2147483648
def inI64 (x : Int) : Prop := -9223372036854775808 ≤ x ∧ x < 9223372036854775808

instance (x : Int) : Decidable (inU8 x) := by unfold inU8; infer_instance
instance (x : Int) : Decidable (inU16 x) := by unfold inU16; infer_instance
instance (x : Int) : Decidable (inU24 x) := by unfold inU24; infer_instance
instance (x : Int) : Decidable (inU32 x) := by unfold inU32; infer_instance
instance (x : Int) : Decidable (inI8 x) := by unfold inI8; infer_instance
instance (x : Int) : Decidable (inI16 x) := by unfold inI16; infer_instance
instance (x : Int) : Decidable (inI32 x) := by unfold inI32; infer_instance
instance (x : Int) : Decidable (inI64 x) := by unfold inI64; infer_instance

def I32_MIN : Int := -2147483648
def I32_MAX : Int := 2147483647

/-- `|x|` as Rust's `unsigned_abs` (total). -/
def iabs (x : Int) : Int := if x < 0 then -x else x

/-- Exact value `p / d` (with `d > 0`) rounded to the nearest integer, ties away from zero. -/
def roundHalfAway (p d : Int) : Int :=
  if p < 0 then -((2 * (-p) + d) / (2 * d)) else (2 * p + d) / (2 * d)

/-! ## line protocol helpers -/

def parseInt? (s : String) : Option Int := s.toInt?

def parseInts? (ss : List String) : Option (List Int) := ss.mapM parseInt?

def parseNat? (s : String) : Option Nat := s.toNat?

def parseNats? (ss : List String) : Option (List Nat) := ss.mapM parseNat?

def hexDigit? (c : Char) : Option Nat :=
  if '0' ≤ c ∧ c ≤ '9' then some (c.toNat - '0'.toNat)
  else if 'a' ≤ c ∧ c ≤ 'f' then some (c.toNat - 'a'.toNat + 10)
  else if 'A' ≤ c ∧ c ≤ 'F' then some (c.toNat - 'A'.toNat + 10)
  else none

/-- Parse a hex string ("-" = empty) into bytes. -/
def parseHex? (s : String) : Option (List Nat) :=
  if s = "-" then some [] else
  let rec go : List Char → List Nat → Option (List Nat)
    | [], acc => some acc.reverse
    | [_], _ => none
    | a :: b :: rest, acc =>
      match hexDigit? a, hexDigit? b with
      | some x, some y => go rest ((x * 16 + y) :: acc)
      | _, _ => none
  go s.toList []

def hexChar (n : Nat) : Char :=
  if n < 10 then Char.ofNat (n + '0'.toNat) else Char.ofNat (n - 10 + 'a'.toNat)

def toHex (bs : List Nat) : String :=
  if bs.isEmpty then "-" else
  String.ofList (bs.foldr (fun b acc => hexChar (b / 16 % 16) :: hexChar (b % 16) :: acc) [])

def joinInts (xs : List Int) : String :=
  if xs.isEmpty then "-" else " ".intercalate (xs.map toString)

def joinNats (xs : List Nat) : String :=
  if xs.isEmpty then "-" else " ".intercalate (xs.map toString)

/-- big-endian bytes of the low `n` bytes of a non-negative value -/
def beBytes (n : Nat) (v : Nat) : List Nat :=
  (List.range n).map (fun i => v / 256 ^ (n - 1 - i) % 256)

def beValue (bs : List Nat) : Nat := bs.foldl (fun acc b => acc * 256 + b) 0

end FontVerif
