/-
C18 — glyph-keyed patching of `gvar` (the `Gvar::TAG` arm of the font-level loop in Model/GlyphKeyed.lean).

Transcribes incremental-font-transfer/src/glyph_keyed.rs
  `impl GlyphDataOffsetArray for Gvar` (`offset_type`, `available_offset_types`, `offset_for`,
  `all_offsets_are_ascending`, `get`, `add_to_font`) and the `Gvar::TAG` arm of
  `apply_glyph_keyed_patches` (`font.gvar()` → `patch_offset_array(Gvar::TAG, …)`),
read-fonts generated `Gvar::read`, `Gvar::shared_tuples` (`Offset32::resolve_with_args`,
  `SharedTuples::read_with_args`), gvar.rs `U16Or32`, `glyph_variation_data_for_range`.

`gvarPatch gvar gps maxGid` = the new gvar table bytes `apply_glyph_keyed_patches` adds to the font
builder for the patches `gps` (in application order), or the error it returns.

klippa::Serializer in `add_to_font` (after fix ed6e27b: capacity = orig + offsets + data): main
object = header + offsets; the glyph data object is packed first (sits at the very end), the shared
tuples object second (just before it); both offsets are links from the table start.  A zero-sized
object cannot be packed: `pop_pack` returns None and the code answers `SerializationError(NONE)`.

ASSUMPTION (harness keeps to it): `glyphVariationDataArrayOffset ≤ table length` (for a larger value
`glyph_variation_data_for_range` fails even for empty ranges, the model only for non-empty ones).
-/
import FontVerif.Model.GlyphSplice
namespace FontVerif.Ift

structure GvarView where
  axisCount : Nat
  sharedTupleCount : Nat
  sharedTuplesOffset : Nat
  glyphCount : Nat
  long : Bool
  arrayOffset : Nat
  /-- `glyph_variation_data_offsets()`, `U16Or32::get` (short entries already ×2) -/
  offsets : List Nat
  deriving Repr

def GvarView.width (v : GvarView) : Nat := if v.long then 4 else 2

/-- `U16Or32::get` over the whole array -/
def gvarOffsets (long : Bool) (raw : List Nat) : List Nat := if long then raw else raw.map (· * 2)

def gvarWidth (long : Bool) : Nat := if long then 4 else 2

/-- `Gvar::read`: glyph_count and flags are read, then the offsets array must fit -/
def gvarRead (b : Bytes) : Option GvarView :=
  if b.length < 16 then none
  else if b.length < 20 + (beValue (sliceLen b 12 2) + 1) * gvarWidth (beValue (sliceLen b 14 2) % 2 == 1) then none
  else
    some { axisCount := beValue (sliceLen b 4 2), sharedTupleCount := beValue (sliceLen b 6 2),
           sharedTuplesOffset := beValue (sliceLen b 8 4), glyphCount := beValue (sliceLen b 12 2),
           long := beValue (sliceLen b 14 2) % 2 == 1,
           arrayOffset := beValue (sliceLen b 16 4),
           offsets := gvarOffsets (beValue (sliceLen b 14 2) % 2 == 1)
             (beArray (gvarWidth (beValue (sliceLen b 14 2) % 2 == 1)) (beValue (sliceLen b 12 2) + 1) (b.drop 20)) }

def gvarCurType (v : GvarView) : OffsetType := if v.long then .long else .shortDivByTwo

/-- `impl GlyphDataOffsetArray for Gvar` as the builder sees it -/
def gvarArray (b : Bytes) (v : GvarView) : OffsetArray :=
  { offsetType := gvarCurType v
    available := [.shortDivByTwo, .long]
    offsets := v.offsets
    data := b.drop v.arrayOffset
    missing := .fontParsingFailed .outOfBounds
    getErr := .fontParsingFailed .outOfBounds
    ascOk := ascending v.offsets
    unreadable := [] }

/-- `self.shared_tuples()` then the `tuples_byte_range()` bytes -/
def gvarSharedTuples (b : Bytes) (v : GvarView) : Except RErr Bytes :=
  if v.sharedTuplesOffset = 0 then .error .nullOffset
  else if b.length < v.sharedTuplesOffset then .error .outOfBounds
  else
    let tl := v.sharedTupleCount * (v.axisCount * 2)
    if b.length - v.sharedTuplesOffset < tl then .error .outOfBounds
    else .ok (sliceLen b v.sharedTuplesOffset tl)

/-- `flags |= 1` / `flags &= 0xFE` on the low byte of the flags field -/
def gvarFlagByte (b : Bytes) (t : OffsetType) : Nat :=
  if t.width = 4 then (b.drop 15).headD 0 ||| 1 else (b.drop 15).headD 0 &&& 254

/-- what the serializer emits: header with the two links resolved (shared tuples offset → the
tuples object, or the data object when there are no tuples; array offset → the data object), the
new flags byte, offsets, shared tuples, glyph data -/
def gvarEmit (b : Bytes) (t : OffsetType) (offs tuples data : Bytes) : Bytes :=
  b.take 8
    ++ beBytes 4 (if tuples.length = 0 then 20 + offs.length + tuples.length else 20 + offs.length)
    ++ sliceLen b 12 3 ++ [gvarFlagByte b t] ++ beBytes 4 (20 + offs.length + tuples.length)
    ++ offs ++ tuples ++ data

/-- `Gvar::add_to_font` -/
def gvarAssemble (b : Bytes) (v : GvarView) (t : OffsetType) (data offs : Bytes) : Except PErr Bytes :=
  if t = gvarCurType v ∧ offs.length ≠ (v.glyphCount + 1) * v.width then .error .internalError
  else if data.length = 0 then .error (.serializationError 0)        -- pop_pack of an empty object
  else
    match gvarSharedTuples b v with
    | .error e => .error (.fontParsingFailed e)
    | .ok tuples =>
      -- room left for the shared tuples object (capacity = orig + offsets + data)
      if b.length - 20 < tuples.length then .error (.serializationError SER_OUT_OF_ROOM)
      else .ok (gvarEmit b t offs tuples data)

/-- the `Gvar::TAG` arm: `font.gvar()`, `patch_offset_array`, `add_to_font` -/
def gvarPatch (gvar : Option Bytes) (gps : List GlyphPatches) (maxGid : Nat) : Except PErr Bytes :=
  match gvar.bind (fun b => (gvarRead b).map (fun v => (b, v))) with
  | none => .error (.invalidPatch "Trying to patch gvar but base font doesn't have them.")
  | some (b, v) =>
    match dedup TAG_gvar gps with
    | .error e => .error (.patchParsingFailed e)
    | .ok repl =>
      match patchOffsetArray (gvarArray b v) repl maxGid with
      | .error e => .error e
      | .ok (t, data, offs) => gvarAssemble b v t data offs

end FontVerif.Ift
