/-
Model of IFT patch-map intersection (C19), part 3: the 'IFT ' / 'IFTX' tables FROM THEIR BYTES.

Transcribes, over a concrete byte list,
* `read-fonts/generated/generated_ift.rs`: `Ift::read` (format byte dispatch),
  `PatchMapFormat1::read` / `PatchMapFormat2::read` (cursor walk + `finish`), their getters
  (`self.data.read_at(range.start).unwrap()` / `read_array(range).unwrap()`), `GlyphMap::read_with_args`,
  `FeatureMap::read_with_args`, `FeatureRecord` / `EntryMapRecord::read_with_args`,
  `MappingEntries::read`, `IdStringData::read`, `EntryData::read_with_args` and its getters;
* `read-fonts/src/tables/ift.rs`: `U8Or16`, `IdDeltaOrLength` (`Int24` without id strings, `u16` with),
  `MatchModeAndCount`, `uri_template_as_string` (`core::str::from_utf8`);
* `incremental-font-transfer/src/patchmap.rs`: the order in which `decode_format2_entries` /
  `decode_format2_entry` / `decode_format2_codepoints` and `add_intersecting_format1_patches`
  consult these readers (which error is reported first), `IftTableTag::tables_in` (a table whose
  header does not read is treated as absent: `font.ift()` is turned into an iterator).

Results are `BR`: a value, an `Err(ReadError)` VALUE (rendered in the harness vocabulary), or `trap`
= a panic (`unwrap` of an out-of-range getter, `usize` underflow).  Props/C19Bytes.lean proves `trap`
is never produced.  The decoded tables are handed to the field-level models of
Model/PatchMapDecode.lean (`F2Table` / `F1Table`), so every theorem about those applies to bytes.
-/
import FontVerif.Model.HandRead
import FontVerif.Model.SparseBitSet
import FontVerif.Model.PatchMapDecode
namespace FontVerif.PatchMapBytes
open FontVerif FontVerif.HandRead FontVerif.PatchMap

/-- outcome of a byte-level read -/
inductive BR (α : Type) where
  | ok (a : α)
  | err (e : String)
  | trap
  deriving Repr

def OOB : String := "err:OutOfBounds"
def NULLOFF : String := "err:NullOffset"

/-- a generated scalar getter: `self.data.read_at(off).unwrap()` -/
def getU (d : List Nat) (off n : Nat) : BR Nat :=
  match readAt d off n with
  | some v => .ok v
  | none => .trap

/-- a generated array getter: `self.data.read_array(off..off + n).unwrap()` (bytes) -/
def getBytes (d : List Nat) (off n : Nat) : BR (List Nat) :=
  if off + n ≤ d.length then .ok ((d.drop off).take n) else .trap

/-- `Int24` / `i32` from raw big-endian bits -/
def toSigned (bits : Nat) (v : Nat) : Int := if v < 2 ^ (bits - 1) then (v : Int) else (v : Int) - 2 ^ bits

def isCont (b : Nat) : Bool := decide (0x80 ≤ b ∧ b ≤ 0xBF)

/-- `core::str::from_utf8(bytes).is_ok()`: well-formed UTF-8 (Unicode table 3-7: no overlong forms, no
surrogates, nothing above U+10FFFF) -/
def utf8Valid : List Nat → Bool
  | [] => true
  | b0 :: rest =>
    if b0 < 0x80 then utf8Valid rest
    else if 0xC2 ≤ b0 ∧ b0 ≤ 0xDF then
      match rest with
      | b1 :: r => isCont b1 && utf8Valid r
      | _ => false
    else if 0xE0 ≤ b0 ∧ b0 ≤ 0xEF then
      match rest with
      | b1 :: b2 :: r =>
        (if b0 = 0xE0 then decide (0xA0 ≤ b1 ∧ b1 ≤ 0xBF)
         else if b0 = 0xED then decide (0x80 ≤ b1 ∧ b1 ≤ 0x9F)
         else isCont b1) && isCont b2 && utf8Valid r
      | _ => false
    else if 0xF0 ≤ b0 ∧ b0 ≤ 0xF4 then
      match rest with
      | b1 :: b2 :: b3 :: r =>
        (if b0 = 0xF0 then decide (0x90 ≤ b1 ∧ b1 ≤ 0xBF)
         else if b0 = 0xF4 then decide (0x80 ≤ b1 ∧ b1 ≤ 0x8F)
         else isCont b1) && isCont b2 && isCont b3 && utf8Valid r
      | _ => false
    else false
termination_by l => l.length

/-! ## format 2 header -/

/-- the `PatchMapFormat2Marker` shape + the getter values the decoder uses -/
structure F2Hdr where
  fieldFlags : Nat
  compat : Nat
  defaultFormat : Nat
  entryCount : Nat
  entriesOffset : Nat
  idStringOffset : Nat
  template : List Nat
  /-- end of the fixed part (`min_byte_range().end`, after the optional CFF / CFF2 offsets) -/
  hdrEnd : Nat
  deriving Repr, Inhabited

/-- end position of the cursor walk after the uri template (or the patch format byte): the optional
`cff_charstrings_offset` (flag bit 0) and `cff2_charstrings_offset` (bit 1), each behind a
`cursor.position()?`; `none` = `OutOfBounds` -/
def optOffsetsEnd (len flags p : Nat) : Option Nat :=
  let has1 := flags % 2 = 1
  let has2 := flags / 2 % 2 = 1
  if has1 ∧ ¬ p ≤ len then none else
  let p1 := if has1 then p + 4 else p
  if has2 ∧ ¬ p1 ≤ len then none else
  let p2 := if has2 then p1 + 4 else p1
  if p2 ≤ len then some p2 else none

/-- `PatchMapFormat2::read`: four `advance::<u8>()`, `field_flags: cursor.read()?`, compat id (16),
default patch format, entry count (u24), two 32-bit offsets, `uri_template_length: cursor.read()?`,
the template, optional offsets, `finish`; then the getters. -/
def f2ReadHdr (d : List Nat) : BR F2Hdr :=
  match readAt d 4 1 with
  | none => .err OOB
  | some flags =>
    match readAt d 33 2 with
    | none => .err OOB
    | some ul =>
      match optOffsetsEnd d.length flags (35 + ul) with
      | none => .err OOB
      | some e =>
        match getU d 5 16, getU d 21 1, getU d 22 3, getU d 25 4, getU d 29 4, getBytes d 35 ul with
        | .ok compat, .ok df, .ok ec, .ok eo, .ok io, .ok tpl =>
          .ok { fieldFlags := flags, compat, defaultFormat := df, entryCount := ec, entriesOffset := eo,
                idStringOffset := io, template := tpl, hdrEnd := e }
        | _, _, _, _, _, _ => .trap

/-! ## format 2 entries: `EntryData::read_with_args` + getters -/

/-- field positions of one `EntryData` (`EntryDataMarker`) -/
structure EntryLayout where
  flags : Nat
  fc : Nat
  tagsAt : Nat
  dsc : Nat
  segsAt : Nat
  mmc : Nat
  childAt : Nat
  deltaAt : Nat
  deltaLen : Nat
  fmtAt : Nat
  cpAt : Nat
  deriving Repr, Inhabited

/-- `EntryData::read_with_args(data, id_string_offset)`: `format_flags: cursor.read()?`; with
`FEATURES_AND_DESIGN_SPACE`: `feature_count: u8`, the tags, `cursor.position()?`,
`design_space_count: u16`, the 12-byte segments; with `CHILD_INDICES`: `cursor.position()?`,
`match_mode_and_count: u8`, `count & 0x7F` 24-bit indices; with `ENTRY_ID_DELTA`:
`cursor.position()?`, 3 bytes (2 when id strings are present); with `PATCH_FORMAT`:
`cursor.position()?`, one byte; the rest is codepoint data; `finish`.  `none` = `OutOfBounds`. -/
def entryLayout (hasIds : Bool) (d : List Nat) : Option EntryLayout :=
  let len := d.length
  let flags := beAt d 0 1
  let hasF := flags % 2 = 1
  let hasC := flags / 2 % 2 = 1
  let hasD := flags / 4 % 2 = 1
  let hasP := flags / 8 % 2 = 1
  let fc := if hasF then beAt d 1 1 else 0
  let p1 := if hasF then 2 + fc * 4 else 1
  let dsc := if hasF then beAt d p1 2 else 0
  let p2 := if hasF then p1 + 2 + dsc * 12 else p1
  let mmc := if hasC then beAt d p2 1 else 0
  let p3 := if hasC then p2 + 1 + (mmc % 128) * 3 else p2
  let deltaLen := if hasIds then 2 else 3
  let p4 := if hasD then p3 + deltaLen else p3
  let p5 := if hasP then p4 + 1 else p4
  -- every `cursor.read()?` / `cursor.position()?` failure is the same `OutOfBounds` and the cursor
  -- only moves forward: the walk succeeds iff each of its checks passes
  if 1 ≤ len ∧ (hasF → 2 ≤ len ∧ p1 + 2 ≤ len) ∧ (hasC → p2 + 1 ≤ len) ∧ (hasD → p3 ≤ len) ∧
      (hasP → p4 ≤ len) ∧ p5 ≤ len then
    some { flags, fc, tagsAt := 2, dsc, segsAt := p1 + 2, mmc, childAt := p2 + 1, deltaAt := p3, deltaLen,
           fmtAt := p4, cpAt := p5 }
  else none

/-- the range checks of the getters `decode_format2_entry` calls (`feature_tags`,
`design_space_segments`, `match_mode_and_count`, `child_indices`, `entry_id_delta`, `patch_format`,
`codepoint_data`): each is `read_at(..).unwrap()` / `read_array(..).unwrap()` -/
def gettersInRange (L : EntryLayout) (len : Nat) : Bool :=
  let hasF := L.flags % 2 = 1
  let hasC := L.flags / 2 % 2 = 1
  let hasD := L.flags / 4 % 2 = 1
  let hasP := L.flags / 8 % 2 = 1
  decide ((hasF → L.tagsAt + L.fc * 4 ≤ len ∧ L.segsAt + L.dsc * 12 ≤ len) ∧
          (hasC → L.childAt ≤ len ∧ L.childAt + (L.mmc % 128) * 3 ≤ len) ∧
          (hasD → L.deltaAt + L.deltaLen ≤ len) ∧
          (hasP → L.fmtAt + 1 ≤ len) ∧ L.cpAt ≤ len)

/-- the sparse bit set of an entry: `decode_format2_codepoints` -/
inductive CpResult where
  /-- members (bias applied, bounded by 0x10FFFF, canonical) and number of codepoint-data bytes used -/
  | ok (cps : Ranges) (used : Nat)
  | err (e : String)
  | trap
  deriving Repr

/-- `decode_format2_codepoints`: mode 0 = no set; `CODEPOINTS_BIT_2` alone = `u16` bias,
both bits = `u24` bias (`codepoint_data.read_at(0)?`), then
`IntSet::from_sparse_bit_set_bounded(rest, bias, 0x10FFFF)` (Model/SparseBitSet.lean `decode`); the
number of bytes used is `codepoint_data.len() - remaining.len()` (a `usize` subtraction) -/
def decodeCodepoints (mode : Nat) (cp : List Nat) : CpResult :=
  if mode = 0 then .ok [] 0 else
  let skipped := if mode = 2 then 2 else if mode = 3 then 3 else 0
  match (if skipped = 0 then some 0 else readAt cp 0 skipped) with
  | none => .err OOB
  | some bias =>
    match SparseBitSet.decode (cp.drop skipped) bias 1114111 with
    | .error => .err "err:Malformed:Failed_to_decode_sparse_bit_set_data_stream."
    | .outOfFuel => .trap
    | .ok ins rest =>
      if rest.length ≤ cp.length then
        .ok (rsNorm (ins.map fun p => ((p.1 : Int), (p.2 : Int)))) (cp.length - rest.length)
      else .trap

/-- one `EntryData::read` + the getters + `decode_format2_codepoints`, as a `RawEntry` of
Model/PatchMapDecode.lean.  The bias is applied inside the sparse-bit-set decoder (as in the Rust),
so the `RawEntry` carries the final members and `bias := 0`.  A failure of the codepoint stage is
kept INSIDE the entry (`cps := none`, `cpsErr`): the real code reports it only after the child-index,
design-space, id and format checks of the same entry. -/
def readRawEntry (hasIds : Bool) (d : List Nat) : BR RawEntry :=
  match entryLayout hasIds d with
  | none => .err OOB
  | some L =>
    if !gettersInRange L d.length then .trap else
    let hasF := L.flags % 2 = 1
    let hasC := L.flags / 2 % 2 = 1
    let hasD := L.flags / 4 % 2 = 1
    let hasP := L.flags / 8 % 2 = 1
    let feats := if hasF then (List.range L.fc).map fun i => beAt d (L.tagsAt + 4 * i) 4 else []
    let segs := if hasF then (List.range L.dsc).map fun i =>
        (beAt d (L.segsAt + 12 * i) 4, toSigned 32 (beAt d (L.segsAt + 12 * i + 4) 4),
         toSigned 32 (beAt d (L.segsAt + 12 * i + 8) 4)) else []
    let children := if hasC then (List.range (L.mmc % 128)).map fun i => beAt d (L.childAt + 3 * i) 3 else []
    let delta : Int := if hasD then
        (if hasIds then (beAt d L.deltaAt 2 : Int) else toSigned 24 (beAt d L.deltaAt 3)) else 0
    let fmt := if hasP then beAt d L.fmtAt 1 else 0
    let mode := L.flags / 16 % 4
    match decodeCodepoints mode (d.drop L.cpAt) with
    | .trap => .trap
    | .err e =>
      .ok { flags := L.flags, feats, segs, childByte := L.mmc, children, delta, fmt, bias := 0,
            cps := none, size := 0, cpsErr := e }
    | .ok cps used =>
      .ok { flags := L.flags, feats, segs, childByte := L.mmc, children, delta, fmt, bias := 0,
            cps := some cps, size := L.cpAt + used }

/-- the `while entry_count > 0` loop of `decode_format2_entries` as far as the READS go: the raw
entries that could be read, and the read error / trap that stopped it (`none` = all `n` were read).
An entry whose codepoint stage failed is the last one (the decoder stops there at the latest). -/
def readRawEntries (hasIds : Bool) : Nat → List Nat → List RawEntry × Option (BR Unit)
  | 0, _ => ([], none)
  | n + 1, d =>
    match readRawEntry hasIds d with
    | .trap => ([], some .trap)
    | .err e => ([], some (.err e))
    | .ok r =>
      match r.cps with
      | none => ([r], none)
      | some _ =>
        let rest := readRawEntries hasIds n (d.drop r.size)
        (r :: rest.1, rest.2)

/-- what `decode_format2_entries` learns from the table bytes, in the order the real code asks:
header (`Ift::read`), `uri_template_as_string()?`, `map.entries()?` (non-nullable `Offset32`),
`from_format_number(default_patch_format)?`, `entry_id_string_data().transpose()?` (nullable), then
the entry reads.  Result: the field-level table and the read error that ended the entry loop early. -/
def f2TableOfBytes (d : List Nat) : BR (F2Table × Option (BR Unit)) :=
  match f2ReadHdr d with
  | .trap => .trap
  | .err e => .err e
  | .ok h =>
    if !utf8Valid h.template then .err "err:Malformed:Invalid_UTF8_encoding_for_uri_template." else
    if h.entriesOffset = 0 then .err NULLOFF else
    if h.entriesOffset > d.length then .err OOB else
    match PatchFormat.ofNumber h.defaultFormat with
    | none => .err "err:Malformed:Invalid_format_number."
    | some _ =>
      if h.idStringOffset > d.length then .err OOB else
      let hasIds := h.idStringOffset ≠ 0
      let r := readRawEntries hasIds h.entryCount (d.drop h.entriesOffset)
      .ok ({ compat := h.compat, defaultFormat := h.defaultFormat, entriesOffset := h.entriesOffset,
             hasIdStrings := hasIds, idData := if hasIds then d.drop h.idStringOffset else [],
             template := h.template, utf8Ok := true, raws := r.1 }, r.2)

/-- `decode_format2_entries` on table bytes -/
def decodeF2Bytes (tag : TableTag) (d : List Nat) : BR (List Entry) :=
  match f2TableOfBytes d with
  | .trap => .trap
  | .err e => .err e
  | .ok (t, stop) =>
    match decodeF2 tag t with
    | .error e => .err e
    | .ok es =>
      match stop with
      | none => .ok es
      | some .trap => .trap
      | some (.err e) => .err e
      | some (.ok _) => .ok es

/-- `add_intersecting_format2_patches` on table bytes -/
def intersectF2Bytes (tag : TableTag) (d : List Nat) (sd : SubsetDef) : BR (List PatchUri) :=
  match decodeF2Bytes tag d with
  | .trap => .trap
  | .err e => .err e
  | .ok es => .ok (offeredF2 es sd)

/-! ## format 1 -/

structure F1Hdr where
  fieldFlags : Nat
  compat : Nat
  maxEntry : Nat
  maxGm : Nat
  glyphCount : Nat
  gmOff : Nat
  fmOff : Nat
  bitmapStart : Nat
  bitmap : List Nat
  template : List Nat
  patchFormat : Nat
  hdrEnd : Nat
  deriving Repr, Inhabited

/-- `PatchMapFormat1::read`: as format 2 up to the compat id, then `max_entry_index: cursor.read()?`,
`max_glyph_map_entry_index`, `glyph_count` (u24), two offsets,
`max_value_bitmap_len(max_entry_index)` = `(max_entry_index + 8) / 8` bitmap bytes,
`uri_template_length: cursor.read()?`, the template, `patch_format`, optional offsets, `finish`;
then the getters. -/
def f1ReadHdr (d : List Nat) : BR F1Hdr :=
  match readAt d 4 1 with
  | none => .err OOB
  | some flags =>
    match readAt d 21 2 with
    | none => .err OOB
    | some mei =>
      let bl := (mei + 8) / 8
      match readAt d (36 + bl) 2 with
      | none => .err OOB
      | some ul =>
        match optOffsetsEnd d.length flags (36 + bl + 2 + ul + 1) with
        | none => .err OOB
        | some e =>
          match getU d 5 16, getU d 23 2, getU d 25 3, getU d 28 4, getU d 32 4, getBytes d 36 bl,
                getBytes d (36 + bl + 2) ul, getU d (36 + bl + 2 + ul) 1 with
          | .ok compat, .ok mgm, .ok gc, .ok gmo, .ok fmo, .ok bm, .ok tpl, .ok pf =>
            .ok { fieldFlags := flags, compat, maxEntry := mei, maxGm := mgm, glyphCount := gc, gmOff := gmo,
                  fmOff := fmo, bitmapStart := 36, bitmap := bm, template := tpl, patchFormat := pf,
                  hdrEnd := e }
          | _, _, _, _, _, _, _, _ => .trap

/-- `U8Or16::compute_size` -/
def u8or16 (mei : Nat) : Nat := if mei < 256 then 1 else 2

/-- `GlyphMap::read_with_args(data, (glyph_count, max_entry_index))`: `first_mapped_glyph:
cursor.read()?`, `glyph_count.saturating_sub(first)` items of `U8Or16` size, `finish`; then
`first_mapped_glyph()` and every `entry_index().get(i)` that exists. -/
def readGlyphMap (sub : List Nat) (glyphCount mei : Nat) : BR (Nat × List Nat) :=
  match readAt sub 0 2 with
  | none => .err OOB
  | some first =>
    let n := glyphCount - first
    let w := u8or16 mei
    if 2 + n * w ≤ sub.length then .ok (first, (List.range n).map fun i => beAt sub (2 + w * i) w)
    else .err OOB

/-- `FeatureMap::read_with_args(data, max_entry_index)`: `feature_count: cursor.read()?`,
`feature_count` records of `4 + 2·U8Or16` bytes, the rest is `entry_map_data`; the records
(`FeatureRecord::read_with_args`), the complete `EntryMapRecord`s of `entry_map_data`, its length -/
def readFeatureMap (sub : List Nat) (mei : Nat) : BR (List FeatRec × List (Nat × Nat) × Nat) :=
  match readAt sub 0 2 with
  | none => .err OOB
  | some n =>
    let w := u8or16 mei
    let rs := 4 + 2 * w
    if 2 + n * rs ≤ sub.length then
      let recs := (List.range n).map fun i =>
        ({ tag := beAt sub (2 + rs * i) 4, firstNew := beAt sub (2 + rs * i + 4) w,
           count := beAt sub (2 + rs * i + 4 + w) w } : FeatRec)
      let em := sub.drop (2 + n * rs)
      let ems := (List.range (em.length / (2 * w))).map fun i =>
        (beAt em (2 * w * i) w, beAt em (2 * w * i + w) w)
      .ok (recs, ems, em.length)
    else .err OOB

/-- what `add_intersecting_format1_patches` learns from the table bytes (plus the font's maxp glyph
count and character map), in the order the real code asks: header; the four top-level validations;
`map.glyph_map()?` (non-nullable offset); `map.feature_map()` (nullable).  After the validations
every failure is `OutOfBounds` except a null glyph-map offset. -/
def f1TableOfBytes (d : List Nat) (maxpGlyphs : Nat) (cmap : List (Nat × Nat)) : BR F1Table :=
  match f1ReadHdr d with
  | .trap => .trap
  | .err e => .err e
  | .ok h =>
    if h.glyphCount ≠ maxpGlyphs then .err "err:Malformed:IFT_glyph_count_must_match_maxp_glyph_count." else
    if h.maxGm > h.maxEntry then .err "err:Malformed:max_glyph_map_entry_index()_must_be_>=_max_entry_index()." else
    if !utf8Valid h.template then .err "err:Malformed:Invalid_unicode_string_for_the_uri_template." else
    match PatchFormat.ofNumber h.patchFormat with
    | none => .err "err:Malformed:Invalid_format_number."
    | some _ =>
      if h.gmOff = 0 then .err NULLOFF else
      if h.gmOff > d.length then .err OOB else
      match readGlyphMap (d.drop h.gmOff) h.glyphCount h.maxEntry with
      | .trap => .trap
      | .err e => .err e
      | .ok (first, ei) =>
        let mk := fun (hasFm : Bool) (recs : List FeatRec) (ems : List (Nat × Nat)) (emBytes : Nat) =>
          ({ compat := h.compat, maxEntry := h.maxEntry, maxGm := h.maxGm, glyphCount := h.glyphCount,
             maxpGlyphs, bitmapStart := h.bitmapStart, bitmap := h.bitmap, template := h.template,
             utf8Ok := true, patchFormat := h.patchFormat, firstGid := first, entryIndex := ei,
             hasFeatureMap := hasFm, featRecs := recs, entryMaps := ems, entryMapBytes := emBytes,
             cmap } : F1Table)
        if h.fmOff = 0 then .ok (mk false [] [] 0) else
        if h.fmOff > d.length then .err OOB else
        match readFeatureMap (d.drop h.fmOff) h.maxEntry with
        | .trap => .trap
        | .err e => .err e
        | .ok (recs, ems, emBytes) => .ok (mk true recs ems emBytes)

/-- `add_intersecting_format1_patches` on table bytes -/
def intersectF1Bytes (tag : TableTag) (d : List Nat) (maxpGlyphs : Nat) (cmap : List (Nat × Nat))
    (sd : SubsetDef) : BR (List PatchUri) :=
  match f1TableOfBytes d maxpGlyphs cmap with
  | .trap => .trap
  | .err e => .err e
  | .ok t =>
    match intersectF1 tag t sd with
    | .error e => .err e
    | .ok us => .ok us

/-! ## `Ift::read` and a font's two tables -/

/-- a mapping table as the font holds it: absent, or its bytes -/
inductive RawTable where
  | absent
  | bytes (d : List Nat)
  deriving Repr, Inhabited

/-- `Ift::read`: `format: u8 = data.read_at(0)?`, 1 / 2 dispatch, else `InvalidFormat`; the header
must read.  `true` = `font.ift()` is `Ok`. -/
def tablePresent : RawTable → Bool
  | .absent => false
  | .bytes d =>
    match readAt d 0 1 with
    | some 1 => (match f1ReadHdr d with | .ok _ => true | _ => false)
    | some 2 => (match f2ReadHdr d with | .ok _ => true | _ => false)
    | _ => false

/-- `add_intersecting_patches` for one table of `IftTableTag::tables_in(font)` -/
def intersectTableBytes (tag : TableTag) (sd : SubsetDef) (maxpGlyphs : Nat) (cmap : List (Nat × Nat))
    (t : RawTable) : BR (List PatchUri) :=
  match t with
  | .absent => .ok []
  | .bytes d =>
    if !tablePresent t then .ok [] else
    if readAt d 0 1 = some 1 then intersectF1Bytes tag d maxpGlyphs cmap sd
    else intersectF2Bytes tag d sd

/-- `intersecting_patches` on the bytes of the font's 'IFT ' and 'IFTX' tables -/
def intersectingPatchesBytes (ift iftx : RawTable) (maxpGlyphs : Nat) (cmap : List (Nat × Nat))
    (sd : SubsetDef) : BR (List PatchUri) :=
  match intersectTableBytes .ift sd maxpGlyphs cmap ift with
  | .trap => .trap
  | .err e => .err e
  | .ok a =>
    match intersectTableBytes .iftx sd maxpGlyphs cmap iftx with
    | .trap => .trap
    | .err e => .err e
    | .ok b => .ok (a ++ b)

end FontVerif.PatchMapBytes
