/-
Model of font-types/src/fixed.rs (Fixed 16.16, F26Dot6, F2Dot14 ...), int24.rs,
uint24.rs and the scalar big-endian encoding of raw.rs.

Values are raw bit patterns as `Int` in the type's signed range.  An operation
that can trap in the overflow-checked profile returns `Option Int`
(`none` = "attempt to … with overflow" panic); non-trapping operations return
`Int`.  Each definition cites the Rust it transcribes.
-/
import FontVerif.Model.Base
namespace FontVerif.Fixed
open FontVerif

/-- `impl Mul for Fixed`: `ab = a as i64 * b as i64; ((ab + 0x8000 - (ab<0)) >> 16) as i32`.
The i64 arithmetic cannot overflow for i32 operands (|ab| ≤ 2^62). -/
def mul (a b : Int) : Int :=
  let ab := a * b
  wrapI32 ((ab + 32768 - (if ab < 0 then 1 else 0)) / 65536)

/-- `impl Div for Fixed` (after the `fix:` commit: unsigned magnitudes, wrapping negate).
`q = (((|a| as u64) << 16) + (|b| >> 1)) / |b|) as u32`, result `±(q as i32)`. -/
def div (a b : Int) : Int :=
  let ua := iabs a
  let ub := iabs b
  let neg := (a < 0) != (b < 0)
  let q := if ub = 0 then 2147483647 else wrapU32 ((ua * 65536 + ub / 2) / ub)
  if neg then wrapI32 (-(wrapI32 q)) else wrapI32 q

/-- the pre-fix `Div`: `a = -a` / `b = -b` on i32 trap for `i32::MIN`, and `-(q as i32)` traps
when `q as i32 = i32::MIN`.  `none` = trap in the overflow-checked profile. -/
def divPreFix (a b : Int) : Option Int :=
  if a = I32_MIN ∨ b = I32_MIN then none else
  let ua := iabs a
  let ub := iabs b
  let neg := (a < 0) != (b < 0)
  let q := if ub = 0 then 2147483647 else wrapU32 ((ua * 65536 + ub / 2) / ub)
  if neg then (if wrapI32 q = I32_MIN then none else some (-(wrapI32 q))) else some (wrapI32 q)

/-- `Fixed::mul_div` (after the fix: wrapping negate of the result).
u64 arithmetic: `su.wrapping_mul(au).wrapping_add(bu >> 1) / bu`, `0x7FFFFFFF` when `bu = 0`. -/
def mulDiv (s a b : Int) : Int :=
  let su := iabs s
  let au := iabs a
  let bu := iabs b
  let neg := ((s < 0) != (a < 0)) != (b < 0)
  let r := if bu > 0 then wrapU64 (wrapU64 (su * au) + bu / 2) / bu else 2147483647
  if neg then wrapI32 (-(wrapI32 r)) else wrapI32 r

/-- `round`: `self.0.wrapping_add(ROUND) & INT_MASK` for `fract` fractional bits. -/
def roundBits (fract : Nat) (a : Int) : Int :=
  wrapI32 (a + (2 ^ fract : Int) / 2) - wrapI32 (a + (2 ^ fract : Int) / 2) % (2 ^ fract : Int)

/-- `floor`: `self.0 & INT_MASK`. -/
def floorBits (fract : Nat) (a : Int) : Int :=
  a - a % (2 ^ fract : Int)

/-- `fract`: `self.0 - self.floor().0` (cannot overflow: result in `[0, one)`). -/
def fractBits (fract : Nat) (a : Int) : Int := a % (2 ^ fract : Int)

/-- `Fixed::from_i32`: `i << 16` (shl never traps for an in-range amount; high bits drop). -/
def fromI32 (i : Int) : Int := wrapI32 (i * 65536)
/-- `Fixed::to_i32`: `self.0.wrapping_add(0x8000) >> 16`. -/
def toI32 (a : Int) : Int := wrapI32 (a + 32768) / 65536
/-- `Fixed::to_f26dot6`: `self.0.wrapping_add(0x200) >> 10`. -/
def toF26Dot6 (a : Int) : Int := wrapI32 (a + 512) / 1024
/-- `Fixed::to_f2dot14`: `(self.0.wrapping_add(2) >> 2) as i16`. -/
def toF2Dot14 (a : Int) : Int := wrapI16 (wrapI32 (a + 2) / 4)
/-- `F2Dot14::to_fixed`: `self.0 as i32 * 4` (|x| ≤ 2^15 so no overflow). -/
def f2dot14ToFixed (a : Int) : Int := a * 4
/-- `F26Dot6::from_i32`: `i << 6`; `F26Dot6::to_i32`: `wrapping_add(32) >> 6`. -/
def f26FromI32 (i : Int) : Int := wrapI32 (i * 64)
def f26ToI32 (a : Int) : Int := wrapI32 (a + 32) / 64

/-- `impl Neg` (after `fix:` 7d0f778): `self.0.wrapping_neg()`; never traps, `-MIN = MIN`.
Kept `Option`-valued so the driver protocol (`trap` vs value) is unchanged. -/
def neg (a : Int) : Option Int := some (wrapI32 (-a))
/-- `abs` (after `fix:` 7d0f778): `self.0.wrapping_abs()`; never traps, `|MIN| = MIN`. -/
def abs (a : Int) : Option Int := some (wrapI32 (iabs a))

/-- `Int24::new`: saturating constructor (branch-free arithmetic in Rust; same function). -/
def int24New (raw : Int) : Int :=
  if raw > 8388607 then 8388607 else if raw < -8388608 then -8388608 else raw
/-- `Uint24::new`. -/
def uint24New (raw : Int) : Int := if raw > 16777215 then 16777215 else raw

/-- `Int24::from_be_bytes`: sign-extend from bit 23. -/
def int24FromBe (b0 b1 b2 : Int) : Int :=
  let v := b0 * 65536 + b1 * 256 + b2
  int24New (if b0 ≥ 128 then v - 16777216 else v)
/-- `Int24::to_be_bytes`: low three bytes of the two's complement i32. -/
def int24ToBe (v : Int) : List Int :=
  let u := wrapU32 v
  [u / 65536 % 256, u / 256 % 256, u % 256]
def uint24FromBe (b0 b1 b2 : Int) : Int := uint24New (b0 * 65536 + b1 * 256 + b2)
def uint24ToBe (v : Int) : List Int := [v / 65536 % 256, v / 256 % 256, v % 256]

/-- unsigned scalar of `n` bytes, big endian (`u8/u16/u32`, `Offset16/24/32`, `Tag`,
`Version16Dot16`, `GlyphId16`, `UfWord` are transparent newtypes over these). -/
def toBeU (n : Nat) (v : Int) : List Int :=
  (List.range n).map (fun i => v / (256 : Int) ^ (n - 1 - i) % 256)
def fromBeU (bs : List Int) : Int := bs.foldl (fun acc b => acc * 256 + b) 0
/-- signed scalar of `n` bytes: two's complement. -/
def toBeS (n : Nat) (v : Int) : List Int := toBeU n (v % (256 : Int) ^ n)
def fromBeS (n : Nat) (bs : List Int) : Int :=
  let u := fromBeU bs
  if u < (256 : Int) ^ n / 2 then u else u - (256 : Int) ^ n

/-- `to_f64`/`to_f32` exact value as a dyadic rational `num / 2^fract`:
`int = (bits & INT_MASK) >> FRACT`, `fract = (bits & !INT_MASK) / ONE`. Returns `(int, fractNum)`. -/
def toFloatParts (fract : Nat) (a : Int) : Int × Int :=
  (a / (2 ^ fract : Int), a % (2 ^ fract : Int))

end FontVerif.Fixed
