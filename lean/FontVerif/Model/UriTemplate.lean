/-
Model of `incremental-font-transfer/src/uri_templates.rs`: `expand_template`,
`count_leading_zeroes`, `expand_template_inner`, `ParseStateMachine::{take_input, finish,
handle_literal, handle_percent_encoding, handle_expression}`, `OutputBuffer::{append_id_digit,
append_percent_encoded}`, `ByteInfo::new` (+ the three `ascii_*` classifiers), and the two
`data_encoding` alphabets it uses (base32hex without padding, base64url with padding).
Strings are lists of byte values (the expander only ever emits ASCII).
-/
import FontVerif.Model.PatchMap
namespace FontVerif.UriTemplate
open FontVerif FontVerif.PatchMap

/-- bits of a byte, most significant first -/
def byteBits (b : Nat) : List Bool :=
  [b / 128 % 2 = 1, b / 64 % 2 = 1, b / 32 % 2 = 1, b / 16 % 2 = 1,
   b / 8 % 2 = 1, b / 4 % 2 = 1, b / 2 % 2 = 1, b % 2 = 1]

def bitsVal (bs : List Bool) : Nat := bs.foldl (fun acc b => acc * 2 + (if b then 1 else 0)) 0

/-- split into groups of `n` bits, the last one zero-padded on the right -/
def chunkBits (n : Nat) (fuel : Nat) (bs : List Bool) : List Nat :=
  match fuel with
  | 0 => []
  | fuel + 1 =>
    if bs.isEmpty then [] else
    let g := bs.take n
    let g := g ++ List.replicate (n - g.length) false
    bitsVal g :: chunkBits n fuel (bs.drop n)

def base32hexChar (v : Nat) : Nat := if v < 10 then 48 + v else 65 + (v - 10)

/-- `BASE32HEX_NO_PADDING.encode` -/
def base32hex (bytes : List Nat) : List Nat :=
  let bits := bytes.flatMap byteBits
  (chunkBits 5 (bits.length + 1) bits).map base32hexChar

def base64urlChar (v : Nat) : Nat :=
  if v < 26 then 65 + v else if v < 52 then 97 + (v - 26) else if v < 62 then 48 + (v - 52)
  else if v = 62 then 45 else 95

/-- `BASE64URL.encode` (with `=` padding) -/
def base64url (bytes : List Nat) : List Nat :=
  let bits := bytes.flatMap byteBits
  let cs := (chunkBits 6 (bits.length + 1) bits).map base64urlChar
  cs ++ List.replicate ((4 - cs.length % 4) % 4) 61

/-- `ByteInfo` -/
inductive ByteInfo where
  | invalid | percent | copiedLiteral | copiedLiteralHexDigit | copiedLiteralUnreserved
  | percentEncodedLiteral | startExpression
  deriving DecidableEq, Repr

def isAlnum (v : Nat) : Bool := (48 ≤ v && v ≤ 57) || (65 ≤ v && v ≤ 90) || (97 ≤ v && v ≤ 122)
def isHexDigit (v : Nat) : Bool := (48 ≤ v && v ≤ 57) || (65 ≤ v && v ≤ 70) || (97 ≤ v && v ≤ 102)

/-- `ByteInfo::ascii_allowed_as_literal` -/
def allowedAsLiteral (v : Nat) : Bool :=
  v = 0x21 || (0x23 ≤ v && v ≤ 0x24) || v = 0x26 || (0x28 ≤ v && v ≤ 0x3B) || v = 0x3D
  || (0x3F ≤ v && v ≤ 0x5B) || v = 0x5D || v = 0x5F || (0x61 ≤ v && v ≤ 0x7A) || v = 0x7E
  || v > 0x7F

/-- `ByteInfo::ascii_url_unreserved` -/
def urlUnreserved (v : Nat) : Bool := isAlnum v || v = 45 || v = 46 || v = 95 || v = 126

/-- `ByteInfo::ascii_url_reserved_or_unreserved` -/
def urlReservedOrUnreserved (v : Nat) : Bool :=
  urlUnreserved v || [58, 47, 63, 35, 91, 93, 64, 33, 36, 38, 39, 40, 41, 42, 43, 44, 59, 61].contains v

/-- `ByteInfo::new` (= `BYTE_INFO_MAP[v]`) -/
def byteInfo (v : Nat) : ByteInfo :=
  if v = 123 then .startExpression
  else if v = 37 then .percent
  else if !allowedAsLiteral v then .invalid
  else if urlReservedOrUnreserved v then
    if isHexDigit v then .copiedLiteralHexDigit
    else if urlUnreserved v then .copiedLiteralUnreserved
    else .copiedLiteral
  else .percentEncodedLiteral

def hexUpper (n : Nat) : Nat := if n < 10 then 48 + n else 65 + (n - 10)

/-- `append_percent_encoded`: `%XX`, upper case -/
def percentEncoded (b : Nat) : List Nat := [37, hexUpper (b / 16 % 16), hexUpper (b % 16)]

inductive Variable where
  | begin | i | id | id6 | id64 | d | dx (n : Nat)
  deriving DecidableEq, Repr

inductive ParseState where
  | literal
  | pct (second : Bool)
  | expr (v : Variable)
  deriving DecidableEq, Repr

/-- `OutputBuffer::append_id_digit` -/
def idDigit (idValue : List Nat) (digit : Nat) : Nat :=
  if idValue.length < digit then 95 else idValue.getD (idValue.length - digit) 95

/-- `ParseStateMachine::take_input`; `none` = `UriTemplateError` -/
def takeInput (idValue id64Value : List Nat) (st : ParseState × List Nat) (v : Nat) :
    Option (ParseState × List Nat) :=
  let (state, out) := st
  match state with
  | .literal =>
    match byteInfo v with
    | .invalid => none
    | .percent => some (.pct false, out ++ [v])
    | .startExpression => some (.expr .begin, out)
    | .copiedLiteral | .copiedLiteralHexDigit | .copiedLiteralUnreserved => some (.literal, out ++ [v])
    | .percentEncodedLiteral => some (.literal, out ++ percentEncoded v)
  | .pct second =>
    match byteInfo v with
    | .copiedLiteralHexDigit => some (if second then .literal else .pct true, out ++ [v])
    | _ => none
  | .expr var =>
    match var, v with
    | .begin, 105 => some (.expr .i, out)
    | .begin, 100 => some (.expr .d, out)
    | .i, 100 => some (.expr .id, out)
    | .id, 54 => some (.expr .id6, out)
    | .id6, 52 => some (.expr .id64, out)
    | .d, 49 => some (.expr (.dx 1), out)
    | .d, 50 => some (.expr (.dx 2), out)
    | .d, 51 => some (.expr (.dx 3), out)
    | .d, 52 => some (.expr (.dx 4), out)
    | .id, 125 => some (.literal, out ++ idValue)
    | .id64, 125 => some (.literal, out ++ id64Value)
    | .dx n, 125 => some (.literal, out ++ [idDigit idValue n])
    | _, _ => none

/-- `expand_template_inner` -/
def expandInner (template idValue id64Value : List Nat) : Option (List Nat) :=
  let rec go : List Nat → ParseState × List Nat → Option (ParseState × List Nat)
    | [], st => some st
    | v :: vs, st => match takeInput idValue id64Value st v with
      | none => none
      | some st' => go vs st'
  match go template (.literal, []) with
  | some (.literal, out) => some out
  | _ => none

/-- the id bytes: a numeric id is big-endian with leading zero bytes removed (at least one kept) -/
def idBytes : PatchId → List Nat
  | .str b => b
  | .num n =>
    let be := beBytes 4 n
    let lz := (be.takeWhile (· = 0)).length
    be.drop (min lz 3)

/-- `expand_template` -/
def expandTemplate (template : List Nat) (id : PatchId) : Option (List Nat) :=
  let bytes := idBytes id
  let idStr := base32hex bytes
  let id64 := (base64url bytes).flatMap fun b =>
    match byteInfo b with
    | .copiedLiteralUnreserved | .copiedLiteralHexDigit => [b]
    | _ => percentEncoded b
  expandInner template idStr id64

/-- `PatchUri::uri_string` -/
def uriString (u : PatchUri) : Option (List Nat) := expandTemplate u.template u.id

end FontVerif.UriTemplate
