/-
C01 (hand-written code) — the byte-access primitives every hand-written parser of read-fonts is
built from: `FontData` and `Cursor` of `read-fonts/src/font_data.rs`, transcribed over a concrete
byte list.

* `FontData::{read_at, read_be_at, read_ref_at, read_array, slice, split_off, take_up_to}`:
  `checked_add` for the end of a scalar, `<[u8]>::get(range)` (fails for `start > end` or
  `end > len`), `InvalidArrayLen` when the byte length is not a multiple of the element size.
* `Cursor::{advance, advance_by, read, read_be, read_u32_var, read_array, position,
  remaining_bytes, remaining, is_empty, finish}`: the position is a `usize` that **saturates**
  (`saturating_add`) and moves forward even when the read fails; `read_array` returns early
  (position unchanged) when `n * size` or `pos + len` overflows.

`usize` is 64 bit (`MAXU`).  Nothing here can trap: every addition / multiplication of the Rust
code is `checked_` or `saturating_` (the file is compiled with
`#![deny(clippy::arithmetic_side_effects)]`), which is what the definitions transcribe; the
theorems in Props/C01Hand.lean are about the *end-of-data predicate* the iterators rely on.
-/
import FontVerif.Model.Base
namespace FontVerif.HandRead
open FontVerif

/-- `usize::MAX` on the 64-bit targets the crates are built for. -/
def MAXU : Nat := 18446744073709551615

/-- `usize::saturating_add` -/
def satAdd (a b : Nat) : Nat := if a + b ≤ MAXU then a + b else MAXU
/-- `usize::checked_add` -/
def checkedAdd (a b : Nat) : Option Nat := if a + b ≤ MAXU then some (a + b) else none
/-- `usize::checked_mul` -/
def checkedMul (a b : Nat) : Option Nat := if a * b ≤ MAXU then some (a * b) else none

/-- `ReadError` kinds of the primitives -/
inductive RErr where
  | oob
  | invalidArrayLen
  deriving DecidableEq, Repr

/-- big-endian value of the `n` bytes at `pos` (only used when they exist) -/
def beAt (d : List Nat) (pos n : Nat) : Nat := beValue ((d.drop pos).take n)

/-! ## `FontData` -/

/-- `FontData::read_at::<T>(offset)` / `read_be_at` / `read_ref_at`, `T::RAW_BYTE_LEN = sz`:
`offset.checked_add(sz)?`, `bytes.get(offset..end)?`. -/
def readAt (d : List Nat) (off sz : Nat) : Option Nat :=
  match checkedAdd off sz with
  | none => none
  | some e => if e ≤ d.length then some (beAt d off sz) else none

/-- `<[u8]>::get(a..b)`: the length of the sub-slice -/
def getRange (len a b : Nat) : Option Nat := if a ≤ b ∧ b ≤ len then some (b - a) else none

/-- `FontData::read_array::<T>(a..b)` with `size_of::<T>() = elem`: number of elements.
`len.checked_rem(elem).unwrap_or(1) != 0` → `InvalidArrayLen`. -/
def readArray (d : List Nat) (a b elem : Nat) : Except RErr Nat :=
  match getRange d.length a b with
  | none => .error .oob
  | some n => if elem = 0 then .error .invalidArrayLen
              else if n % elem ≠ 0 then .error .invalidArrayLen else .ok (n / elem)

/-- `FontData::slice(a..b)` -/
def sliceExcl (d : List Nat) (a b : Nat) : Option Nat := getRange d.length a b
/-- `FontData::slice(a..=b)`: the exclusive end `b + 1` must not overflow -/
def sliceIncl (d : List Nat) (a b : Nat) : Option Nat :=
  match checkedAdd b 1 with
  | none => none
  | some e => getRange d.length a e
/-- `FontData::slice(a..)` / `FontData::split_off(a)` -/
def splitOff (d : List Nat) (a : Nat) : Option Nat := if a ≤ d.length then some (d.length - a) else none
/-- `FontData::slice(..b)` -/
def sliceTo (d : List Nat) (b : Nat) : Option Nat := if b ≤ d.length then some b else none

/-- `FontData::take_up_to(pos)`: `(head length, remaining length)`; `pos > len` → `None`, unchanged -/
def takeUpTo (d : List Nat) (pos : Nat) : Option Nat × Nat :=
  if pos > d.length then (none, d.length) else (some pos, d.length - pos)

/-! ## `Cursor` (the data is a parameter, the state is the position) -/

structure Cur where
  pos : Nat
  deriving DecidableEq, Repr

/-- `FontData::cursor` -/
def Cur.init : Cur := ⟨0⟩

/-- `Cursor::advance_by(n)` / `advance::<T>()` -/
def Cur.advanceBy (c : Cur) (n : Nat) : Cur := ⟨satAdd c.pos n⟩

/-- `Cursor::read::<T>()` / `read_be`: `let temp = self.data.read_at(self.pos); self.advance::<T>(); temp` -/
def Cur.read (d : List Nat) (c : Cur) (sz : Nat) : Option Nat × Cur :=
  (readAt d c.pos sz, c.advanceBy sz)

/-- `n` successive `self.read::<u8>()?`: stops at the first failure (the cursor keeps every advance,
including the one of the failed read) -/
def Cur.readBytes (d : List Nat) : Nat → Cur → Option (List Nat) × Cur
  | 0, c => (some [], c)
  | n + 1, c =>
    match c.read d 1 with
    | (none, c1) => (none, c1)
    | (some b, c1) =>
      match Cur.readBytes d n c1 with
      | (none, c2) => (none, c2)
      | (some bs, c2) => (some (b :: bs), c2)

/-- `Cursor::read_u32_var`: `next = || self.read::<u8>()`, every `next()?` returns early with the
cursor already advanced.  The first byte selects the number of continuation bytes (0–4) and
contributes its low bits (`b0 - 0x80`, `- 0xC0`, `- 0xE0`; nothing for `b0 ≥ 0xF0`); the shifts and
ORs of the source combine disjoint bit ranges, i.e. they are this base-256 fold. -/
def Cur.readU32Var (d : List Nat) (c : Cur) : Option Nat × Cur :=
  match c.read d 1 with
  | (none, c1) => (none, c1)
  | (some b0, c1) =>
    let k := if b0 < 0x80 then 0 else if b0 < 0xC0 then 1 else if b0 < 0xE0 then 2 else if b0 < 0xF0 then 3 else 4
    let hi := if b0 < 0x80 then b0 else if b0 < 0xC0 then b0 - 0x80 else if b0 < 0xE0 then b0 - 0xC0
              else if b0 < 0xF0 then b0 - 0xE0 else 0
    match Cur.readBytes d k c1 with
    | (none, c2) => (none, c2)
    | (some bs, c2) => (some (bs.foldl (fun a b => a * 256 + b) hi), c2)

/-- `Cursor::read_array::<T>(n_elem)`, `T::RAW_BYTE_LEN = size_of::<T>() = elem`:
`n.checked_mul(elem)?`, `pos.checked_add(len)?` (both early returns leave the position alone),
`data.read_array(pos..end)`, `advance_by(len)`. -/
def Cur.readArray (d : List Nat) (c : Cur) (n elem : Nat) : Except RErr Nat × Cur :=
  match checkedMul n elem with
  | none => (.error .oob, c)
  | some len =>
    match checkedAdd c.pos len with
    | none => (.error .oob, c)
    | some e => (HandRead.readArray d c.pos e elem, c.advanceBy len)

/-- `Cursor::position` (`check_in_bounds`: `bytes.get(..pos)`) -/
def Cur.position (d : List Nat) (c : Cur) : Option Nat := if c.pos ≤ d.length then some c.pos else none
/-- `Cursor::remaining_bytes` (`saturating_sub`) -/
def Cur.remainingBytes (d : List Nat) (c : Cur) : Nat := d.length - c.pos
/-- `Cursor::remaining`: length of `data.split_off(pos)` -/
def Cur.remaining (d : List Nat) (c : Cur) : Option Nat := splitOff d c.pos
/-- `Cursor::is_empty`: `pos >= len` -/
def Cur.isEmpty (d : List Nat) (c : Cur) : Bool := decide (c.pos ≥ d.length)
/-- `Cursor::finish`: the single final bounds check -/
def Cur.finish (d : List Nat) (c : Cur) : Bool := decide (c.pos ≤ d.length)

/-! ## `ComputedArray` (read-fonts/src/array.rs): items of a size computed at run time -/

/-- `ComputedArray::new`: `len = data.len().checked_div(item_len).unwrap_or(0)` -/
def compLen (dataLen itemLen : Nat) : Nat := if itemLen = 0 then 0 else dataLen / itemLen

/-- `ComputedArray::get(idx)` for an item type whose `read_with_args` needs exactly `item_len` bytes
(`Tuple`, `ValueRecord`, the generated fixed-layout records): `idx.checked_mul(item_len)`,
`data.split_off(start)`, and the item read, which succeeds iff `item_len` bytes remain.  `some off` =
`Ok`, `none` = `Err`.  `get` does NOT consult `len()`: for `item_len = 0` (where `len() = 0`, the count
is not recoverable from the byte length) every index is answered with the empty item — e.g. the
class1 records of a PairPosFormat2 with two empty value formats stay readable (/repo 6475b6a). -/
def compGet (dataLen itemLen idx : Nat) : Option Nat :=
  match checkedMul idx itemLen with
  | none => none
  | some off => if off + itemLen ≤ dataLen then some off else none

/-- one scripted cursor operation (driver / harness protocol) -/
inductive Op where
  | read (sz : Nat)
  | adv (sz : Nat)
  | advBy (n : Nat)
  | var
  | arr (elem n : Nat)
  deriving DecidableEq, Repr

/-- result of one op as the harness renders it -/
def Op.run (d : List Nat) (c : Cur) : Op → String × Cur
  | .read sz => match c.read d sz with
    | (some v, c') => (toString v, c')
    | (none, c') => ("eO", c')
  | .adv sz => (".", c.advanceBy sz)
  | .advBy n => (".", c.advanceBy n)
  | .var => match c.readU32Var d with
    | (some v, c') => (toString v, c')
    | (none, c') => ("eO", c')
  | .arr elem n => match c.readArray d n elem with
    | (.ok k, c') => (s!"ok{k}", c')
    | (.error .oob, c') => ("eO", c')
    | (.error .invalidArrayLen, c') => ("eL", c')

def runOps (d : List Nat) : Cur → List Op → List String × Cur
  | c, [] => ([], c)
  | c, op :: rest =>
    let r := op.run d c
    let t := runOps d r.2 rest
    (r.1 :: t.1, t.2)

end FontVerif.HandRead
