/-
Model of the Device table WRITER (`write-fonts/src/tables/layout.rs`: `Device::new`, `encode_delta`,
`encode_chunk`).  The READER is C01's transcription of `read-fonts/src/tables/layout.rs`
(`Device::iter`, `iter_packed_values`: `HandLayout.devIter`, Model/HandLayout.lean), so the round
trip below is stated between the two transcriptions.

Deltas are `i8` (`Int`s in −128..=127); raw delta formats 1 / 2 / 3 = 2-bit / 4-bit / 8-bit.
-/
import FontVerif.Model.HandLayout
namespace FontVerif.Layout
open FontVerif.HandLayout

/-- the closure of `Device::new`: `-2..=1 => Local2BitDeltas, -8..=7 => Local4BitDeltas, _ =>
Local8BitDeltas` (raw format numbers) -/
def deltaFormatOf (v : Int) : Nat :=
  if -2 ≤ v ∧ v ≤ 1 then 1 else if -8 ≤ v ∧ v ≤ 7 then 2 else 3

/-- `values.iter().map(..).max().unwrap_or_default()` (`DeltaFormat::default()` = 2-bit) -/
def chooseFormat (vs : List Int) : Nat := (vs.map deltaFormatOf).foldl max 1

/-- `val.to_be_bytes()[0]`: the two's complement byte of an `i8` -/
def byteOf (v : Int) : Nat := (v % 256).toNat

/-- `encode_chunk(chunk, mask, bits)`: `out |= ((byte & mask) as u16) << ((16 - bits) - i * bits)`
(`chunks(chunk_size)` keeps `i < 16 / bits`, so the `usize` subtraction does not underflow and the
shift stays below 16) -/
def encodeChunkGo (mask bits : Nat) : Nat → Nat → List Int → Nat
  | _, out, [] => out
  | i, out, v :: rest =>
    encodeChunkGo mask bits (i + 1) (out ||| (((byteOf v &&& mask) <<< ((16 - bits) - i * bits)) % 65536)) rest

def encodeChunk (mask bits : Nat) (chunk : List Int) : Nat := encodeChunkGo mask bits 0 0 chunk

/-- `slice.chunks(k)`: chunks of `k`, the last one may be shorter -/
def chunksOf {α : Type} (k : Nat) (xs : List α) : List (List α) :=
  if _h : k = 0 then [] else
  if _h2 : xs.length = 0 then [] else xs.take k :: chunksOf k (xs.drop k)
termination_by xs.length
decreasing_by simp only [List.length_drop]; omega

/-- `(chunk_size, mask, bits)` of `encode_delta` -/
def encodeParams (fmt : Nat) : Nat × Nat × Nat :=
  if fmt = 1 then (8, 3, 2) else if fmt = 2 then (4, 15, 4) else (2, 255, 8)

/-- `encode_delta(format, values)` -/
def encodeDelta (fmt : Nat) (vs : List Int) : List Nat :=
  let p := encodeParams fmt
  (chunksOf p.1 vs).map (encodeChunk p.2.1 p.2.2)

/-- `Device::new(start_size, end_size, values)` (the `debug_assert_eq!` on the range length is a
hypothesis of the theorems) -/
def deviceNew (start end_ : Nat) (vs : List Int) : Dev :=
  ⟨start, end_, chooseFormat vs, encodeDelta (chooseFormat vs) vs⟩

end FontVerif.Layout
