/-
Model of FreeType's TrueType rounding functions, transcribed from
freetype2/src/truetype/ttinterp.c (FreeType 2.12.1 as bundled by freetype-sys 0.17.0):
Round_None, Round_To_Grid, Round_To_Half_Grid, Round_Down_To_Grid, Round_Up_To_Grid,
Round_To_Double_Grid, Round_Super, Round_Super_45, SetSuperRound.

`FT_F26Dot6` is a 64-bit `long` on the modelled platform (x86-64 LP64); `ADD_LONG`/`SUB_LONG`/
`NEG_LONG` wrap mod 2^64.  `comp` is `exc->tt_metrics.compensations[color]`, which FreeType sets to 0
for all four colours (ttobjs.c `tt_size_run_prep`/`tt_size_init_bytecode`:
`tt_metrics->compensations[i] = 0`); it is kept as a parameter because the C code has it.
`thr`, `ph`, `per` are `exc->threshold`, `exc->phase`, `exc->period`.
-/
import FontVerif.Model.FtCalc
import FontVerif.Model.Land
namespace FontVerif.FtRound
open FontVerif FontVerif.FtCalc

/-- `Round_None`. -/
def roundNone (comp d : Int) : Int :=
  if d ≥ 0 then
    let v := addLong d comp
    if v < 0 then 0 else v
  else
    let v := subLong d comp
    if v > 0 then 0 else v

/-- `Round_To_Grid`: `FT_PIX_ROUND_LONG(ADD_LONG(distance, compensation))`, clamped at 0;
negative: `NEG_LONG(FT_PIX_ROUND_LONG(SUB_LONG(compensation, distance)))`. -/
def roundToGrid (comp d : Int) : Int :=
  if d ≥ 0 then
    let v := pixRoundLong (addLong d comp)
    if v < 0 then 0 else v
  else
    let v := negLong (pixRoundLong (subLong comp d))
    if v > 0 then 0 else v

/-- `Round_To_Half_Grid`: `ADD_LONG(FT_PIX_FLOOR(ADD_LONG(distance, compensation)), 32)`;
on sign flip the result is `32` / `-32` (not 0). -/
def roundToHalfGrid (comp d : Int) : Int :=
  if d ≥ 0 then
    let v := addLong (pixFloor (addLong d comp)) 32
    if v < 0 then 32 else v
  else
    let v := negLong (addLong (pixFloor (subLong comp d)) 32)
    if v > 0 then -32 else v

/-- `Round_Down_To_Grid`. -/
def roundDownToGrid (comp d : Int) : Int :=
  if d ≥ 0 then
    let v := pixFloor (addLong d comp)
    if v < 0 then 0 else v
  else
    let v := negLong (pixFloor (subLong comp d))
    if v > 0 then 0 else v

/-- `Round_Up_To_Grid`. -/
def roundUpToGrid (comp d : Int) : Int :=
  if d ≥ 0 then
    let v := pixCeilLong (addLong d comp)
    if v < 0 then 0 else v
  else
    let v := negLong (pixCeilLong (subLong comp d))
    if v > 0 then 0 else v

/-- `Round_To_Double_Grid`: `FT_PAD_ROUND_LONG(…, 32)`. -/
def roundToDoubleGrid (comp d : Int) : Int :=
  if d ≥ 0 then
    let v := padRoundLong32 (addLong d comp)
    if v < 0 then 0 else v
  else
    let v := negLong (padRoundLong32 (subLong comp d))
    if v > 0 then 0 else v

/-- `Round_Super`: `val = ADD_LONG(distance, threshold - phase + compensation) & -period;
val = ADD_LONG(val, phase); if (val < 0) val = phase;` and the mirrored negative branch. -/
def roundSuper (thr ph per comp d : Int) : Int :=
  if d ≥ 0 then
    let v := landInt (addLong d (thr - ph + comp)) (-per)
    let v := addLong v ph
    if v < 0 then ph else v
  else
    let v := negLong (landInt (subLong (thr - ph + comp) d) (-per))
    let v := subLong v ph
    if v > 0 then -ph else v

/-- `Round_Super_45`: as `Round_Super` with `( x / period ) * period` (C division truncates;
`period ≠ 0` is a precondition, FreeType would fault). -/
def roundSuper45 (thr ph per comp d : Int) : Int :=
  if d ≥ 0 then
    let v := Int.tdiv (addLong d (thr - ph + comp)) per * per
    let v := addLong v ph
    if v < 0 then ph else v
  else
    let v := negLong (Int.tdiv (subLong (thr - ph + comp) d) per * per)
    let v := subLong v ph
    if v > 0 then -ph else v

/-- `SetSuperRound(exc, GridPeriod, selector)`: returns `(period, phase, threshold)` after the
final `>>= 8`.  `selector & 0xC0` / `& 0x30` / `& 0x0F` are the bit fields 7‥6, 5‥4, 3‥0 of the
two's-complement `FT_Long`. -/
def setSuperRound (gridPeriod selector : Int) : Int × Int × Int :=
  let f76 := selector / 64 % 4
  let f54 := selector / 16 % 4
  let f30 := selector % 16
  let period :=
    if f76 = 0 then Int.tdiv gridPeriod 2
    else if f76 = 1 then gridPeriod
    else if f76 = 2 then gridPeriod * 2
    else gridPeriod
  let phase :=
    if f54 = 0 then 0
    else if f54 = 1 then Int.tdiv period 4
    else if f54 = 2 then Int.tdiv period 2
    else Int.tdiv (period * 3) 4
  let threshold :=
    if f30 = 0 then period - 1
    else Int.tdiv ((f30 - 4) * period) 8
  (period / 256, phase / 256, threshold / 256)

/-- `exc->func_round` dispatch (`Compute_Round` and the `Ins_RTG`… setters). Mode numbering is
the driver protocol's: 0 Grid, 1 HalfGrid, 2 DoubleGrid, 3 DownToGrid, 4 UpToGrid, 5 Off,
6 Super, 7 Super45. -/
def round (mode thr ph per comp d : Int) : Int :=
  if mode = 0 then roundToGrid comp d
  else if mode = 1 then roundToHalfGrid comp d
  else if mode = 2 then roundToDoubleGrid comp d
  else if mode = 3 then roundDownToGrid comp d
  else if mode = 4 then roundUpToGrid comp d
  else if mode = 5 then roundNone comp d
  else if mode = 6 then roundSuper thr ph per comp d
  else roundSuper45 thr ph per comp d

end FontVerif.FtRound
