/-
Model of the value computation of skrifa's MIRP / MIAP / MDRP handlers
(skrifa/src/outline/glyf/hint/engine/outline.rs `op_mirp`, `op_miap`, `op_mdrp`): the arithmetic
between reading the CVT entry / measuring the original distance and the call of `move_point` —
single-width cut-in, auto-flip, control-value cut-in, rounding, minimum distance — in the
overflow-checked profile.  `F26Dot6` `+`, `-`, unary `-`, `abs`, `wrapping_sub` all wrap (font-types
fixed.rs: `wrapping_add/sub/neg/abs`); comparisons are on the `i32` bits; rounding is
`GraphicsState::round` = `RoundState::round` (Model/HintRound.lean, may trap: `none`).

Inputs that come out of the zones are parameters: `org` = `dual_project(zp1.original(p), zp0.original(rp0))`
(MIRP; for a twilight point AFTER the handler re-seated it) resp. the scaled unscaled distance (MDRP),
`cur` = `project(zp1.point(p), zp0.point(rp0))` (MIRP/MDRP) resp. `project(zp0.point(p), 0)` (MIAP).
The result is the distance handed to `move_point` (along the freedom vector).
-/
import FontVerif.Model.HintRound
import FontVerif.Model.Lxor
namespace FontVerif.HintMove
open FontVerif FontVerif.HintMath FontVerif.HintRound

/-- the graphics-state fields the three handlers read: `round_state` (mode as in the driver protocol),
`control_value_cutin`, `single_width`, `single_width_cutin`, `min_distance`, `auto_flip`. -/
structure Gs where
  mode : Int
  thr : Int
  ph : Int
  per : Int
  cutin : Int
  sw : Int
  swci : Int
  md : Int
  autoFlip : Bool

/-- `a.wrapping_sub(b)` / `a - b` on `F26Dot6`. -/
def wsub (a b : Int) : Int := wrapI32 (a - b)
/-- `a + b` on `F26Dot6` (wrapping). -/
def wadd (a b : Int) : Int := wrapI32 (a + b)
/-- `F26Dot6::abs` = `i32::wrapping_abs`. -/
def wabs (a : Int) : Int := if a < 0 then wrapI32 (-a) else a

/-- minimum-distance clamp shared by `op_mirp` and `op_mdrp`:
`if org >= 0 { if d < md { d = md } } else if d > -md { d = -md }`. -/
def minDist (md org d : Int) : Int :=
  if org ≥ 0 then (if d < md then md else d)
  else (if d > wneg md then wneg md else d)

/-- `op_mirp`, single-width stage:
`delta = cvt.wrapping_sub(sw).abs(); if delta < swci { cvt = if cvt >= 0 { sw } else { -sw } }`. -/
def mirpSw (g : Gs) (c : Int) : Int :=
  if wabs (wsub c g.sw) < g.swci then (if c ≥ 0 then g.sw else wneg g.sw) else c

/-- `op_mirp` from the auto-flip test to the argument of `move_point`.
`rnd` = opcode bit 4 (round and cut-in), `mind` = opcode bit 8, `same` = `gs.zp0 == gs.zp1`. -/
def mirpMove (g : Gs) (rnd mind same : Bool) (c org cur : Int) : Option Int :=
  -- if gs.auto_flip && (org.to_bits() ^ cvt.to_bits()) < 0 { cvt = -cvt }
  let c1 := if g.autoFlip ∧ lxorInt org c < 0 then wneg c else c
  (if rnd then
    -- if zp0 == zp1 { delta = cvt.wrapping_sub(org).abs(); if delta > cutin { cvt = org } }; gs.round(cvt)
    let c2 := if same ∧ wabs (wsub c1 org) > g.cutin then org else c1
    HintRound.round g.mode g.thr g.ph g.per c2
  else some c1).map fun d =>
  let d := if mind then minDist g.md org d else d
  wsub d cur

/-- `op_mirp` as a whole (given the measured distances). -/
def mirp (g : Gs) (rnd mind same : Bool) (c org cur : Int) : Option Int :=
  mirpMove g rnd mind same (mirpSw g c) org cur

/-- `op_miap`: `rnd` = opcode bit 1.  `cur` is the projection of the point's CURRENT position
(the variable is called `original_distance` in the source). -/
def miap (g : Gs) (rnd : Bool) (c cur : Int) : Option Int :=
  (if rnd then
    let c1 := if wabs (wsub c cur) > g.cutin then cur else c
    HintRound.round g.mode g.thr g.ph g.per c1
  else some c).map fun d => wsub d cur

/-- `op_mdrp` from the single-width test on. `org` = the original distance, `cur` the current one. -/
def mdrp (g : Gs) (rnd mind : Bool) (org cur : Int) : Option Int :=
  -- if cutin > 0 && org < value + cutin && org > value - cutin { org = if org >= 0 { value } else { -value } }
  let o1 := if g.swci > 0 ∧ org < wadd g.sw g.swci ∧ org > wsub g.sw g.swci
    then (if org ≥ 0 then g.sw else wneg g.sw) else org
  (if rnd then HintRound.round g.mode g.thr g.ph g.per o1 else some o1).map fun d =>
  let d := if mind then minDist g.md o1 d else d
  wsub d cur

end FontVerif.HintMove
