/-
C17 — the "metadata" tables klippa rewrites in place or rebuilds: OS/2, name, post.

  klippa/src/os2.rs    `Os2::subset`, `update_unicode_ranges`, `get_unicode_range_bit`
  klippa/src/name.rs   `Name::subset`, `serialize_name_records` (+ the serializer's `push` / `pop_pack(true)` /
                       `add_link(.., OffsetWhence::Tail, ..)` / `end_serialize` / `copy_bytes` as far as this
                       caller exercises them: every string is one leaf object, packed objects live at the end of
                       the buffer in reverse packing order, equal leaf objects are shared)
  klippa/src/post.rs   `Post::subset` (header copy, version 3.0 rewrite), `subset_post_v2tail`
  klippa/src/lib.rs    `Plan::populate_unicodes_to_retain` (os2_info), `subset()` (an `Err` without serializer
                       error flags means "table subsetted to empty": the table is omitted)
  read-fonts           `tables/os2.rs` OS2_UNICODE_RANGES, `tables/name.rs` `NameRecord::is_unicode`,
                       `tables/post.rs` DEFAULT_GLYPH_NAMES / `Post::glyph_name`
-/
import FontVerif.Model.Subset
namespace FontVerif.SubsetMeta
open FontVerif FontVerif.Subset

/-! ## OS/2 -/

def F_NO_PRUNE_UNICODE_RANGES : Nat := 0x0100
def F_NAME_LEGACY : Nat := 0x0008
def F_GLYPH_NAMES : Nat := 0x0080

/-- read-fonts `OS2_UNICODE_RANGES` (first, last, bit), ascending and disjoint (`os2Ranges_sorted` in the
lemmas), transcribed by script from read-fonts/src/tables/os2.rs -/
def os2Ranges : List (Nat × Nat × Nat) := [
  (0, 127, 0), (128, 255, 1), (256, 383, 2), (384, 591, 3), (592, 687, 4), (688, 767, 5),
  (768, 879, 6), (880, 1023, 7), (1024, 1279, 9), (1280, 1327, 9), (1328, 1423, 10), (1424, 1535, 11),
  (1536, 1791, 13), (1792, 1871, 71), (1872, 1919, 13), (1920, 1983, 72), (1984, 2047, 14), (2304, 2431, 15),
  (2432, 2559, 16), (2560, 2687, 17), (2688, 2815, 18), (2816, 2943, 19), (2944, 3071, 20), (3072, 3199, 21),
  (3200, 3327, 22), (3328, 3455, 23), (3456, 3583, 73), (3584, 3711, 24), (3712, 3839, 25), (3840, 4095, 70),
  (4096, 4255, 74), (4256, 4351, 26), (4352, 4607, 28), (4608, 4991, 75), (4992, 5023, 75), (5024, 5119, 76),
  (5120, 5759, 77), (5760, 5791, 78), (5792, 5887, 79), (5888, 5919, 84), (5920, 5951, 84), (5952, 5983, 84),
  (5984, 6015, 84), (6016, 6143, 80), (6144, 6319, 81), (6400, 6479, 93), (6480, 6527, 94), (6528, 6623, 95),
  (6624, 6655, 80), (6656, 6687, 96), (6912, 7039, 27), (7040, 7103, 112), (7168, 7247, 113), (7248, 7295, 114),
  (7424, 7551, 4), (7552, 7615, 4), (7616, 7679, 6), (7680, 7935, 29), (7936, 8191, 30), (8192, 8303, 31),
  (8304, 8351, 32), (8352, 8399, 33), (8400, 8447, 34), (8448, 8527, 35), (8528, 8591, 36), (8592, 8703, 37),
  (8704, 8959, 38), (8960, 9215, 39), (9216, 9279, 40), (9280, 9311, 41), (9312, 9471, 42), (9472, 9599, 43),
  (9600, 9631, 44), (9632, 9727, 45), (9728, 9983, 46), (9984, 10175, 47), (10176, 10223, 38), (10224, 10239, 37),
  (10240, 10495, 82), (10496, 10623, 37), (10624, 10751, 38), (10752, 11007, 38), (11008, 11263, 37), (11264, 11359, 97),
  (11360, 11391, 29), (11392, 11519, 8), (11520, 11567, 26), (11568, 11647, 98), (11648, 11743, 75), (11744, 11775, 9),
  (11776, 11903, 31), (11904, 12031, 59), (12032, 12255, 59), (12272, 12287, 59), (12288, 12351, 48), (12352, 12447, 49),
  (12448, 12543, 50), (12544, 12591, 51), (12592, 12687, 52), (12688, 12703, 59), (12704, 12735, 51), (12736, 12783, 61),
  (12784, 12799, 50), (12800, 13055, 54), (13056, 13311, 55), (13312, 19903, 59), (19904, 19967, 99), (19968, 40959, 59),
  (40960, 42127, 83), (42128, 42191, 83), (42240, 42559, 12), (42560, 42655, 9), (42752, 42783, 5), (42784, 43007, 29),
  (43008, 43055, 100), (43072, 43135, 53), (43136, 43231, 115), (43264, 43311, 116), (43312, 43359, 117), (43520, 43615, 118),
  (44032, 55215, 56), (55296, 57343, 57), (57344, 63743, 60), (63744, 64255, 61), (64256, 64335, 62), (64336, 65023, 63),
  (65024, 65039, 91), (65040, 65055, 65), (65056, 65071, 64), (65072, 65103, 65), (65104, 65135, 66), (65136, 65279, 67),
  (65280, 65519, 68), (65520, 65535, 69), (65536, 65663, 101), (65664, 65791, 101), (65792, 65855, 101), (65856, 65935, 102),
  (65936, 65999, 119), (66000, 66047, 120), (66176, 66207, 121), (66208, 66271, 121), (66304, 66351, 85), (66352, 66383, 86),
  (66432, 66463, 103), (66464, 66527, 104), (66560, 66639, 87), (66640, 66687, 105), (66688, 66735, 106), (67584, 67647, 107),
  (67840, 67871, 58), (67872, 67903, 121), (68096, 68191, 108), (73728, 74751, 110), (74752, 74879, 110), (118784, 119039, 88),
  (119040, 119295, 88), (119296, 119375, 88), (119552, 119647, 109), (119648, 119679, 111), (119808, 120831, 89), (126976, 127023, 122),
  (127024, 127135, 122), (131072, 173791, 59), (194560, 195103, 61), (917504, 917631, 92), (917760, 917999, 91), (983040, 1048573, 90),
  (1048576, 1114109, 90)]

/-- `get_unicode_range_bit`: the binary search over ascending disjoint ranges finds the one range that
contains `cp`, if any -/
def unicodeRangeBit (cp : Nat) : Option Nat :=
  (os2Ranges.find? (fun r => decide (r.1 ≤ cp) && decide (cp ≤ r.2.1))).map (·.2.2)

/-- the masks one code point ORs into `new_ranges[0..4]` -/
def cpMasks (cp : Nat) : List (Nat × Nat) :=
  (match unicodeRangeBit cp with
   | some bit => if bit < 128 then [(bit / 32, 1 <<< (bit % 32))] else []
   | none => []) ++
  (if 0x10000 ≤ cp ∧ cp ≤ 0x110000 then [(1, 1 <<< 25)] else [])

/-- `new_ranges` after the loop over `plan.unicodes` -/
def newRanges (unicodes : List Nat) : List Nat :=
  (List.range 4).map fun block =>
    (unicodes.flatMap cpMasks).foldl (fun acc m => if m.1 = block then acc ||| m.2 else acc) 0

/-- the 16 mask bytes (`to_be_bytes` of the four words) -/
def rangeMaskBytes (unicodes : List Nat) : Bytes := (newRanges unicodes).flatMap be32

/-- replace `d[pos .. pos + v.length)` by `v` (callers guarantee the range exists) -/
def patch (d : Bytes) (pos : Nat) (v : Bytes) : Bytes := d.take pos ++ v ++ d.drop (pos + v.length)

/-- `Os2::subset`: the whole table is copied; usFirstCharIndex (byte 64) and usLastCharIndex (66) become
`os2_info.{min,max}_cmap_codepoint.min(0xFFFF)`; unless NO_PRUNE_UNICODE_RANGES the 16 bytes of
ulUnicodeRange1..4 (42..58) are ANDed with the ranges of the retained code points.
`minCp` / `maxCp` are the plan's `os2_info` (min / max of the retained cmap code points, 0xFFFF when there are
none; requested variation selectors join `plan.unicodes` only afterwards). -/
def subsetOs2 (flags minCp maxCp : Nat) (unicodes : List Nat) (t : Bytes) : Except String Bytes :=
  if t.length < 78 then .error "unmodelled" else      -- `Os2::read` needs the 78 bytes of version 0
  let t1 := patch t 64 (be16 (min minCp 0xFFFF))
  let t2 := patch t1 66 (be16 (min maxCp 0xFFFF))
  if hasFlag flags F_NO_PRUNE_UNICODE_RANGES then .ok t2 else
  let masked := List.zipWith (fun a b => a &&& b) ((t2.drop 42).take 16) (rangeMaskBytes unicodes)
  .ok (patch t2 42 masked)

/-- `Plan::populate_unicodes_to_retain`: `unicodes.first().unwrap_or(0xFFFF)`, `.last().unwrap_or(0xFFFF)` on the
ascending set of retained cmap code points -/
def os2MinCp (cps : List Nat) : Nat := match cps with | [] => 0xFFFF | c :: rest => rest.foldl min c
def os2MaxCp (cps : List Nat) : Nat := match cps with | [] => 0xFFFF | c :: rest => rest.foldl max c

/-! ## name -/

structure NameRec where
  pid : Nat
  eid : Nat
  lang : Nat
  nid : Nat
  len : Nat
  off : Nat
  /-- `data.get(storage_start + off .. + len)` (`none`: out of bounds) -/
  str : Option Bytes
  deriving Repr, DecidableEq

/-- `NameRecord::is_unicode` -/
def NameRec.isUnicode (r : NameRec) : Bool := r.pid == 0 || (r.pid == 3 && (r.eid == 0 || r.eid == 1 || r.eid == 10))

/-- the `filter_map` of `Name::subset` -/
def nameKeeps (flags : Nat) (nameIds langs : List Nat) (r : NameRec) : Bool :=
  nameIds.contains r.nid && langs.contains r.lang && (hasFlag flags F_NAME_LEGACY || r.isUnicode)

/-- lexicographic `<=` on the sort key (platform, encoding, language, name id, length) -/
def nameKeyLe (a b : NameRec) : Bool :=
  let ka := [a.pid, a.eid, a.lang, a.nid, a.len]
  let kb := [b.pid, b.eid, b.lang, b.nid, b.len]
  decide (ka ≤ kb)

/-- insert `r` in front of the first element that is not smaller (stable for an `r` that preceded them) -/
def insertRec (r : NameRec) : List NameRec → List NameRec
  | [] => [r]
  | x :: xs => if nameKeyLe r x then r :: x :: xs else x :: insertRec r xs

/-- stable insertion sort by the key -/
def sortRecs : List NameRec → List NameRec
  | [] => []
  | r :: rest => insertRec r (sortRecs rest)

/-- the retained records in output order.  `sort_unstable_by_key` is modelled by a stable sort: records that
tie on the whole key are indistinguishable in the output except for their string, and the harness never
builds retained records with such ties -/
def nameRetained (flags : Nat) (nameIds langs : List Nat) (recs : List NameRec) : List NameRec :=
  sortRecs (recs.filter (nameKeeps flags nameIds langs))

/-- the packed string objects so far, in packing order (distinct) -/
abbrev Packed := List Bytes

/-- `push` / `embed_bytes` / `pop_pack(true)` of one string: an equal earlier object is shared -/
def packString (p : Packed) (s : Bytes) : Packed := if p.contains s then p else p ++ [s]

/-- byte offset of a packed object from the start of the storage area: the objects packed after it come
first (the serializer fills its buffer from the end) -/
def packedOffset (p : Packed) (s : Bytes) : Nat :=
  ((p.dropWhile (· != s)).drop 1).foldl (fun acc x => acc + x.length) 0

/-- the storage area: packed objects in reverse packing order -/
def storageBytes (p : Packed) : Bytes := p.reverse.flatMap id

def nameRecordBytes (r : NameRec) (off : Nat) : Bytes :=
  be16 r.pid ++ be16 r.eid ++ be16 r.lang ++ be16 r.nid ++ be16 r.len ++ be16 off

/-- pack the strings of the retained records in order.  A record of length 0 is kept with a null offset and
packs nothing (`pop_pack` has no object for an empty string); `none`: a non-empty string is out of bounds -/
def packAll : List NameRec → Packed → Option Packed
  | [], p => some p
  | r :: rest, p =>
    if r.len = 0 then packAll rest p else
    match r.str with
    | none => none
    | some s => packAll rest (packString p s)

/-- the string offset written into a retained record -/
def nameOffset (p : Packed) (r : NameRec) : Nat := if r.len = 0 then 0 else packedOffset p (r.str.getD [])

/-- `Name::subset` (after repair: empty strings).  `"dropped"`: an `Err` without serializer error (lib.rs omits
the table: a string out of bounds); `"trap"`: `count * 12 + 6` overflows u16 (overflow-checked profile);
`"unmodelled"`: more than 0xFFFF bytes of strings (offset overflow handling) -/
def subsetName (flags : Nat) (nameIds langs : List Nat) (recs : List NameRec) : Except String Bytes :=
  let kept := nameRetained flags nameIds langs recs
  let count := kept.length % 65536
  if count * 12 + 6 ≥ 65536 then .error "trap" else
  match packAll kept [] with
  | none => .error "dropped"
  | some p =>
    if (storageBytes p).length > 0xFFFF then .error "unmodelled" else
    .ok (be16 0 ++ be16 count ++ be16 (count * 12 + 6) ++
      kept.flatMap (fun r => nameRecordBytes r (nameOffset p r)) ++ storageBytes p)

/-! ## post -/

/-- `Post::subset` without the version 2 tail: the 32 header bytes (`min_table_bytes`), the version replaced
by 3.0 unless GLYPH_NAMES is set.  `none`: GLYPH_NAMES with a version 2.0 table (tail not modelled here). -/
def subsetPostHeader (flags : Nat) (t : Bytes) : Option Bytes :=
  if t.length < 32 then none else
  let hdr := t.take 32
  if hasFlag flags F_GLYPH_NAMES then
    (if hdr.take 4 = [0, 2, 0, 0] then none else some hdr)
  else some (patch hdr 0 [0, 3, 0, 0])

end FontVerif.SubsetMeta
