/-
Hand models of the two pieces of the `glyf` draw path whose scratch-memory accesses are data
dependent (the `modelled` events of Gen/C12Wbr.lean):

  * `skrifa/src/outline/glyf/hint/value_stack.rs`: `ValueStack` on a backing slice carved from the
    caller's buffer (`HintOutline::stack`), never cleared: `new`, `push`, `push_inline_operands`,
    `peek`, `pop`, `dup`, `swap`, `clear`, `copy_index`, `move_index`, `roll`, `len`, `values`;
  * `read-fonts/src/tables/glyf.rs`: `SimpleGlyph::read_points_fast` writing the unscaled points and
    the flags into scratch slices.
-/
import FontVerif.Model.Base
namespace FontVerif.ScratchModels

/-! ## ValueStack -/

/-- `ValueStack { values, len, is_pedantic }`; the backing slice as a function (index → i32 value)
and its length `cap` -/
structure VS where
  vals : Nat → Int
  cap : Nat
  len : Nat
  pedantic : Bool

inductive VErr
  | overflow | underflow
deriving DecidableEq, Repr

inductive VOp
  | push (v : Int)
  | pushMany (vs : List Int)
  | pop | peek | dup | swap | clear | copyIndex | moveIndex | roll | len | values
deriving DecidableEq, Repr

/-- what an operation returns -/
inductive VObs
  | ok (vs : List Int)
  | err (e : VErr)
deriving DecidableEq, Repr

def upd (f : Nat → Int) (i : Nat) (v : Int) : Nat → Int := fun j => if j = i then v else f j

/-- `ValueStack::new(values, is_pedantic)`: `len: 0`, whatever the slice holds -/
def VS.new (buf : List Int) (pedantic : Bool) : VS := ⟨fun j => buf.getD j 0, buf.length, 0, pedantic⟩

/-- `push`: `values.get_mut(len).ok_or(ValueStackOverflow)?` -/
def VS.push (s : VS) (v : Int) : VS × Option VErr :=
  if s.len < s.cap then ({ s with vals := upd s.vals s.len v, len := s.len + 1 }, none)
  else (s, some .overflow)

/-- `push_inline_operands`: `values.get_mut(len..len + n).ok_or(ValueStackOverflow)?`, then one write
per operand -/
def writeMany (f : Nat → Int) (base : Nat) : List Int → Nat → Int
  | [] => f
  | v :: vs => writeMany (upd f base v) (base + 1) vs

def VS.pushMany (s : VS) (vs : List Int) : VS × Option VErr :=
  if s.len + vs.length ≤ s.cap then
    ({ s with vals := writeMany s.vals s.len vs, len := s.len + vs.length }, none)
  else (s, some .overflow)

/-- `peek` -/
def VS.peek (s : VS) : Option Int := if s.len > 0 then some (s.vals (s.len - 1)) else none

/-- `pop`: an empty stack is an error only in pedantic mode, else `0` -/
def VS.pop (s : VS) : VS × Except VErr Int :=
  match s.peek with
  | some v => ({ s with len := s.len - 1 }, .ok v)
  | none => if s.pedantic then (s, .error .underflow) else (s, .ok 0)

def VS.dup (s : VS) : VS × Option VErr :=
  match s.peek with
  | some v => s.push v
  | none => if s.pedantic then (s, some .underflow) else s.push 0

/-- `swap`: `let a = pop()?; let b = pop()?; push(a)?; push(b)` (effects of the steps before a
failing one stay) -/
def VS.swap (s : VS) : VS × Option VErr :=
  match s.pop with
  | (s1, .error e) => (s1, some e)
  | (s1, .ok a) =>
    match s1.pop with
    | (s2, .error e) => (s2, some e)
    | (s2, .ok b) =>
      match s2.push a with
      | (s3, some e) => (s3, some e)
      | (s3, none) => s3.push b

def VS.roll (s : VS) : VS × Option VErr :=
  match s.pop with
  | (s1, .error e) => (s1, some e)
  | (s1, .ok a) =>
    match s1.pop with
    | (s2, .error e) => (s2, some e)
    | (s2, .ok b) =>
      match s2.pop with
      | (s3, .error e) => (s3, some e)
      | (s3, .ok c) =>
        match s3.push b with
        | (s4, some e) => (s4, some e)
        | (s4, none) =>
          match s4.push a with
          | (s5, some e) => (s5, some e)
          | (s5, none) => s5.push c

/-- `copy_index`: `top_ix = len.checked_sub(1)?; index = values[top_ix] as usize;
element_ix = top_ix.checked_sub(index)?; values[top_ix] = values[element_ix]`
(a negative `i32` as `usize` is larger than any `top_ix`) -/
def VS.copyIndex (s : VS) : VS × Option VErr :=
  if s.len = 0 then (s, some .underflow) else
  let top := s.len - 1
  let index := s.vals top
  if index < 0 ∨ index.toNat > top then (s, some .underflow) else
  ({ s with vals := upd s.vals top (s.vals (top - index.toNat)) }, none)

/-- `move_index`: …; `new_top_ix = top_ix.checked_sub(1)?; value = values[element_ix];
values.copy_within(element_ix + 1..len, element_ix); values[new_top_ix] = value; len -= 1` -/
def VS.moveIndex (s : VS) : VS × Option VErr :=
  if s.len = 0 then (s, some .underflow) else
  let top := s.len - 1
  let index := s.vals top
  if index < 0 ∨ index.toNat > top then (s, some .underflow) else
  if top = 0 then (s, some .underflow) else
  let el := top - index.toNat
  let value := s.vals el
  let shifted : Nat → Int := fun j => if el ≤ j ∧ j + 1 < s.len then s.vals (j + 1) else s.vals j
  ({ s with vals := upd shifted (top - 1) value, len := s.len - 1 }, none)

def errObs : Option VErr → VObs
  | none => .ok []
  | some e => .err e

def VS.step (s : VS) : VOp → VS × VObs
  | .push v => let r := s.push v; (r.1, errObs r.2)
  | .pushMany vs => let r := s.pushMany vs; (r.1, errObs r.2)
  | .pop => match s.pop with
    | (s1, .ok v) => (s1, .ok [v])
    | (s1, .error e) => (s1, .err e)
  | .peek => (s, .ok (match s.peek with | some v => [v] | none => []))
  | .dup => let r := s.dup; (r.1, errObs r.2)
  | .swap => let r := s.swap; (r.1, errObs r.2)
  | .clear => ({ s with len := 0 }, .ok [])
  | .copyIndex => let r := s.copyIndex; (r.1, errObs r.2)
  | .moveIndex => let r := s.moveIndex; (r.1, errObs r.2)
  | .roll => let r := s.roll; (r.1, errObs r.2)
  | .len => (s, .ok [(s.len : Int)])
  | .values => (s, .ok ((List.range s.len).map s.vals))

def VS.run : VS → List VOp → List VObs
  | _, [] => []
  | s, op :: ops => let r := s.step op; r.2 :: VS.run r.1 ops

def renderObs : VObs → String
  | .ok vs => "ok" ++ String.join (vs.map fun v => s!" {v}")
  | .err .overflow => "ValueStackOverflow"
  | .err .underflow => "ValueStackUnderflow"

/-! ## read_points_fast -/

def hasBit (f m : Nat) : Bool := (f &&& m) != 0
def REPEAT : Nat := 0x08
def X_SHORT : Nat := 0x02
def Y_SHORT : Nat := 0x04
def X_SAME : Nat := 0x10
def Y_SAME : Nat := 0x20

/-- the `while let Some(flag_bits) = flags_iter.next()` loop writing into the caller's flag buffer
`buf` from index `i`; returns `read_flags_bytes` and the buffer.
`count = (next()? + 1).min(n - i)`, `flags[i..i + count]` filled; `if i == n { break }`; after the loop
`if i != n { return Err(OutOfBounds) }`. -/
def fastFlagsBuf (n : Nat) : List Nat → (rfb i : Nat) → (buf : List Nat) → Option (Nat × List Nat)
  | [], rfb, i, buf => if i = n then some (rfb, buf) else none
  | f :: rest, rfb, i, buf =>
    if hasBit f REPEAT then
      match rest with
      | [] => none
      | r :: rest' =>
        let count := min (r + 1) (n - i)
        let e := i + count
        let buf' := buf.take i ++ List.replicate count f ++ buf.drop e
        if e = n then some (rfb + 2, buf') else fastFlagsBuf n rest' (rfb + 2) e buf'
    else
      let buf' := buf.set i f
      if i + 1 = n then some (rfb + 1, buf') else fastFlagsBuf n rest (rfb + 1) (i + 1) buf'

def wrapI16 (v : Nat) : Int := if v ≥ 32768 then (v : Int) - 65536 else v
def wrapI32 (v : Int) : Int := (v + 2147483648) % 4294967296 - 2147483648

/-- one delta: short vector → `u8`, negated unless the same/positive bit is set; else `i16` unless
that bit is set; else 0.  `none` = `Err(OutOfBounds)` -/
def fastDelta (short same : Bool) (cur : List Nat) : Option (Int × List Nat) :=
  if short then
    match cur with
    | [] => none
    | b :: r => some (if same then (b : Int) else -(b : Int), r)
  else if !same then
    match cur with
    | a :: b :: r => some (wrapI16 (a * 256 + b), r)
    | _ => none
  else some (0, cur)

/-- one coordinate pass over the flag buffer (`x = x.wrapping_add(delta)` on i32) -/
def fastCoords (short same : Nat) : List Nat → List Nat → Int → Option (List Int × List Nat)
  | [], cur, _ => some ([], cur)
  | f :: fs, cur, acc =>
    match fastDelta (hasBit f short) (hasBit f same) cur with
    | none => none
    | some (d, cur') =>
      let acc' := wrapI32 (acc + d)
      (fastCoords short same fs cur' acc').map (fun p => (acc' :: p.1, p.2))

/-- write coordinate `v` into the caller's point `p` -/
def zipWrite (pts : List (Int × Int)) (vs : List Int) (isX : Bool) : List (Int × Int) :=
  (pts.zip vs).map fun pv => if isX then (pv.2, pv.1.2) else (pv.1.1, pv.2)

/-- `SimpleGlyph::read_points_fast::<i32>(points, flags)` on the glyph data after the instructions
(`glyph_data()`), `n = num_points()`, with the caller's buffers `pts0` / `flags0` (arbitrary contents).
`none` = `Err`.  Result: the buffers afterwards (flags reduced to the on-curve bit). -/
def readPointsBuf (gd : List Nat) (n : Nat) (pts0 : List (Int × Int)) (flags0 : List Nat) :
    Option (List (Int × Int) × List Nat) :=
  if pts0.length ≠ n ∨ flags0.length ≠ n then none else
  match fastFlagsBuf n (gd.take (min (2 * n) gd.length)) 0 0 flags0 with
  | none => none
  | some (rfb, buf) =>
    match fastCoords X_SHORT X_SAME buf (gd.drop rfb) 0 with
    | none => none
    | some (xs, cur) =>
      match fastCoords Y_SHORT Y_SAME buf cur 0 with
      | none => none
      | some (ys, _) =>
        some (zipWrite (zipWrite pts0 xs true) ys false, buf.map (· &&& 1))

end FontVerif.ScratchModels
