/-
Model of FreeType 2.12.1's projection / freedom vector machinery and point movement primitives
(as bundled and compiled by freetype-sys 0.17.0: x86-64 LP64, GCC, `TT_CONFIG_OPTION_SUBPIXEL_HINTING 2`,
i.e. only the v40 "minimal" subpixel code is compiled and `SUBPIXEL_HINTING_MINIMAL` is true for the
default interpreter version 40, `NO_SUBPIXEL_HINTING` false):
  src/base/ftcalc.c        `FT_Vector_NormLen` (`FT_MSB(x) = 31 - __builtin_clz(x)`)
  src/truetype/ttinterp.c  `Normalize`, `Compute_Funcs`, `Project`, `Dual_Project`, `Project_x`,
                           `Project_y`, `Direct_Move`, `Direct_Move_X/Y`, `Direct_Move_Orig(_X/_Y)`,
                           `Move_Zp2_Point`, `Compute_Point_Displacement` (value part),
                           `Ins_SxVTL`, `Ins_SxyTCA`, `Ins_SPVTL`, `Ins_SFVTL`, `Ins_SDPVTL`,
                           `Ins_SPVFS`, `Ins_SFVFS`, `Ins_SFVTPV`, `Ins_GC`, `Ins_SCFS`, `Ins_MD`
`FT_Pos`, `FT_Long`, `FT_F26Dot6` are 64-bit `long`; `FT_F2Dot14` is `signed short`; `FT_Int32`/
`FT_UInt32` 32 bit.  Signed overflow that is undefined behaviour in C (`x_ * b` on `FT_Int32` in the
Newton iteration, `-(FT_Int32)…` on `INT_MIN`) is modelled as the two's-complement wrap x86-64
performs and is called out where it occurs.
-/
import FontVerif.Model.FtMove
import FontVerif.Model.TtState
import FontVerif.Model.HintVec
set_option linter.unusedVariables false
namespace FontVerif.FtVec
open FontVerif FontVerif.FtCalc FontVerif.Tt

/-! ### `FT_Vector_NormLen` / `Normalize` -/

/-- number of significant bits of a `FT_UInt32`. -/
def bitLen : Nat → Int → Int
  | 0, _ => 0
  | n + 1, l => if l ≤ 0 then 0 else 1 + bitLen n (l / 2)

/-- `FT_MSB(x) = 31 - __builtin_clz(x)`: index of the most significant set bit. -/
def msb (l : Int) : Int := bitLen 32 l - 1

def pow2 (s : Int) : Int := (2 : Int) ^ s.toNat

/-- `l = x > y ? x + ( y >> 1 ) : y + ( x >> 1 )` on `FT_UInt32`. -/
def approxLen (x y : Int) : Int :=
  if x > y then wrapU32 (x + y / 2) else wrapU32 (y + x / 2)

/-- the `do { … } while ( z > 0 )` Newton iteration; `x_ y_ b` are `FT_Int32`, the result is
`(u, v)` as `FT_UInt32`.  `x_ * b`, the unary minus and `z * (…)` are signed 32-bit operations
(UB on overflow in C, wrap here).  `none` = fuel (64 iterations) exhausted. -/
def normLoop : Nat → Int → Int → Int → Option (Int × Int)
  | 0, _, _, _ => none
  | fuel + 1, x_, y_, b =>
    -- u = (FT_UInt32)( x_ + ( x_ * b >> 16 ) )
    let u := wrapU32 (wrapI32 (x_ + wrapI32 (x_ * b) / 65536))
    let v := wrapU32 (wrapI32 (y_ + wrapI32 (y_ * b) / 65536))
    -- z = -(FT_Int32)( u * u + v * v ) / 0x200
    let s := wrapI32 (wrapU32 (wrapU32 (u * u) + wrapU32 (v * v)))
    let z := Int.tdiv (wrapI32 (-s)) 512
    -- z = z * ( ( 0x10000 + b ) >> 8 ) / 0x10000
    let z := Int.tdiv (wrapI32 (z * (wrapI32 (65536 + b) / 256))) 65536
    -- b += z;  while ( z > 0 )
    if z > 0 then normLoop fuel x_ y_ (wrapI32 (b + z)) else some (u, v)

/-- `shift = 31 - FT_MSB( l ); shift -= 15 + ( l >= ( 0xAAAAAAAAUL >> shift ) )`. -/
def normShift (l : Int) : Int :=
  let sh0 := 31 - msb l
  sh0 - (15 + (if l ≥ 2863311530 / pow2 sh0 then 1 else 0))

/-- `if ( shift > 0 ) { x <<= shift; y <<= shift; l = … } else { x >>= -shift; y >>= -shift; l >>= -shift; }`
on `FT_UInt32`. -/
def prenorm (x y l shift : Int) : Int × Int × Int :=
  if shift > 0 then
    let x' := wrapU32 (x * pow2 shift)
    let y' := wrapU32 (y * pow2 shift)
    (x', y', approxLen x' y')
  else
    (x / pow2 (-shift), y / pow2 (-shift), l / pow2 (-shift))

/-- `FT_Vector_NormLen` between the trivial cases and the assignment of the result: `x y` are the
magnitudes (`FT_UInt32`, both non-zero); result `(u, v)` of the Newton iteration
(`b = 0x10000 - (FT_Int32)l; x_ = (FT_Int32)x; y_ = (FT_Int32)y`). -/
def normCore (x y : Int) : Option (Int × Int) :=
  let p := prenorm x y (approxLen x y) (normShift (approxLen x y))
  normLoop 64 (wrapI32 p.1) (wrapI32 p.2.1) (wrapI32 (65536 - wrapI32 p.2.2))

/-- ftcalc.c `FT_Vector_NormLen( &vector )`: the new `(vector->x, vector->y)` (`FT_Pos`, 64 bit).
The return value (the length) is not used by `Normalize`. -/
def normLen (vx vy : Int) : Option (Int × Int) :=
  let x_ := wrapI32 vx
  let y_ := wrapI32 vy
  let x0 := wrapU32 x_
  let y0 := wrapU32 y_
  -- FT_MOVE_SIGN( x_, x, sx )
  let x := if x_ < 0 then wrapU32 (0 - x0) else x0
  let sx : Int := if x_ < 0 then -1 else 1
  let y := if y_ < 0 then wrapU32 (0 - y0) else y0
  let sy : Int := if y_ < 0 then -1 else 1
  if x = 0 then
    some (vx, if y > 0 then sy * 65536 else vy)
  else if y = 0 then
    some (if x > 0 then sx * 65536 else vx, vy)
  else
    (normCore x y).map fun (u, v) =>
      -- vector->x = sx < 0 ? -(FT_Pos)u : (FT_Pos)u
      (if sx < 0 then -u else u, if sy < 0 then -v else v)

/-- ttinterp.c `Normalize( Vx, Vy, R )`: the new `*R` (`FT_UnitVector` of `FT_F2Dot14` = `short`). -/
def normalize (vx vy : Int) (r : Vec) : Option Vec :=
  if vx = 0 ∧ vy = 0 then some r
  else (normLen vx vy).map fun (a, b) => ⟨wrapI16 (Int.tdiv a 4), wrapI16 (Int.tdiv b 4)⟩

/-! ### `Compute_Funcs` -/

inductive ProjFn
  | general
  | px
  | py
deriving DecidableEq, Repr

inductive MoveFn
  | direct
  | mx
  | my
deriving DecidableEq, Repr

/-- what `Compute_Funcs` leaves in the execution context. -/
structure Funcs where
  pv : Vec
  dv : Vec
  fv : Vec
  fDotP : Int
  project : ProjFn
  dualproj : ProjFn
  move : MoveFn
deriving DecidableEq, Repr

/-- ttinterp.c `Compute_Funcs` (vector components are `FT_F2Dot14` shorts). -/
def computeFuncs (pv dv fv : Vec) : Funcs :=
  let f0 :=
    if fv.x = 16384 then pv.x
    else if fv.y = 16384 then pv.y
    else (pv.x * fv.x + pv.y * fv.y) / 16384
  let project := if pv.x = 16384 then ProjFn.px else if pv.y = 16384 then ProjFn.py else ProjFn.general
  let dualproj := if dv.x = 16384 then ProjFn.px else if dv.y = 16384 then ProjFn.py else ProjFn.general
  let move :=
    if f0 = 16384 then
      (if fv.x = 16384 then MoveFn.mx else if fv.y = 16384 then MoveFn.my else MoveFn.direct)
    else MoveFn.direct
  -- if ( FT_ABS( exc->F_dot_P ) < 0x400L ) exc->F_dot_P = 0x4000L
  let f := if (if f0 < 0 then -f0 else f0) < 1024 then 16384 else f0
  { pv := pv, dv := dv, fv := fv, fDotP := f, project := project, dualproj := dualproj, move := move }

/-- `exc->func_project( exc, dx, dy )`: `Project` = `TT_DotFix14( dx, dy, … )` whose first two
parameters are `FT_Int32` (the `FT_Pos` arguments are truncated). -/
def funcProject (g : Funcs) (dx dy : Int) : Int :=
  match g.project with
  | .px => dx
  | .py => dy
  | .general => dotFix14 (wrapI32 dx) (wrapI32 dy) g.pv.x g.pv.y

def funcDualproj (g : Funcs) (dx dy : Int) : Int :=
  match g.dualproj with
  | .px => dx
  | .py => dy
  | .general => dotFix14 (wrapI32 dx) (wrapI32 dy) g.dv.x g.dv.y

/-- `PROJECT( v1, v2 )`. -/
def project (g : Funcs) (v1 v2 : Vec) : Int := funcProject g (subLong v1.x v2.x) (subLong v1.y v2.y)
/-- `DUALPROJ( v1, v2 )`. -/
def dualproj (g : Funcs) (v1 v2 : Vec) : Int := funcDualproj g (subLong v1.x v2.x) (subLong v1.y v2.y)
/-- `FAST_PROJECT( v )`. -/
def fastProject (g : Funcs) (v : Vec) : Int := funcProject g v.x v.y
/-- `FAST_DUALPROJ( v )`. -/
def fastDualproj (g : Funcs) (v : Vec) : Int := funcDualproj g v.x v.y

/-! ### moving points -/

/-- `exc->func_move( exc, zone, point, distance )`: `Direct_Move`, `Direct_Move_X`, `Direct_Move_Y`
with the v40 conditions (`bc` = `exc->backward_compatibility`, `iup` = `iupx_called && iupy_called`). -/
def funcMove (g : Funcs) (bc iup : Bool) (p : HintVec.MPt) (d : Int) : HintVec.MPt :=
  match g.move with
  | .mx => { p with x := if ¬ bc then addLong p.x d else p.x, tx := true }
  | .my => { p with y := if ¬ (bc ∧ iup) then addLong p.y d else p.y, ty := true }
  | .direct =>
    let p1 : HintVec.MPt :=
      if g.fv.x ≠ 0 then
        { p with x := if ¬ bc then addLong p.x (mulDiv d g.fv.x g.fDotP) else p.x, tx := true }
      else p
    if g.fv.y ≠ 0 then
      { p1 with y := if ¬ (bc ∧ iup) then addLong p1.y (mulDiv d g.fv.y g.fDotP) else p1.y, ty := true }
    else p1

/-- `exc->func_move_orig`: `Direct_Move_Orig`, `_X`, `_Y`. -/
def funcMoveOrig (g : Funcs) (p : Vec) (d : Int) : Vec :=
  match g.move with
  | .mx => ⟨addLong p.x d, p.y⟩
  | .my => ⟨p.x, addLong p.y d⟩
  | .direct =>
    let x := if g.fv.x ≠ 0 then addLong p.x (mulDiv d g.fv.x g.fDotP) else p.x
    let y := if g.fv.y ≠ 0 then addLong p.y (mulDiv d g.fv.y g.fDotP) else p.y
    ⟨x, y⟩

/-- ttinterp.c `Move_Zp2_Point( exc, point, dx, dy, touch )`. -/
def moveZp2Point (g : Funcs) (bc iup : Bool) (p : HintVec.MPt) (dx dy : Int) (touch : Bool) : HintVec.MPt :=
  let p1 : HintVec.MPt :=
    if g.fv.x ≠ 0 then
      { p with x := if ¬ bc then addLong p.x dx else p.x, tx := if touch then true else p.tx }
    else p
  if g.fv.y ≠ 0 then
    { p1 with y := if ¬ (bc ∧ iup) then addLong p1.y dy else p1.y, ty := if touch then true else p1.ty }
  else p1

/-- `Compute_Point_Displacement`: `d = PROJECT( zp.cur + p, zp.org + p )`,
`*x = FT_MulDiv( d, freeVector.x, F_dot_P )`, `*y = …`. -/
def pointDisplacement (g : Funcs) (cur org : Vec) : Int × Int :=
  let d := project g cur org
  (mulDiv d g.fv.x g.fDotP, mulDiv d g.fv.y g.fDotP)

/-! ### GC, SCFS, MD -/

/-- `Ins_GC`. -/
def gc (g : Funcs) (a : Bool) (org cur : Vec) : Int :=
  if a then fastDualproj g org else fastProject g cur

/-- `Ins_SCFS`: `K = FAST_PROJECT( &zp2.cur[L] ); func_move( zp2, L, SUB_LONG( args[1], K ) )`. -/
def scfs (g : Funcs) (bc iup : Bool) (p : HintVec.MPt) (value : Int) : HintVec.MPt :=
  let k := fastProject g ⟨p.x, p.y⟩
  funcMove g bc iup p (subLong value k)

/-- `Ins_MD` with `exc->metrics.x_scale == exc->metrics.y_scale` (the only case a square pixel size
produces): `p2` = `zp0` point `L` (popped first … see the source: `K = args[1]`, `L = args[0]`),
`p1` = `zp1` point `K`. -/
def md (g : Funcs) (a twilight : Bool) (scale : Int) (p2 p1 : ZPt) : Int :=
  if a then project g p2.cur p1.cur
  else if twilight then dualproj g p2.org p1.org
  else mulFix (dualproj g p2.orus p1.orus) scale

/-! ### setting the vectors -/

/-- the block that `Ins_SxVTL` contains once and `Ins_SDPVTL` twice (textually repeated there):
`A = SUB_LONG( v1->x, v2->x ); B = SUB_LONG( v1->y, v2->y ); if ( A == 0 && B == 0 ) { A = 0x4000; opcode = 0; }
if ( ( opcode & 1 ) != 0 ) { C = B; B = A; A = NEG_LONG( C ); }  Normalize( A, B, R );`
— the new `*R` and the (possibly cleared) local `opcode`. -/
def lineBlock (opcode : Int) (v1 v2 : Vec) (r : Vec) : Option Vec × Int :=
  let a := subLong v1.x v2.x
  let b := subLong v1.y v2.y
  let (a, opcode) := if a = 0 ∧ b = 0 then (16384, 0) else (a, opcode)
  (if opcode % 2 ≠ 0 then normalize (negLong b) a r else normalize a b r, opcode)

/-- `Ins_SxVTL( exc, aIdx1, aIdx2, Vec )`: `p1 = zp1.cur + aIdx2`, `p2 = zp2.cur + aIdx1`. -/
def sxvtl (opcode : Int) (p1 p2 : Vec) (r : Vec) : Option Vec := (lineBlock opcode p1 p2 r).1

/-- `Ins_SxyTCA`. -/
def sxytca (opcode : Int) (pv dv fv : Vec) : Vec × Vec × Vec :=
  let aa := wrapI16 ((opcode % 2) * 16384)
  let bb := wrapI16 (if aa = 16384 then 0 else 16384)
  let (pv, dv) := if opcode < 4 then (Vec.mk aa bb, Vec.mk aa bb) else (pv, dv)
  let fv := if opcode / 2 % 2 = 0 then Vec.mk aa bb else fv
  (pv, dv, fv)

/-- `Ins_SPVTL` / `Ins_SFVTL` (opcodes 6‥9). -/
def svtl (opcode : Int) (p1 p2 : Vec) (pv dv fv : Vec) : Option (Vec × Vec × Vec) :=
  if opcode < 8 then (sxvtl opcode p1 p2 pv).map fun v => (v, v, fv)
  else (sxvtl opcode p1 p2 fv).map fun v => (pv, dv, v)

/-- `Ins_SDPVTL`: `o1 o2` = `zp1.org[p2]`, `zp2.org[p1]`, `c1 c2` the current positions; the local
`opcode` cleared by the first block stays cleared for the second. -/
def sdpvtl (opcode : Int) (o1 o2 c1 c2 : Vec) (pv dv fv : Vec) : Option (Vec × Vec × Vec) :=
  let b1 := lineBlock opcode o1 o2 dv
  b1.1.bind fun dv' =>
  (lineBlock b1.2 c1 c2 pv).1.map fun pv' => (pv', dv', fv)

/-- `Ins_SPVFS`: `S = (FT_Short)args[1]; Y = S; S = (FT_Short)args[0]; X = S`. -/
def spvfs (x y : Int) (pv dv fv : Vec) : Option (Vec × Vec × Vec) :=
  (normalize (wrapI16 x) (wrapI16 y) pv).map fun v => (v, v, fv)

/-- `Ins_SFVFS`. -/
def sfvfs (x y : Int) (pv dv fv : Vec) : Option (Vec × Vec × Vec) :=
  (normalize (wrapI16 x) (wrapI16 y) fv).map fun v => (pv, dv, v)

end FontVerif.FtVec
