/-
Model of the `gvar` glyph-variation-data array: how write-fonts lays the per-glyph data out and
fills the offsets array (short = offset/2 in a u16 with padding to even, long = u32), and how
read-fonts resolves glyph `i` to its bytes.

writer  write-fonts/src/tables/gvar.rs   Gvar::compute_flags, compute_data_array_offset,
                                         GlyphDataWriter::write_into (offsets, data, pad_to_2byte_aligned)
reader  read-fonts/src/tables/gvar.rs    U16Or32::read_with_args, Gvar::data_range_for_gid, data_for_gid

A glyph's serialized `GlyphVariationData` is an opaque byte list here (`compute_size()` is its
length, checked by the harness; an empty list is a glyph without variations, `is_empty()`).
-/
import FontVerif.Model.Base
namespace FontVerif.GvarLayout
open FontVerif

/-- `(size / 2) + size % 2`: the short-offset increment for one glyph -/
def shortSize (size : Nat) : Nat := size / 2 + size % 2

/-- `Gvar::compute_flags`: `max_offset = Σ (length + length % 2)`; long iff `max_offset / 2 > u16::MAX` -/
def useLong (blobs : List (List Nat)) : Bool :=
  decide ((blobs.map fun b => b.length + b.length % 2).sum / 2 > 65535)

/-- the offsets array as stored: `last` starts at 0 and grows by the glyph's size (long) or by
`shortSize` (short); one entry more than there are glyphs -/
def offsetsFrom (long : Bool) : Nat → List (List Nat) → List Nat
  | acc, [] => [acc]
  | acc, b :: bs => acc :: offsetsFrom long (acc + (if long then b.length else shortSize b.length)) bs

def storedOffsets (long : Bool) (blobs : List (List Nat)) : List Nat := offsetsFrom long 0 blobs

/-- the data that follows the offsets array: every non-empty glyph, and with short offsets
`pad_to_2byte_aligned()` after it (`pos` = current length of the table being written) -/
def writeData (long : Bool) : Nat → List (List Nat) → List Nat
  | _, [] => []
  | pos, b :: bs =>
    if b.isEmpty then writeData long pos bs else
    let pad : List Nat := if !long ∧ (pos + b.length) % 2 = 1 then [0] else []
    b ++ pad ++ writeData long (pos + b.length + pad.length) bs

/-- `Gvar::compute_data_array_offset`: 20 header bytes + the offsets array -/
def dataArrayOffset (long : Bool) (nGlyphs : Nat) : Nat := 20 + (nGlyphs + 1) * (if long then 4 else 2)

/-- `U16Or32::read_with_args(..).get()` -/
def readOffset (long : Bool) (stored : Nat) : Nat := if long then stored else stored * 2

/-- `Gvar::data_range_for_gid`: `none` = `Err(OutOfBounds)` (index beyond the array, or the u32
`checked_add` overflowed) -/
def dataRange (long : Bool) (dao : Nat) (offs : List Nat) (gid : Nat) : Option (Nat × Nat) :=
  match offs[gid]?, offs[gid + 1]? with
  | some a, some b =>
    let s := dao + readOffset long a
    let e := dao + readOffset long b
    if s ≥ 4294967296 ∨ e ≥ 4294967296 then none else some (s, e)
  | _, _ => none

/-- `Gvar::data_for_gid`: `none` = error, `some none` = no variation data, `some (some bytes)` -/
def dataForGid (table : List Nat) (long : Bool) (dao : Nat) (offs : List Nat) (gid : Nat) :
    Option (Option (List Nat)) :=
  match dataRange long dao offs gid with
  | none => none
  | some (s, e) =>
    if s ≥ e then some none                         -- `range.is_empty()`
    else if e ≤ table.length then some (some ((table.drop s).take (e - s)))
    else none                                       -- `self.data.slice(range)` failed

end FontVerif.GvarLayout
