/-
Model of the glyph-level core of the klippa subsetter (property C17).

Transcribed Rust (all in /repo/klippa/src, post-fix versions):
  lib.rs        Plan::new: populate_unicodes_to_retain, populate_gids_to_retain (cmap-14 / COLR closures
                are inputs), glyf_closure_glyphs (depth 64 / operation budget), remove_invalid_gids,
                create_old_gid_to_new_gid_map (both modes), unicode_to_new_gid_list rewrite
  glyf_loca.rs  Glyf::subset, padded_size, write_glyf_loca (short + long), subset_glyph,
                subset_simple_glyph, subset_composite_glyph, trim_simple_glyph_padding
  hmtx.rs       Hmtx::subset, compute_new_num_h_metrics, get_new_gid_advance
  maxp.rs       Maxp::subset
and the read-fonts accessors they call: Glyph::read / SimpleGlyph::read / CompositeGlyph::read
(generated_glyf.rs, cursor semantics of font_data.rs), tables/hmtx.rs advance / side_bearing.

Sets of glyph ids (`IntSet<GlyphId>`) are lists used as sets; iteration order (ascending) is produced by
`sortedBelow n S = (List.range n).filter (· ∈ S)`, which at the same time applies
`remove_invalid_gids(.., n)`.
No imports besides Base: the driver is a linked executable.
-/
import FontVerif.Model.Base
namespace FontVerif.Subset
open FontVerif

abbrev Bytes := List Nat

/-! ## flags -/

def F_NO_HINTING : Nat := 0x0001
def F_RETAIN_GIDS : Nat := 0x0002
def F_SET_OVERLAPS : Nat := 0x0010
def F_NOTDEF_OUTLINE : Nat := 0x0040

/-- `SubsetFlags::contains` for a single-bit flag -/
def hasFlag (flags bit : Nat) : Bool := flags &&& bit == bit

/-! ## small helpers -/

def be16 (v : Nat) : Bytes := [v / 256 % 256, v % 256]
def be32 (v : Nat) : Bytes := [v / 16777216 % 256, v / 65536 % 256, v / 256 % 256, v % 256]

/-- big-endian u16 at `i` (0 for missing bytes; callers check bounds first, as the Rust does) -/
def u16At (d : Bytes) (i : Nat) : Nat := d.getD i 0 * 256 + d.getD (i + 1) 0

/-- Rust `slice.get(a..b)` -/
def sliceGet (d : Bytes) (a b : Nat) : Option Bytes :=
  if a ≤ b ∧ b ≤ d.length then some ((d.drop a).take (b - a)) else none

/-- ascending iteration of an `IntSet` restricted to ids `< n` (= after `remove_invalid_gids`) -/
def sortedBelow (n : Nat) (s : List Nat) : List Nat := (List.range n).filter (fun g => s.contains g)

def lookupNat (k : Nat) : List (Nat × Nat) → Option Nat
  | [] => none
  | (a, b) :: rest => if a = k then some b else lookupNat k rest

/-! ## glyph closure over composite components  (lib.rs `glyf_closure_glyphs`) -/

def MAX_COMPOSITE_OPERATIONS_PER_GLYPH : Nat := 64
/-- calls with `depth ≤ MAX_NESTING_LEVEL = 64` descend: 65 levels; `rem = 65 - depth` -/
def NESTING_LEVELS : Nat := 65

/-- component glyph ids of glyph `g` as read-fonts reports them
(`loca.get_glyf(g).ok().flatten()` is a composite ⇒ its `components()`; everything else ⇒ none) -/
def compsOf (comps : List (List Nat)) (g : Nat) : List Nat := comps.getD g []

/-- `glyf_closure_glyphs(loca, glyf, gid, set, operation_count, depth)` with `rem = 65 - depth`;
state = (set, operation_count : i32 as Int). -/
def closureGo (comps : List (List Nat)) : Nat → Nat → (List Nat × Int) → (List Nat × Int)
  | rem, gid, (set, ops) =>
    if set.contains gid then (set, ops) else
    let set := gid :: set
    match rem with
    | 0 => (set, ops)                       -- depth > MAX_NESTING_LEVEL
    | r + 1 =>
      let ops := ops - 1
      if ops < 0 then (set, ops) else
      (compsOf comps gid).foldl (fun st c => closureGo comps r c st) (set, ops)

/-- the loop in `populate_gids_to_retain`: every root gets the same fresh budget -/
def closureAll (comps : List (List Nat)) (budget : Int) (roots : List Nat) (set : List Nat) : List Nat :=
  roots.foldl (fun s g => (closureGo comps NESTING_LEVELS g (s, budget)).1) set

/-! ## the plan  (lib.rs `Plan::new`) -/

structure PlanIn where
  flags : Nat
  /-- `font_num_glyphs` = max(loca.len(), maxp.numGlyphs) -/
  num : Nat
  /-- the character map as (codepoint, glyph) ascending by codepoint, one entry per codepoint -/
  cmap : List (Nat × Nat)
  /-- per-gid component lists -/
  comps : List (List Nat)
  /-- requested glyph ids / codepoints, ascending (IntSet iteration order) -/
  gids : List Nat
  unicodes : List Nat
  /-- glyphs added by code outside the model: cmap format 14 closure, COLR closure -/
  extraGsub : List Nat
  extraColred : List Nat

structure Plan where
  gsub : List Nat
  colred : List Nat
  glyphset : List Nat
  /-- (new, old) -/
  n2o : List (Nat × Nat)
  /-- (codepoint, new gid) -/
  u2g : List (Nat × Nat)
  nout : Nat

/-- `populate_unicodes_to_retain`: (unicode_to_new_gid_list with OLD gids, requested gids added to glyphset_gsub).
The final `sort()` is the identity on these ascending-by-codepoint lists.  Character map entries that
name a glyph `≥ font_num_glyphs` are skipped (fix 1818a8f). -/
def unicodesToRetain (p : PlanIn) : List (Nat × Nat) × List Nat :=
  if p.gids.isEmpty ∧ p.unicodes.length < p.num then
    (p.unicodes.filterMap (fun cp =>
      match lookupNat cp p.cmap with
      | some g => if g < p.num then some (cp, g) else none
      | none => none), [])
  else
    (p.cmap.filter (fun cg => (p.gids.contains cg.2 || p.unicodes.contains cg.1) && decide (cg.2 < p.num)),
     p.gids.filter (· < p.num))

/-- `create_old_gid_to_new_gid_map`: (new_to_old_gid_list, num_output_glyphs) -/
def gidMap (flags : Nat) (glyphset : List Nat) : List (Nat × Nat) × Nat :=
  if !hasFlag flags F_RETAIN_GIDS then
    -- `.zip(0u16..)` ends after 65536 items
    let l := (glyphset.take 65536).zipIdx.map (fun gi => (gi.2, gi.1))
    (l, l.length)
  else
    (glyphset.map (fun g => (g, g)),
     match glyphset.getLast? with | none => 0 | some m => m + 1)

/-- `plan.glyph_map.get(old)` -/
def oldToNew (n2o : List (Nat × Nat)) (old : Nat) : Option Nat :=
  lookupNat old (n2o.map (fun no => (no.2, no.1)))

/-- `plan.reverse_glyph_map.get(new)` -/
def newToOld (n2o : List (Nat × Nat)) (new : Nat) : Option Nat := lookupNat new n2o

/-- `glyphset_gsub` after `populate_unicodes_to_retain`, `.notdef`, the cmap closure (format 14 glyphs are
an input) and `remove_invalid_gids` -/
def planGsub (p : PlanIn) : List Nat :=
  sortedBelow p.num (0 :: ((unicodesToRetain p).2 ++ (unicodesToRetain p).1.map (·.2) ++ p.extraGsub))

/-- `glyphset_colred` (COLR closure glyphs are an input) -/
def planColred (p : PlanIn) : List Nat := sortedBelow p.num (planGsub p ++ p.extraColred)

/-- `operation_count = glyphset_gsub.len() * MAX_COMPOSITE_OPERATIONS_PER_GLYPH` -/
def planBudget (p : PlanIn) : Int := ((planGsub p).length * MAX_COMPOSITE_OPERATIONS_PER_GLYPH : Nat)

/-- `glyphset`: composite closure of every glyph of `glyphset_colred`, then `remove_invalid_gids` -/
def planGlyphset (p : PlanIn) : List Nat :=
  sortedBelow p.num (closureAll p.comps (planBudget p) (planColred p) [])

/-- `Plan::new` up to the glyph map; `none` = the `unwrap()` on `glyph_map.get(old_gid)` panics -/
def makePlan (p : PlanIn) : Option Plan :=
  let gm := gidMap p.flags (planGlyphset p)
  match (unicodesToRetain p).1.mapM (fun cg => (oldToNew gm.1 cg.2).map (fun n => (cg.1, n))) with
  | none => none
  | some u2g => some { gsub := planGsub p, colred := planColred p, glyphset := planGlyphset p,
                       n2o := gm.1, u2g, nout := gm.2 }

/-! ## trim_simple_glyph_padding (glyf_loca.rs) -/

/-- bytes of x plus y coordinate data selected by a simple-glyph flag byte -/
def coordSize (flag : Nat) : Nat :=
  (if flag &&& 0x02 != 0 then 1 else if flag &&& 0x10 == 0 then 2 else 0) +
  (if flag &&& 0x04 != 0 then 1 else if flag &&& 0x20 == 0 then 2 else 0)

/-- the `while i < length` loop; arguments: remaining data, i, coord_bytes, coords_with_flags.
Result = the function's return value. -/
def trimGo (numCoords : Nat) : Bytes → Nat → Nat → Nat → Nat
  | [], i, cb, cwf => if numCoords ≠ cwf then 0 else i + cb
  | [f], i, cb, cwf =>
    if f &&& 0x08 != 0 then 0 else
    let cb := cb + coordSize f
    let cwf := cwf + 1
    if numCoords ≠ cwf then 0 else i + 1 + cb
  | f :: r :: rest, i, cb, cwf =>
    if f &&& 0x08 != 0 then
      let rep := r + 1
      let cb := cb + coordSize f * rep
      let cwf := cwf + rep
      if cwf ≥ numCoords then (if numCoords ≠ cwf then 0 else i + 2 + cb)
      else trimGo numCoords rest (i + 2) cb cwf
    else
      let cb := cb + coordSize f
      let cwf := cwf + 1
      if cwf ≥ numCoords then (if numCoords ≠ cwf then 0 else i + 1 + cb)
      else trimGo numCoords (r :: rest) (i + 1) cb cwf

def trimSimpleGlyphPadding (glyphData : Bytes) (numCoords : Nat) : Nat :=
  trimGo numCoords glyphData 0 0 0

/-! ## per-glyph rewrite -/

inductive GlyphRes where
  | bytes (b : Bytes)
  | readErr
  | trap
deriving Repr, DecidableEq

/-- `subset_simple_glyph` on a record that `SimpleGlyph::read` accepted
(`nc` ≥ 0 contours, header 12 + 2nc bytes, `il` instruction bytes, the rest is `glyph_data`). -/
def subsetSimple (flags : Nat) (d : Bytes) (nc : Nat) : GlyphRes :=
  if nc = 0 then .bytes [] else
  let lastEnd := u16At d (10 + 2 * (nc - 1))
  -- `num_coords.get() as u32 + 1` (fix 60c2089: was u16)
  let numCoords := lastEnd + 1
  let headerLen := 10 + 2 * nc + 2
  let il := u16At d (headerLen - 2)
  let glyphData := d.drop (headerLen + il)
  let i := trimSimpleGlyphPadding glyphData numCoords
  if i = 0 then .bytes [] else
  let header := d.take headerLen
  let out :=
    if hasFlag flags F_NO_HINTING then (header.set (headerLen - 2) 0).set (headerLen - 1) 0
    else header ++ (d.drop headerLen).take il
  match sliceGet glyphData 0 i with
  | none => .bytes []
  | some trimmed =>
    let first := out.length
    let out := out ++ trimmed
    .bytes (if hasFlag flags F_SET_OVERLAPS then out.set first (out.getD first 0 ||| 0x40) else out)

/-- bits kept by `CompositeGlyphFlags::from_bits_truncate` -/
def COMPOSITE_KNOWN_BITS : Nat := 0x1FEF

/-- the value of the local `flags` after the two optional rewrites of one loop round
(`f0` = `from_bits_truncate` of the stored word): WE_HAVE_INSTRUCTIONS removed under NO_HINTING,
OVERLAP_COMPOUND inserted on the first component under SET_OVERLAPS_FLAG -/
def compFlags (flags i f0 : Nat) : Nat :=
  let f1 := if (f0 &&& 0x0100 != 0) ∧ hasFlag flags F_NO_HINTING then f0 &&& 0x1EEF else f0
  if hasFlag flags F_SET_OVERLAPS ∧ i = 10 then f1 ||| 0x0400 else f1

def putU16 (out : Bytes) (i v : Nat) : Bytes := (out.set i (v / 256)).set (i + 1) (v % 256)

/-- the bytes after the flag rewrites of one round: each rewrite stores the truncated flags; when
neither applies the stored word (with any unknown bits) stays -/
def compWriteFlags (flags i f0 : Nat) (out : Bytes) : Bytes :=
  let out1 := if (f0 &&& 0x0100 != 0) ∧ hasFlag flags F_NO_HINTING then putU16 out i (f0 &&& 0x1EEF) else out
  if hasFlag flags F_SET_OVERLAPS ∧ i = 10 then putU16 out1 i (compFlags flags i f0) else out1

/-- the `while more` loop of `subset_composite_glyph`; `none` = `return Vec::new()`.
Result: (out, i, we_have_instructions). Fuel: each round advances `i` by at least 6. -/
def compLoop (flags : Nat) (gmap : Nat → Option Nat) (len : Nat) :
    Nat → Bytes → Nat → Bool → Option (Bytes × Nat × Bool)
  | 0, _, _, _ => none
  | fuel + 1, out, i, whi =>
    if i + 3 ≥ len then none else
    let f0 := u16At out i &&& COMPOSITE_KNOWN_BITS
    let whi := whi || (f0 &&& 0x0100 != 0)
    let f2 := compFlags flags i f0
    let out2 := compWriteFlags flags i f0 out
    match gmap (u16At out2 (i + 2)) with
    | none => none
    | some new =>
      let new := new % 65536
      let out3 := putU16 out2 (i + 2) new
      let i := i + 4 + (if f2 &&& 0x0001 != 0 then 4 else 2)
      let i := i + (if f2 &&& 0x0008 != 0 then 2 else if f2 &&& 0x0040 != 0 then 4
                    else if f2 &&& 0x0080 != 0 then 8 else 0)
      if f2 &&& 0x0020 != 0 then compLoop flags gmap len fuel out3 i whi
      else some (out3, i, whi)

/-- `subset_composite_glyph` on a record that `CompositeGlyph::read` accepted (length ≥ 10) -/
def subsetComposite (flags : Nat) (gmap : Nat → Option Nat) (d : Bytes) : Bytes :=
  let len := d.length
  match compLoop flags gmap len (len + 1) d 10 false with
  | none => []
  | some (out, i, whi) =>
    if whi ∧ !hasFlag flags F_NO_HINTING then
      -- fix 0b24b65: a record without room for the instruction length is kept up to its last component
      if i + 1 ≥ len then out.take i else
      out.take (i + 2 + u16At out i)
    else out.take i

/-- byte length of the component record whose (truncated) flag word is `f` -/
def compRecSize (f : Nat) : Nat :=
  4 + (if f &&& 0x0001 != 0 then 4 else 2) +
  (if f &&& 0x0008 != 0 then 2 else if f &&& 0x0040 != 0 then 4 else if f &&& 0x0080 != 0 then 8 else 0)

/-- read-fonts `ComponentIter::next` (tables/glyf.rs) over a whole glyph record `d` (component data
starts at 10): a component is yielded only if its whole record (flags, glyph, arguments, transform)
lies inside the data; the iteration ends after a record without MORE_COMPONENTS or at the first
record that does not fit. -/
def compIterGo (d : Bytes) : Nat → Nat → List Nat
  | 0, _ => []
  | fuel + 1, i =>
    let f := u16At d i &&& COMPOSITE_KNOWN_BITS
    if i + compRecSize f > d.length then [] else
    u16At d (i + 2) :: (if f &&& 0x0020 != 0 then compIterGo d fuel (i + compRecSize f) else [])

/-- `loca.get_glyf(gid, glyf).ok().flatten()` is `Glyph::Composite` ⇒ its `components()` glyph ids;
otherwise (simple glyph, empty slot, read error) no components.  This is what `glyf_closure_glyphs`
iterates. -/
def componentsOfRecord (d : Bytes) : List Nat :=
  if d.length < 10 then [] else
  if u16At d 0 < 32768 then [] else compIterGo d (d.length + 1) 10

/-- `Glyph::read(FontData::new(d))` followed by `subset_glyph` (verif hook `subset_glyph_bytes`) -/
def subsetGlyphBytes (flags : Nat) (gmap : Nat → Option Nat) (d : Bytes) : GlyphRes :=
  if d.length < 2 then .readErr else
  let nc := u16At d 0
  if nc < 32768 then
    -- SimpleGlyph::read: u16 instruction_length at 10+2nc must be readable, and the cursor must
    -- not run past the end after skipping the instructions
    if d.length < 12 + 2 * nc then .readErr else
    let il := u16At d (10 + 2 * nc)
    if d.length < 12 + 2 * nc + il then .readErr else
    subsetSimple flags d nc
  else
    if d.length < 10 then .readErr else .bytes (subsetComposite flags gmap d)

/-! ## glyf / loca  (glyf_loca.rs `Glyf::subset`, `write_glyf_loca`) -/

def paddedSize (len : Nat) : Nat := len + len % 2

/-- one input glyph slot as `loca.get_glyf(old)` sees it -/
inductive Slot where
  | empty                -- start == end  (Ok(None))
  | data (d : Bytes)     -- a record (Glyph::read is applied by the model)
  | err                  -- loca / glyf out of bounds
deriving Repr

/-- the first loop of `Glyf::subset`: per kept glyph the rewritten bytes.
`none` = SubsetTableError, `some none` = panic, -/
def subsetGlyphs (flags : Nat) (n2o : List (Nat × Nat)) : List ((Nat × Nat) × Slot) → Except String (List Bytes)
  | [] => .ok []
  | ((new, old), slot) :: rest =>
    let this : Except String Bytes :=
      match slot with
      | .err => .error "err"
      | .empty => .ok []
      | .data d =>
        -- Glyph::read comes first (inside get_glyf)
        match subsetGlyphBytes flags (oldToNew n2o) d with
        | .readErr => .error "err"
        | .trap =>
          if old = 0 ∧ new = 0 ∧ !hasFlag flags F_NOTDEF_OUTLINE then .ok [] else .error "trap"
        | .bytes b =>
          if old = 0 ∧ new = 0 ∧ !hasFlag flags F_NOTDEF_OUTLINE then .ok [] else .ok b
    match this with
    | .error e => .error e
    | .ok b => match subsetGlyphs flags n2o rest with
      | .error e => .error e
      | .ok bs => .ok (b :: bs)

/-- the byte offsets `write_glyf_loca` emits (before halving / encoding), one per loca entry,
starting with the leading 0.  State: `last` (next new gid to be written), `offset`.
`pad` = short format (glyphs padded to even length).

This one function is the transcription of BOTH branches of `write_glyf_loca` (`loca_format == 0` and
the `else` branch are the same three loops, differing only in `padded_size(g.len())` vs `g.len()` and in
how `value` is encoded, which `writeGlyfLoca` applies afterwards):
* `while last < gid { push(value); last += 1 }` — the retain-gids gap ids in front of a kept glyph get the
  PREVIOUS end offset (`value` still holds it): `List.replicate (gid - last) offset`;
* `offset += len; value = encode(offset); push(value); last += 1` — the glyph's own end offset `offset'`;
* after the last glyph `while last < num_output_glyphs { push(value) }`: `List.replicate (nout - last) offset`. -/
def locaOffsetsGo (pad : Bool) (nout : Nat) : List (Nat × Bytes) → Nat → Nat → List Nat
  | [], last, offset => List.replicate (nout - last) offset
  | (gid, g) :: rest, last, offset =>
    let offset' := offset + (if pad then paddedSize g.length else g.length)
    List.replicate (gid - last) offset ++ offset' ::
      locaOffsetsGo pad nout rest ((if last < gid then gid else last) + 1) offset'

def locaOffsets (pad : Bool) (nout : Nat) (gs : List (Nat × Bytes)) : List Nat :=
  0 :: locaOffsetsGo pad nout gs 0 0

/-- the glyf bytes `write_glyf_loca` embeds -/
def glyfBytes (pad : Bool) (gs : List Bytes) : Bytes :=
  gs.flatMap (fun g => if pad ∧ g.length % 2 = 1 then g ++ [0] else g)

structure GlyfOut where
  fmt : Nat
  loca : Bytes
  glyf : Bytes

/-- `Glyf::subset` after the per-glyph loop -/
def writeGlyfLoca (nout : Nat) (news : List Nat) (gs : List Bytes) : GlyfOut :=
  let maxOffset := (gs.map (fun g => paddedSize g.length)).sum
  let short := maxOffset < 0x1FFFF
  let offs := locaOffsets short nout (news.zip gs)
  let loca := if short then offs.flatMap (fun o => be16 (o / 2 % 65536)) else offs.flatMap (fun o => be32 (o % 4294967296))
  let glyf := glyfBytes short gs
  { fmt := if short then 0 else 1, loca, glyf := if glyf.isEmpty then [0] else glyf }

def subsetGlyf (flags nout : Nat) (n2o : List (Nat × Nat)) (slots : List Slot) : Except String GlyfOut :=
  match subsetGlyphs flags n2o (n2o.zip slots) with
  | .error e => .error e
  | .ok gs => .ok (writeGlyfLoca nout (n2o.map (·.1)) gs)

/-! ## hmtx  (hmtx.rs; read-fonts tables/hmtx.rs) -/

/-- `Hmtx::advance` -/
def hmtxAdvance (longs : List (Nat × Nat)) (gid : Nat) : Option Nat :=
  match longs[gid]? with
  | some m => some m.1
  | none => longs.getLast?.map (·.1)

/-- `Hmtx::side_bearing` (raw 16-bit pattern) -/
def hmtxLsb (longs : List (Nat × Nat)) (lsbs : List Nat) (gid : Nat) : Option Nat :=
  match longs[gid]? with
  | some m => some m.2
  | none => lsbs[gid - longs.length]?

/-- `get_new_gid_advance` -/
def newGidAdvance (longs : List (Nat × Nat)) (n2o : List (Nat × Nat)) (new : Nat) : Nat :=
  match newToOld n2o new with
  | none => 0
  | some old => (hmtxAdvance longs old).getD 0

/-- the `while num_long_metrics > 1` loop -/
def trimMetrics (adv : Nat → Nat) (last : Nat) : Nat → Nat
  | 0 => 0
  | 1 => 1
  | n + 2 => if adv n != last then n + 2 else trimMetrics adv last (n + 1)

/-- `compute_new_num_h_metrics` (caller guarantees `nout ≥ 1`) -/
def newNumHMetrics (longs : List (Nat × Nat)) (n2o : List (Nat × Nat)) (nout : Nat) : Nat :=
  let n0 := min nout 0xFFFF
  trimMetrics (newGidAdvance longs n2o) (newGidAdvance longs n2o (n0 - 1)) n0

structure HmtxOut where
  numH : Nat
  /-- the `numH` long metrics (advance, lsb bit pattern) -/
  longs : List (Nat × Nat)
  /-- the trailing side bearings -/
  lsbs : List Nat

def HmtxOut.bytes (o : HmtxOut) : Bytes :=
  o.longs.flatMap (fun m => be16 m.1 ++ be16 m.2) ++ o.lsbs.flatMap be16

/-- `Hmtx::subset`.  `.error "err"` = SubsetTableError, `.error "trap"` = panic (`num_output_glyphs - 1`
underflow, `unwrap()` of a missing metric).  The zero-initialised buffer receives one write per
entry of `new_to_old_gid_list`; new gids are distinct, so the buffer is described per new gid:
slot `new < numH` is a long metric at byte `4*new`, slot `new ≥ numH` a side bearing at
`4*numH + 2*(new - numH)`. -/
def subsetHmtx (longs : List (Nat × Nat)) (lsbs : List Nat) (n2o : List (Nat × Nat)) (nout : Nat) :
    Except String HmtxOut :=
  if nout = 0 then .error "trap" else
  if nout - 1 ≥ longs.length + lsbs.length then .error "err" else
  let nh := newNumHMetrics longs n2o nout
  if n2o.any (fun no => (hmtxAdvance longs no.2).isNone || (hmtxLsb longs lsbs no.2).isNone) then .error "trap" else
  let adv (new : Nat) : Nat :=
    match newToOld n2o new with | none => 0 | some old => (hmtxAdvance longs old).getD 0
  let lsb (new : Nat) : Nat :=
    match newToOld n2o new with | none => 0 | some old => (hmtxLsb longs lsbs old).getD 0
  .ok { numH := nh,
        longs := (List.range nh).map (fun new => (adv new, lsb new)),
        lsbs := (List.range (nout - nh)).map (fun k => lsb (nh + k)) }

/-! ## maxp (maxp.rs) -/

def setU16 (d : Bytes) (pos v : Nat) : Bytes := (d.set pos (v / 256 % 256)).set (pos + 1) (v % 256)

/-- `Maxp::subset` for a table that `Maxp::read` accepted (6 bytes for version 0.5, 32 for 1.0) -/
def subsetMaxp (flags nout : Nat) (d : Bytes) : Option Bytes :=
  let version := u16At d 0 * 65536 + u16At d 2
  if d.length < 6 ∨ (version = 0x00010000 ∧ d.length < 32) then none else
  let d := setU16 d 4 (min nout 0xFFFF)
  if version = 0x00010000 ∧ hasFlag flags F_NO_HINTING then
    let d := setU16 d 14 1
    let d := setU16 d 16 0
    let d := setU16 d 18 0
    let d := setU16 d 20 0
    let d := setU16 d 22 0
    let d := setU16 d 24 0
    some (setU16 d 26 0)
  else some d

end FontVerif.Subset
