/-
Observation of a `ColorPainter` callback stream (used by Props/C13Fill.lean, beyond property C13): what a
client that implements only the primitive callbacks would rasterise — for every `fill(brush)` the current
transformation (product of the open `push_transform`s as a word of transform tags), the open glyph clips
(each with the transformation in force when it was pushed) and the brush.  `expandAll` is the trait's
default `ColorPainter::fill_glyph` (skrifa/src/color/mod.rs) applied to every `fill_glyph` call.
-/
import FontVerif.Model.Paint
namespace FontVerif.C13Fill
open FontVerif FontVerif.Paint

/-- the default `fill_glyph` applied to every `fill_glyph` call of a stream -/
def expandAll (l : List Event) : List Event :=
  l.flatMap (fun e => match e with
    | .fillGlyph g bt b => expandFillGlyph g bt b
    | e => [e])

/-- an open scope as a rasteriser sees it -/
inductive Scope where
  | t (w : TWord)
  | clipG (g : Gid) (ctm : TWord)
  | other
  deriving DecidableEq, Repr

/-- current transformation: product of the open transforms, outermost first -/
def ctmOf : List Scope → TWord
  | [] => []
  | .t w :: s => ctmOf s ++ w
  | _ :: s => ctmOf s

/-- open glyph clips, innermost first, each with the transformation it was pushed under -/
def clipsOf : List Scope → List (Gid × TWord)
  | [] => []
  | .clipG g c :: s => (g, c) :: clipsOf s
  | _ :: s => clipsOf s

structure Draw where
  ctm : TWord
  clips : List (Gid × TWord)
  brush : Brush
  deriving DecidableEq, Repr

/-- what gets drawn by a stream of primitive callbacks, starting with the scopes `s` open -/
def draws : List Scope → List Event → List Draw
  | _, [] => []
  | s, .pushT w :: es => draws (.t w :: s) es
  | s, .popT :: es => draws s.tail es
  | s, .pushClipGlyph g :: es => draws (.clipG g (ctmOf s) :: s) es
  | s, .pushClipBox _ :: es => draws (.other :: s) es
  | s, .popClip :: es => draws s.tail es
  | s, .pushLayer _ :: es => draws (.other :: s) es
  | s, .popLayer _ :: es => draws s.tail es
  | s, .fill b :: es => ⟨ctmOf s, clipsOf s, b⟩ :: draws s es
  | s, .fillGlyph _ _ _ :: es => draws s es
  | s, .cached _ :: es => draws s es

/-- calls a fill-only subtree makes before its first `pop_transform` -/
def IsPre : Event → Prop
  | .pushT _ => True
  | .fill _ => True
  | .cached _ => True
  | _ => False

/-- … and from then on -/
def IsPop : Event → Prop
  | .popT => True
  | .cached _ => True
  | _ => False

end FontVerif.C13Fill
