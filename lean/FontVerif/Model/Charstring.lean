/-
C02 core 3 — the CONTROL structure of the CFF / CFF2 charstring evaluator.

Transcribed from (all under /repo/read-fonts/src/tables/postscript):
* charstring.rs `evaluate`, `Evaluator::{evaluate, evaluate_operator, coords_remaining, emit_curves, reset_stack}`,
  `Operator::{read, from_opcode, from_two_byte_opcode}`, `NESTING_DEPTH_LIMIT`
* stack.rs `Stack::{push, push_impl, pop, pop_i32, get_i32, get_fixed, fixed_array, apply_blend, clear, len_is_odd}`,
  `MAX_STACK`
* dict.rs `parse_int` (the charstring number encodings 28, 32..=254; 255 is read in `evaluate` itself)
* index.rs `Index::{new, count, subr_bias, get}`, `Index1/Index2::{get, get_offset}`, `read_offset`
  (+ generated_postscript.rs `Index1::read`, `Index2::read`)
* blend.rs `BlendState::{set_store_index, region_count, scalars}` (only which error they return and the region count)
* font_data.rs `Cursor::{read, read_array, remaining_bytes}`

What is abstract: coordinates.  The evaluator's `x`, `y` and the VALUES of 16.16 stack entries never influence
control flow, stack discipline or errors (all `Fixed` arithmetic in these functions is wrapping, font-types
fixed.rs), so a stack entry is `some v` (pushed as an integer, value `v`) or `none` (a 16.16 entry), and an emitted
command is recorded by its kind only (`St.out`).  Everything else — number decoding, operator decoding, every
push / pop / clear, every index into the operand stack, the subroutine bias and lookup, the nesting depth, the
hint-mask byte count, `blend` — is transcribed.

`Fail.panic` marks the two places where the Rust would PANIC in the strict profile if an invariant did not hold
(array index in `push_impl`, the `i32` addition of the subroutine bias); Props/C02Charstring.lean proves them
unreachable.  `Fail.stuck` = the model's loop fuel ran out; proved unreachable as well.

No imports besides Model.Base (the driver is a linked exe).
-/
import FontVerif.Model.Base
namespace FontVerif.Charstring

/-- charstring.rs `NESTING_DEPTH_LIMIT` -/
def NESTING_DEPTH_LIMIT : Nat := 10
/-- stack.rs `MAX_STACK` -/
def MAX_STACK : Nat := 513

/-- postscript.rs `Error` (the variants reachable from `evaluate`); `read` = `Error::Read(ReadError::OutOfBounds)`. -/
inductive Err
  | invalidIndexOffsetSize (n : Nat) | zeroOffsetInIndex | invalidVsIndex (n : Nat)
  | stackOverflow | stackUnderflow | invalidStackAccess (i : Nat) | expectedI32 (i : Nat)
  | invalidOperator (op : Nat) | nestingLimit | missingSubrs | missingBlend | read
  | invalidCollectionIndex (n : Nat)   -- `Error::Read(ReadError::InvalidCollectionIndex(n))` (vsindex out of range)
  | other (code : Nat)     -- any other error value an abstract environment may return (e.g. a different `ReadError`)
deriving DecidableEq, Repr, Inhabited

def Err.name : Err → String
  | .invalidIndexOffsetSize n => s!"InvalidIndexOffsetSize({n})"
  | .zeroOffsetInIndex => "ZeroOffsetInIndex"
  | .invalidVsIndex n => s!"InvalidVariationStoreIndex({n})"
  | .stackOverflow => "StackOverflow"
  | .stackUnderflow => "StackUnderflow"
  | .invalidStackAccess i => s!"InvalidStackAccess({i})"
  | .expectedI32 i => s!"ExpectedI32StackEntry({i})"
  | .invalidOperator op => s!"InvalidCharstringOperator({op})"
  | .nestingLimit => "CharstringNestingDepthLimitExceeded"
  | .missingSubrs => "MissingSubroutines"
  | .missingBlend => "MissingBlendState"
  | .read => "Read(OutOfBounds)"
  | .invalidCollectionIndex n => s!"Read(other:InvalidCollectionIndex({n}))"
  | .other c => s!"Other({c})"

/-- How an evaluation can end other than `Ok(())`. -/
inductive Fail
  | err (e : Err)        -- `Err(e)`: an error VALUE
  | panic (site : Nat)   -- the Rust would panic here (1: `values[top]` in push_impl, 2: `i32 +` of the subr bias)
  | stuck                -- the model's fuel ran out
deriving DecidableEq, Repr, Inhabited

/-! ## environment: subroutine indexes and the variation store -/

/-- What the evaluator uses of an `Index`: `count()` (for `subr_bias`) and `get(i)` as a function of the `usize`. -/
structure SubrIndex where
  count : Nat
  get : Nat → Except Err (List Nat)

/-- `Index::subr_bias` -/
def bias (count : Nat) : Int :=
  if count < 1240 then 107 else if count < 33900 then 1131 else 32768

/-- `BlendState` as a function of the store index: `update_precomputed_scalars` fails with an error, or yields the
    region count together with the error (if any) that iterating `scalars()` will hit. -/
abbrev VsLookup := Nat → Except Err (Nat × Option Err)

structure Env where
  gsubrs : SubrIndex
  subrs : Option SubrIndex
  blend : Option VsLookup

/-! ## evaluator state -/

/-- command kinds recorded in `St.out` -/
def K_MOVE : Nat := 0
def K_LINE : Nat := 1
def K_CURVE : Nat := 2
def K_CLOSE : Nat := 3
def K_HSTEM : Nat := 4
def K_VSTEM : Nat := 5
/-- `hint_mask(mask)` with `mask.len() = n` ↦ `8 + 2 n`; `counter_mask` ↦ `9 + 2 n` -/
def kMask (isHint : Bool) (n : Nat) : Nat := (if isHint then 8 else 9) + 2 * n

structure St where
  /-- operand stack, TOP FIRST; `some v` = pushed as integer `v`, `none` = a 16.16 entry -/
  stack : List (Option Int) := []
  stackIx : Nat := 0
  isOpen : Bool := false
  haveWidth : Bool := false
  stemCount : Nat := 0
  /-- `BlendState::{store_index, region_indices.len()}` + the pending `scalars()` error -/
  vsIndex : Nat := 0
  regions : Nat := 0
  scalarErr : Option Err := none
  /-- commands sent to the sink, most recent first -/
  out : List Nat := []
  /-- GHOST: iterations of the `while cursor.remaining_bytes() != 0` loop over all nesting levels -/
  steps : Nat := 0
deriving Repr, DecidableEq, Inhabited

abbrev Res (α : Type) := Except (Fail × St) α

def failE {α} (st : St) (e : Err) : Res α := .error (.err e, st)

def liftE {α} (st : St) : Except Err α → Res α
  | .ok a => .ok a
  | .error e => .error (.err e, st)

/-! ## operand stack (stack.rs) -/

/-- `Stack::push` / `push_impl` -/
def push (st : St) (v : Option Int) : Res St :=
  if st.stack.length = MAX_STACK then failE st .stackOverflow
  else if st.stack.length > MAX_STACK then .error (.panic 1, st)   -- `self.values[self.top] = …` out of range
  else .ok { st with stack := v :: st.stack }

/-- `Stack::pop_i32`: `pop()` then `get_i32(i)` with `i` = the new `top` -/
def popI32 (stack : List (Option Int)) : Except Err (Int × List (Option Int)) :=
  match stack with
  | [] => .error .stackUnderflow
  | none :: rest => .error (.expectedI32 rest.length)
  | some v :: rest => .ok (v, rest)

/-- `Stack::get_fixed(i)`: `self.values.get(i)` on the 513-element ARRAY (not `top`): in range below `MAX_STACK` -/
def getFixed (i : Nat) : Except Err Unit :=
  if i < MAX_STACK then .ok () else .error (.invalidStackAccess i)

/-- `Stack::fixed_array::<2>(i)` with `top = n` -/
def fixedArray2 (n i : Nat) : Except Err Unit :=
  if i ≥ n then .error (.invalidStackAccess i)
  else if i + 2 > n then .error (.invalidStackAccess (i + 1))
  else .ok ()

/-! ## numbers and operators -/

/-- dict.rs `parse_int` for `b0 ∈ {28} ∪ 32..=254`: value and remaining bytes -/
def parseInt (b0 : Nat) (rest : List Nat) : Except Err (Int × List Nat) :=
  if 32 ≤ b0 ∧ b0 ≤ 246 then .ok ((b0 : Int) - 139, rest)
  else if 247 ≤ b0 ∧ b0 ≤ 250 then
    match rest with
    | b1 :: rest => .ok (((b0 : Int) - 247) * 256 + ((b1 % 256 : Nat) : Int) + 108, rest)
    | [] => .error .read
  else if 251 ≤ b0 ∧ b0 ≤ 254 then
    match rest with
    | b1 :: rest => .ok (-((b0 : Int) - 251) * 256 - ((b1 % 256 : Nat) : Int) - 108, rest)
    | [] => .error .read
  else -- 28
    match rest with
    | b1 :: b2 :: rest => .ok (wrapI16 (((b1 % 256) * 256 + b2 % 256 : Nat) : Int), rest)
    | _ => .error .read

inductive Op
  | hstem | vstem | vmoveto | rlineto | hlineto | vlineto | rrcurveto | callsubr | ret | endchar
  | vsindex | blend | hstemhm | hintmask | cntrmask | rmoveto | hmoveto | vstemhm | rcurveline
  | rlinecurve | vvcurveto | hhcurveto | callgsubr | vhcurveto | hvcurveto | hflex | flex | hflex1 | flex1
deriving DecidableEq, Repr, Inhabited

/-- `Operator::from_opcode` -/
def fromOpcode (b : Nat) : Option Op :=
  if b = 1 then some .hstem else if b = 3 then some .vstem else if b = 4 then some .vmoveto
  else if b = 5 then some .rlineto else if b = 6 then some .hlineto else if b = 7 then some .vlineto
  else if b = 8 then some .rrcurveto else if b = 10 then some .callsubr else if b = 11 then some .ret
  else if b = 14 then some .endchar else if b = 15 then some .vsindex else if b = 16 then some .blend
  else if b = 18 then some .hstemhm else if b = 19 then some .hintmask else if b = 20 then some .cntrmask
  else if b = 21 then some .rmoveto else if b = 22 then some .hmoveto else if b = 23 then some .vstemhm
  else if b = 24 then some .rcurveline else if b = 25 then some .rlinecurve else if b = 26 then some .vvcurveto
  else if b = 27 then some .hhcurveto else if b = 29 then some .callgsubr else if b = 30 then some .vhcurveto
  else if b = 31 then some .hvcurveto else none

/-- `Operator::from_two_byte_opcode` -/
def fromTwoByte (b : Nat) : Option Op :=
  if b = 34 then some .hflex else if b = 35 then some .flex else if b = 36 then some .hflex1
  else if b = 37 then some .flex1 else none

/-- `Operator::read` -/
def readOperator (b0 : Nat) (rest : List Nat) : Except Err (Op × List Nat) :=
  if b0 = 12 then
    match rest with
    | [] => .error .read
    | b1 :: rest =>
      match fromTwoByte b1 with
      | some op => .ok (op, rest)
      | none => .error (.invalidOperator b1)
  else
    match fromOpcode b0 with
    | some op => .ok (op, rest)
    | none => .error (.invalidOperator b0)

/-! ## the loops inside one operator

They only move an index over the operand stack (whose length `n` does not change until `reset_stack`) and emit
commands, so their state is `(ix, out)`.  `whileFuel body fuel s` runs `while let some s' = body s { s = s' }` for at
most `fuel` iterations. -/

structure LoopSt where
  ix : Nat
  out : List Nat
deriving Repr, DecidableEq

inductive LFail | err (e : Err) | stuck
deriving Repr, DecidableEq

def whileFuel (body : LoopSt → Option (Except Err LoopSt)) : Nat → LoopSt → Except LFail LoopSt
  | 0, _ => .error .stuck
  | fuel + 1, s =>
    match body s with
    | none => .ok s
    | some (.error e) => .error (.err e)
    | some (.ok s') => whileFuel body fuel s'

/-- `emit_curves(modes)`: each `PointMode` is represented by the number of stack entries it reads (`stack_used`:
    DxDy = 2; XDy, DxY, DxInitialY, DLargerCoordDist = 1; DxMaybeDy(b), MaybeDxDy(b) = if b then 2 else 1);
    the reads are `get_fixed(stack_ix)`, `get_fixed(stack_ix + 1)` in that order; every third mode emits a curve. -/
def emitCurves : List Nat → (count : Nat) → LoopSt → Except Err LoopSt
  | [], _, s => .ok s
  | used :: modes, count, s =>
    match getFixed s.ix with
    | .error e => .error e
    | .ok _ =>
      match (if used = 2 then getFixed (s.ix + 1) else .ok ()) with
      | .error e => .error e
      | .ok _ =>
        let ix := s.ix + used
        if count = 2 then emitCurves modes 0 { ix := ix, out := K_CURVE :: s.out }
        else emitCurves modes (count + 1) { s with ix := ix }

/-- `while i < self.stack.len() { fixed_array::<2>(i)?; emit kind; i += 2 }` (stems, rlineto) -/
def pairBody (n kind : Nat) (s : LoopSt) : Option (Except Err LoopSt) :=
  if s.ix < n then
    some (match fixedArray2 n s.ix with
      | .error e => .error e
      | .ok _ => .ok { ix := s.ix + 2, out := kind :: s.out })
  else none

/-- `for i in 0..self.stack.len() { get_fixed(i)?; line_to }` (hlineto / vlineto) -/
def singleBody (n : Nat) (s : LoopSt) : Option (Except Err LoopSt) :=
  if s.ix < n then
    some (match getFixed s.ix with
      | .error e => .error e
      | .ok _ => .ok { ix := s.ix + 1, out := K_LINE :: s.out })
  else none

/-- `while self.coords_remaining() >= need { self.emit_curves(modes)? }`; `coords_remaining` = `n.saturating_sub(ix)` -/
def curveBody (n need : Nat) (modes : List Nat) (s : LoopSt) : Option (Except Err LoopSt) :=
  if n - s.ix ≥ need then some (emitCurves modes 0 s) else none

/-- hvcurveto / vhcurveto: `while stack_ix < count { do_last = count - stack_ix == 5; emit_curves([_, DxDy, Maybe(do_last)]) }` -/
def hvBody (count : Nat) (s : LoopSt) : Option (Except Err LoopSt) :=
  if s.ix < count then some (emitCurves [1, 2, if count - s.ix = 5 then 2 else 1] 0 s) else none

/-- rlinecurve: `while coords_remaining() > 6 { fixed_array::<2>(stack_ix)?; line_to; stack_ix += 2 }` -/
def lineBody (n : Nat) (s : LoopSt) : Option (Except Err LoopSt) :=
  if n - s.ix > 6 then
    some (match fixedArray2 n s.ix with
      | .error e => .error e
      | .ok _ => .ok { ix := s.ix + 2, out := K_LINE :: s.out })
  else none

def liftL {α} (st : St) : Except LFail α → Res α
  | .ok a => .ok a
  | .error (.err e) => .error (.err e, st)
  | .error .stuck => .error (.stuck, st)

/-- `reset_stack` + write the loop result back -/
def finishOp (st : St) (l : LoopSt) : St := { st with stack := [], stackIx := 0, out := l.out }

/-- the stem prologue shared by hstem… and hintmask: `(i, len, have_read_width')` -/
def stemStart (n : Nat) (haveWidth : Bool) : Nat × Nat × Bool :=
  if n % 2 = 1 ∧ haveWidth = false then (1, n - 1, true) else (0, n, haveWidth)

/-! ## operators (`evaluate_operator`)

Result of one operator: `(continue?, remaining bytes, state)`.  Each group of `match` arms is its own definition. -/

abbrev OpRes := Res (Bool × List Nat × St)

/-- start state of the loops that use `self.stack_ix` as it is -/
def St.loopSt (st : St) : LoopSt := { ix := st.stackIx, out := st.out }

/-- Flex / HFlex / HFlex1 / Flex1: `emit_curves(modes)?; reset_stack()` -/
def opCurves (modes : List Nat) (rest : List Nat) (st : St) : OpRes :=
  match emitCurves modes 0 st.loopSt with
  | .error e => failE st e
  | .ok l => .ok (true, rest, finishOp st l)

/-- VariationStoreIndex -/
def opVsindex (blend : Option VsLookup) (rest : List Nat) (st : St) : OpRes :=
  match blend with
  | none => failE st .missingBlend
  | some lookup =>
    match popI32 st.stack with
    | .error e => failE st e
    | .ok (v, stack) =>
      let ix := (v % 65536).toNat          -- `as u16`
      -- `BlendState::set_store_index`
      if st.vsIndex = ix then .ok (true, rest, { st with stack := stack })
      else
        match lookup ix with
        | .error e => failE st e
        | .ok (r, se) => .ok (true, rest, { st with stack := stack, vsIndex := ix, regions := r, scalarErr := se })

/-- Blend: `Stack::apply_blend`.
    Accounting for its slice arithmetic (none of it can panic, given `top ≤ MAX_STACK`, which is
    `evaluate_stack_le`): `target_value_count * (region_count + 1)` ≤ 513 · 65536; `start = len - operand_count` is
    guarded by `len < operand_count ⇒ StackUnderflow`; `values[start..end]` has `end = len ≤ 513`;
    `values[start..].split_at_mut(target_value_count)` has `target_value_count ≤ operand_count ≤ 513 - start`;
    `deltas[region_count * value_ix + region_ix]` has `value_ix < target`, `region_ix < region_count` (`scalars()` yields
    exactly `region_indices.len()` items), so the index is `< target * region_count = operand_count - target ≤ |deltas|`. -/
def opBlend (blend : Option VsLookup) (rest : List Nat) (st : St) : OpRes :=
  match blend with
  | none => failE st .missingBlend
  | some _ =>
    match popI32 st.stack with
    | .error e => failE st e
    | .ok (v, stack) =>
      -- `pop_i32()? as usize`: a negative count is ≥ 2^63 > top
      if v < 0 ∨ v.toNat > stack.length then failE st .stackUnderflow
      else
        let t := v.toNat
        let oc := t * (st.regions + 1)        -- `operand_count`
        if stack.length < oc then failE st .stackUnderflow
        else
          -- `for … in blend_state.scalars()? { let scalar = maybe_scalar?; … }`
          match st.scalarErr with
          | some e => failE st e
          | none =>
            -- `self.top = start + target_value_count`; the surviving targets are 16.16 now
            .ok (true, rest, { st with stack := List.replicate t none ++ stack.drop oc })

/-- EndChar -/
def opEndchar (rest : List Nat) (st : St) : OpRes :=
  let st := if !st.stack.isEmpty && !st.haveWidth then { st with haveWidth := true, stack := [] } else st
  let st := if st.isOpen then { st with isOpen := false, out := K_CLOSE :: st.out } else st
  .ok (false, rest, st)

/-- HStem / VStem / HStemHm / VStemHm (`kind` = which sink callback).
    `self.stack.len() - 1` is evaluated only when `len_is_odd()`; `u += args[0]`, `u.wrapping_add(w)`, `u + w` are
    wrapping `Fixed` operations (font-types fixed.rs); `stem_count += len / 2` is a `usize` that grows by at most 256
    per operator. -/
def opStem (kind : Nat) (rest : List Nat) (st : St) : OpRes :=
  let n := st.stack.length
  let p := stemStart n st.haveWidth
  match whileFuel (pairBody n kind) (n + 1) { ix := p.1, out := st.out } with
  | .error f => liftL st (.error f)
  | .ok l => .ok (true, rest, finishOp { st with haveWidth := p.2.2, stemCount := st.stemCount + p.2.1 / 2 } l)

/-- HintMask / CntrMask -/
def opMask (isHint : Bool) (rest : List Nat) (st : St) : OpRes :=
  let n := st.stack.length
  let p := stemStart n st.haveWidth
  match whileFuel (pairBody n K_VSTEM) (n + 1) { ix := p.1, out := st.out } with
  | .error f => liftL st (.error f)
  | .ok l =>
    let stems := st.stemCount + p.2.1 / 2
    let count := (stems + 7) / 8           -- `div_ceil(8)`
    -- `cursor.read_array::<u8>(count)?`
    if rest.length < count then failE st .read
    else
      .ok (true, rest.drop count,
        finishOp { st with haveWidth := p.2.2, stemCount := stems } { l with out := kMask isHint count :: l.out })

/-- RMoveTo (`rel = true`: `fixed_array::<2>(i)`, width when 3 operands) / HMoveTo, VMoveTo (`get_fixed(i)`, 2 operands) -/
def opMove (rel : Bool) (rest : List Nat) (st : St) : OpRes :=
  let n := st.stack.length
  let widthAt := if rel then 3 else 2
  let i := if n = widthAt ∧ st.haveWidth = false then 1 else 0
  let hw := if n = widthAt ∧ st.haveWidth = false then true else st.haveWidth
  let out := if st.isOpen then K_CLOSE :: st.out else st.out
  match (if rel then fixedArray2 n i else getFixed i) with
  | .error e => failE st e
  | .ok _ => .ok (true, rest, finishOp { st with haveWidth := hw, isOpen := true } { ix := 0, out := K_MOVE :: out })

/-- RLineTo -/
def opRline (rest : List Nat) (st : St) : OpRes :=
  let n := st.stack.length
  match whileFuel (pairBody n K_LINE) (n + 1) { ix := 0, out := st.out } with
  | .error f => liftL st (.error f)
  | .ok l => .ok (true, rest, finishOp st l)

/-- HLineTo / VLineTo -/
def opHVline (rest : List Nat) (st : St) : OpRes :=
  let n := st.stack.length
  match whileFuel (singleBody n) (n + 1) { ix := 0, out := st.out } with
  | .error f => liftL st (.error f)
  | .ok l => .ok (true, rest, finishOp st l)

/-- HhCurveTo (`need = 4`: `coords_remaining() >= 4`) / VvCurveTo (`need = 1`: `coords_remaining() > 0`) -/
def opHhVv (need : Nat) (rest : List Nat) (st : St) : OpRes :=
  let n := st.stack.length
  -- `if self.stack.len_is_odd() { … get_fixed(0)?; self.stack_ix = 1 }`
  match (if n % 2 = 1 then getFixed 0 else .ok ()) with
  | .error e => failE st e
  | .ok _ =>
    let l : LoopSt := if n % 2 = 1 then { st.loopSt with ix := 1 } else st.loopSt
    match whileFuel (curveBody n need [1, 2, 1]) (n + 1) l with
    | .error f => liftL st (.error f)
    | .ok l => .ok (true, rest, finishOp st l)

/-- HvCurveTo / VhCurveTo.  `count1 - count` with `count = count1 & !2 ≤ count1`; `count - self.stack_ix` is evaluated
    only under `stack_ix < count`. -/
def opHvVh (rest : List Nat) (st : St) : OpRes :=
  let n := st.stack.length
  let count := if (n / 2) % 2 = 1 then n - 2 else n        -- `count1 & !2`
  match whileFuel (hvBody count) (n + 1) { ix := n - count, out := st.out } with
  | .error f => liftL st (.error f)
  | .ok l => .ok (true, rest, finishOp st l)

/-- RrCurveTo / RCurveLine (`thenLine`) -/
def opRrcurve (thenLine : Bool) (rest : List Nat) (st : St) : OpRes :=
  let n := st.stack.length
  match whileFuel (curveBody n 6 [2, 2, 2]) (n + 1) st.loopSt with
  | .error f => liftL st (.error f)
  | .ok l =>
    if thenLine then
      match fixedArray2 n l.ix with
      | .error e => failE st e
      | .ok _ => .ok (true, rest, finishOp st { l with out := K_LINE :: l.out })
    else .ok (true, rest, finishOp st l)

/-- RLineCurve -/
def opRlinecurve (rest : List Nat) (st : St) : OpRes :=
  let n := st.stack.length
  match whileFuel (lineBody n) (n + 1) st.loopSt with
  | .error f => liftL st (.error f)
  | .ok l =>
    match emitCurves [2, 2, 2] 0 l with
    | .error e => failE st e
    | .ok l => .ok (true, rest, finishOp st l)

/-- `(self.stack.pop_i32()? + subrs_index.subr_bias()) as usize`: `none` = the `i32` addition overflows -/
def biasedIndex (v : Int) (count : Nat) : Option Nat :=
  let sum := v + bias count
  if sum < -2147483648 ∨ sum > 2147483647 then none
  else some (if sum < 0 then (sum + 18446744073709551616).toNat else sum.toNat)   -- sign-extending `as usize`

/-- CallSubr / CallGsubr; `callee` = `self.evaluate(_, nesting_depth + 1)` -/
def opCall (idx : Option SubrIndex) (callee : List Nat → St → Res St) (rest : List Nat) (st : St) : OpRes :=
  match idx with
  | none => failE st .missingSubrs
  | some idx =>
    match popI32 st.stack with
    | .error e => failE st e
    | .ok (v, stack) =>
      match biasedIndex v idx.count with
      | none => .error (.panic 2, st)
      | some biased =>
        match idx.get biased with
        | .error e => failE st e
        | .ok data =>
          match callee data { st with stack := stack } with
          | .error f => .error f
          | .ok st => .ok (true, rest, st)

def evalOperator (env : Env) (callee : List Nat → St → Res St) (op : Op) (rest : List Nat) (st : St) : OpRes :=
  match op with
  | .flex => opCurves [2, 2, 2, 2, 2, 2] rest st
  | .hflex => opCurves [1, 2, 1, 1, 1, 1] rest st
  | .hflex1 => opCurves [2, 2, 1, 1, 2, 1] rest st
  | .flex1 => opCurves [2, 2, 2, 2, 2, 1] rest st
  | .vsindex => opVsindex env.blend rest st
  | .blend => opBlend env.blend rest st
  | .ret => .ok (false, rest, st)
  | .endchar => opEndchar rest st
  | .hstem => opStem K_HSTEM rest st
  | .hstemhm => opStem K_HSTEM rest st
  | .vstem => opStem K_VSTEM rest st
  | .vstemhm => opStem K_VSTEM rest st
  | .hintmask => opMask true rest st
  | .cntrmask => opMask false rest st
  | .rmoveto => opMove true rest st
  | .hmoveto => opMove false rest st
  | .vmoveto => opMove false rest st
  | .rlineto => opRline rest st
  | .hlineto => opHVline rest st
  | .vlineto => opHVline rest st
  | .hhcurveto => opHhVv 4 rest st
  | .vvcurveto => opHhVv 1 rest st
  | .hvcurveto => opHvVh rest st
  | .vhcurveto => opHvVh rest st
  | .rrcurveto => opRrcurve false rest st
  | .rcurveline => opRrcurve true rest st
  | .rlinecurve => opRlinecurve rest st
  | .callsubr => opCall env.subrs callee rest st
  | .callgsubr => opCall (some env.gsubrs) callee rest st

/-! ## `Evaluator::evaluate` -/

/-- the `while cursor.remaining_bytes() != 0` loop; `fuel` ≥ number of remaining bytes + 1 is always enough -/
def loop (env : Env) (callee : List Nat → St → Res St) : Nat → List Nat → St → Res St
  | 0, _, st => .error (.stuck, st)
  | _ + 1, [], st => .ok st
  | fuel + 1, b0 :: rest, st =>
    let st := { st with steps := st.steps + 1 }
    if b0 = 28 ∨ (32 ≤ b0 ∧ b0 ≤ 254) then
      match parseInt b0 rest with
      | .error e => failE st e
      | .ok (v, rest) =>
        match push st (some v) with
        | .error f => .error f
        | .ok st => loop env callee fuel rest st
    else if b0 = 255 then
      match rest with
      | _ :: _ :: _ :: _ :: rest =>
        match push st none with
        | .error f => .error f
        | .ok st => loop env callee fuel rest st
      | _ => failE st .read
    else
      match readOperator b0 rest with
      | .error e => failE st e
      | .ok (op, rest) =>
        match evalOperator env callee op rest st with
        | .error f => .error f
        | .ok (cont, rest, st) => if cont then loop env callee fuel rest st else .ok st

/-- `Evaluator::evaluate(data, nesting_depth)` with `levels = 11 - nesting_depth`:
    `nesting_depth > NESTING_DEPTH_LIMIT` ⇔ `levels = 0`.  Structural recursion on `levels`. -/
def evalN (env : Env) : Nat → List Nat → St → Res St
  | 0, _, st => failE st .nestingLimit
  | levels + 1, data, st => loop env (evalN env levels) (data.length + 1) data st

/-- `Evaluator::new`: the blend state handed to `evaluate` has already been positioned on `vsIndex`. -/
def initSt (vsIndex regions : Nat) (scalarErr : Option Err) : St :=
  { vsIndex := vsIndex, regions := regions, scalarErr := scalarErr }

/-- charstring.rs `evaluate` -/
def evaluate (env : Env) (data : List Nat) (st0 : St) : Res St :=
  evalN env (NESTING_DEPTH_LIMIT + 1) data st0

/-! ## INDEX (index.rs, generated_postscript.rs) — concrete instance of `SubrIndex` for the driver -/

structure IndexData where
  count : Nat
  offSize : Nat
  offsets : List Nat
  data : List Nat
deriving Repr, DecidableEq

inductive Index
  | empty
  | fmt (d : IndexData)
deriving Repr, DecidableEq

/-- `Index1::read` (`cw = 2`: u16 count) / `Index2::read` (`cw = 4`: u32 count), with `Index::new`'s fallback to
    `Empty` when reading fails but the count field is 0 -/
def Index.ofBytesW (cw : Nat) (bytes : List Nat) : Except Err Index :=
  if bytes.length < cw then .error .read
  else
    let count := beValue (bytes.take cw)
    -- `cursor.read::<u8>()` for off_size, then `finish` checks the offsets array fits
    match bytes[cw]? with
    | none => if count = 0 then .ok .empty else .error .read
    | some offSize =>
      let offLen := (count + 1) * offSize
      if cw + 1 + offLen ≤ bytes.length then
        .ok (.fmt { count := count, offSize := offSize, offsets := (bytes.drop (cw + 1)).take offLen,
                    data := bytes.drop (cw + 1 + offLen) })
      else if count = 0 then .ok .empty else .error .read

/-- `Index::new(data, is_cff2)` -/
def Index.ofBytes (isCff2 : Bool) (bytes : List Nat) : Except Err Index :=
  Index.ofBytesW (if isCff2 then 4 else 2) bytes

/-- `read_offset` -/
def readOffset (d : IndexData) (index : Nat) : Except Err Nat :=
  if index > d.count then .error .read
  else
    let pos := index * d.offSize
    if 1 ≤ d.offSize ∧ d.offSize ≤ 4 then
      if pos + d.offSize ≤ d.offsets.length then
        let v := beValue ((d.offsets.drop pos).take d.offSize)
        if v = 0 then .error .zeroOffsetInIndex else .ok (v - 1)
      else .error .read
    else .error (.invalidIndexOffsetSize d.offSize)

/-- `Index1::get` / `Index2::get` -/
def IndexData.get (d : IndexData) (index : Nat) : Except Err (List Nat) :=
  match readOffset d index with
  | .error e => .error e
  | .ok a =>
    match readOffset d (index + 1) with
    | .error e => .error e
    | .ok b => if a ≤ b ∧ b ≤ d.data.length then .ok ((d.data.drop a).take (b - a)) else .error .read

def Index.toSubrs : Index → SubrIndex
  | .empty => { count := 0, get := fun _ => .error .read }
  | .fmt d => { count := d.count, get := d.get }

end FontVerif.Charstring
