/-
C17 — klippa's cmap subsetter.  Executable model of klippa/src/cmap.rs

* format 4 writer: `to_ranges` (the run / range splitting heuristic ported from HarfBuzz),
  `commit_current_range`, `RangeCounter` / `RangeWriter::write_one_range`,
  `serialize_find_segcount`, `serialize_start_end_delta_arrays`,
  `serialize_rangeoffset_glyph_ids` (idDelta vs idRangeOffset + glyphIdArray), the terminating
  0xFFFF segment, `Cmap4::serialize` (length / segCountX2 / searchRange / entrySelector / rangeShift)
* format 12 writer: `is_gid_consecutive`, `Cmap12::serialize` (group merging)
* format 14 writer: `Cmap14::serialize`, `copy_var_selector_record_uvs_tables`,
  `copy_non_default_uvs`, `copy_uvs_mapping`, `copy_default_uvs` (both branches)
* `CollectUnicodes for Cmap4 / Cmap12`, `retain_encoding_record_for_subset`, `Cmap::subset`,
  `can_drop_format12`, `serialize_cmap`, `serialize_encoding_record`
* the part of klippa/src/serialize.rs these use: `push` / `pop_pack(share)` / `pop_discard` /
  `add_link(.., Head, ..)` / `end_serialize` + `copy_bytes` (objects packed from the tail, identical
  objects shared, 32-bit offsets relative to the parent's head)

The READER side is C08's Model/Cmap.lean (`Cmap.map4`, `Cmap.map12`, `Cmap.mapVariant`).
Code points, glyph ids are `Nat`; idDelta is `Int`.  `none` / `.trap` = a Rust panic in the suite profile
(overflow checks on); `.err` = the `Err(..)` return that makes `subset_font` drop / refuse the table.
-/
import FontVerif.Model.Base
import FontVerif.Model.Cmap
namespace FontVerif.SubsetCmap
open FontVerif FontVerif.Cmap

/-! ## format 4: `to_ranges` -/

/-- one call of `write_one_range(start, end, delta)` -/
abbrev Range := Nat × Nat × Int

/-- the loop variables of `to_ranges`; `first` = `mode == Mode::FirstSubRange` -/
structure St where
  start : Nat
  prevRunStart : Nat
  runStart : Nat
  endCp : Nat
  lastGid : Nat
  runLength : Nat
  delta : Int
  prevDelta : Int
  first : Bool
deriving Repr, DecidableEq, Inhabited

/-- The two cost decisions of the heuristic.  `none` = the `u16` arithmetic of the decision panics.
* `commitAtRun st` : "A new run is starting, decide if we want to commit the current run"
  (`run_cost >= split_cost`)
* `splitTail st final` : the `run_cost >= split_cost` test inside `commit_current_range`
  (evaluated only when `start < run_start < end`); `final` = called from "Finalize range"
  (split_cost 8) rather than from the run decision (split_cost by mode). -/
structure Heur where
  commitAtRun : St → Option Bool
  splitTail : St → Bool → Option Bool

/-- `split_cost` of the run decision -/
def splitCost (first : Bool) : Nat := if first then 8 else 16

/-- the implemented heuristic -/
def implHeur : Heur where
  commitAtRun st :=
    let runCost := st.runLength * 2
    if runCost > 65535 then none else some (decide (runCost ≥ splitCost st.first))
  splitTail st final :=
    let runCost := (st.endCp - st.runStart + 1) * 2
    if runCost > 65535 then none
    else some (decide (runCost ≥ (if final then 8 else splitCost st.first)))

/-- `commit_current_range` -/
def commit (h : Heur) (st : St) (final : Bool) : Option (List Range) :=
  let single : List Range :=
    if st.start = st.runStart then [(st.start, st.endCp, st.delta)]   -- "Range is only a run"
    else [(st.start, st.endCp, 0)]                                    -- "single non-run range"
  if st.start < st.runStart ∧ st.runStart < st.endCp then
    match h.splitTail st final with
    | none => none
    | some true =>
      some [(st.start, st.runStart - 1, if st.start = st.prevRunStart then st.prevDelta else 0),
            (st.runStart, st.endCp, st.delta)]
    | some false => some single
  else some single

/-- "Start a new run" at the top of the outer loop -/
def initSt (p : Nat × Nat) : St :=
  let cp := p.1 % 65536
  let gid := p.2 % 65536
  { start := cp, prevRunStart := cp, runStart := cp, endCp := cp, lastGid := gid, runLength := 1,
    delta := wrapI16 ((gid : Int) - (cp : Int)), prevDelta := 0, first := true }

/-- the trailing `if end_cp != 0xFFFF { write_one_range(0xFFFF, 0xFFFF, 1) }` -/
def sentinel (endCp : Nat) : List Range := if endCp ≠ 0xFFFF then [(0xFFFF, 0xFFFF, 1)] else []

/-- both `while` loops of `to_ranges`, from inside the inner loop with state `st` and the pairs not
yet consumed.  (The `break` re-enters the outer loop on the same pair: `initSt p`.) -/
def go (h : Heur) : St → List (Nat × Nat) → Option (List Range)
  | st, [] =>
    match commit h st true with
    | none => none
    | some c => some (c ++ sentinel st.endCp)
  | st, p :: rest =>
    let nextCp := p.1 % 65536
    let nextGid := p.2 % 65536
    if st.endCp + 1 > 65535 then none                       -- `end_cp + 1` in u16
    else if nextCp ≠ st.endCp + 1 then
      -- "Current range is over, stop processing." → "Finalize range" → next outer iteration
      match commit h st true with
      | none => none
      | some c =>
        match go h (initSt p) rest with
        | none => none
        | some r => some (c ++ r)
    else if st.lastGid + 1 > 65535 then none                -- `last_gid + 1` in u16
    else if nextGid = st.lastGid + 1 then
      -- "The current run continues."
      if st.runLength + 1 > 65535 then none
      else go h { st with endCp := nextCp, runLength := st.runLength + 1, lastGid := nextGid } rest
    else
      -- "A new run is starting, decide if we want to commit the current run."
      match h.commitAtRun st with
      | none => none
      | some dec =>
        match (if dec then commit h st false else some []) with
        | none => none
        | some c =>
          let st' : St :=
            { start := if dec then nextCp else st.start, prevRunStart := st.runStart, runStart := nextCp,
              endCp := nextCp, lastGid := nextGid, runLength := 1,
              delta := wrapI16 ((nextGid : Int) - (nextCp : Int)), prevDelta := st.delta, first := false }
          match go h st' rest with
          | none => none
          | some r => some (c ++ r)

/-- `to_ranges` with an arbitrary cost heuristic -/
def toRangesWith (h : Heur) (l : List (Nat × Nat)) : Option (List Range) :=
  match l with
  | [] => some (sentinel 0)
  | p :: rest => go h (initSt p) rest

/-- `to_ranges` as implemented -/
def toRanges (l : List (Nat × Nat)) : Option (List Range) := toRangesWith implHeur l

/-! ## format 4: arrays -/

/-- `cp_to_gid_map.get(&cp)` of the `FnvHashMap` collected from the list (a later pair wins) -/
def gidOf (m : List (Nat × Nat)) (cp : Nat) : Option Nat :=
  (m.reverse.find? (fun p => p.1 == cp)).map (·.2)

/-- `for cp in start_cp..=end_cp { gid = map.get(&cp).ok_or(ERROR_OTHER)?; embed(gid as u16) }` -/
def glyphIdsGo (m : List (Nat × Nat)) : Nat → Nat → Option (List Nat)
  | 0, _ => some []
  | k + 1, cp =>
    match gidOf m cp with
    | none => none
    | some g => (glyphIdsGo m k (cp + 1)).map (g % 65536 :: ·)

def glyphIdsFor (m : List (Nat × Nat)) (s e : Nat) : Option (List Nat) := glyphIdsGo m (e + 1 - s) s

/-- `serialize_rangeoffset_glyph_ids`: rows (start, end, idDelta, idRangeOffset) and the glyph id
array for ranges `i, i+1, …` of `segCount`; `nIds` glyph ids written so far
(`s.head() - (id_range_offset + i*2)` = `((segCount - i) + nIds) * 2`, stored `as u16`).
`none` = `SERIALIZE_ERROR_OTHER` (a code point of a glyphIdArray range is not in the list). -/
def emitRows (m : List (Nat × Nat)) (segCount : Nat) : Nat → Nat → List Range → Option (List Row × List Nat)
  | _, _, [] => some ([], [])
  | i, nIds, (s, e, d) :: rest =>
    if d ≠ 0 then
      match emitRows m segCount (i + 1) nIds rest with
      | none => none
      | some (rows, g) => some ((s, e, d, 0) :: rows, g)
    else
      match glyphIdsFor m s e with
      | none => none
      | some chunk =>
        match emitRows m segCount (i + 1) (nIds + chunk.length) rest with
        | none => none
        | some (rows, g) => some ((s, e, 0, (((segCount - i) + nIds) * 2) % 65536) :: rows, chunk ++ g)

/-- the five parallel arrays as C08's reader model takes them -/
def tableOfRows (rows : List Row) (g : List Nat) : Cmap4 :=
  { endCode := (rows.map Row.end_).toArray
    startCode := (rows.map Row.start).toArray
    idDelta := (rows.map Row.delta).toArray
    idRangeOffsets := (rows.map Row.off).toArray
    glyphIdArray := g.toArray }

/-- outcome of a subtable / table writer -/
inductive Out (α : Type) where
  | ok : α → Out α
  | err : String → Out α
  | trap : Out α
deriving Repr, DecidableEq

/-- `entry_selector = max(1, 16 - seg_count.leading_zeros()) - 1` (`seg_count : u16`) -/
def entrySelector (segCount : Nat) : Nat := max 1 (if segCount = 0 then 0 else Nat.log2 segCount + 1) - 1

def searchRange (segCount : Nat) : Nat := 2 * 2 ^ entrySelector segCount

def rangeShift (segCount : Nat) : Nat :=
  if segCount * 2 > searchRange segCount then segCount * 2 - searchRange segCount else 0

/-- total byte length of the subtable -/
def length4 (t : Cmap4) : Nat := 16 + t.endCode.size * 8 + t.glyphIdArray.size * 2

/-- the structured result of `Cmap4::serialize` on a non-empty list, for an arbitrary heuristic -/
def build4With (h : Heur) (l : List (Nat × Nat)) : Out Cmap4 :=
  match toRangesWith h l with
  | none => .trap
  | some ranges =>
    if ranges.length > 65535 then .trap            -- `self.seg_count += 1` in u16
    else
      match emitRows l ranges.length 0 0 ranges with
      | none => .err "other"
      | some (rows, g) =>
        let t := tableOfRows rows g
        -- `check_assign::<u16>(length_pos, ..)`, then `check_assign::<u16>(segcount_pos, seg_count * 2)`
        if length4 t > 65535 then .err "int-overflow" else .ok t

def build4 (l : List (Nat × Nat)) : Out Cmap4 := build4With implHeur l

def be16 (v : Nat) : List Nat := [v / 256 % 256, v % 256]
def be24 (v : Nat) : List Nat := [v / 65536 % 256, v / 256 % 256, v % 256]
def be32 (v : Nat) : List Nat := [v / 16777216 % 256, v / 65536 % 256, v / 256 % 256, v % 256]
/-- an `i16` as two bytes -/
def beI16 (d : Int) : List Nat := be16 (d % 65536).toNat

/-- byte image of a format 4 subtable -/
def bytes4 (language : Nat) (t : Cmap4) : List Nat :=
  let n := t.endCode.size
  be16 4 ++ be16 (length4 t) ++ be16 language ++ be16 (n * 2) ++ be16 (searchRange n) ++
    be16 (entrySelector n) ++ be16 (rangeShift n) ++
    t.endCode.toList.flatMap be16 ++ be16 0 ++ t.startCode.toList.flatMap be16 ++
    t.idDelta.toList.flatMap beI16 ++ t.idRangeOffsets.toList.flatMap be16 ++
    t.glyphIdArray.toList.flatMap be16

/-- `Cmap4::serialize`: the bytes appended to the serializer (`[]` = nothing written: the encoding
record is then discarded) -/
def serialize4 (language : Nat) (l : List (Nat × Nat)) : Out (List Nat) :=
  if l.isEmpty then .ok []
  else
    match build4 l with
    | .ok t => .ok (bytes4 language t)
    | .err e => .err e
    | .trap => .trap

/-! ## format 12 -/

def INVALID : Nat := 4294967295

/-- the `for (cp, gid) in cp_to_new_gid_list` loop of `Cmap12::serialize`; state =
(start_char_code, end_char_code, glyph_id).  `none` = u32 underflow / overflow in
`is_gid_consecutive` (`cp - 1`, `cp - start_char_code`, `gid + ..`). -/
def groups12Go : Nat → Nat → Nat → List (Nat × Nat) → Option (List Group)
  | sc, ec, g, [] => some (if sc ≠ INVALID then [(sc, ec, g)] else [])
  | sc, ec, g, (cp, gid) :: rest =>
    if sc = INVALID then groups12Go cp cp gid rest
    else if cp = 0 then none
    else if cp - 1 = ec then
      if g + (cp - sc) > 4294967295 then none
      else if gid = g + (cp - sc) then groups12Go sc cp g rest
      else (groups12Go cp cp gid rest).map ((sc, ec, g) :: ·)
    else (groups12Go cp cp gid rest).map ((sc, ec, g) :: ·)

def groups12 (l : List (Nat × Nat)) : Option (List Group) := groups12Go INVALID INVALID 0 l

def bytes12 (format language : Nat) (gs : List Group) : List Nat :=
  be16 format ++ be16 0 ++ be32 (16 + gs.length * 12) ++ be32 language ++ be32 gs.length ++
    gs.flatMap (fun g => be32 g.1 ++ be32 g.2.1 ++ be32 g.2.2)

/-- `Cmap12::serialize` (always writes at least the 16 byte header) -/
def serialize12 (language : Nat) (l : List (Nat × Nat)) : Out (List Nat) :=
  match groups12 l with
  | none => .trap
  | some gs =>
    if 16 + gs.length * 12 > 4294967295 then .err "int-overflow" else .ok (bytes12 12 language gs)

end FontVerif.SubsetCmap
