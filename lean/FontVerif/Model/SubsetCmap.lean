/-
C17 — klippa's cmap subsetter.  Executable model of klippa/src/cmap.rs

* format 4 writer: `to_ranges` (the run / range splitting heuristic ported from HarfBuzz),
  `commit_current_range`, `RangeCounter` / `RangeWriter::write_one_range`,
  `serialize_find_segcount`, `serialize_start_end_delta_arrays`,
  `serialize_rangeoffset_glyph_ids` (idDelta vs idRangeOffset + glyphIdArray), the terminating
  0xFFFF segment, `Cmap4::serialize` (length / segCountX2 / searchRange / entrySelector / rangeShift)
* format 12 writer: `is_gid_consecutive`, `Cmap12::serialize` (group merging)
* format 14 writer: `Cmap14::serialize`, `copy_var_selector_record_uvs_tables`,
  `copy_non_default_uvs`, `copy_uvs_mapping`, `copy_default_uvs` (both branches)
* `CollectUnicodes for Cmap4 / Cmap12`, `retain_encoding_record_for_subset`, `Cmap::subset`,
  `can_drop_format12`, `serialize_cmap`, `serialize_encoding_record`
* the part of klippa/src/serialize.rs these use: `push` / `pop_pack(share)` / `pop_discard` /
  `add_link(.., Head, ..)` / `end_serialize` + `copy_bytes` (objects packed from the tail, identical
  objects shared, 32-bit offsets relative to the parent's head)

The READER side is C08's Model/Cmap.lean (`Cmap.map4`, `Cmap.map12`, `Cmap.mapVariant`).
Code points, glyph ids are `Nat`; idDelta is `Int`.  `none` / `.trap` = a Rust panic in the suite profile
(overflow checks on); `.err` = the `Err(..)` return that makes `subset_font` drop / refuse the table.
-/
import FontVerif.Model.Base
import FontVerif.Model.Cmap
namespace FontVerif.SubsetCmap
open FontVerif FontVerif.Cmap

/-! ## format 4: `to_ranges` -/

/-- one call of `write_one_range(start, end, delta)` -/
abbrev Range := Nat × Nat × Int

/-- the loop variables of `to_ranges`; `first` = `mode == Mode::FirstSubRange` -/
structure St where
  start : Nat
  prevRunStart : Nat
  runStart : Nat
  endCp : Nat
  lastGid : Nat
  runLength : Nat
  delta : Int
  prevDelta : Int
  first : Bool
deriving Repr, DecidableEq, Inhabited

/-- The two cost decisions of the heuristic.  `none` = the `u16` arithmetic of the decision panics.
* `commitAtRun st` : "A new run is starting, decide if we want to commit the current run"
  (`run_cost >= split_cost`)
* `splitTail st final` : the `run_cost >= split_cost` test inside `commit_current_range`
  (evaluated only when `start < run_start < end`); `final` = called from "Finalize range"
  (split_cost 8) rather than from the run decision (split_cost by mode). -/
structure Heur where
  commitAtRun : St → Option Bool
  splitTail : St → Bool → Option Bool

/-- `split_cost` of the run decision -/
def splitCost (first : Bool) : Nat := if first then 8 else 16

/-- the implemented heuristic -/
def implHeur : Heur where
  commitAtRun st :=
    let runCost := st.runLength * 2
    if runCost > 65535 then none else some (decide (runCost ≥ splitCost st.first))
  splitTail st final :=
    let runCost := (st.endCp - st.runStart + 1) * 2
    if runCost > 65535 then none
    else some (decide (runCost ≥ (if final then 8 else splitCost st.first)))

/-- `commit_current_range` -/
def commit (h : Heur) (st : St) (final : Bool) : Option (List Range) :=
  let single : List Range :=
    if st.start = st.runStart then [(st.start, st.endCp, st.delta)]   -- "Range is only a run"
    else [(st.start, st.endCp, 0)]                                    -- "single non-run range"
  if st.start < st.runStart ∧ st.runStart < st.endCp then
    match h.splitTail st final with
    | none => none
    | some true =>
      some [(st.start, st.runStart - 1, if st.start = st.prevRunStart then st.prevDelta else 0),
            (st.runStart, st.endCp, st.delta)]
    | some false => some single
  else some single

/-- "Start a new run" at the top of the outer loop -/
def initSt (p : Nat × Nat) : St :=
  let cp := p.1 % 65536
  let gid := p.2 % 65536
  { start := cp, prevRunStart := cp, runStart := cp, endCp := cp, lastGid := gid, runLength := 1,
    delta := wrapI16 ((gid : Int) - (cp : Int)), prevDelta := 0, first := true }

/-- the trailing `if end_cp != 0xFFFF { write_one_range(0xFFFF, 0xFFFF, 1) }` -/
def sentinel (endCp : Nat) : List Range := if endCp ≠ 0xFFFF then [(0xFFFF, 0xFFFF, 1)] else []

/-- both `while` loops of `to_ranges`, from inside the inner loop with state `st` and the pairs not
yet consumed.  (The `break` re-enters the outer loop on the same pair: `initSt p`.) -/
def go (h : Heur) : St → List (Nat × Nat) → Option (List Range)
  | st, [] =>
    match commit h st true with
    | none => none
    | some c => some (c ++ sentinel st.endCp)
  | st, p :: rest =>
    let nextCp := p.1 % 65536
    let nextGid := p.2 % 65536
    if st.endCp + 1 > 65535 then none                       -- `end_cp + 1` in u16
    else if nextCp ≠ st.endCp + 1 then
      -- "Current range is over, stop processing." → "Finalize range" → next outer iteration
      match commit h st true with
      | none => none
      | some c =>
        match go h (initSt p) rest with
        | none => none
        | some r => some (c ++ r)
    else if st.lastGid + 1 > 65535 then none                -- `last_gid + 1` in u16
    else if nextGid = st.lastGid + 1 then
      -- "The current run continues."
      if st.runLength + 1 > 65535 then none
      else go h { st with endCp := nextCp, runLength := st.runLength + 1, lastGid := nextGid } rest
    else
      -- "A new run is starting, decide if we want to commit the current run."
      match h.commitAtRun st with
      | none => none
      | some dec =>
        match (if dec then commit h st false else some []) with
        | none => none
        | some c =>
          let st' : St :=
            { start := if dec then nextCp else st.start, prevRunStart := st.runStart, runStart := nextCp,
              endCp := nextCp, lastGid := nextGid, runLength := 1,
              delta := wrapI16 ((nextGid : Int) - (nextCp : Int)), prevDelta := st.delta, first := false }
          match go h st' rest with
          | none => none
          | some r => some (c ++ r)

/-- `to_ranges` with an arbitrary cost heuristic -/
def toRangesWith (h : Heur) (l : List (Nat × Nat)) : Option (List Range) :=
  match l with
  | [] => some (sentinel 0)
  | p :: rest => go h (initSt p) rest

/-- `to_ranges` as implemented -/
def toRanges (l : List (Nat × Nat)) : Option (List Range) := toRangesWith implHeur l

/-! ## format 4: arrays -/

/-- `cp_to_gid_map.get(&cp)` of the `FnvHashMap` collected from the list (a later pair wins);
`mr` = the list reversed (computed once per subtable) -/
def gidOfR (mr : List (Nat × Nat)) (cp : Nat) : Option Nat :=
  (mr.find? (fun p => p.1 == cp)).map (·.2)

def gidOf (m : List (Nat × Nat)) (cp : Nat) : Option Nat := gidOfR m.reverse cp

/-- `for cp in start_cp..=end_cp { gid = map.get(&cp).ok_or(ERROR_OTHER)?; embed(gid as u16) }` -/
def glyphIdsGo (mr : List (Nat × Nat)) : Nat → Nat → Option (List Nat)
  | 0, _ => some []
  | k + 1, cp =>
    match gidOfR mr cp with
    | none => none
    | some g => (glyphIdsGo mr k (cp + 1)).map (g % 65536 :: ·)

def glyphIdsFor (mr : List (Nat × Nat)) (s e : Nat) : Option (List Nat) := glyphIdsGo mr (e + 1 - s) s

/-- `serialize_rangeoffset_glyph_ids`: rows (start, end, idDelta, idRangeOffset) and the glyph id
array for ranges `i, i+1, …` of `segCount`; `nIds` glyph ids written so far
(`s.head() - (id_range_offset + i*2)` = `((segCount - i) + nIds) * 2`, stored `as u16`).
`none` = `SERIALIZE_ERROR_OTHER` (a code point of a glyphIdArray range is not in the list).
`mr` = the (code point, glyph) list reversed. -/
def emitRows (mr : List (Nat × Nat)) (segCount : Nat) : Nat → Nat → List Range → Option (List Row × List Nat)
  | _, _, [] => some ([], [])
  | i, nIds, (s, e, d) :: rest =>
    if d ≠ 0 then
      match emitRows mr segCount (i + 1) nIds rest with
      | none => none
      | some (rows, g) => some ((s, e, d, 0) :: rows, g)
    else
      match glyphIdsFor mr s e with
      | none => none
      | some chunk =>
        match emitRows mr segCount (i + 1) (nIds + chunk.length) rest with
        | none => none
        | some (rows, g) => some ((s, e, 0, (((segCount - i) + nIds) * 2) % 65536) :: rows, chunk ++ g)

/-- the five parallel arrays as C08's reader model takes them -/
def tableOfRows (rows : List Row) (g : List Nat) : Cmap4 :=
  { endCode := (rows.map Row.end_).toArray
    startCode := (rows.map Row.start).toArray
    idDelta := (rows.map Row.delta).toArray
    idRangeOffsets := (rows.map Row.off).toArray
    glyphIdArray := g.toArray }

/-- outcome of a subtable / table writer -/
inductive Out (α : Type) where
  | ok : α → Out α
  | err : String → Out α
  | trap : Out α
deriving Repr, DecidableEq

/-- `entry_selector = max(1, 16 - seg_count.leading_zeros()) - 1` (`seg_count : u16`) -/
def entrySelector (segCount : Nat) : Nat := max 1 (if segCount = 0 then 0 else Nat.log2 segCount + 1) - 1

def searchRange (segCount : Nat) : Nat := 2 * 2 ^ entrySelector segCount

def rangeShift (segCount : Nat) : Nat :=
  if segCount * 2 > searchRange segCount then segCount * 2 - searchRange segCount else 0

/-- total byte length of the subtable -/
def length4 (t : Cmap4) : Nat := 16 + t.endCode.size * 8 + t.glyphIdArray.size * 2

/-- the structured result of `Cmap4::serialize` on a non-empty list, for an arbitrary heuristic -/
def build4With (h : Heur) (l : List (Nat × Nat)) : Out Cmap4 :=
  match toRangesWith h l with
  | none => .trap
  | some ranges =>
    if ranges.length > 65535 then .trap            -- `self.seg_count += 1` in u16
    else
      match emitRows l.reverse ranges.length 0 0 ranges with
      | none => .err "other"
      | some (rows, g) =>
        let t := tableOfRows rows g
        -- `check_assign::<u16>(length_pos, ..)`, then `check_assign::<u16>(segcount_pos, seg_count * 2)`
        if length4 t > 65535 then .err "int-overflow" else .ok t

def build4 (l : List (Nat × Nat)) : Out Cmap4 := build4With implHeur l

def be16 (v : Nat) : List Nat := [v / 256 % 256, v % 256]
def be24 (v : Nat) : List Nat := [v / 65536 % 256, v / 256 % 256, v % 256]
def be32 (v : Nat) : List Nat := [v / 16777216 % 256, v / 65536 % 256, v / 256 % 256, v % 256]
/-- an `i16` as two bytes -/
def beI16 (d : Int) : List Nat := be16 (d % 65536).toNat

/-- byte image of a format 4 subtable -/
def bytes4 (language : Nat) (t : Cmap4) : List Nat :=
  let n := t.endCode.size
  be16 4 ++ be16 (length4 t) ++ be16 language ++ be16 (n * 2) ++ be16 (searchRange n) ++
    be16 (entrySelector n) ++ be16 (rangeShift n) ++
    t.endCode.toList.flatMap be16 ++ be16 0 ++ t.startCode.toList.flatMap be16 ++
    t.idDelta.toList.flatMap beI16 ++ t.idRangeOffsets.toList.flatMap be16 ++
    t.glyphIdArray.toList.flatMap be16

/-- `Cmap4::serialize`: the bytes appended to the serializer (`[]` = nothing written: the encoding
record is then discarded) -/
def serialize4 (language : Nat) (l : List (Nat × Nat)) : Out (List Nat) :=
  if l.isEmpty then .ok []
  else
    match build4 l with
    | .ok t => .ok (bytes4 language t)
    | .err e => .err e
    | .trap => .trap

/-! ## format 12 -/

def INVALID : Nat := 4294967295

/-- the `for (cp, gid) in cp_to_new_gid_list` loop of `Cmap12::serialize`; state =
(start_char_code, end_char_code, glyph_id).  `none` = u32 underflow / overflow in
`is_gid_consecutive` (`cp - 1`, `cp - start_char_code`, `gid + ..`). -/
def groups12Go : Nat → Nat → Nat → List (Nat × Nat) → Option (List Group)
  | sc, ec, g, [] => some (if sc ≠ INVALID then [(sc, ec, g)] else [])
  | sc, ec, g, (cp, gid) :: rest =>
    if sc = INVALID then groups12Go cp cp gid rest
    else if cp = 0 then none
    else if cp - 1 = ec then
      if g + (cp - sc) > 4294967295 then none
      else if gid = g + (cp - sc) then groups12Go sc cp g rest
      else (groups12Go cp cp gid rest).map ((sc, ec, g) :: ·)
    else (groups12Go cp cp gid rest).map ((sc, ec, g) :: ·)

def groups12 (l : List (Nat × Nat)) : Option (List Group) := groups12Go INVALID INVALID 0 l

def bytes12 (format language : Nat) (gs : List Group) : List Nat :=
  be16 format ++ be16 0 ++ be32 (16 + gs.length * 12) ++ be32 language ++ be32 gs.length ++
    gs.flatMap (fun g => be32 g.1 ++ be32 g.2.1 ++ be32 g.2.2)

/-- `Cmap12::serialize` (always writes at least the 16 byte header) -/
def serialize12 (language : Nat) (l : List (Nat × Nat)) : Out (List Nat) :=
  match groups12 l with
  | none => .trap
  | some gs =>
    if 16 + gs.length * 12 > 4294967295 then .err "int-overflow" else .ok (bytes12 12 language gs)

/-! ## `CollectUnicodes`: which code points a source subtable maps to a real glyph

`IntSet<u32>` is modelled as a list used as a set while it is built (`insert_range` prepends, `remove`
filters) and as a sorted array with binary-search membership once complete (`mkSet` / `memSet`). -/

/-- a finished set: ascending array -/
def mkSet (l : List Nat) : Array Nat := (l.mergeSort (· ≤ ·)).toArray

def memSetGo (a : Array Nat) (x : Nat) : Nat → Nat → Nat → Bool
  | 0, _, _ => false
  | fuel + 1, lo, hi =>
    if lo < hi then
      let mid := (lo + hi) / 2
      let v := a[mid]?.getD 0
      if v = x then true
      else if v < x then memSetGo a x fuel (mid + 1) hi
      else memSetGo a x fuel lo mid
    else false

/-- `IntSet::contains` -/
def memSet (a : Array Nat) (x : Nat) : Bool := memSetGo a x (a.size + 1) 0 a.size

def insertRange (out : List Nat) (lo hi : Nat) : List Nat := List.range' lo (hi + 1 - lo) ++ out

/-- the `for cp in start..=end` loop of the `range_offset != 0` branch: the code points to remove.
`index = (range_offset / 2 + (cp - start) + i).wrapping_sub(seg_count)` in `u32`. -/
def roRemoved (arr : Array Nat) (ro start i segCount end_ : Nat) : Nat → Nat → List Nat
  | 0, _ => []
  | k + 1, cp =>
    let index := (ro / 2 + (cp - start) + i + 4294967296 - segCount) % 4294967296
    if index ≥ arr.size then List.range' cp (end_ + 1 - cp)            -- remove_range(cp..=end); break
    else if arr[index]?.getD 0 = 0 then cp :: roRemoved arr ro start i segCount end_ k (cp + 1)
    else roRemoved arr ro start i segCount end_ k (cp + 1)

/-- `Cmap4::collect_unicodes`: segments `i, i+1, …` -/
def collect4Go (t : Cmap4) (segCount : Nat) : Nat → List (Nat × Nat × Nat) → List Nat → List Nat
  | _, [], out => out
  | i, (start, end_, ro) :: rest, out =>
    if start = 0xFFFF then out
    else
      let out := insertRange out start end_
      let removed : List Nat :=
        if ro = 0 then
          (List.range' start (end_ + 1 - start)).filter
            (fun cp => wrapU16 ((cp : Int) + (t.idDelta[i]?.getD 0)) == 0)
        else roRemoved t.glyphIdArray ro start i segCount end_ (end_ + 1 - start) start
      collect4Go t segCount (i + 1) rest (if removed.isEmpty then out else out.filter (fun c => !removed.contains c))

def collect4 (t : Cmap4) : List Nat :=
  let n := min t.startCode.size (min t.endCode.size t.idRangeOffsets.size)
  let segs := (List.range n).map (fun i =>
    (t.startCode[i]?.getD 0, t.endCode[i]?.getD 0, t.idRangeOffsets[i]?.getD 0))
  -- `seg_count = seg_count_x2 / 2` = length of each array as read-fonts slices them
  collect4Go t t.startCode.size 0 segs []

/-- `Cmap12::collect_unicodes` (wrapping `u32` arithmetic as in the source) -/
def collect12 (groups : List Group) (numGlyphs : Nat) : List Nat :=
  groups.foldl (fun out g =>
    let start := g.1
    let end_ := min g.2.1 0x10FFFF
    let gid := g.2.2
    let start := if gid = 0 then (start + 1) % 4294967296 else start
    let gid := if gid = 0 then gid + 1 else gid
    if gid ≥ numGlyphs then out
    else
      let end_ :=
        if (gid + end_ + 4294967296 - start) % 4294967296 ≥ numGlyphs then
          min 0x10FFFF ((start + numGlyphs % 4294967296 + 4294967296 - gid) % 4294967296)
        else end_
      insertRange out start end_) []

/-! ## format 14 -/

/-- a `VariationSelector` record with its tables resolved
(`record.default_uvs(..).transpose().ok().flatten()`: `none` = null offset or unreadable) -/
structure VarSelIn where
  selector : Nat
  defaults : Option (List (Nat × Nat))       -- (start, additional count)
  nonDefaults : Option (List (Nat × Nat))    -- (unicode value, glyph id)
deriving Repr, DecidableEq

/-- what the cmap subsetter reads of the plan -/
structure PlanIn where
  unicodes : List Nat              -- `plan.unicodes`, ascending
  u2g : List (Nat × Nat)           -- `plan.unicode_to_new_gid_list`
  glyphsRequested : List Nat       -- `plan.glyphs_requested`
  glyphMap : List (Nat × Nat)      -- `plan.glyph_map` old → new
  numGlyphs : Nat                  -- `plan.font_num_glyphs`
deriving Repr

def lookupMap (m : List (Nat × Nat)) (k : Nat) : Option Nat := (m.find? (fun p => p.1 == k)).map (·.2)

/-- `copy_non_default_uvs`: `none` = the `glyph_map.get(..).unwrap()` panic; else the retained
mappings as bytes (count excluded) and their number -/
def copyNonDefault (p : PlanIn) : List (Nat × Nat) → Option (List Nat × Nat)
  | [] => some ([], 0)
  | (u, g) :: rest =>
    if !p.unicodes.contains u && !p.glyphsRequested.contains g then copyNonDefault p rest
    else
      match lookupMap p.glyphMap g with
      | none => none
      | some ng =>
        match copyNonDefault p rest with
        | none => none
        | some (b, n) => some (be24 u ++ be16 (ng % 65536) ++ b, n + 1)

/-- number of bits of `org_num_range as u32`: `32 - leading_zeros` -/
def numBits (n : Nat) : Nat := if n = 0 then 0 else Nat.log2 n + 1

/-- first branch of `copy_default_uvs` (`org_num_range > |unicodes| * num_bits`): walk the plan's
unicodes; state (start, end), `INVALID` = none yet.  Emits (start, end - start as u8) records.
The comparison closure (after fix 2e8ae31: range containment) is the one of read-fonts' default-UVS
search, `Cmap.uvsRangeCmp`. -/
def defaultFew (ranges : List (Nat × Nat)) : Nat → Nat → List Nat → List (Nat × Nat)
  | start, end_, [] => if start ≠ INVALID then [(start, (end_ - start) % 256)] else []
  | start, end_, u :: rest =>
    match Layout.binarySearchBy ranges.length (fun i => uvsRangeCmp (ranges[i]?.getD (0, 0)) u) with
    | .err _ => defaultFew ranges start end_ rest
    | .ok _ =>
      if start = INVALID then defaultFew ranges u u rest
      else if end_ + 1 ≠ u ∨ end_ - start = 255 then
        (start, (end_ - start) % 256) :: defaultFew ranges u u rest
      else defaultFew ranges start u rest

/-- `plan.unicodes.iter_after(cur).next()` -/
def nextAfter (us : List Nat) (cur : Nat) : Option Nat := us.find? (fun u => u > cur)

/-- the `while let Some(entry) = plan.unicodes.iter_after(cur_entry).next()` loop of the second branch
for one original range; state (last_code, count), returns emitted records and the new state -/
def defaultManyRange (us : List Nat) (end_ : Nat) : Nat → Nat → Nat → Nat → List (Nat × Nat) × Nat × Nat
  | 0, _, lastCode, count => ([], lastCode, count)
  | fuel + 1, cur, lastCode, count =>
    match nextAfter us cur with
    | none => ([], lastCode, count)
    | some entry =>
      if entry ≥ end_ then ([], lastCode, count)
      else if lastCode = INVALID then defaultManyRange us end_ fuel entry entry count
      else if lastCode + count ≠ entry then
        let r := defaultManyRange us end_ fuel entry entry 0
        ((lastCode, count) :: r.1, r.2)
      else defaultManyRange us end_ fuel entry lastCode (count + 1)

/-- second branch of `copy_default_uvs`; `none` = `start_unicode_value - 1` underflows (start 0) -/
def defaultMany (us : List Nat) : List (Nat × Nat) → Nat → Nat → Option (List (Nat × Nat))
  | [], lastCode, count => some (if lastCode ≠ INVALID then [(lastCode, count)] else [])
  | (start, addl) :: rest, lastCode, count =>
    if start = 0 then none
    else
      let cur := start - 1
      let end_ := cur + addl + 2
      let r := defaultManyRange us end_ (addl + 2) cur lastCode count
      match defaultMany us rest r.2.1 r.2.2 with
      | none => none
      | some more => some (r.1 ++ more)

/-- `copy_default_uvs`: the retained ranges (start, additional count) -/
def copyDefault (p : PlanIn) (ranges : List (Nat × Nat)) : Option (List (Nat × Nat)) :=
  if ranges.length > p.unicodes.length * numBits ranges.length then some (defaultFew ranges INVALID INVALID p.unicodes)
  else defaultMany p.unicodes ranges INVALID 0

/-! ## the serializer: objects packed from the tail, identical objects shared -/

/-- a packed object: bytes and 32-bit links (position in the object, index of the target object),
both `OffsetWhence::Head` -/
structure Obj where
  bytes : List Nat
  links : List (Nat × Nat)
deriving Repr, DecidableEq

/-- `pop_pack(true)`: index of an identical packed object, else append -/
def packShared (packed : List Obj) (o : Obj) : List Obj × Nat :=
  match packed.findIdx? (· == o) with
  | some i => (packed, i)
  | none => (packed ++ [o], packed.length)

/-- the two UVS tables `copy_var_selector_record_uvs_tables` builds for one record, before packing:
(default UVS object, non-default UVS object), `none` inside = table absent or subset to empty
(`pop_discard`); outer `none` = trap -/
def uvsObjs (p : PlanIn) (r : VarSelIn) : Option (Option Obj × Option Obj) :=
  let nd : Option (Option Obj) :=
    match r.nonDefaults with
    | none => some none
    | some maps =>
      match copyNonDefault p maps with
      | none => none
      | some (b, n) => some (if n = 0 then none else some { bytes := be32 n ++ b, links := [] })
  let df : Option (Option Obj) :=
    match r.defaults with
    | none => some none
    | some ranges =>
      match copyDefault p ranges with
      | none => none
      | some rs =>
        some (if rs.isEmpty then none
              else some { bytes := be32 rs.length ++ rs.flatMap (fun x => be24 x.1 ++ [x.2 % 256]), links := [] })
  match nd, df with
  | some n, some d => some (d, n)
  | _, _ => none

def packOpt (packed : List Obj) (o : Option Obj) : List Obj × Option Nat :=
  match o with
  | none => (packed, none)
  | some o => let r := packShared packed o; (r.1, some r.2)

/-- packing order of `Cmap14::serialize`: records last to first, per record the non-default table
before the default table -/
def packUvs : List (VarSelIn × Option Obj × Option Obj) → List Obj →
    List Obj × List (VarSelIn × Option Nat × Option Nat)
  | [], packed => (packed, [])
  | (r, d, n) :: rest, packed =>
    let r1 := packUvs rest packed
    let r2 := packOpt r1.1 n
    let r3 := packOpt r2.1 d
    (r3.1, (r, r3.2, r2.2) :: r1.2)

def objSize (o : Obj) : Nat := o.bytes.length

/-- the variation selector records of the plan with their subset tables; `none` = trap -/
def uvsRetained (p : PlanIn) (recs : List VarSelIn) : Option (List (VarSelIn × Option Obj × Option Obj)) :=
  (recs.filter (fun r => p.unicodes.contains r.selector)).mapM
    (fun r => (uvsObjs p r).map (fun x => (r, x.1, x.2)))

/-- `Cmap14::serialize`.  Result: the packed objects and the cmap14 object, or `none` for the object
when the subtable subsets to empty (snapshot reverted: `packed` unchanged). -/
def serialize14 (p : PlanIn) (recs : List VarSelIn) (packed : List Obj) : Out (List Obj × Option Obj) :=
  match uvsRetained p recs with
  | none => .trap
  | some objs =>
    -- records whose two tables both vanished write no header
    if objs.all (fun x => x.2.1.isNone && x.2.2.isNone) then .ok (packed, none)
    else
      let r := packUvs objs packed
      let kept := r.2.filter (fun x => x.2.1.isSome || x.2.2.isSome)
      let tailLen := ((r.1.drop packed.length).map objSize).sum
      let recBytes := kept.flatMap (fun x => be24 x.1.selector ++ be32 0 ++ be32 0)
      let links : List (Nat × Nat) := (kept.zipIdx).flatMap (fun (x, k) =>
        (match x.2.1 with | some i => [(10 + 11 * k + 3, i)] | none => []) ++
        (match x.2.2 with | some i => [(10 + 11 * k + 7, i)] | none => []))
      let len := 10 + 11 * kept.length + tailLen
      .ok (r.1, some { bytes := be16 14 ++ be32 len ++ be32 kept.length ++ recBytes, links := links })

/-! ## `Cmap::subset` / `serialize_cmap` -/

inductive SubIn where
  | f4 (language : Nat) (t : Cmap4)
  | f12 (language : Nat) (groups : List Group)
  | f14 (recs : List VarSelIn)
  | other (format language : Nat)
  | unreadable
deriving Repr

structure RecIn where
  platform : Nat
  encoding : Nat
  sub : SubIn
deriving Repr

def SubIn.format? : SubIn → Option Nat
  | .f4 _ _ => some 4
  | .f12 _ _ => some 12
  | .f14 _ => some 14
  | .other f _ => some f
  | .unreadable => none

/-- `CmapSubtable::language` -/
def SubIn.language : SubIn → Nat
  | .f4 l _ => l
  | .f12 l _ => l
  | .f14 _ => 0
  | .other _ l => l
  | .unreadable => 0

/-- `retain_encoding_record_for_subset` -/
def retainRecord (r : RecIn) : Bool :=
  (r.platform == 0 && r.encoding == 3) || (r.platform == 0 && r.encoding == 4) ||
  (r.platform == 3 && r.encoding == 1) || (r.platform == 3 && r.encoding == 10) ||
  r.sub.format? == some 14

/-- `SubtableUnicodeCache::set_for` -/
def unicodesOf (s : SubIn) (numGlyphs : Nat) : Array Nat :=
  match s with
  | .f4 _ t => mkSet (collect4 t)
  | .f12 _ gs => mkSet (collect12 gs numGlyphs)
  | _ => #[]

/-- `can_drop_format12` -/
def canDropFormat12 (rec : RecIn) (sub12 : List Nat) (retained : List RecIn) (p : PlanIn) : Bool :=
  if sub12.any (· ≥ 0x10000) then false
  else
    let target : Option (Nat × Nat) :=
      if rec.platform = 0 ∧ rec.encoding = 4 then some (0, 3)
      else if rec.platform = 3 ∧ rec.encoding = 10 then some (3, 1)
      else none
    match target with
    | none => false
    | some (tp, te) =>
      let lang := rec.sub.language
      match retained.find? (fun r => r.sub.format?.isSome && r.platform == tp && r.encoding == te
                                      && r.sub.language == lang) with
      | none => false
      | some sib =>
        let sibU := unicodesOf sib.sub p.numGlyphs
        sub12 == p.unicodes.filter (fun u => memSet sibU u)

/-- serializer state of `serialize_cmap`: the encoding records written so far
(platform, encoding, object index) and the packed objects -/
structure CmapSer where
  records : List (Nat × Nat × Nat)
  packed : List Obj
  has12 : Bool
deriving Repr

/-- the loop of `serialize_cmap` -/
def serializeCmapGo (p : PlanIn) (all : List RecIn) (dropF4 : Bool) : List RecIn → CmapSer → Out CmapSer
  | [], st => .ok st
  | r :: rest, st =>
    match r.sub with
    | .unreadable => serializeCmapGo p all dropF4 rest st
    | .other _ _ => serializeCmapGo p all dropF4 rest st
    | .f4 lang t =>
      if dropF4 then serializeCmapGo p all dropF4 rest st
      else
        let us := mkSet (collect4 t)
        let list := p.u2g.filter (fun x => memSet us x.1)
        match serialize4 lang list with
        | .trap => .trap
        | .err e => .err e
        | .ok [] => serializeCmapGo p all dropF4 rest st
        | .ok bytes =>
          let (pk, i) := packShared st.packed { bytes := bytes, links := [] }
          serializeCmapGo p all dropF4 rest { st with records := st.records ++ [(r.platform, r.encoding, i)], packed := pk }
    | .f12 lang gs =>
      let us := mkSet (collect12 gs p.numGlyphs)
      let sub12 := p.unicodes.filter (fun u => memSet us u)
      -- (after fix: format 12 is never dropped as redundant once the format 4 subtables are being dropped)
      if !dropF4 && canDropFormat12 r sub12 all p then serializeCmapGo p all dropF4 rest st
      else
        let sub12Set := mkSet sub12
        let list := p.u2g.filter (fun x => memSet sub12Set x.1)
        match serialize12 lang list with
        | .trap => .trap
        | .err e => .err e
        | .ok bytes =>
          let (pk, i) := packShared st.packed { bytes := bytes, links := [] }
          serializeCmapGo p all dropF4 rest
            { records := st.records ++ [(r.platform, r.encoding, i)], packed := pk, has12 := true }
    | .f14 recs =>
      match serialize14 p recs st.packed with
      | .trap => .trap
      | .err e => .err e
      | .ok (_, none) => serializeCmapGo p all dropF4 rest st
      | .ok (pk, some o) =>
        let (pk, i) := packShared pk o
        serializeCmapGo p all dropF4 rest { st with records := st.records ++ [(r.platform, r.encoding, i)], packed := pk }

/-- final layout: the main object first, then the packed objects, last packed first; link offsets are
`child.head - parent.head` -/
def layoutCmap (st : CmapSer) : List Nat :=
  let mainLen := 4 + 8 * st.records.length
  let total := mainLen + (st.packed.map objSize).sum
  -- head of packed object k
  let headOf (k : Nat) : Nat := total - ((st.packed.take (k + 1)).map objSize).sum
  let main := be16 0 ++ be16 st.records.length ++
    st.records.flatMap (fun r => be16 r.1 ++ be16 r.2.1 ++ be32 (headOf r.2.2))
  let patch (k : Nat) (o : Obj) : List Nat :=
    o.links.foldl (fun b l =>
      let off := be32 (headOf l.2 - headOf k)
      b.take l.1 ++ off ++ b.drop (l.1 + 4)) o.bytes
  main ++ ((st.packed.zipIdx).reverse.flatMap (fun (o, k) => patch k o))

def emptySer : CmapSer := { records := [], packed := [], has12 := false }

/-- `serialize_cmap` incl. the retry without format 4 when a format 4 subtable overflows 64 KiB
(reachable after fix 7720565 and its follow-up).  Result: serializer state and whether the format 4
subtables were dropped. -/
def serializeCmapSt (p : PlanIn) (retained : List RecIn) : Out (CmapSer × Bool) :=
  let finish (st : CmapSer) (dropF4 : Bool) : Out (CmapSer × Bool) :=
    if st.records.length > 65535 then .err "int-overflow"
    else if dropF4 && !st.has12 then .err "other"
    else .ok (st, dropF4)
  match serializeCmapGo p retained false retained emptySer with
  | .trap => .trap
  | .ok st => finish st false
  | .err "int-overflow" =>
    match serializeCmapGo p retained true retained emptySer with
    | .trap => .trap
    | .err e => .err e
    | .ok st => finish st true
  | .err e => .err e

/-- `Cmap::subset`: `.err` = `Err(SubsetTableError(cmap))`, which `subset_font` turns into a subset
without cmap table (no serializer error) or into a failure (serializer error) -/
def subsetCmapSt (recs : List RecIn) (p : PlanIn) : Out (CmapSer × Bool) :=
  let retained := recs.filter retainRecord
  let hasFormat12 := retained.any (fun r => r.sub.format? == some 12)
  let hasUnicodeBmp := retained.any (fun r => r.platform == 0 && r.encoding == 3)
  let hasUnicodeUcs4 := retained.any (fun r => r.platform == 0 && r.encoding == 4)
  let hasMsBmp := retained.any (fun r => r.platform == 3 && r.encoding == 1)
  let hasMsUcs4 := retained.any (fun r => r.platform == 3 && r.encoding == 10)
  if !hasFormat12 && !hasUnicodeBmp && !hasMsBmp then .err "no-unicode-record"
  else if hasFormat12 && !hasUnicodeUcs4 && !hasMsUcs4 then .err "format12-without-ucs4-record"
  else serializeCmapSt p retained

/-- the bytes of the subset cmap table -/
def subsetCmap (recs : List RecIn) (p : PlanIn) : Out (List Nat) :=
  match subsetCmapSt recs p with
  | .ok (st, _) => .ok (layoutCmap st)
  | .err e => .err e
  | .trap => .trap

end FontVerif.SubsetCmap
