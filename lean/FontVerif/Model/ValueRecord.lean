/-
C04 — the hand-written GPOS `ValueRecord` conversions.

Transcribes
* write-fonts/src/tables/gpos/value_record.rs: `ValueRecord::format` (explicit format, else one flag per field that
  `is_some()`), `impl FontWrite for ValueRecord` (`write_field!`: a scalar is written iff `format.contains(flag)`, value
  `field.unwrap_or_default()`; a device offset is written iff `format.contains(flag)`), `encoded_size`,
  `impl FromObjRef<read_fonts::…::ValueRecord> for ValueRecord` (explicit format := the format read with; scalars copied;
  device slot i := resolve(offset slot i), null → `None`);
* read-fonts/src/tables/value_record.rs: `ValueRecord::read(data, format)` (one `cursor.read_be()?` per contained flag, in
  the order x_placement, y_placement, x_advance, y_advance, then the four device offsets; absent offsets keep the
  `Default` = null), `ValueFormat::record_byte_len`.

Values are raw (unsigned 16-bit patterns) as everywhere in the C04 model; a non-null device slot is represented by the
offset the packer assigned to its table (non-zero; that the offset holds the table is C05's theorem).
`ValueFormat` is a bit-flag type whose `from_bits_truncate` keeps only the eight defined bits, so formats are `< 256`.
-/
import FontVerif.Model.Field

namespace FontVerif.ValueRecord
open FontVerif.Field (Bytes be beVal)

/-- `format.contains(flag i)` for the flag `1 << i` -/
def hasBit (fmt i : Nat) : Bool := (fmt / 2 ^ i) % 2 == 1

/-- write-fonts `ValueRecord` -/
structure Owned where
  explicitFormat : Option Nat
  xPlacement : Option Nat
  yPlacement : Option Nat
  xAdvance : Option Nat
  yAdvance : Option Nat
  xPlaDev : Option Nat
  yPlaDev : Option Nat
  xAdvDev : Option Nat
  yAdvDev : Option Nat
  deriving DecidableEq, Repr

def flagIf (present : Bool) (bit : Nat) : Nat := if present then bit else 0

/-- `ValueRecord::format`: the flags are disjoint, so `|` is `+` -/
def format (o : Owned) : Nat :=
  match o.explicitFormat with
  | some f => f
  | none =>
    flagIf o.xPlacement.isSome 1 + flagIf o.yPlacement.isSome 2 + flagIf o.xAdvance.isSome 4
      + flagIf o.yAdvance.isSome 8 + flagIf o.xPlaDev.isSome 16 + flagIf o.yPlaDev.isSome 32
      + flagIf o.xAdvDev.isSome 64 + flagIf o.yAdvDev.isSome 128

/-- a `NullableOffsetMarker` writes 0 for `None`, the packer's offset otherwise -/
def devOff : Option Nat → Nat
  | none => 0
  | some off => off

/-- conditional 2-byte fields in order -/
def writeSlots : List (Bool × Nat) → Bytes
  | [] => []
  | (p, v) :: r => (if p then be 2 v else []) ++ writeSlots r

/-- the eight (present?, value) slots of `write_into`, in source order -/
def slots (o : Owned) : List (Bool × Nat) :=
  let f := format o
  [(hasBit f 0, o.xPlacement.getD 0), (hasBit f 1, o.yPlacement.getD 0), (hasBit f 2, o.xAdvance.getD 0),
   (hasBit f 3, o.yAdvance.getD 0), (hasBit f 4, devOff o.xPlaDev), (hasBit f 5, devOff o.yPlaDev),
   (hasBit f 6, devOff o.xAdvDev), (hasBit f 7, devOff o.yAdvDev)]

/-- `impl FontWrite for ValueRecord` -/
def write (o : Owned) : Bytes := writeSlots (slots o)

/-- `encoded_size` / `record_byte_len`: `count_ones * 2` (formats are `< 256`) -/
def encodedSize (fmt : Nat) : Nat :=
  2 * ((List.range 8).filter (hasBit fmt)).length

/-- sequential conditional reads (`cursor.read_be()?`), `none` = `Err(OutOfBounds)` -/
def readSlots : List Bool → Bytes → Option (List (Option Nat) × Bytes)
  | [], bs => some ([], bs)
  | true :: ps, bs =>
    if bs.length < 2 then none
    else match readSlots ps (bs.drop 2) with
      | some (r, rest) => some (some (beVal (bs.take 2)) :: r, rest)
      | none => none
  | false :: ps, bs =>
    match readSlots ps bs with
    | some (r, rest) => some (none :: r, rest)
    | none => none

/-- read-fonts `ValueRecord` (offsets raw, 0 = null / not in the format) -/
structure Parsed where
  format : Nat
  xPlacement : Option Nat
  yPlacement : Option Nat
  xAdvance : Option Nat
  yAdvance : Option Nat
  xPlaDevOff : Nat
  yPlaDevOff : Nat
  xAdvDevOff : Nat
  yAdvDevOff : Nat
  deriving DecidableEq, Repr

def fmtBits (fmt : Nat) : List Bool := (List.range 8).map (hasBit fmt)

/-- `ValueRecord::read(data, format)` plus the unread remainder -/
def read (fmt : Nat) (bs : Bytes) : Option (Parsed × Bytes) :=
  match readSlots (fmtBits fmt) bs with
  | some ([a, b, c, d, e, f, g, h], rest) =>
    some ({ format := fmt, xPlacement := a, yPlacement := b, xAdvance := c, yAdvance := d,
            xPlaDevOff := e.getD 0, yPlaDevOff := f.getD 0, xAdvDevOff := g.getD 0, yAdvDevOff := h.getD 0 }, rest)
  | _ => none

/-- `Nullable<Offset16>::resolve` + `to_owned_obj`: null → `None` -/
def resolve (off : Nat) : Option Nat := if off = 0 then none else some off

/-- `impl FromObjRef<read_fonts::tables::gpos::ValueRecord> for ValueRecord` -/
def toOwned (p : Parsed) : Owned :=
  { explicitFormat := some p.format, xPlacement := p.xPlacement, yPlacement := p.yPlacement,
    xAdvance := p.xAdvance, yAdvance := p.yAdvance,
    xPlaDev := resolve p.xPlaDevOff, yPlaDev := resolve p.yPlaDevOff,
    xAdvDev := resolve p.xAdvDevOff, yAdvDev := resolve p.yAdvDevOff }

/-- what a record reads back as: the format made explicit, in-format scalars defaulted to 0, out-of-format fields gone -/
def normalize (o : Owned) : Owned :=
  let f := format o
  let sc (i : Nat) (x : Option Nat) : Option Nat := if hasBit f i then some (x.getD 0) else none
  let dv (i : Nat) (x : Option Nat) : Option Nat := if hasBit f i then x else none
  { explicitFormat := some f, xPlacement := sc 0 o.xPlacement, yPlacement := sc 1 o.yPlacement,
    xAdvance := sc 2 o.xAdvance, yAdvance := sc 3 o.yAdvance,
    xPlaDev := dv 4 o.xPlaDev, yPlaDev := dv 5 o.yPlaDev, xAdvDev := dv 6 o.xAdvDev, yAdvDev := dv 7 o.yAdvDev }

def optLt (x : Option Nat) (n : Nat) : Prop := ∀ v, x = some v → v < n
def devOk (x : Option Nat) : Prop := ∀ v, x = some v → 0 < v ∧ v < 65536

/-- every scalar fits 16 bits, every non-null device slot holds a non-zero 16-bit offset -/
def WellSized (o : Owned) : Prop :=
  optLt o.xPlacement 65536 ∧ optLt o.yPlacement 65536 ∧ optLt o.xAdvance 65536 ∧ optLt o.yAdvance 65536
    ∧ devOk o.xPlaDev ∧ devOk o.yPlaDev ∧ devOk o.xAdvDev ∧ devOk o.yAdvDev

/-! ## arrays of value records and the SinglePos subtables (generated code around the hand-written record)

write-fonts/generated/generated_gpos.rs `impl FontWrite for SinglePosFormat1/2` (`(1 as u16)`, `coverage`,
`self.compute_value_format()`, `value_record` / `u16::try_from(array_len(&self.value_records)).unwrap()`, `value_records`),
write-fonts/src/tables/gpos.rs `compute_value_format` (format 2: the FIRST record's format, empty if none);
read-fonts/generated/generated_gpos.rs `SinglePosFormat1/2::read` (`value_records_byte_len = value_count *
ValueRecord::compute_size(&value_format)`), read-fonts/src/array.rs `ComputedArray::new` (`len = data.len()
.checked_div(item_len).unwrap_or(0)`) and its element getter. -/

def writeMany (rs : List Owned) : Bytes := rs.flatMap write

/-- `n` consecutive records of one format -/
def readMany (fmt : Nat) : Nat → Bytes → Option (List Parsed × Bytes)
  | 0, bs => some ([], bs)
  | n + 1, bs =>
    match read fmt bs with
    | some (p, rest) =>
      match readMany fmt n rest with
      | some (ps, r) => some (p :: ps, r)
      | none => none
    | none => none

/-- `ComputedArray<ValueRecord>` over the `count * item_len` bytes that follow -/
def readComputed (fmt count : Nat) (bs : Bytes) : Option (List Parsed × Bytes) :=
  let item := encodedSize fmt
  let total := count * item
  if bs.length < total then none
  else
    let n := if item = 0 then 0 else total / item
    match readMany fmt n (bs.take total) with
    | some (ps, _) => some (ps, bs.drop total)
    | none => none

def readU16 (bs : Bytes) : Option (Nat × Bytes) :=
  if bs.length < 2 then none else some (beVal (bs.take 2), bs.drop 2)

structure SinglePos1 where
  coverageOffset : Nat
  record : Owned

def writeSP1 (t : SinglePos1) : Bytes :=
  be 2 1 ++ be 2 t.coverageOffset ++ be 2 (format t.record) ++ write t.record

/-- (pos_format, coverage_offset, value_record, rest) -/
def readSP1 (bs : Bytes) : Option (Nat × Nat × Parsed × Bytes) :=
  match readU16 bs with
  | some (pf, b1) =>
    match readU16 b1 with
    | some (cov, b2) =>
      match readU16 b2 with
      | some (vf, b3) =>
        match read vf b3 with
        | some (p, rest) => some (pf, cov, p, rest)
        | none => none
      | none => none
    | none => none
  | none => none

structure SinglePos2 where
  coverageOffset : Nat
  records : List Owned

/-- `SinglePosFormat2::compute_value_format` -/
def valueFormat2 (t : SinglePos2) : Nat :=
  match t.records with
  | [] => 0
  | r :: _ => format r

/-- generated `impl Validate for SinglePosFormat2` (`array exceeds max length`) + hand-written
`SinglePosFormat2::check_format_consistency` (every record has the format stored in the subtable) -/
def validateSP2 (t : SinglePos2) : Bool :=
  decide (t.records.length ≤ 65535) && t.records.all (fun r => format r == valueFormat2 t)

/-- `none` = the `u16::try_from(..).unwrap()` panic -/
def writeSP2 (t : SinglePos2) : Option Bytes :=
  if t.records.length < 65536 then
    some (be 2 2 ++ be 2 t.coverageOffset ++ be 2 (valueFormat2 t) ++ be 2 t.records.length ++ writeMany t.records)
  else none

/-- (pos_format, coverage_offset, value_format, value_count, value_records, rest) -/
def readSP2 (bs : Bytes) : Option (Nat × Nat × Nat × Nat × List Parsed × Bytes) :=
  match readU16 bs with
  | some (pf, b1) =>
    match readU16 b1 with
    | some (cov, b2) =>
      match readU16 b2 with
      | some (vf, b3) =>
        match readU16 b3 with
        | some (cnt, b4) =>
          match readComputed vf cnt b4 with
          | some (ps, rest) => some (pf, cov, vf, cnt, ps, rest)
          | none => none
        | none => none
      | none => none
    | none => none
  | none => none

end FontVerif.ValueRecord
