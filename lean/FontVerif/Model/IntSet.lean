/-
Model of `read-fonts/src/collections/int_set/{mod.rs, bitset.rs, bitpage.rs}`.

* `Page`    ⇄ `BitPage`: the 8×u64 storage as one natural `bits < 2^512` plus the cached `length`.
* `BitSet`  ⇄ `BitSet`: `page_map`+`pages` collapsed into the in-order list `(major, page)`
               (sorted by major, **empty pages are kept**, exactly as the Rust keeps them) plus the
               cached `length`.  The `pages`-vector indirection (indices, in-place compaction in
               `process`) is not represented; only its functional content is.
* `IntSet`  ⇄ `IntSet<T>` = `Membership::{Inclusive,Exclusive}(BitSet)` as `inverted` + `set`.
* `Domain`  ⇄ `trait Domain` instances: ordered values as a list of inclusive `u32` ranges,
               `is_continuous()`, `count()`.

Mutators are transcribed operation by operation (including the cached lengths and the
passthrough rule of `BitSet::process`).  Observers that the Rust implements as iterator state
machines (`Iter`, `RangeIter`, `BitSetRangeIter`, page `RangeIter`) are modelled by the sequence
they produce.
-/
import FontVerif.Model.RangeSet
namespace FontVerif.IntSet

/-! ## BitPage -/

def PAGE_BITS : Nat := 512

structure Page where
  bits : Nat
  len : Nat
deriving Repr, DecidableEq, Inhabited

/-- `BitPage::new_zeroes` -/
def Page.zero : Page := ⟨0, 0⟩

/-- members of a 64-bit element, offset by `base` -/
def elemMembers (base : Nat) (elem : Nat) : List Nat :=
  if elem = 0 then [] else ((List.range 64).filter (fun i => elem.testBit i)).map (· + base)

/-- `BitPage::iter`: members of the page (0..511), ascending; zero elements are skipped as in
the Rust (`filter(|(_, elem)| **elem != 0)`). -/
def pageMembers (bits : Nat) : List Nat :=
  (List.range 8).flatMap (fun e => elemMembers (e * 64) (bits / 2 ^ (e * 64) % 2 ^ 64))

/-- `u64::count_ones` summed over the storage (`recompute_length`) -/
def popCount (bits : Nat) : Nat := (pageMembers bits).length

/-- `BitPage::insert(val)` → (page, is_new) -/
def pageInsert (p : Page) (v : Nat) : Page × Bool :=
  let i := v % 512
  let isNew := !p.bits.testBit i
  (⟨p.bits ||| 2 ^ i, p.len + (if isNew then 1 else 0)⟩, isNew)

/-- `BitPage::remove(val)` → (page, was_present) -/
def pageRemove (p : Page) (v : Nat) : Page × Bool :=
  let i := v % 512
  let ret := p.bits.testBit i
  (⟨p.bits ^^^ (p.bits &&& 2 ^ i), p.len - (if ret then 1 else 0)⟩, ret)

/-- bits `first..=last` set (`first ≤ last`) -/
def rangeMask (first last : Nat) : Nat := (2 ^ (last + 1 - first) - 1) <<< first

/-- `BitPage::insert_range(first, last)` (both masked to the page; callers guarantee
`first ≤ last` after masking; the per-element mask loop is modelled by one 512-bit mask) -/
def pageInsertRange (p : Page) (first last : Nat) : Page :=
  let f := first % 512
  let l := last % 512
  let b := if f ≤ l then p.bits ||| rangeMask f l else p.bits
  ⟨b, popCount b⟩

/-- `BitPage::remove_range(first, last)` -/
def pageRemoveRange (p : Page) (first last : Nat) : Page :=
  let f := first % 512
  let l := last % 512
  let b := if f ≤ l then p.bits ^^^ (p.bits &&& rangeMask f l) else p.bits
  ⟨b, popCount b⟩

/-- `BitPage::contains(val)` -/
def pageContains (p : Page) (v : Nat) : Bool := p.bits.testBit (v % 512)

/-- result page of `BitPage::process` (`recompute_length`) -/
def Page.ofBits (bits : Nat) : Page := ⟨bits, popCount bits⟩

def opUnion (a b : Nat) : Nat := a ||| b
def opIntersect (a b : Nat) : Nat := a &&& b
/-- `a & !b` -/
def opSubtract (a b : Nat) : Nat := a ^^^ (a &&& b)
/-- `|a, b| BitPage::subtract(b, a)` -/
def opRevSubtract (a b : Nat) : Nat := b ^^^ (b &&& a)

/-! ## BitSet -/

abbrev Pages := List (Nat × Page)

structure BitSet where
  pages : Pages
  len : Nat
deriving Repr, DecidableEq, Inhabited

def BitSet.empty : BitSet := ⟨[], 0⟩

/-- `get_major_value` -/
def majorOf (v : Nat) : Nat := v / 512
/-- `major_start` -/
def majorStart (m : Nat) : Nat := m * 512

/-- `page_for` / `page_index_for_major` -/
def lookup : Pages → Nat → Option Page
  | [], _ => none
  | (k, p) :: rest, m => if k = m then some p else lookup rest m

/-- `ensure_page_index_for_major`: insert a zero page at the sorted position if missing -/
def ensurePage : Pages → Nat → Pages
  | [], m => [(m, Page.zero)]
  | (k, p) :: rest, m =>
    if m < k then (m, Page.zero) :: (k, p) :: rest
    else if m = k then (k, p) :: rest
    else (k, p) :: ensurePage rest m

/-- overwrite the page stored for `m` (if present) -/
def setPage : Pages → Nat → Page → Pages
  | [], _, _ => []
  | (k, p) :: rest, m, q => if k = m then (k, q) :: rest else (k, p) :: setPage rest m q

/-- `BitSet::insert(val)` -/
def BitSet.insert (s : BitSet) (v : Nat) : BitSet × Bool :=
  let m := majorOf v
  let pages := ensurePage s.pages m
  match lookup pages m with
  | none => (s, false) -- unreachable: the page was just ensured
  | some p =>
    let r := pageInsert p v
    (⟨setPage pages m r.1, s.len + (if r.2 then 1 else 0)⟩, r.2)

/-- one iteration of the `for major in major_start..=major_end` loop of `BitSet::insert_range`;
state is `(pages, total_added)` -/
def insertRangeStep (start end_ : Nat) (st : Pages × Nat) (major : Nat) : Pages × Nat :=
  let pageStart := max start (majorStart major)
  let pageEnd := min end_ (majorStart major + 511)
  let pages := ensurePage st.1 major
  match lookup pages major with
  | none => st
  | some p =>
    let p' := pageInsertRange p pageStart pageEnd
    (setPage pages major p', st.2 + (p'.len - p.len))

/-- `BitSet::insert_range(start..=end)` -/
def BitSet.insertRange (s : BitSet) (start end_ : Nat) : BitSet :=
  if start > end_ then s
  else
    let ms := majorOf start
    let me := majorOf end_
    let r := (List.range (me + 1 - ms)).foldl
      (fun st i => insertRangeStep start end_ st (ms + i)) (s.pages, 0)
    ⟨r.1, s.len + r.2⟩

/-- `BitSet::extend` (via `BitSetBuilder`) and `extend_unsorted`: insert each value; the
builder's page-index cache does not change the result -/
def BitSet.extend (s : BitSet) (vs : List Nat) : BitSet :=
  vs.foldl (fun acc v => (acc.insert v).1) s

/-- `BitSet::remove(val)` -/
def BitSet.remove (s : BitSet) (v : Nat) : BitSet × Bool :=
  let m := majorOf v
  match lookup s.pages m with
  | none => (s, false)
  | some p =>
    let r := pageRemove p v
    (⟨setPage s.pages m r.1, s.len - (if r.2 then 1 else 0)⟩, r.2)

/-- `BitSet::remove_all(iter)` -/
def BitSet.removeAll (s : BitSet) (vs : List Nat) : BitSet :=
  vs.foldl (fun acc v => (acc.remove v).1) s

/-- the `loop` of `BitSet::remove_range`, started at the binary-search position (pages with a
smaller major are left alone) -/
def removeRangeLoop (start end_ sm em : Nat) : Pages → Pages
  | [] => []
  | (k, p) :: rest =>
    if k < sm then (k, p) :: removeRangeLoop start end_ sm em rest
    else if k > em then (k, p) :: rest
    else if k = sm then
      (k, pageRemoveRange p start (min (majorStart sm + 511) end_)) ::
        removeRangeLoop start end_ sm em rest
    else if k = em then (k, pageRemoveRange p (majorStart em) end_) :: rest
    else (k, Page.zero) :: removeRangeLoop start end_ sm em rest

/-- `BitSet::recompute_length` -/
def sumLens (pages : Pages) : Nat := pages.foldl (fun acc kp => acc + kp.2.len) 0

/-- `BitSet::remove_range(start..=end)` -/
def BitSet.removeRange (s : BitSet) (start end_ : Nat) : BitSet :=
  if start > end_ then s
  else
    let pages := removeRangeLoop start end_ (majorOf start) (majorOf end_) s.pages
    ⟨pages, sumLens pages⟩

/-- `BitSet::contains(val)` -/
def BitSet.contains (s : BitSet) (v : Nat) : Bool :=
  match lookup s.pages (majorOf v) with
  | some p => pageContains p v
  | none => false

/-- `BitSet::passthrough_behavior(op)`: evaluate the operator on the pages `{0}` and `{}` -/
def passthrough (op : Nat → Nat → Nat) : Bool × Bool := ((op 1 0).testBit 0, (op 0 1).testBit 0)

/-- functional content of `BitSet::process`: a merge by major; a page present on both sides is
always kept (`op` applied, length recomputed), a page present on one side only is kept
(unchanged, resp. cloned) iff that side is passed through. -/
def processPages (op : Nat → Nat → Nat) (ptl ptr : Bool) : Pages → Pages → Pages
  | [], bs => if ptr then bs else []
  | a :: as, [] => if ptl then a :: as else []
  | (ka, pa) :: as, (kb, pb) :: bs =>
    if ka = kb then (ka, Page.ofBits (op pa.bits pb.bits)) :: processPages op ptl ptr as bs
    else if ka < kb then
      let rest := processPages op ptl ptr as ((kb, pb) :: bs)
      if ptl then (ka, pa) :: rest else rest
    else
      let rest := processPages op ptl ptr ((ka, pa) :: as) bs
      if ptr then (kb, pb) :: rest else rest
termination_by as bs => as.length + bs.length
decreasing_by all_goals simp_wf <;> omega

/-- `BitSet::process(op, other)` -/
def BitSet.process (op : Nat → Nat → Nat) (s other : BitSet) : BitSet :=
  let pt := passthrough op
  let pages := processPages op pt.1 pt.2 s.pages other.pages
  ⟨pages, sumLens pages⟩

def BitSet.union := BitSet.process opUnion
def BitSet.intersect := BitSet.process opIntersect
def BitSet.subtract := BitSet.process opSubtract
def BitSet.reversedSubtract := BitSet.process opRevSubtract

/-- `BitSet::iter`: members of the non-empty pages (`is_empty` reads the cached page length) -/
def BitSet.members (s : BitSet) : List Nat :=
  s.pages.flatMap (fun kp =>
    if kp.2.len = 0 then [] else (pageMembers kp.2.bits).map (· + majorStart kp.1))

/-- members of every page regardless of cached lengths (what the range iterators walk) -/
def BitSet.membersAll (s : BitSet) : List Nat :=
  s.pages.flatMap (fun kp => (pageMembers kp.2.bits).map (· + majorStart kp.1))

/-- maximal runs of consecutive values of an ascending list -/
def runsOfList : List Nat → List (Nat × Nat)
  | [] => []
  | x :: xs =>
    match runsOfList xs with
    | (s, e) :: rest => if x + 1 = s then (x, e) :: rest else (x, x) :: (s, e) :: rest
    | [] => [(x, x)]

/-- `BitSet::iter_ranges` (`BitSetRangeIter` over page `RangeIter`s, merging across page ends) -/
def BitSet.ranges (s : BitSet) : List (Nat × Nat) := runsOfList s.membersAll

/-- `impl PartialEq for BitSet`: equal sequences of non-empty `(major, storage)` -/
def BitSet.nonEmptyPages (s : BitSet) : List (Nat × Nat) :=
  (s.pages.filter (fun kp => kp.2.len ≠ 0)).map (fun kp => (kp.1, kp.2.bits))

def BitSet.beq (a b : BitSet) : Bool := a.nonEmptyPages == b.nonEmptyPages

/-- lexicographic comparison of two ascending lists, then by the given lengths
(`impl Ord for BitSet`: `iter().zip(..)` then `self.len().cmp(&other.len())`) -/
def lexCmp : List Nat → List Nat → Nat → Nat → Ordering
  | x :: xs, y :: ys, la, lb => if x < y then .lt else if x > y then .gt else lexCmp xs ys la lb
  | _, _, la, lb => compare la lb

def BitSet.cmp (a b : BitSet) : Ordering := lexCmp a.members b.members a.len b.len

/-! ## Domain -/

structure Domain where
  /-- `ordered_values()` as ascending disjoint inclusive ranges -/
  ranges : List (Nat × Nat)
  /-- `is_continuous()` -/
  continuous : Bool
  /-- `count()` -/
  count : Nat
deriving Repr

def Domain.u32 : Domain := ⟨[(0, 4294967295)], true, 4294967296⟩
def Domain.u16 : Domain := ⟨[(0, 65535)], true, 65536⟩
def Domain.u8 : Domain := ⟨[(0, 255)], true, 256⟩

def Domain.min? (d : Domain) : Option Nat := d.ranges.head?.map (·.1)
def Domain.max? (d : Domain) : Option Nat := d.ranges.getLast?.map (·.2)
def Domain.contains (d : Domain) (v : Nat) : Bool := d.ranges.any (fun r => r.1 ≤ v && v ≤ r.2)

/-- expand ascending ranges into their values -/
def expand (rs : List (Nat × Nat)) : List Nat :=
  rs.flatMap (fun r => (List.range (r.2 + 1 - r.1)).map (· + r.1))

/-- the first `k` values of ascending ranges (without expanding everything) -/
def expandTake : Nat → List (Nat × Nat) → List Nat
  | 0, _ => []
  | _, [] => []
  | k + 1, (s, e) :: rest =>
    if s > e then expandTake (k + 1) rest
    else
      let n := min (k + 1) (e + 1 - s)
      (List.range n).map (· + s) ++ expandTake (k + 1 - n) rest
termination_by k rs => (k, rs.length)

/-- the last `k` values of ascending ranges, descending -/
def expandTakeBack (k : Nat) (rs : List (Nat × Nat)) : List Nat :=
  let rec go : Nat → List (Nat × Nat) → List Nat
    | 0, _ => []
    | _, [] => []
    | k + 1, (s, e) :: rest =>
      if s > e then go (k + 1) rest
      else
        let n := min (k + 1) (e + 1 - s)
        (List.range n).map (fun i => e - i) ++ go (k + 1 - n) rest
  termination_by k rs => (k, rs.length)
  go k rs.reverse

/-- clip ascending ranges to `[lo, hi]` -/
def clipRanges (rs : List (Nat × Nat)) (lo hi : Nat) : List (Nat × Nat) :=
  rs.filterMap (fun r =>
    let s := max r.1 lo
    let e := min r.2 hi
    if s ≤ e then some (s, e) else none)

/-- `ordered_values_range(a..=b)` as ranges: the domain values `v` with `a ≤ v ≤ b` -/
def Domain.rangeValues (d : Domain) (a b : Nat) : List (Nat × Nat) := clipRanges d.ranges a b

/-- ascending ranges minus ascending ranges (set difference) -/
def subtractRanges : List (Nat × Nat) → List (Nat × Nat) → List (Nat × Nat)
  | [], _ => []
  | as, [] => as
  | (s, e) :: as, (x, y) :: bs =>
    if s > e then subtractRanges as ((x, y) :: bs)
    else if y < s then subtractRanges ((s, e) :: as) bs
    else if e < x then (s, e) :: subtractRanges as ((x, y) :: bs)
    else
      -- overlap
      let left := if s < x then [(s, x - 1)] else []
      if y < e then left ++ subtractRanges ((y + 1, e) :: as) bs
      else left ++ subtractRanges as ((x, y) :: bs)
termination_by as bs => as.length + bs.length
decreasing_by all_goals simp_wf <;> omega

/-! ## IntSet -/

structure IntSet where
  /-- `Membership::Exclusive` -/
  inverted : Bool
  set : BitSet
deriving Repr, DecidableEq, Inhabited

def IntSet.empty : IntSet := ⟨false, BitSet.empty⟩
def IntSet.all : IntSet := ⟨true, BitSet.empty⟩

/-- `IntSet::insert(val)` -/
def IntSet.insert (s : IntSet) (v : Nat) : IntSet × Bool :=
  if s.inverted then let r := s.set.remove v; (⟨true, r.1⟩, r.2)
  else let r := s.set.insert v; (⟨false, r.1⟩, r.2)

/-- `IntSet::remove(val)` -/
def IntSet.remove (s : IntSet) (v : Nat) : IntSet × Bool :=
  if s.inverted then let r := s.set.insert v; (⟨true, r.1⟩, r.2)
  else let r := s.set.remove v; (⟨false, r.1⟩, r.2)

/-- `IntSet::insert_range(a..=b)` -/
def IntSet.insertRange (d : Domain) (s : IntSet) (a b : Nat) : IntSet :=
  if d.continuous then
    if s.inverted then ⟨true, s.set.removeRange a b⟩ else ⟨false, s.set.insertRange a b⟩
  else
    let vs := expand (d.rangeValues a b)
    if s.inverted then ⟨true, s.set.removeAll vs⟩ else ⟨false, s.set.extend vs⟩

/-- `IntSet::remove_range(a..=b)` -/
def IntSet.removeRange (d : Domain) (s : IntSet) (a b : Nat) : IntSet :=
  if d.continuous then
    if s.inverted then ⟨true, s.set.insertRange a b⟩ else ⟨false, s.set.removeRange a b⟩
  else
    let vs := expand (d.rangeValues a b)
    if s.inverted then ⟨true, s.set.extend vs⟩ else ⟨false, s.set.removeAll vs⟩

/-- `IntSet::extend(iter)` / `extend_unsorted(iter)` -/
def IntSet.extend (s : IntSet) (vs : List Nat) : IntSet :=
  if s.inverted then ⟨true, s.set.removeAll vs⟩ else ⟨false, s.set.extend vs⟩

/-- `IntSet::remove_all(iter)` -/
def IntSet.removeAll (s : IntSet) (vs : List Nat) : IntSet :=
  if s.inverted then ⟨true, s.set.extend vs⟩ else ⟨false, s.set.removeAll vs⟩

/-- `IntSet::invert` -/
def IntSet.invert (s : IntSet) : IntSet := ⟨!s.inverted, s.set⟩

/-- `IntSet::clear` -/
def IntSet.clear (_ : IntSet) : IntSet := IntSet.empty

/-- `IntSet::union(other)` — the mode table of mod.rs -/
def IntSet.union (a b : IntSet) : IntSet :=
  match a.inverted, b.inverted with
  | false, false => ⟨false, a.set.union b.set⟩
  | false, true => (IntSet.mk false (a.set.reversedSubtract b.set)).invert
  | true, false => ⟨true, a.set.subtract b.set⟩
  | true, true => ⟨true, a.set.intersect b.set⟩

/-- `IntSet::intersect(other)` -/
def IntSet.intersect (a b : IntSet) : IntSet :=
  match a.inverted, b.inverted with
  | false, false => ⟨false, a.set.intersect b.set⟩
  | false, true => ⟨false, a.set.subtract b.set⟩
  | true, false => (IntSet.mk true (a.set.reversedSubtract b.set)).invert
  | true, true => ⟨true, a.set.union b.set⟩

/-- `IntSet::subtract(other)` -/
def IntSet.subtract (a b : IntSet) : IntSet :=
  match a.inverted, b.inverted with
  | false, false => ⟨false, a.set.subtract b.set⟩
  | false, true => ⟨false, a.set.intersect b.set⟩
  | true, false => ⟨true, a.set.union b.set⟩
  | true, true => (IntSet.mk true (a.set.reversedSubtract b.set)).invert

/-- `IntSet::contains(val)` -/
def IntSet.contains (s : IntSet) (v : Nat) : Bool :=
  if s.inverted then !s.set.contains v else s.set.contains v

/-- `IntSet::len()` (`T::count() - s.len()` is a `u64` subtraction: `none` = overflow trap) -/
def IntSet.len (d : Domain) (s : IntSet) : Option Nat :=
  if s.inverted then (if s.set.len ≤ d.count then some (d.count - s.set.len) else none)
  else some s.set.len

/-- are `a` and `b` consecutive values of the domain (`RangeIter::are_values_adjacent`) -/
def Domain.adjacent (d : Domain) (a b : Nat) : Bool :=
  match expandTake 2 (d.rangeValues a b) with
  | [_, second] => second == b
  | _ => false

/-- `RangeIter::InclusiveDiscontinuous`: merge successive ranges whose ends are adjacent in the
domain -/
def mergeDomainAdjacent (d : Domain) : List (Nat × Nat) → List (Nat × Nat)
  | [] => []
  | r :: rest =>
    let rec go (cur : Nat × Nat) : List (Nat × Nat) → List (Nat × Nat)
      | [] => [cur]
      | n :: more => if d.adjacent cur.2 n.1 then go (cur.1, n.2) more else cur :: go n more
    go r rest

/-- `RangeIter::next_exclusive` run to exhaustion: the complement of ascending ranges within
`[min, max]` -/
def complementRanges (min max : Nat) : List (Nat × Nat) → List (Nat × Nat)
  | [] => [(min, max)]
  | (s, e) :: rest =>
    if s ≤ min ∧ min ≤ e then
      if e ≥ max then [] else complementRanges (e + 1) max rest
    else
      let result := (min, s - 1)
      if e < max then result :: complementRanges (e + 1) max rest else [result]

/-- `RangeIter::next_discontinuous` run to exhaustion: maximal runs (in domain order) of domain
values for which `inSet` is false, reported as `(first, last)` -/
def discontinuousRuns (inSet : Nat → Bool) : List Nat → List (Nat × Nat)
  | [] => []
  | v :: vs =>
    if inSet v then discontinuousRuns inSet vs
    else
      match discontinuousRuns inSet vs, vs with
      | (s, e) :: rest, w :: _ => if !inSet w then (v, e) :: rest else (v, v) :: (s, e) :: rest
      | rs, _ => (v, v) :: rs

/-- `iter_ranges_invertible(inverted)` -/
def IntSet.rangesInvertible (d : Domain) (s : IntSet) (inv : Bool) : List (Nat × Nat) :=
  if s.inverted = inv then
    if d.continuous then s.set.ranges else mergeDomainAdjacent d s.set.ranges
  else if d.continuous then
    match d.min?, d.max? with
    | some lo, some hi => complementRanges lo hi s.set.ranges
    | _, _ => []
  else discontinuousRuns s.set.contains (expand d.ranges)

/-- `IntSet::iter_ranges` -/
def IntSet.ranges (d : Domain) (s : IntSet) : List (Nat × Nat) := s.rangesInvertible d false
/-- `IntSet::iter_excluded_ranges` -/
def IntSet.excludedRanges (d : Domain) (s : IntSet) : List (Nat × Nat) := s.rangesInvertible d true

/-- the member ranges as plain `u32` ranges (for discontinuous domains the reported ranges span
domain gaps, so intersect with the domain) -/
def IntSet.memberRanges (d : Domain) (s : IntSet) : List (Nat × Nat) :=
  if s.inverted then subtractRanges d.ranges s.set.ranges else s.set.ranges

/-- first `k` items of `IntSet::iter()` -/
def IntSet.iterTake (d : Domain) (s : IntSet) (k : Nat) : List Nat :=
  if s.inverted then expandTake k (s.memberRanges d) else s.set.members.take k

/-- first `k` items of `IntSet::iter().rev()` -/
def IntSet.iterBackTake (d : Domain) (s : IntSet) (k : Nat) : List Nat :=
  if s.inverted then expandTakeBack k (s.memberRanges d) else (s.set.members.reverse).take k

/-- first `k` items of `IntSet::iter_after(value)` -/
def IntSet.iterAfterTake (d : Domain) (s : IntSet) (v : Nat) (k : Nat) : List Nat :=
  if s.inverted then
    match d.max? with
    | some hi => if v < hi then expandTake k (clipRanges (s.memberRanges d) (v + 1) hi) else []
    | none => []
  else (s.set.members.filter (fun x => x > v)).take k

/-- `IntSet::first` / `last` -/
def IntSet.first (d : Domain) (s : IntSet) : Option Nat := (s.iterTake d 1).head?
def IntSet.last (d : Domain) (s : IntSet) : Option Nat := (s.iterBackTake d 1).head?

/-- `IntSet::intersects_range(a..=b)`: the first member `≥ a` (the member after the domain
value preceding `a`) is `≤ b` -/
def IntSet.intersectsRange (d : Domain) (s : IntSet) (a b : Nat) : Bool :=
  match d.min? with
  | none => false
  | some lo =>
    -- the domain value before `a`, if any
    let before := (expandTakeBack 2 (d.rangeValues lo a))
    let next :=
      match before with
      | [_, prev] => (s.iterAfterTake d prev 1).head?
      | _ => (s.iterTake d 1).head?
    match next with
    | some n => n ≤ b
    | none => false

/-- `IntSet::intersects_set(other)`: iterate the ranges of the side with fewer (or equally many)
pages and probe the other -/
def IntSet.intersectsSet (d : Domain) (a b : IntSet) : Bool :=
  let (x, y) := if a.set.pages.length > b.set.pages.length then (a, b) else (b, a)
  (y.ranges d).any (fun r => x.intersectsRange d r.1 r.2)

/-- `impl PartialEq for IntSet` -/
def IntSet.beq (d : Domain) (a b : IntSet) : Bool :=
  if a.inverted = b.inverted then a.set.beq b.set
  else if a.len d = b.len d then a.ranges d == b.ranges d else false

/-- the range-walking comparison of `impl Ord for IntSet` (mixed / exclusive modes) -/
def cmpRanges : List (Nat × Nat) → List (Nat × Nat) → Ordering
  | [], [] => .eq
  | [], _ :: _ => .lt
  | _ :: _, [] => .gt
  | (as, ae) :: ra, (bs, be) :: rb =>
    if as < bs then .lt
    else if as > bs then .gt
    else if ae = be then cmpRanges ra rb
    else if ae < be then (if ra.isEmpty then .lt else .gt)
    else (if rb.isEmpty then .gt else .lt)

/-- `impl Ord for IntSet` -/
def IntSet.cmp (d : Domain) (a b : IntSet) : Ordering :=
  if !a.inverted && !b.inverted then a.set.cmp b.set else cmpRanges (a.ranges d) (b.ranges d)

/-- what `impl Hash for IntSet` feeds to the hasher: the member ranges -/
def IntSet.hashKey (d : Domain) (s : IntSet) : List (Nat × Nat) := s.ranges d

end FontVerif.IntSet
