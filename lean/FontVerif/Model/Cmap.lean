/-
C08 — character maps.  Executable model of

* write-fonts/src/tables/cmap.rs : `Cmap::from_mappings` (sort / dedup / conflict detection, which
  subtables are emitted), `Format4SegmentComputer::{new, make_segment, next_possible_segment, compute}`,
  `Format4Segment::{len, cost, can_combine, should_combine, combine}`,
  `CmapSubtable::create_format_4` (idDelta mod 65536 — after fix 51d6e70 `delta as u16 as i16` —,
  idRangeOffset arithmetic, the final 0xFFFF segment), `CmapSubtable::create_format_12`,
  `Cmap4::compute_length` (16-bit length)
* read-fonts/src/tables/cmap.rs : `Cmap4::{map_codepoint, lookup_glyph_id, code_range}`,
  `Cmap4Iter`, `Cmap12::{map_codepoint, lookup_glyph_id, group}` (after fix 692a13d: `max_char`
  inclusive), `Cmap12Iter` (with limits), `Cmap::map_codepoint`, `Cmap14::map_variant` (core
  `binary_search_by` = `Layout.binarySearchBy`), `Cmap14Iter`
* skrifa/src/charmap.rs : `MappingSelection::new`, `CodepointSubtable::{map, map_impl}`,
  `Mappings::next` (notdef filtering), `Charmap::{map, mappings}` on the table `from_mappings` builds

Code points, glyph ids and indices are `Nat`; signed deltas are `Int`.  A Rust panic (failed
`assert!`, `unwrap` of a failed conversion) is the outcome `trap`.
-/
import FontVerif.Model.Base
import FontVerif.Model.Layout
namespace FontVerif.Cmap
open FontVerif

/-- a list of (code point, glyph id) pairs -/
abbrev Mapping := List (Nat × Nat)

/-! ## write-fonts: `Cmap::from_mappings` normalisation -/

/-- `Ord` of `(char, GlyphId)`: lexicographic -/
def pairLe (a b : Nat × Nat) : Bool := a.1 < b.1 || (a.1 == b.1 && a.2 ≤ b.2)

/-- `mappings.sort()` -/
def sortMappings (m : Mapping) : Mapping := m.mergeSort pairLe

/-- `Vec::dedup`: drop consecutive repeated elements -/
def dedup : Mapping → Mapping
  | [] => []
  | [a] => [a]
  | a :: b :: rest => if a = b then dedup (b :: rest) else a :: dedup (b :: rest)

/-- the `zip(skip(1)).find_map(..)` of `from_mappings`: first adjacent pair with the same
character and different glyphs, reported as (ch, min gid, max gid) -/
def findConflict : Mapping → Option (Nat × Nat × Nat)
  | [] => none
  | [_] => none
  | a :: b :: rest =>
    if a.1 = b.1 ∧ a.2 ≠ b.2 then some (a.1, min a.2 b.2, max a.2 b.2)
    else findConflict (b :: rest)

/-- sorted + deduplicated input of the subtable builders -/
def normalize (raw : Mapping) : Mapping := dedup (sortMappings raw)

/-! ## write-fonts: format 4 segment computer -/

/-- `Format4Segment` -/
structure Seg where
  startIx : Nat
  endIx : Nat
  startChar : Nat
  endChar : Nat
  idDelta : Option Int
deriving Repr, DecidableEq, Inhabited

def cpAt (m : Array (Nat × Nat)) (k : Nat) : Nat := (m[k]?.getD (0, 0)).1
def gidAt (m : Array (Nat × Nat)) (k : Nat) : Nat := (m[k]?.getD (0, 0)).2

/-- `Format4SegmentComputer::new`: the slice before the first char above the BMP -/
def bmpPrefix (m : Mapping) : Mapping := m.takeWhile (fun p => p.1 ≤ 0xFFFF)

/-- `Format4Segment::len` -/
def Seg.len (s : Seg) : Nat := s.endIx - s.startIx + 1

/-- `Format4Segment::cost` -/
def Seg.cost (s : Seg) : Nat :=
  if s.idDelta.isSome then 8 else 8 + s.len * 2

/-- `Format4Segment::can_combine` -/
def Seg.canCombine (s next : Seg) : Bool := s.endChar + 1 == next.startChar

/-- `Format4Segment::combine` (the `assert_eq!(next.start_ix, self.end_ix + 1)` holds for every
call made by `compute`; not a modelled outcome) -/
def Seg.combine (s next : Seg) : Seg :=
  { startIx := s.startIx, startChar := s.startChar, endChar := next.endChar,
    endIx := next.endIx, idDelta := none }

/-- `Format4Segment::should_combine` (`self` = `cur`) -/
def shouldCombine (cur prev : Seg) (next : Option Seg) : Bool :=
  if !prev.canCombine cur then false
  else
    let combinedCost := (prev.combine cur).cost
    let separateCost := prev.cost + cur.cost
    if combinedCost < separateCost then true
    else
      match next with
      | some nx =>
        if cur.canCombine nx then
          decide (((prev.combine cur).combine nx).cost < separateCost + nx.cost)
        else false
      | none => false

/-- `make_segment(seg_len)`; the new `seg_start` is `endIx + 1`, `gids_in_order` is reset -/
def makeSegment (m : Array (Nat × Nat)) (segStart : Nat) (gidsInOrder : Bool) (segLen : Nat) : Seg :=
  let useDelta := gidsInOrder || segLen == 0
  let startIx := segStart
  let endIx := segStart + segLen
  { startIx := startIx, endIx := endIx, startChar := cpAt m startIx, endChar := cpAt m endIx,
    idDelta := if useDelta then some ((gidAt m segStart : Int) - (cpAt m segStart : Int)) else none }

/-- the `for (i, (cp, gid)) in rest.iter().enumerate()` loop of `next_possible_segment`;
`remaining` = number of elements of `rest` not yet visited. -/
def npsLoop (m : Array (Nat × Nat)) (segStart : Nat) :
    (remaining : Nat) → (i : Nat) → (prevCp prevGid : Nat) → (gio : Bool) → Seg
  | 0, _, _, _, gio => makeSegment m segStart gio (m.size - 1 - segStart)
  | r + 1, i, prevCp, prevGid, gio =>
    let cp := cpAt m (segStart + 1 + i)
    let gid := gidAt m (segStart + 1 + i)
    if cp ≠ prevCp + 1 then makeSegment m segStart gio i
    else if prevGid + 1 ≠ gid then
      if gio then makeSegment m segStart gio i
      else npsLoop m segStart r (i + 1) cp gid gio
    else if !gio then
      if i = 0 then npsLoop m segStart r (i + 1) cp gid true
      else makeSegment m segStart gio (i - 1)
    else npsLoop m segStart r (i + 1) cp gid gio

/-- `next_possible_segment` (`gids_in_order` is `false` on entry: every return path goes through
`make_segment`, which resets it) -/
def nextPossible (m : Array (Nat × Nat)) (segStart : Nat) : Option Seg :=
  if segStart ≥ m.size then none
  else some (npsLoop m segStart (m.size - segStart - 1) 0 (cpAt m segStart) (gidAt m segStart) false)

/-- the `while let Some(current) = next.take()` loop of `compute`; `acc` is `result` without its
last element (reversed), `prev` is `result.last_mut()`. -/
def computeLoop (m : Array (Nat × Nat)) : Nat → List Seg → Seg → Option Seg → List Seg
  | 0, acc, prev, _ => (prev :: acc).reverse
  | _ + 1, acc, prev, none => (prev :: acc).reverse
  | f + 1, acc, prev, some current =>
    let next := nextPossible m (current.endIx + 1)
    if shouldCombine current prev next then computeLoop m f acc (prev.combine current) next
    else computeLoop m f (prev :: acc) current next

/-- `Format4SegmentComputer::compute` on the (already BMP-truncated) slice -/
def computeSegs (m : Array (Nat × Nat)) : List Seg :=
  match nextPossible m 0 with
  | none => []
  | some first => computeLoop m (m.size + 1) [] first (nextPossible m (first.endIx + 1))

/-- segments of `Format4SegmentComputer::new(mappings).compute()` -/
def segments (m : Mapping) : List Seg := computeSegs (bmpPrefix m).toArray

/-! ## write-fonts: `create_format_4` -/

/-- compiled format-4 subtable, as the five parallel arrays -/
structure Cmap4 where
  endCode : Array Nat
  startCode : Array Nat
  idDelta : Array Int
  idRangeOffsets : Array Nat
  glyphIdArray : Array Nat
deriving Repr, DecidableEq, Inhabited

/-- one row (start, end, delta, rangeOffset) -/
abbrev Row := Nat × Nat × Int × Nat
def Row.start (r : Row) : Nat := r.1
def Row.end_ (r : Row) : Nat := r.2.1
def Row.delta (r : Row) : Int := r.2.2.1
def Row.off (r : Row) : Nat := r.2.2.2

/-- the `for (i, segment) in segments.into_iter().enumerate()` loop: rows and glyph ids
produced from segment index `i` on, `nIds` = `glyph_ids.len()` so far.  `none` = the
`id_range_offset.try_into().unwrap()` panic. -/
def encRows (m : Array (Nat × Nat)) (nSegments : Nat) : Nat → Nat → List Seg → Option (List Row × List Nat)
  | _, _, [] => some ([], [])
  | i, nIds, s :: rest =>
    let start := cpAt m s.startIx
    let end_ := cpAt m s.endIx
    match s.idDelta with
    | some d =>
      -- "The idDelta arithmetic is modulo 65536" (after the fix: reinterpretation mod 2^16)
      match encRows m nSegments (i + 1) nIds rest with
      | none => none
      | some (rows, g) => some ((start % 65536, end_ % 65536, wrapI16 d, 0) :: rows, g)
    | none =>
      let nFollowing := nSegments - i
      let off := (nFollowing + nIds) * 2
      if off > 65535 then none
      else
        let chunk := (List.range (s.endIx + 1 - s.startIx)).map (fun k => gidAt m (s.startIx + k))
        match encRows m nSegments (i + 1) (nIds + chunk.length) rest with
        | none => none
        | some (rows, g) => some ((start % 65536, end_ % 65536, 0, off) :: rows, chunk ++ g)

/-- "add the final segment" and `Self::format_4(0, end_code, start_code, id_deltas,
id_range_offsets, glyph_ids)` -/
def Cmap4.ofRows (rows : List Row) (g : List Nat) : Cmap4 :=
  { endCode := (rows.map Row.end_ ++ [0xFFFF]).toArray
    startCode := (rows.map Row.start ++ [0xFFFF]).toArray
    idDelta := (rows.map Row.delta ++ [1]).toArray
    idRangeOffsets := (rows.map Row.off ++ [0]).toArray
    glyphIdArray := g.toArray }

/-- result of a builder step -/
inductive Res (α : Type) where
  | ok : α → Res α
  | trap : Res α
deriving Repr, DecidableEq

/-- `create_format_4` given the segments: `ok none` = "no chars in BMP" -/
def encode4 (m : Mapping) (segs : List Seg) : Res (Option Cmap4) :=
  if m.any (fun p => p.2 > 0xFFFF) then .trap          -- the assert!
  else if segs.isEmpty then .ok none
  else
    match encRows m.toArray (segs.length + 1) 0 0 segs with
    | none => .trap
    | some (rows, g) => .ok (some (Cmap4.ofRows rows g))

def createFormat4 (m : Mapping) : Res (Option Cmap4) := encode4 m (segments m)

/-- `Cmap4::compute_length` fits `u16` (else `expect("cmap4 overflow")` panics at compile time) -/
def Cmap4.lengthFits (t : Cmap4) : Bool := 16 + t.endCode.size * 8 + t.glyphIdArray.size * 2 ≤ 65535

/-! ## write-fonts: `create_format_12` -/

/-- a `SequentialMapGroup` (start_char_code, end_char_code, start_glyph_id) -/
abbrev Group := Nat × Nat × Nat

/-- the grouping loop; state = (start_char_code, start_glyph_id, last_char_code, last_glyph_id) -/
def groups12Go : Nat → Nat → Nat → Nat → Mapping → List Group
  | sc, sg, lc, _, [] => [(sc, lc, sg)]
  | sc, sg, lc, lg, (c, g) :: rest =>
    if g ≠ (lg + 1) % 4294967296 ∨ c ≠ (lc + 1) % 4294967296 then
      (sc, lc, sg) :: groups12Go c g c g rest
    else groups12Go sc sg c g rest

/-- `create_format_12` on sorted, deduplicated, conflict-free mappings (each char once, so
the `HashMap` is the mapping itself); `none` = the `first().unwrap()` panic on empty input -/
def createFormat12 (m : Mapping) : Option (List Group) :=
  match m with
  | [] => none
  | (c, g) :: _ =>
    some (groups12Go c g ((c + 4294967295) % 4294967296) ((g + 4294967295) % 4294967296) m)

/-! ## write-fonts: the whole of `from_mappings` + compile -/

structure Built where
  fmt4 : Option Cmap4
  fmt12 : Option (Array Group)
deriving Repr, DecidableEq

inductive BuildRes where
  | conflict : Nat → Nat → Nat → BuildRes
  | trap : BuildRes
  | ok : Built → BuildRes
deriving Repr, DecidableEq

/-- "If there are any supplementary-plane characters we also emit format 12 subtables";
outer `none` = the `unwrap` panic of `create_format_12` -/
def buildFormat12 (m : Mapping) : Option (Option (List Group)) :=
  if m.any (fun p => p.1 > 0xFFFF) then
    (match createFormat12 m with
     | none => none
     | some g => some (some g))
  else some none

def fromMappings (raw : Mapping) : BuildRes :=
  let m := normalize raw
  match findConflict m with
  | some (c, g1, g2) => .conflict c g1 g2
  | none =>
    match createFormat4 m with
    | .trap => .trap
    | .ok f4 =>
      match buildFormat12 m with
      | none => .trap
      | some f12 =>
        -- compile (`dump_table`): the format-4 length must fit 16 bits
        if (match f4 with | some t => t.lengthFits | none => true) then
          .ok { fmt4 := f4, fmt12 := f12.map List.toArray }
        else .trap

/-! ## read-fonts: format 4 -/

/-- `Cmap4::lookup_glyph_id`.  `codepoint - start_code` is a `u16` subtraction that both callers
guarantee not to underflow (the model truncates at 0). -/
def lookupGlyphId (t : Cmap4) (codepoint index startCode : Nat) : Option Nat :=
  match t.idDelta[index]? with
  | none => none
  | some delta =>
    match t.idRangeOffsets[index]? with
    | none => none
    | some rangeOffset =>
      if rangeOffset = 0 then some (wrapU16 ((codepoint : Int) + delta)).toNat
      else
        let offset := rangeOffset / 2 + (codepoint - startCode)
        let offset := offset - (t.idRangeOffsets.size - index)     -- saturating_sub
        match t.glyphIdArray[offset]? with
        | none => none
        | some gid =>
          if gid ≠ 0 then some (wrapU16 ((gid : Int) + delta)).toNat else none

/-- the binary search shared (textually) by `Cmap4::map_codepoint` and `Cmap12::map_codepoint`:
returns the index of the segment containing `c`.  `none` covers both "not found" and a
failed `.get(i)?`.  `fuel ≥ hi - lo` always suffices. -/
def segSearch (startAt endAt : Nat → Option Nat) (c : Nat) : Nat → Nat → Nat → Option Nat
  | 0, _, _ => none
  | fuel + 1, lo, hi =>
    if lo < hi then
      let i := (lo + hi) / 2
      match startAt i with
      | none => none
      | some sc =>
        if c < sc then segSearch startAt endAt c fuel lo i
        else
          match endAt i with
          | none => none
          | some ec =>
            if c > ec then segSearch startAt endAt c fuel (i + 1) hi
            else some i
    else none

/-- `Cmap4::map_codepoint`; `segCount` = `seg_count_x2 / 2` -/
def map4With (t : Cmap4) (segCount : Nat) (c : Nat) : Option Nat :=
  if c > 0xFFFF then none
  else
    match segSearch (fun i => t.startCode[i]?) (fun i => t.endCode[i]?) c (segCount + 1) 0 segCount with
    | none => none
    | some i =>
      match t.startCode[i]? with
      | none => none
      | some sc => lookupGlyphId t c i sc

/-- with the `seg_count_x2` that write-fonts compiles (`2 * end_code.len()`) -/
def map4 (t : Cmap4) (c : Nat) : Option Nat := map4With t t.endCode.size c

/-- `Cmap4::code_range`: `start .. end + 1` -/
def codeRange (t : Cmap4) (index : Nat) : Option (Nat × Nat) :=
  match t.startCode[index]?, t.endCode[index]? with
  | some s, some e => some (s, e + 1)
  | _, _ => none

/-- all items the iterator yields while `cur_range = lo..hi` at segment `ix` -/
def iter4Seg (t : Cmap4) (ix lo hi : Nat) : Mapping :=
  (List.range' lo (hi - lo)).filterMap
    (fun c => (lookupGlyphId t (c % 65536) ix (lo % 65536)).map (fun g => (c, g)))

/-- `Cmap4Iter::next` after the range at `ix - 1` (which ended at `curEnd`) is exhausted -/
def iter4From (t : Cmap4) : Nat → Nat → Nat → Mapping
  | 0, _, _ => []
  | fuel + 1, ix, curEnd =>
    match codeRange t ix with
    | none => []
    | some (s, e) =>
      let lo := max s curEnd
      let hi := max e curEnd
      iter4Seg t ix lo hi ++ iter4From t fuel (ix + 1) hi

/-- everything `Cmap4::iter()` yields -/
def iter4 (t : Cmap4) : Mapping :=
  match codeRange t 0 with
  | none => []
  | some (s, e) => iter4Seg t 0 s e ++ iter4From t t.startCode.size 1 e

/-! ## read-fonts: format 12 -/

/-- `Cmap12::lookup_glyph_id`: two wrapping u32 operations -/
def lookup12 (c startChar startGid : Nat) : Nat :=
  (startGid + (c + 4294967296 - startChar) % 4294967296) % 4294967296

/-- `Cmap12::map_codepoint` -/
def map12 (gs : Array Group) (c : Nat) : Option Nat :=
  match segSearch (fun i => gs[i]?.map (·.1)) (fun i => gs[i]?.map (·.2.1)) c (gs.size + 1) 0 gs.size with
  | none => none
  | some i =>
    match gs[i]? with
    | none => none
    | some (s, _, g) => some (lookup12 c s g)

/-- `Cmap12IterLimits` (max_char, glyph_count) -/
abbrev Limits := Option (Nat × Nat)

/-- `Cmap12::group`: (range start, range end (exclusive), start_code, start_glyph_id) -/
def group12 (gs : Array Group) (index : Nat) (limits : Limits) : Option (Nat × Nat × Nat × Nat) :=
  match gs[index]? with
  | none => none
  | some (s, e, g) =>
    let endCode := e + 1
    let endCode :=
      match limits with
      -- `max_char` is the last valid character, the range end is exclusive (after fix 692a13d)
      | some (maxChar, glyphCount) => min ((glyphCount - g) + s) (min endCode (maxChar + 1))
      | none => endCode
    some (s, endCode, s, g)

def iter12Seg (lo hi s g : Nat) : Mapping :=
  (List.range' lo (hi - lo)).map (fun c => (c % 4294967296, lookup12 (c % 4294967296) s g))

/-- `Cmap12Iter::next` once the group ending at `curEnd` is exhausted -/
def iter12From (gs : Array Group) (limits : Limits) : Nat → Nat → Nat → Mapping
  | 0, _, _ => []
  | fuel + 1, ix, curEnd =>
    match group12 gs ix limits with
    | none => []
    | some (lo, hi, s, g) =>
      let lo := if lo < curEnd then curEnd else lo
      iter12Seg lo hi s g ++ iter12From gs limits fuel (ix + 1) hi

/-- everything `Cmap12::iter()` / `iter_with_limits` yields -/
def iter12 (gs : Array Group) (limits : Limits) : Mapping :=
  match group12 gs 0 limits with
  | none => []
  | some (lo, hi, s, g) => iter12Seg lo hi s g ++ iter12From gs limits gs.size 1 hi

/-- the first `n` items of `iter12` computed without materialising the rest (malformed groups can
span 2^32 code points); `Props/C08.lean` proves `iter12N gs l n = (iter12 gs l).take n`. -/
def iter12SegN (lo hi s g n : Nat) : Mapping :=
  (List.range' lo (min (hi - lo) n)).map (fun c => (c % 4294967296, lookup12 (c % 4294967296) s g))

def iter12FromN (gs : Array Group) (limits : Limits) : Nat → Nat → Nat → Nat → Mapping
  | 0, _, _, _ => []
  | fuel + 1, ix, curEnd, n =>
    match group12 gs ix limits with
    | none => []
    | some (lo, hi, s, g) =>
      let lo := if lo < curEnd then curEnd else lo
      iter12SegN lo hi s g n ++ iter12FromN gs limits fuel (ix + 1) hi (n - min (hi - lo) n)

def iter12N (gs : Array Group) (limits : Limits) (n : Nat) : Mapping :=
  match group12 gs 0 limits with
  | none => []
  | some (lo, hi, s, g) =>
    iter12SegN lo hi s g n ++ iter12FromN gs limits gs.size 1 hi (n - min (hi - lo) n)

/-! ## read-fonts: `Cmap::map_codepoint` (first subtable that answers) -/

inductive Subtable where
  | f4 : Cmap4 → Subtable
  | f12 : Array Group → Subtable
  | other : Subtable
deriving Repr

def Subtable.map (s : Subtable) (c : Nat) : Option Nat :=
  match s with
  | .f4 t => map4 t c
  | .f12 g => map12 g c
  | .other => none

/-- `Cmap::map_codepoint` over the encoding records in table order -/
def cmapMap (subs : List Subtable) (c : Nat) : Option Nat :=
  match subs with
  | [] => none
  | s :: rest =>
    match s.map c with
    | some g => some g
    | none => cmapMap rest c

/-- subtables of the table `from_mappings` produces, in record order
(Unicode BMP, Unicode full, Windows BMP, Windows full) -/
def Built.subtables (b : Built) : List Subtable :=
  let f4 := match b.fmt4 with | some t => [Subtable.f4 t] | none => []
  let f12 := match b.fmt12 with | some g => [Subtable.f12 g] | none => []
  f4 ++ f12 ++ f4 ++ f12

/-! ## skrifa: subtable selection and notdef filtering -/

/-- what `MappingSelection::new` sees of an encoding record: platform id, encoding id and the
kind of subtable it points at -/
inductive SubKind where
  | f4 | f12 | f14 | unsupported
deriving Repr, DecidableEq

abbrev Record := Nat × Nat × SubKind

/-- `MappingKind` priorities -/
def kindNone : Nat := 0
def kindBmp : Nat := 1
def kindFull : Nat := 2
def kindSymbol : Nat := 3

structure Selection where
  kind : Nat := 0
  codepointIx : Option Nat := none
  isSymbol : Bool := false
  variantIx : Option Nat := none
deriving Repr, DecidableEq

def SubKind.supported (k : SubKind) : Bool := k == .f4 || k == .f12

/-- one iteration of the reverse loop over `(i, record)` -/
def selectStep (sel : Selection) (i : Nat) (r : Record) : Selection :=
  let choose (kind : Nat) : Selection :=
    if r.2.2.supported ∧ kind > sel.kind then
      { sel with kind := kind, isSymbol := kind == kindSymbol, codepointIx := some i }
    else sel
  match r.1, r.2.1 with
  | 0, 5 => if r.2.2 = .f14 ∧ sel.variantIx.isNone then { sel with variantIx := some i } else sel
  | 3, 0 => choose kindSymbol
  | 3, 10 => choose kindFull
  | 0, 4 => choose kindFull
  | 2, _ => choose kindBmp
  | 0, _ => choose kindBmp
  | 3, 1 => choose kindBmp
  | _, _ => sel

/-- `MappingSelection::new`: records visited last to first -/
def selectGo (recs : List Record) (base : Nat) : Selection :=
  match recs with
  | [] => {}
  | r :: rest => selectStep (selectGo rest (base + 1)) base r

def select (recs : List Record) : Selection := selectGo recs 0

/-- `CodepointSubtable::map_impl` -/
def charmapMapImpl (s : Subtable) (c : Nat) : Option Nat :=
  match s.map c with
  | none => none
  | some g => if g ≠ 0 then some g else none

/-- `CodepointSubtable::map` -/
def charmapMap (s : Subtable) (isSymbol : Bool) (c : Nat) : Option Nat :=
  match charmapMapImpl s c with
  | some g => some g
  | none => if isSymbol ∧ c ≤ 0xFF then charmapMapImpl s (c + 0xF000) else none

/-- `Charmap::mappings`: the subtable iterator with NOTDEF items skipped -/
def charmapMappings (s : Subtable) (limits : Nat × Nat) : Mapping :=
  match s with
  | .f4 t => (iter4 t).filter (fun p => p.2 ≠ 0)
  | .f12 g => (iter12 g (some limits)).filter (fun p => p.2 ≠ 0)
  | .other => []

/-! ## skrifa on the table `from_mappings` builds -/

/-- encoding records of the built table, as `MappingSelection::new` sees them
(Unicode BMP, Unicode full, Windows BMP, Windows full) -/
def Built.records (b : Built) : List Record :=
  let f4u : List Record := match b.fmt4 with | some _ => [(0, 3, .f4)] | none => []
  let f12u : List Record := match b.fmt12 with | some _ => [(0, 4, .f12)] | none => []
  let f4w : List Record := match b.fmt4 with | some _ => [(3, 1, .f4)] | none => []
  let f12w : List Record := match b.fmt12 with | some _ => [(3, 10, .f12)] | none => []
  f4u ++ f12u ++ f4w ++ f12w

/-- `Charmap::new`: the selected codepoint subtable and its symbol flag -/
def Built.skCharmap (b : Built) : Option (Subtable × Bool) :=
  let sel := select b.records
  match sel.codepointIx with
  | none => none
  | some i => (b.subtables[i]?).map (fun s => (s, sel.isSymbol))

/-- `Charmap::map` -/
def Built.skMap (b : Built) (c : Nat) : Option Nat :=
  match b.skCharmap with
  | none => none
  | some (s, sym) => charmapMap s sym c

/-- `Charmap::mappings`; `limits` = `Cmap12IterLimits::default_for_font` = (char::MAX, maxp.numGlyphs) -/
def Built.skMappings (b : Built) (limits : Nat × Nat) : Mapping :=
  match b.skCharmap with
  | none => []
  | some (s, _) => charmapMappings s limits

/-! ## read-fonts: format 14 -/

/-- a `VariationSelector` record with its resolved tables: selector, default ranges
(start, additional_count), non-default mappings (unicode value, glyph id) -/
structure VarSel where
  selector : Nat
  defaults : Option (List (Nat × Nat))
  nonDefaults : Option (List (Nat × Nat))
deriving Repr, DecidableEq

inductive MapVariant where
  | useDefault : MapVariant
  | variant : Nat → MapVariant
deriving Repr, DecidableEq

/-- comparison closure of the default-UVS range search:
`if codepoint < start { Greater } else if codepoint > start + additional_count { Less } else { Equal }` -/
def uvsRangeCmp (r : Nat × Nat) (codepoint : Nat) : Ordering :=
  if codepoint < r.1 then .gt else if codepoint > r.1 + r.2 then .lt else .eq

/-- "If a default UVS table is present in this selector record, binary search on the ranges" -/
def foundDefaultUvs (rec : VarSel) (codepoint : Nat) : Bool :=
  match rec.defaults with
  | some ranges =>
    (match Layout.binarySearchBy ranges.length
        (fun i => uvsRangeCmp (ranges[i]?.getD (0, 0)) codepoint) with
     | .ok _ => true
     | .err _ => false)
  | none => false

/-- "Binary search the non-default UVS table if present" -/
def lookupNonDefaultUvs (rec : VarSel) (codepoint : Nat) : Option MapVariant :=
  match rec.nonDefaults with
  | none => none
  | some maps =>
    match Layout.binarySearchBy maps.length
        (fun i => Layout.natCmp (maps[i]?.getD (0, 0)).1 codepoint) with
    | .err _ => none
    | .ok ix =>
      match maps[ix]? with
      | none => none
      | some p => some (.variant p.2)

/-- `Cmap14::map_variant`.  The three `binary_search_by` calls use the transcription of core's
algorithm in Model/Layout.lean (`Layout.binarySearchBy`), so the model also says what the reader
answers on unsorted / overlapping (malformed) arrays. -/
def mapVariant (t : List VarSel) (codepoint selector : Nat) : Option MapVariant :=
  match Layout.binarySearchBy t.length
      (fun i => Layout.natCmp ((t[i]?.getD ⟨0, none, none⟩).selector) selector) with
  | .err _ => none
  | .ok idx =>
    match t[idx]? with
    | none => none
    | some rec =>
      if foundDefaultUvs rec codepoint then some .useDefault
      else lookupNonDefaultUvs rec codepoint

/-- `Cmap14Iter`: per selector, all default code points then all non-default mappings -/
def iter14 (t : List VarSel) : List (Nat × Nat × MapVariant) :=
  t.flatMap (fun rec =>
    (match rec.defaults with
     | some ranges => ranges.flatMap (fun r => (List.range' r.1 (r.2 + 1)).map
         (fun c => (c, rec.selector, MapVariant.useDefault)))
     | none => []) ++
    (match rec.nonDefaults with
     | some maps => maps.map (fun p => (p.1, rec.selector, MapVariant.variant p.2))
     | none => []))

end FontVerif.Cmap
