/-
C18 — one application round of a patch group.

Transcribes incremental-font-transfer/src/patch_group.rs
  `PatchGroup::apply_next_patches_with_decoder`, `next_invalidating_patch`,
  `non_invalidating_patch_iter`, `UriStatus`.

The group is given by what the two iterators yield (selection of the group is property C19):
  `inv`    = `invalidating_patch_iter()`   (full, else IFT-partial, then IFTX-partial)
  `noninv` = `non_invalidating_patch_iter()` (IFT scope then IFTX scope, each in URI order).
The caller's `HashMap<String, UriStatus>` is an association list with unique keys.
-/
import FontVerif.Model.GlyphKeyed
namespace FontVerif.Ift

inductive UriStatus where
  | applied
  | pending (data : Bytes)
  deriving Repr, DecidableEq

abbrev StatusMap := List (String × UriStatus)

/-- `*entry = UriStatus::Applied` for an existing key -/
def StatusMap.setApplied (m : StatusMap) (uri : String) : StatusMap :=
  m.map (fun kv => if kv.1 = uri then (kv.1, UriStatus.applied) else kv)

/-- "First check if we have all of the needed data": the accumulation loop over the
non-invalidating infos. -/
def accumulate (st : StatusMap) : List PatchInfo → Except PErr (List (PatchInfo × Bytes))
  | [] => .ok []
  | info :: rest =>
    match st.lookup info.uri with
    | none => .error .missingPatches
    | some s =>
      match accumulate st rest with
      | .error e => .error e
      | .ok more =>
        match s with
        | .pending d => .ok ((info, d) :: more)
        | .applied => .ok more            -- previously applied uris are ignored

/-- the non-invalidating half of `apply_next_patches_with_decoder` -/
def applyNonInvalidating (font : Font) (noninv : List PatchInfo) (st : StatusMap) (dec : Decoder) :
    Except PErr Font × StatusMap :=
  match accumulate st noninv with
  | .error e => (.error e, st)
  | .ok acc =>
    if acc.isEmpty then (.error .emptyPatchList, st)
    else
      match applyGlyphKeyed acc font dec with
      | .error e => (.error e, st)
      | .ok newFont => (.ok newFont, noninv.foldl (fun m info => m.setApplied info.uri) st)

/-- `PatchGroup::apply_next_patches_with_decoder`: result and the caller's status map afterwards. -/
def applyRound (font : Font) (inv : List PatchInfo) (noninv : List PatchInfo) (st : StatusMap)
    (dec : Decoder) : Except PErr Font × StatusMap :=
  match inv with
  | patch :: _ =>
    match st.lookup patch.uri with
    | none => (.error .missingPatches, st)
    | some (.pending data) =>
      match applyTableKeyed patch data font dec with
      | .error e => (.error e, st)
      | .ok (newFont, _) => (.ok newFont, st.setApplied patch.uri)
    | some .applied => applyNonInvalidating font noninv st dec
  | [] => applyNonInvalidating font noninv st dec

end FontVerif.Ift
