/-
Model of FreeType 2.12.1's TrueType loader for a composite glyph whose components are simple glyphs
without instructions (ttgload.c, static face, scaled, v40 interpreter): `tt_loader_set_pp` (horizontal
pair), `TT_Process_Simple_Glyph` (scaling of points and phantom points), `TT_Hint_Glyph` (phantom point
rounding; the phantom points are saved back unless backward compatibility is on),
`load_truetype_glyph` (composite: scaled phantom points, USE_MY_METRICS restore),
`TT_Process_Composite_Component` (`FT_Outline_Transform`, offsets incl. SCALED_COMPONENT_OFFSET with
`FT_Hypot`, scaling, ROUND_XY_TO_GRID (y only in v40), point anchors, `FT_Outline_Translate`),
`TT_Load_Glyph` (`FT_Outline_Translate( -pp1.x )`), `compute_glyph_metrics` (hdmx `widthp`, set in
`tt_loader_init` only when hinted, not in backward compatibility mode and not fixed pitch) and
ftobjs.c `ft_glyphslot_grid_fit_metrics` (advance rounded when hinting is requested).  64-bit longs.
-/
import FontVerif.Model.FtCalc
import FontVerif.Model.HintLoad
set_option linter.unusedVariables false
namespace FontVerif.FtLoad
open FontVerif FontVerif.FtCalc FontVerif.Tt FontVerif.HintLoad

/-- `FT_PIX_ROUND( x ) = ( x + 32 ) & ~63` on a long (plain addition). -/
def pixRound (x : Int) : Int := (x + 32) - (x + 32) % 64

/-- `tt_loader_set_pp`, horizontal pair. -/
def setPp (m : GM) : Int × Int := (m.xMin - m.lsb, m.xMin - m.lsb + m.adv)

/-- `TT_Hint_Glyph` with `n_ins == 0`: the phantom coordinate is rounded in the zone and saved back to the
loader unless backward compatibility is on; without hinting it is the scaled value. -/
def phRound (hinted bc : Bool) (v : Int) : Int := if hinted ∧ ¬ bc then pixRound v else v

/-- a simple component: `TT_Process_Simple_Glyph` + `TT_Hint_Glyph` with `n_ins == 0`. -/
def loadSimple (hinted bc : Bool) (scale : Int) (m : GM) (pts : List Vec) : List Vec × Int × Int :=
  (pts.map fun q => Vec.mk (mulFix q.x scale) (mulFix q.y scale),
   phRound hinted bc (mulFix (setPp m).1 scale), phRound hinted bc (mulFix (setPp m).2 scale))

/-- `TT_Hint_Glyph` with `n_ins > 0`, the phantom points of the zone: FIRST `FT_ARRAY_COPY( zone->org,
zone->cur, zone->n_points )`, THEN `zone->cur[n-4].x = FT_PIX_ROUND( … )`, `cur[n-3].x`, `cur[n-2].y`,
`cur[n-1].y`: `(org, cur)`. -/
def hintPhantom (pp : List Vec) : List Vec × List Vec :=
  let org := pp
  let cur := match pp with
    | [p1, p2, p3, p4] => [⟨pixRound p1.x, p1.y⟩, ⟨pixRound p2.x, p2.y⟩, ⟨p3.x, pixRound p3.y⟩, ⟨p4.x, pixRound p4.y⟩]
    | _ => pp
  (org, cur)

/-- `FT_Vector_Transform` with `transform.xx = (FT_Fixed)FT_NEXT_SHORT * 4`. -/
def xform (c : Comp) (q : Vec) : Vec :=
  let xx := c.xx * 4
  let yx := c.yx * 4
  let xy := c.xy * 4
  let yy := c.yy * 4
  ⟨mulFix q.x xx + mulFix q.y xy, mulFix q.x yx + mulFix q.y yy⟩

def haveScale (c : Comp) : Bool := flag c.flags WE_HAVE_A_SCALE ∨ flag c.flags XY_SCALE ∨ flag c.flags TWO_BY_TWO

/-- the `ARGS_ARE_XY_VALUES` branch of `TT_Process_Composite_Component`. -/
def offsetXY (hinted : Bool) (scale : Int) (c : Comp) : Vec :=
  if c.arg1 = 0 ∧ c.arg2 = 0 then ⟨0, 0⟩
  else
    let scaled := haveScale c ∧ flag c.flags SCALED_OFFSET
    let x := if scaled then mulFix c.arg1 c.hx else c.arg1
    let y := if scaled then mulFix c.arg2 c.hy else c.arg2
    let x := mulFix x scale
    let y := mulFix y scale
    ⟨x, if flag c.flags ROUND_XY ∧ hinted then pixRound y else y⟩

/-- the `!( subglyph->flags & ARGS_ARE_XY_VALUES )` branch: `k = arg1 + start_point`, `l = arg2 +
num_base_points`; `x = SUB_LONG( p1->x, p2->x )`.  `none`: `Invalid_Composite`. -/
def pointAnchor (acc sp : List Vec) (a1 a2 : Int) : Option Vec :=
  if a1 < 0 ∨ a2 < 0 then none
  else match acc[a1.toNat]?, sp[a2.toNat]? with
    | some b, some q => some ⟨subLong b.x q.x, subLong b.y q.y⟩
    | _, _ => none

/-- `if ( x || y ) FT_Outline_Translate( &current, x, y )`. -/
def translate (sp : List Vec) (off : Vec) : List Vec :=
  if off.x ≠ 0 ∨ off.y ≠ 0 then sp.map fun q => Vec.mk (addLong q.x off.x) (addLong q.y off.y) else sp

def component (hinted bc : Bool) (scale : Int) (acc : List Vec) (pp : Int × Int) (c : Comp) :
    Option (List Vec × (Int × Int)) :=
  let (sp, c0, c1) := loadSimple hinted bc scale c.m c.pts
  let pp' := if flag c.flags USE_MY_METRICS then (c0, c1) else pp
  -- `if ( num_points == num_base_points ) continue;`
  if sp.isEmpty then some (acc, pp')
  else
    let sp := if haveScale c then sp.map (xform c) else sp
    (if flag c.flags ARGS_ARE_XY then some (offsetXY hinted scale c) else pointAnchor acc sp c.arg1 c.arg2).map fun off =>
    (acc ++ translate sp off, pp')

def components (hinted bc : Bool) (scale : Int) : List Comp → List Vec → (Int × Int) → Option (List Vec × (Int × Int))
  | [], acc, pp => some (acc, pp)
  | c :: rest, acc, pp => (component hinted bc scale acc pp c).bind fun (acc, pp) => components hinted bc scale rest acc pp

/-- `compute_glyph_metrics`: `loader->widthp ? widthp[glyph_index] * 64 : SUB_LONG( pp2.x, pp1.x )`. -/
def advPick (sel : Option Int) (q0 q1 : Int) : Int :=
  match sel with
  | some w => w * 64
  | none => subLong q1 q0

/-- `hdmx` = the record value if the table has one for this ppem; `fixedPitch` = `post.isFixedPitch`. -/
def load (hinted bc fixedPitch : Bool) (scale : Int) (hdmx : Option Int) (m : GM) (cs : List Comp) :
    Option (List Vec × Int) :=
  let (p0, p1) := setPp m
  (components hinted bc scale cs [] (mulFix p0 scale, mulFix p1 scale)).map fun (pts, (q0, q1)) =>
  let pts := if q0 ≠ 0 then pts.map fun q => Vec.mk (addLong q.x (-q0)) q.y else pts
  let adv := advPick (if hinted ∧ ¬ bc ∧ ¬ fixedPitch then hdmx else none) q0 q1
  (pts, if hinted then pixRound adv else adv)

end FontVerif.FtLoad
