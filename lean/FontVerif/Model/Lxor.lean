/-
Bitwise XOR of two's-complement machine integers as a function on `Int` (Lean core has no
`Int.xor`), in the style of Model/Land.lean: `lxorInt a b` is the XOR of the sign-extended
operands, so one definition serves Rust's `i32 ^ i32` and C's `long ^ long` (LP64).
Used for the auto-flip test `(org_dist ^ cvt_dist) < 0` of MIRP.
-/
import FontVerif.Model.Base
namespace FontVerif

/-- XOR of the low `n` bits, then of the remaining sign words (`0` or `-1`). -/
def lxorN : Nat → Int → Int → Int
  | 0, a, b => if (a < 0 ∧ b < 0) ∨ (0 ≤ a ∧ 0 ≤ b) then 0 else -1
  | n + 1, a, b => (a % 2 + b % 2) % 2 + 2 * lxorN n (a / 2) (b / 2)

/-- `a ^ b` for operands in the i64 (or i32) range. -/
def lxorInt (a b : Int) : Int := lxorN 64 a b

end FontVerif
