/-
C01 (hand-written code) — transcriptions of the loop-carrying / index-computing hand-written functions of
read-fonts/src/tables/layout.rs / gsub.rs / gpos.rs / gdef.rs and the closure modules (Coverage / ClassDef lookups and iterators, Device / VariationIndex decoding, lookup-list walking, context rule walking, FeatureVariations conditions).

Every definition cites the Rust function it transcribes (file + fn) and keeps its checked / saturating /
wrapping arithmetic and its error returns; `Res.trap` results mark what would be a panic of
the overflow-checked profile, and Props/C01HandLayout.lean shows they are never produced.  Tied to the real code
by harness group `layout.model` (driver commands `hl.*`, Drv/C01HandLayout.lean).

The binary searches are the transcription of `core::slice::binary_search_by` of Model/Layout.lean
(`Layout.binarySearchBy`), so every result is determined for unsorted / overlapping records, too; the
parsed forms are the `Layout.Coverage` / `Layout.ClassDef` / `Layout.RangeRec` types of that file.
-/
import FontVerif.Model.ReadIter
import FontVerif.Model.HandRead
import FontVerif.Model.Layout
import FontVerif.Model.ShapeExt
namespace FontVerif.HandLayout
open FontVerif FontVerif.ReadIter FontVerif.HandRead FontVerif.Layout

/-! ## results with a representable panic -/

/-- the value a function returns, or a panic of the overflow-checked profile -/
inductive Res (α : Type) where
  | val (a : α)
  | trap
  deriving Repr, DecidableEq

def Res.bind {α β : Type} (r : Res α) (k : α → Res β) : Res β :=
  match r with
  | .val a => k a
  | .trap => .trap

/-- `u16` / `usize` subtraction `a - b` of the overflow-checked profile -/
def subTrap (a b : Nat) : Res Nat := if b ≤ a then .val (a - b) else .trap

/-- `usize` addition of the overflow-checked profile -/
def addTrapU (a b : Nat) : Res Nat := if a + b ≤ MAXU then .val (a + b) else .trap

/-- `Iterator::any` with a closure that may panic: stops at the first `true` -/
def anyR {α : Type} (f : α → Res Bool) : List α → Res Bool
  | [] => .val false
  | x :: xs =>
    match f x with
    | .trap => .trap
    | .val true => .val true
    | .val false => anyR f xs

/-! ## generated readers (generated_layout.rs) of the tables the hand-written methods work on -/

inductive LErr where
  | oob
  | invalidFormat (n : Nat)
  | nullOffset
  /-- `InvalidCollectionIndex(idx)` of `ArrayOfOffsets::get` -/
  | badIndex (n : Nat)
  deriving Repr, DecidableEq

/-- the `n` big-endian `u16`s at byte `at` (only used when they exist) -/
def u16sAt (d : List Nat) (at_ n : Nat) : List Nat := (List.range n).map (fun i => beAt d (at_ + 2 * i) 2)

/-- the `n` 6-byte records `(u16, u16, u16)` at byte `at` -/
def triplesAt (d : List Nat) (at_ n : Nat) : List (Nat × Nat × Nat) :=
  (List.range n).map (fun i => (beAt d (at_ + 6 * i) 2, beAt d (at_ + 6 * i + 2) 2, beAt d (at_ + 6 * i + 4) 2))

/-- `CoverageTable::read` (format switch) with `CoverageFormat1::read` (`glyph_count` × `GlyphId16`) and
`CoverageFormat2::read` (`range_count` × `RangeRecord`): cursor reads, `advance_by(count * size)`,
`finish` = one final bounds check. -/
def covRead (d : List Nat) : Except LErr Coverage :=
  match readAt d 0 2 with
  | none => .error .oob
  | some fmt =>
    if fmt = 1 then
      match readAt d 2 2 with
      | none => .error .oob
      | some n => if 4 + n * 2 ≤ d.length then .ok (.fmt1 (u16sAt d 4 n)) else .error .oob
    else if fmt = 2 then
      match readAt d 2 2 with
      | none => .error .oob
      | some n =>
        if 4 + n * 6 ≤ d.length then
          .ok (.fmt2 ((triplesAt d 4 n).map (fun t => ⟨t.1, t.2.1, t.2.2⟩)))
        else .error .oob
    else .error (.invalidFormat fmt)

/-- `ClassDef::read` with `ClassDefFormat1::read` (`start_glyph_id`, `glyph_count` × `u16`) and
`ClassDefFormat2::read` (`class_range_count` × `ClassRangeRecord`) -/
def clsRead (d : List Nat) : Except LErr ClassDef :=
  match readAt d 0 2 with
  | none => .error .oob
  | some fmt =>
    if fmt = 1 then
      match readAt d 2 2, readAt d 4 2 with
      | some start, some n => if 6 + n * 2 ≤ d.length then .ok (.fmt1 start (u16sAt d 6 n)) else .error .oob
      | _, _ => .error .oob
    else if fmt = 2 then
      match readAt d 2 2 with
      | none => .error .oob
      | some n =>
        if 4 + n * 6 ≤ d.length then
          .ok (.fmt2 ((triplesAt d 4 n).map (fun t => ⟨t.1, t.2.1, t.2.2⟩)))
        else .error .oob
    else .error (.invalidFormat fmt)

/-! ## Coverage (read-fonts/src/tables/layout.rs) -/

/-- `CoverageFormat1::get(gid)`: `gid.try_into::<GlyphId16>().ok()?`,
`glyph_array.binary_search(&gid).ok().map(|idx| idx as u16)` (no arithmetic, no indexing) -/
def cov1Get (xs : List Nat) (g : Nat) : Res (Option Nat) :=
  if g ≥ 65536 then .val none else
  match binarySearchBy xs.length (fun i => natCmp (xs.getD i 0) g) with
  | .ok i => .val (some (i % 65536))
  | .err _ => .val none

/-- `CoverageFormat2::get(gid)`: the binary search with the three-way range comparison, then
`&self.range_records()[idx]` (index panic), `gid.to_u16() - rec.start_glyph_id().to_u16()` (`u16`
subtraction) and `start_coverage_index.checked_add(offset)` -/
def cov2Get (rs : List RangeRec) (g : Nat) : Res (Option Nat) :=
  if g ≥ 65536 then .val none else
  match binarySearchBy rs.length (fun i => rangeCmp (rs.getD i default) g) with
  | .ok i =>
    match rs[i]? with
    | none => .trap
    | some r =>
      (subTrap g r.start).bind (fun off =>
        .val (if r.startCov + off < 65536 then some (r.startCov + off) else none))
  | .err _ => .val none

/-- `CoverageTable::get` -/
def covGet : Coverage → Nat → Res (Option Nat)
  | .fmt1 xs, g => cov1Get xs g
  | .fmt2 rs, g => cov2Get rs g

/-- `RangeRecord::iter`: `(start..=end).map(GlyphId16::new)` — empty for `start > end` -/
def rangeIter (r : RangeRec) : List Nat := r.glyphs

/-- `CoverageTable::iter`: the glyph array, or `range_records().iter().flat_map(RangeRecord::iter)` -/
def covIter : Coverage → List Nat
  | .fmt1 xs => xs
  | .fmt2 rs => expandRanges rs

/-- `RangeRecord::population` / `ClassRangeRecord::population`:
`if start > end { 0 } else { end - start + 1 }` on `usize` (guarded subtraction) -/
def rangePop (start end_ : Nat) : Res Nat :=
  if start > end_ then .val 0 else (subTrap end_ start).bind (fun n => addTrapU n 1)

/-- `.iter().fold(0, |acc, record| acc + record.population())` on `usize` -/
def popFold (acc : Nat) : List (Nat × Nat) → Res Nat
  | [] => .val acc
  | (s, e) :: rest => (rangePop s e).bind (fun p => (addTrapU acc p).bind (fun a => popFold a rest))

/-- `CoverageFormat1::population` (`glyph_count as usize`), `CoverageFormat2::population` -/
def covPop : Coverage → Res Nat
  | .fmt1 xs => .val xs.length
  | .fmt2 rs => popFold 0 (rs.map (fun r => (r.start, r.end_)))

/-- `32 - n.leading_zeros()` of a `u32` -/
def bitLen : Nat → Nat
  | 0 => 0
  | n + 1 => Nat.log2 (n + 1) + 1

/-- `u64::saturating_mul` -/
def satMul64 (a b : Nat) : Nat := min (a * b) 18446744073709551615

/-- A glyph set (`IntSet<GlyphId>`) as the ascending list of its members (what `iter()` yields);
`len()` = length, `contains` = membership, `intersects_range(a..=b)` = some member in `[a, b]`
(its specification; the implementation is collections/int_set). -/
abbrev GSet := List Nat

def GSet.intersectsRange (s : GSet) (a b : Nat) : Bool := s.any (fun g => decide (a ≤ g ∧ g ≤ b))

/-- `CoverageFormat1::intersects(glyphs)`: the cheaper of "look every set member up" and "test every
array entry", chosen by `glyph_count > glyphs.len().saturating_mul(num_bits) / 2` -/
def cov1Intersects (xs : List Nat) (s : GSet) : Res Bool :=
  let count := xs.length
  let numBits := bitLen count
  if count > satMul64 s.length numBits / 2 then
    anyR (fun g => (cov1Get xs g).bind (fun r => .val r.isSome)) s
  else .val (xs.any (fun g => s.contains g))

/-- `RangeRecord::intersects`: `glyphs.intersects_range(start..=end)` -/
def rangeIntersects (r : RangeRec) (s : GSet) : Bool := s.intersectsRange r.start r.end_

/-- `CoverageFormat2::intersects(glyphs)` -/
def cov2Intersects (rs : List RangeRec) (s : GSet) : Res Bool :=
  let count := rs.length
  let numBits := bitLen count
  if count > satMul64 s.length numBits / 2 then
    anyR (fun g => (cov2Get rs g).bind (fun r => .val r.isSome)) s
  else .val (rs.any (fun r => rangeIntersects r s))

/-- `CoverageTable::intersects` -/
def covIntersects : Coverage → GSet → Res Bool
  | .fmt1 xs, s => cov1Intersects xs s
  | .fmt2 rs, s => cov2Intersects rs s

/-! ## ClassDef -/

/-- `ClassDefFormat1::get(gid)`: `if gid < start { return 0 }`, `idx = gid - start` (`u16`
subtraction), `class_value_array.get(idx).unwrap_or(0)` -/
def cls1Get (start : Nat) (cs : List Nat) (g : Nat) : Res Nat :=
  if g < start then .val 0 else
  (subTrap g start).bind (fun idx => .val ((cs[idx]?).getD 0))

/-- `ClassDefFormat2::get(gid)`: binary search on `start_glyph_id`, `Err(ix) → ix.saturating_sub(1)`,
`records.get(ix)`, `(start..=end).contains(&gid)` — nothing that can panic; this is
`Layout.ClassDef.get` of Model/Layout.lean. -/
def cls2Get (rs : List ClassRangeRec) (g : Nat) : Res Nat := .val ((ClassDef.fmt2 rs).get g)

/-- `ClassDef::get` -/
def clsGet : ClassDef → Nat → Res Nat
  | .fmt1 s cs, g => cls1Get s cs g
  | .fmt2 rs, g => cls2Get rs g

/-- `ClassDefFormat1::iter`: `enumerate().map(|(i, val)| (start.saturating_add(i as u16), val))` -/
def cls1Iter (start : Nat) (cs : List Nat) : List (Nat × Nat) :=
  (List.range cs.length).zipWith (fun i c => (min (start + i % 65536) 65535, c)) cs

/-- `ClassDefFormat2::iter`: `flat_map(|range| (start..=end).map(|gid| (gid, range.class())))` -/
def cls2Iter : List ClassRangeRec → List (Nat × Nat)
  | [] => []
  | r :: rs => (List.range' r.start (r.end_ + 1 - r.start)).map (fun g => (g, r.cls)) ++ cls2Iter rs

/-- `ClassDef::iter` -/
def clsIter : ClassDef → List (Nat × Nat)
  | .fmt1 s cs => cls1Iter s cs
  | .fmt2 rs => cls2Iter rs

/-- `ClassDefFormat1::population`, `ClassDefFormat2::population`, `ClassDef::population` -/
def clsPop : ClassDef → Res Nat
  | .fmt1 _ cs => .val cs.length
  | .fmt2 rs => popFold 0 (rs.map (fun r => (r.start, r.end_)))

/-! ## Device tables -/

/-- a parsed `Device`: `start_size`, `end_size`, the raw `delta_format` word and the `delta_value` words -/
structure Dev where
  start : Nat
  end_ : Nat
  fmt : Nat
  words : List Nat
  deriving Repr, DecidableEq

/-- `DeltaFormat::value_count(start_size, end_size)` — transcribed for the generated readers in
Model/ShapeExt.lean -/
def valueCount (fmt start end_ : Nat) : Nat := Shape.customByName "DeltaFormat::value_count" [fmt, start, end_]

/-- generated `Device::read`: three `u16`s, `value_count(..).checked_mul(2).ok_or(OutOfBounds)?`,
`advance_by`, `finish` -/
def devRead (d : List Nat) : Except LErr Dev :=
  match readAt d 0 2, readAt d 2 2, readAt d 4 2 with
  | some s, some e, some f =>
    match checkedMul (valueCount f s e) 2 with
    | none => .error .oob
    | some len => if 6 + len ≤ d.length then .ok ⟨s, e, f, u16sAt d 6 (valueCount f s e)⟩ else .error .oob
  | _, _, _ => .error .oob

/-- `(mask, sign_mask, bits)` of `iter_packed_values`; raw formats 1 / 2 / 3, anything else `(0, 0, 0)` -/
def packParams (fmt : Nat) : Nat × Nat × Nat :=
  if fmt = 1 then (3, 2, 2) else if fmt = 2 then (15, 8, 4) else if fmt = 3 then (255, 128, 8) else (0, 0, 0)

/-- `x as i8` -/
def toI8 (x : Int) : Int := (x + 128) % 256 - 128

/-- the body of the `for i in 0..n.min(max_per_word)` loop of `iter_packed_values`:
`shift = (16 - bits) - i * bits` (`usize` subtractions), `raw >> shift` (panics for `shift ≥ 16`),
the sign extension `(val as i32 - (1 << bits)) as i8`, and `decoded[i] = Some(val)` on `[None; 8]` -/
def packedLoop (raw mask signMask bits : Nat) : List Nat → Res (List Int)
  | [] => .val []
  | i :: rest =>
    (subTrap 16 bits).bind (fun a =>
      (subTrap a (i * bits)).bind (fun shift =>
        if shift ≥ 16 then .trap
        else if i ≥ 8 then .trap
        else
          let v := (raw / 2 ^ shift) % 65536 &&& mask
          let sv : Int := if v &&& signMask ≠ 0 then toI8 ((v : Int) - (2 ^ bits : Nat)) else toI8 v
          (packedLoop raw mask signMask bits rest).bind (fun tl => .val (sv :: tl))))

/-- `iter_packed_values(raw, format, n)`: `max_per_word = 16 / bits` (division by zero for a format
without deltas), the decoding loop, `decoded.into_iter().flatten()` -/
def iterPackedValues (raw fmt n : Nat) : Res (List Int) :=
  let p := packParams fmt
  if p.2.2 = 0 then .trap
  else packedLoop raw p.1 p.2.1 p.2.2 (List.range (min n (16 / p.2.2)))

/-- the `flat_map` closure of `Device::iter` over the delta words:
`iter_packed_values(val, format, n)`, `n = n.saturating_sub(deltas_per_word)` -/
def devWords (fmt perWord : Nat) : Nat → List Nat → Res (List Int)
  | _, [] => .val []
  | n, w :: rest =>
    (iterPackedValues w fmt n).bind (fun vs =>
      (devWords fmt perWord (n - perWord) rest).bind (fun tl => .val (vs ++ tl)))

/-- `Device::iter`: `n = end_size.saturating_sub(start_size) as usize + 1`, 8 / 4 / 2 / 0 deltas per word -/
def devIter (v : Dev) : Res (List Int) :=
  let n := (v.end_ - v.start) + 1
  let perWord := if v.fmt = 1 then 8 else if v.fmt = 2 then 4 else if v.fmt = 3 then 2 else 0
  devWords v.fmt perWord n v.words

/-- generated `DeviceOrVariationIndex::read` + `From<VariationIndex> for DeltaSetIndex`:
the format word at byte 4 selects `Device::read` or `VariationIndex::read` (6 bytes: outer, inner) -/
inductive DevOrVar where
  | device (v : Dev)
  | varIdx (outer inner : Nat)
  deriving Repr, DecidableEq

def devOrVarRead (d : List Nat) : Except LErr DevOrVar :=
  match readAt d 4 2 with
  | none => .error .oob
  | some f =>
    if f ≠ 32768 then (devRead d).map .device
    else
      match readAt d 0 2, readAt d 2 2 with
      | some o, some i => .ok (.varIdx o i)
      | _, _ => .error .oob

/-! ## script lists and script tags (read-fonts/src/tables/layout/script.rs)

Tags are the big-endian `u32` value of their four bytes (`Tag: Ord` is the byte-wise order). -/

def tg (a b c d : Char) : Nat := ((a.toNat * 256 + b.toNat) * 256 + c.toNat) * 256 + d.toNat

def tagBytes (t : Nat) : List Nat := [t / 16777216 % 256, t / 65536 % 256, t / 256 % 256, t % 256]

def tagOfBytes : List Nat → Nat
  | [a, b, c, d] => ((a * 256 + b) * 256 + c) * 256 + d
  | _ => 0

/-- generated `ScriptList::read`: `script_count` × `ScriptRecord { tag, offset }` (6 bytes) -/
def scriptListRead (d : List Nat) : Except LErr (List (Nat × Nat)) :=
  match readAt d 0 2 with
  | none => .error .oob
  | some n =>
    if 2 + n * 6 ≤ d.length then
      .ok ((List.range n).map (fun i => (beAt d (2 + 6 * i) 4, beAt d (2 + 6 * i + 4) 2)))
    else .error .oob

/-- generated `Script::read`: `default_lang_sys_offset`, `lang_sys_count` × `LangSysRecord { tag, offset }` -/
def scriptRead (d : List Nat) : Except LErr (List (Nat × Nat)) :=
  match readAt d 0 2, readAt d 2 2 with
  | some _, some n =>
    if 4 + n * 6 ≤ d.length then
      .ok ((List.range n).map (fun i => (beAt d (4 + 6 * i) 4, beAt d (4 + 6 * i + 4) 2)))
    else .error .oob
  | _, _ => .error .oob

/-- `ScriptList::index_for_tag` / `Script::lang_sys_index_for_tag`:
`records.binary_search_by_key(&tag, |rec| rec.tag()).map(|index| index as u16).ok()` -/
def indexForTag (tags : List Nat) (tag : Nat) : Option Nat :=
  match binarySearchBy tags.length (fun i => natCmp (tags.getD i 0) tag) with
  | .ok i => some (i % 65536)
  | .err _ => none

/-- the two `for` loops of `ScriptList::select`: the first tag with an index -/
def selectLoop (recs : List Nat) : List Nat → Option (Nat × Nat)
  | [] => none
  | t :: rest =>
    match indexForTag recs t with
    | some i => some (t, i)
    | none => selectLoop recs rest

/-- `ScriptList::select(tags)`: `(tag, index, is_fallback)`; the fallbacks are `DFLT`, `dflt`, `latn` -/
def select (recs : List Nat) (tags : List Nat) : Option (Nat × Nat × Bool) :=
  match selectLoop recs tags with
  | some (t, i) => some (t, i, false)
  | none =>
    match selectLoop recs [tg 'D' 'F' 'L' 'T', tg 'd' 'f' 'l' 't', tg 'l' 'a' 't' 'n'] with
    | some (t, i) => some (t, i, true)
    | none => none

/-- `UNICODE_TO_NEW_OPENTYPE_SCRIPT_TAGS` -/
def newScriptTags : List (Nat × Nat) :=
  [(tg 'B' 'e' 'n' 'g', tg 'b' 'n' 'g' '2'), (tg 'D' 'e' 'v' 'a', tg 'd' 'e' 'v' '2'),
   (tg 'G' 'u' 'j' 'r', tg 'g' 'j' 'r' '2'), (tg 'G' 'u' 'r' 'u', tg 'g' 'u' 'r' '2'),
   (tg 'K' 'n' 'd' 'a', tg 'k' 'n' 'd' '2'), (tg 'M' 'l' 'y' 'm', tg 'm' 'l' 'm' '2'),
   (tg 'M' 'y' 'm' 'r', tg 'm' 'y' 'm' '2'), (tg 'O' 'r' 'y' 'a', tg 'o' 'r' 'y' '2'),
   (tg 'T' 'a' 'm' 'l', tg 't' 'm' 'l' '2'), (tg 'T' 'e' 'l' 'u', tg 't' 'e' 'l' '2')]

/-- `new_tag_from_unicode`: `binary_search_by_key(..).ok()?`, `TABLE.get(ix).map(|e| e.1)` -/
def newTagFromUnicode (u : Nat) : Option Nat :=
  match binarySearchBy newScriptTags.length (fun i => natCmp (newScriptTags.getD i (0, 0)).1 u) with
  | .ok i => (newScriptTags[i]?).map (·.2)
  | .err _ => none

/-- `u8::to_ascii_lowercase` -/
def asciiLower (b : Nat) : Nat := if 65 ≤ b ∧ b ≤ 90 then b + 32 else b

/-- `old_tag_from_unicode`: six special cases, else the first byte lower-cased (`bytes[0]` of a `[u8; 4]`) -/
def oldTagFromUnicode (u : Nat) : Nat :=
  if u = tg 'Z' 'm' 't' 'h' then tg 'm' 'a' 't' 'h'
  else if u = tg 'H' 'i' 'r' 'a' then tg 'k' 'a' 'n' 'a'
  else if u = tg 'L' 'a' 'o' 'o' then tg 'l' 'a' 'o' ' '
  else if u = tg 'Y' 'i' 'i' 'i' then tg 'y' 'i' ' ' ' '
  else if u = tg 'N' 'k' 'o' 'o' then tg 'n' 'k' 'o' ' '
  else if u = tg 'V' 'a' 'i' 'i' then tg 'v' 'a' 'i' ' '
  else
    match tagBytes u with
    | b0 :: rest => tagOfBytes (asciiLower b0 :: rest)
    | [] => 0

/-- `tags[len] = t` on the `[Tag; 3]` of `ScriptTags` (index panic for `len ≥ 3`) -/
def setTag (tags : List Nat) (len t : Nat) : Res (List Nat) :=
  if len < tags.length then .val (tags.set len t) else .trap

/-- `ScriptTags::from_unicode` followed by `as_slice` (`&self.tags[..self.len]`, slice panic for
`len > 3`): the version-3 tag (`bytes[3] = b'3'`) unless the new tag is `mym2`, the new tag, the old tag -/
def scriptTagsFromUnicode (u : Nat) : Res (List Nat) :=
  let tags0 : List Nat := [0, 0, 0]
  let st1 : Res (List Nat × Nat) :=
    match newTagFromUnicode u with
    | some nt =>
      let st : Res (List Nat × Nat) :=
        if nt ≠ tg 'm' 'y' 'm' '2' then
          (setTag tags0 0 (tagOfBytes ((tagBytes nt).take 3 ++ [51]))).bind (fun ts => .val (ts, 1))
        else .val (tags0, 0)
      st.bind (fun p => (setTag p.1 p.2 nt).bind (fun ts => .val (ts, p.2 + 1)))
    | none => .val (tags0, 0)
  st1.bind (fun p =>
    (setTag p.1 p.2 (oldTagFromUnicode u)).bind (fun ts =>
      let len := p.2 + 1
      if len ≤ ts.length then .val (ts.take len) else .trap))

/-! ## GSUB tables as the closure sees them

Transcription of the generated readers (generated_layout.rs, generated_gsub.rs: cursor reads, one final
bounds check) with offsets resolved as `ResolveOffset::resolve` does (`0` → `NullOffset`, beyond the
data → `OutOfBounds`, then the child's `read` on `data.split_off(off)`, i.e. up to the END of the
buffer).  Positions are absolute.  A `PR` value is what the lazy accessor returns when the closure
reaches it. -/

abbrev PR := Except LErr

def rd16 (d : List Nat) (p : Nat) : PR Nat :=
  match readAt d p 2 with
  | some v => .ok v
  | none => .error .oob

def rd32 (d : List Nat) (p : Nat) : PR Nat :=
  match readAt d p 4 with
  | some v => .ok v
  | none => .error .oob

/-- `cursor.finish`: the table's `n` bytes at `p` exist -/
def need (d : List Nat) (p n : Nat) : PR Unit := if p + n ≤ d.length then .ok () else .error .oob

/-- `offset.resolve(data)` for a table at `p`: the child's position -/
def resolveAt (d : List Nat) (p off : Nat) : PR Nat :=
  if off = 0 then .error .nullOffset else if p + off ≤ d.length then .ok (p + off) else .error .oob

/-- `ArrayOfOffsets<T, Offset16>` of the table at `p`: the `n` offsets at `at_`, resolved -/
def offsets16 (d : List Nat) (p at_ n : Nat) : List (PR Nat) := (u16sAt d at_ n).map (resolveAt d p)

/-- `ArrayOfNullableOffsets<T, Offset16>`: a null offset is `None` -/
def nullable16 (d : List Nat) (p at_ n : Nat) : List (Option (PR Nat)) :=
  (u16sAt d at_ n).map (fun off => if off = 0 then none else some (resolveAt d p off))

/-- `SequenceLookupRecord { sequence_index, lookup_list_index }` -/
structure SeqRec where
  seqIdx : Nat
  lookup : Nat
  deriving Repr, DecidableEq

/-- `SequenceRule` / `ClassSequenceRule` (`back = look = []`), `ChainedSequenceRule` /
`ChainedClassSequenceRule` -/
structure Rule where
  input : List Nat
  back : List Nat
  look : List Nat
  recs : List SeqRec
  deriving Repr, DecidableEq

/-- a GSUB subtable of one of the seven concrete lookup types -/
inductive Sub where
  /-- `SingleSubstFormat1`: `coverage()`, `delta_glyph_id` -/
  | single1 (cov : PR Coverage) (delta : Int)
  /-- `SingleSubstFormat2`: `coverage()`, `substitute_glyph_ids` -/
  | single2 (cov : PR Coverage) (subs : List Nat)
  /-- `MultipleSubstFormat1` (`sequences()`) and `AlternateSubstFormat1` (`alternate_sets()`) -/
  | multiple (cov : PR Coverage) (seqs : List (PR (List Nat)))
  /-- `LigatureSubstFormat1`: ligature sets of `(ligature_glyph, component_glyph_ids)` -/
  | ligature (cov : PR Coverage) (sets : List (PR (List (PR (Nat × List Nat)))))
  /-- `ReverseChainSingleSubstFormat1`: backtrack ++ lookahead coverages, coverage, substitutes -/
  | reverse (others : List (PR Coverage)) (cov : PR Coverage) (subs : List Nat)
  /-- `(Chained)SequenceContextFormat1` -/
  | ctx1 (cov : PR Coverage) (sets : List (Option (PR (List (PR Rule)))))
  /-- `(Chained)SequenceContextFormat2` with its (input) class definition -/
  | ctx2 (cov : PR Coverage) (cls : PR ClassDef) (sets : List (Option (PR (List (PR Rule)))))
  /-- `(Chained)SequenceContextFormat3`: input coverages, backtrack ++ lookahead coverages, records -/
  | ctx3 (covs : List (PR Coverage)) (others : List (PR Coverage)) (recs : List SeqRec)
  deriving Repr

/-- what `SubstitutionLookup::subtables()` gives: an error, or the subtables each read lazily -/
abbrev Lookup := PR (List (PR Sub))

def covAt (d : List Nat) (q : Nat) : PR Coverage := covRead (d.drop q)
def clsAt (d : List Nat) (q : Nat) : PR ClassDef := clsRead (d.drop q)

/-- `self.xxx_offset().resolve(data)` for a coverage offset stored at `at_` of the table at `p` -/
def covOff (d : List Nat) (p at_ : Nat) : PR Coverage := resolveAt d p (beAt d at_ 2) >>= covAt d
def clsOff (d : List Nat) (p at_ : Nat) : PR ClassDef := resolveAt d p (beAt d at_ 2) >>= clsAt d

def seqRecsAt (d : List Nat) (at_ n : Nat) : List SeqRec :=
  (List.range n).map (fun i => ⟨beAt d (at_ + 4 * i) 2, beAt d (at_ + 4 * i + 2) 2⟩)

/-- `Sequence::read` / `AlternateSet::read` -/
def seqAt (d : List Nat) (q : Nat) : PR (List Nat) := do
  let n ← rd16 d q
  need d q (2 + 2 * n)
  pure (u16sAt d (q + 2) n)

/-- `Ligature::read`: `component_count - 1` (saturating) component glyphs -/
def ligAt (d : List Nat) (q : Nat) : PR (Nat × List Nat) := do
  let g ← rd16 d q
  let cc ← rd16 d (q + 2)
  need d q (4 + 2 * (cc - 1))
  pure (g, u16sAt d (q + 4) (cc - 1))

def ligSetAt (d : List Nat) (q : Nat) : PR (List (PR (Nat × List Nat))) := do
  let n ← rd16 d q
  need d q (2 + 2 * n)
  pure ((offsets16 d q (q + 2) n).map (· >>= ligAt d))

/-- `SequenceRule::read` / `ClassSequenceRule::read` -/
def ruleAt (d : List Nat) (q : Nat) : PR Rule := do
  let gc ← rd16 d q
  let n ← rd16 d (q + 2)
  need d q (4 + 2 * (gc - 1) + 4 * n)
  pure ⟨u16sAt d (q + 4) (gc - 1), [], [], seqRecsAt d (q + 4 + 2 * (gc - 1)) n⟩

/-- `ChainedSequenceRule::read` / `ChainedClassSequenceRule::read` -/
def chainRuleAt (d : List Nat) (q : Nat) : PR Rule := do
  let b ← rd16 d q
  let ip := q + 2 + 2 * b
  let gc ← rd16 d ip
  let lp := ip + 2 + 2 * (gc - 1)
  let l ← rd16 d lp
  let np := lp + 2 + 2 * l
  let n ← rd16 d np
  need d np (2 + 4 * n)
  pure ⟨u16sAt d (ip + 2) (gc - 1), u16sAt d (q + 2) b, u16sAt d (lp + 2) l, seqRecsAt d (np + 2) n⟩

/-- the four `…RuleSet::read`s: `count` non-nullable rule offsets -/
def ruleSetAt (chained : Bool) (d : List Nat) (q : Nat) : PR (List (PR Rule)) := do
  let n ← rd16 d q
  need d q (2 + 2 * n)
  pure ((offsets16 d q (q + 2) n).map (· >>= (if chained then chainRuleAt d else ruleAt d)))

def ruleSetsAt (chained : Bool) (d : List Nat) (p at_ n : Nat) : List (Option (PR (List (PR Rule)))) :=
  (nullable16 d p at_ n).map (Option.map (· >>= ruleSetAt chained d))

/-- `SequenceContext::read` / `ChainedSequenceContext::read` (format switch) and the format readers -/
def contextAt (chained : Bool) (d : List Nat) (p : Nat) : PR Sub := do
  let fmt ← rd16 d p
  if fmt = 1 then
    let n ← rd16 d (p + 4)
    need d p (6 + 2 * n)
    pure (.ctx1 (covOff d p (p + 2)) (ruleSetsAt chained d p (p + 6) n))
  else if fmt = 2 then
    if chained then
      let n ← rd16 d (p + 10)
      need d p (12 + 2 * n)
      pure (.ctx2 (covOff d p (p + 2)) (clsOff d p (p + 6)) (ruleSetsAt chained d p (p + 12) n))
    else
      let n ← rd16 d (p + 6)
      need d p (8 + 2 * n)
      pure (.ctx2 (covOff d p (p + 2)) (clsOff d p (p + 4)) (ruleSetsAt chained d p (p + 8) n))
  else if fmt = 3 then
    if chained then
      let b ← rd16 d (p + 2)
      let ip := p + 4 + 2 * b
      let gc ← rd16 d ip
      let lp := ip + 2 + 2 * gc
      let l ← rd16 d lp
      let np := lp + 2 + 2 * l
      let n ← rd16 d np
      need d np (2 + 4 * n)
      pure (.ctx3 ((offsets16 d p (ip + 2) gc).map (· >>= covAt d))
        (((offsets16 d p (p + 4) b) ++ (offsets16 d p (lp + 2) l)).map (· >>= covAt d))
        (seqRecsAt d (np + 2) n))
    else
      let gc ← rd16 d (p + 2)
      let n ← rd16 d (p + 4)
      need d p (6 + 2 * gc + 4 * n)
      pure (.ctx3 ((offsets16 d p (p + 6) gc).map (· >>= covAt d)) [] (seqRecsAt d (p + 6 + 2 * gc) n))
  else .error (.invalidFormat fmt)

/-- `T::read` for the subtable type `T` of lookup type `ty` (1–6, 8) at `p` -/
def subAt (d : List Nat) (ty p : Nat) : PR Sub :=
  if ty = 1 then do
    let fmt ← rd16 d p
    if fmt = 1 then
      need d p 6
      pure (.single1 (covOff d p (p + 2)) (toSigned 16 (beAt d (p + 4) 2)))
    else if fmt = 2 then
      let n ← rd16 d (p + 4)
      need d p (6 + 2 * n)
      pure (.single2 (covOff d p (p + 2)) (u16sAt d (p + 6) n))
    else .error (.invalidFormat fmt)
  else if ty = 2 ∨ ty = 3 then do
    let n ← rd16 d (p + 4)
    need d p (6 + 2 * n)
    pure (.multiple (covOff d p (p + 2)) ((offsets16 d p (p + 6) n).map (· >>= seqAt d)))
  else if ty = 4 then do
    let n ← rd16 d (p + 4)
    need d p (6 + 2 * n)
    pure (.ligature (covOff d p (p + 2)) ((offsets16 d p (p + 6) n).map (· >>= ligSetAt d)))
  else if ty = 5 then contextAt false d p
  else if ty = 6 then contextAt true d p
  else do
    -- `ReverseChainSingleSubstFormat1::read`
    let b ← rd16 d (p + 4)
    let lp := p + 6 + 2 * b
    let l ← rd16 d lp
    let np := lp + 2 + 2 * l
    let n ← rd16 d np
    need d np (2 + 2 * n)
    pure (.reverse (((offsets16 d p (p + 6) b) ++ (offsets16 d p (lp + 2) l)).map (· >>= covAt d))
      (covOff d p (p + 2)) (u16sAt d (np + 2) n))

/-- `SubstitutionLookup::read` (`Lookup::read` + the lookup type check), then what
`SubstitutionLookup::subtables()` and `Subtables::iter` produce: for the extension type 7 the type of
the FIRST extension subtable selects `T`, and every subtable is `ExtensionSubstFormat1::read` (8 bytes)
followed by `extension()` (a non-nullable `Offset32` from the extension subtable). -/
def lookupAt (d : List Nat) (p : Nat) : PR Lookup := do
  let ty ← rd16 d p
  let flag ← rd16 d (p + 2)
  let n ← rd16 d (p + 4)
  need d p (6 + 2 * n + (if flag / 16 % 2 = 1 then 2 else 0))
  if ty = 0 ∨ ty > 8 then .error (.invalidFormat ty)
  else
    let offs := offsets16 d p (p + 6) n
    if ty ≠ 7 then pure (.ok (offs.map (· >>= subAt d ty)))
    else
      pure (do
        let first ← (match u16sAt d (p + 6) n with
          | [] => .error .oob
          | off :: _ => resolveAt d p off)
        need d first 8
        let ety : Nat := HandRead.beAt d (first + 2) 2
        if ety = 0 ∨ ety = 7 ∨ ety > 8 then .error (.invalidFormat ety)
        else
          pure (offs.map (fun r => do
            let q ← r
            need d q 8
            let t ← resolveAt d q (beAt d (q + 4) 4)
            subAt d ety t)))

/-- `Feature::read_with_args`: the `lookup_list_indices` -/
def featureAt (d : List Nat) (q : Nat) : PR (List Nat) := do
  let n ← rd16 d (q + 2)
  need d q (4 + 2 * n)
  pure (u16sAt d (q + 4) n)

/-- the parts of a GSUB table the closure uses -/
structure GsubT where
  /-- `feature_list()` and, per record, `rec.feature(data)`'s lookup indices -/
  features : PR (List (PR (List Nat)))
  /-- `feature_variations()`: `None` (version 1.0 / null offset) or the table; per record
  `feature_table_substitution(data).transpose().ok().flatten()` (an error is swallowed: `None`) and
  per substitution record `alternate_feature(..)`'s lookup indices -/
  fvars : Option (PR (List (Option (List (PR (List Nat))))))
  /-- `lookup_list()` and `lookups().get(i)` for every `i < lookup_count` -/
  lookups : PR (List (PR Lookup))
  deriving Repr

def featureListAt (d : List Nat) (q : Nat) : PR (List (PR (List Nat))) := do
  let n ← rd16 d q
  need d q (2 + 6 * n)
  pure ((List.range n).map (fun i => resolveAt d q (beAt d (q + 2 + 6 * i + 4) 2) >>= featureAt d))

def lookupListAt (d : List Nat) (q : Nat) : PR (List (PR Lookup)) := do
  let n ← rd16 d q
  need d q (2 + 2 * n)
  pure ((offsets16 d q (q + 2) n).map (· >>= lookupAt d))

/-- `FeatureTableSubstitution::read` + `alternate_feature` of every record -/
def featSubstAt (d : List Nat) (q : Nat) : PR (List (PR (List Nat))) := do
  let n ← rd16 d (q + 4)
  need d q (6 + 6 * n)
  pure ((List.range n).map (fun i => resolveAt d q (beAt d (q + 6 + 6 * i + 2) 4) >>= featureAt d))

def featureVarsAt (d : List Nat) (q : Nat) : PR (List (Option (List (PR (List Nat))))) := do
  let n ← rd32 d (q + 4)
  need d q (8 + 8 * n)
  pure ((List.range n).map (fun i =>
    let off : Nat := HandRead.beAt d (q + 8 + 8 * i + 4) 4
    if off = 0 then none
    else match resolveAt d q off >>= featSubstAt d with
      | .ok t => some t
      | .error _ => none))

/-- `Gsub::read` (header; version 1.1 adds the feature variations offset) -/
def gsubRead (d : List Nat) : PR GsubT := do
  let major ← rd16 d 0
  let minor ← rd16 d 2
  let v11 := major = 1 ∧ minor ≥ 1
  need d 0 (if v11 then 14 else 10)
  let fv : Option (PR (List (Option (List (PR (List Nat)))))) :=
    if v11 then
      let off : Nat := HandRead.beAt d 10 4
      if off = 0 then none else some (resolveAt d 0 off >>= featureVarsAt d)
    else none
  pure ⟨resolveAt d 0 (beAt d 6 2) >>= featureListAt d, fv, resolveAt d 0 (beAt d 8 2) >>= lookupListAt d⟩

/-! ## GSUB glyph closure (read-fonts/src/tables/gsub/closure.rs)

`IntSet<GlyphId16>` is the ascending list of its members; a value that is not a `u16` cannot be a
`GlyphId16` and is never a member (`G16.ins`).  `IntSet<u16>` scratch sets (`seen_sequence_indices`,
`our_classes`) are plain lists used through `contains`. -/

/-- a step of the closure: a value, `Err(ReadError)`, or a panic -/
inductive CR (α : Type) where
  | ok (a : α)
  | err (e : LErr)
  | trap
  deriving Repr, DecidableEq

def CR.bind {α β : Type} (r : CR α) (k : α → CR β) : CR β :=
  match r with
  | .ok a => k a
  | .err e => .err e
  | .trap => .trap

def CR.ofRes {α : Type} : Res α → CR α
  | .val a => .ok a
  | .trap => .trap

abbrev G16 := List Nat

/-- `IntSet<GlyphId16>::insert` -/
def G16.ins (s : G16) (g : Nat) : G16 := if g < 65536 then insertUniq g s else s
/-- `IntSet::extend` / `collect` / `from` -/
def G16.ext (s : G16) (xs : List Nat) : G16 := xs.foldl G16.ins s
def G16.ofList (xs : List Nat) : G16 := G16.ext [] xs

/-- `ContextualLookupRef { lookup_id, active_glyphs }` -/
abbrev Todo := Nat × Option G16

/-- `ClosureCtx`: the closure glyphs, `cur_glyphs`, `finished_lookups` (a map), the todo `Vec`
(head = last pushed = next popped) -/
structure Cx where
  glyphs : G16
  cur : Option G16
  finished : List (Nat × Nat × Option G16)
  todos : List Todo
  deriving Repr

/-- `ClosureCtx::current_glyphs`: `cur_glyphs` or, when `None`, the (growing) closure glyphs -/
def Cx.current (c : Cx) : G16 := c.cur.getD c.glyphs
def Cx.addGlyph (c : Cx) (g : Nat) : Cx := { c with glyphs := c.glyphs.ins g }
def Cx.extendGlyphs (c : Cx) (gs : List Nat) : Cx := { c with glyphs := c.glyphs.ext gs }
def Cx.addTodo (c : Cx) (id : Nat) (active : Option G16) : Cx := { c with todos := (id, active) :: c.todos }

def finishedGet (m : List (Nat × Nat × Option G16)) (id : Nat) : Option (Nat × Option G16) :=
  (m.find? (fun e => e.1 == id)).map (·.2)

def finishedSet (m : List (Nat × Nat × Option G16)) (id : Nat) (v : Nat × Option G16) : List (Nat × Nat × Option G16) :=
  (id, v) :: m.filter (fun e => e.1 != id)

/-- `covered.as_ref().map(|cov| cov.contains(gid)).unwrap_or(false)` -/
def coveredHas (covered : Option G16) (g : Nat) : Bool :=
  match covered with
  | some cov => cov.contains g
  | none => false

/-- `ClosureCtx::needs_to_do_lookup(id, current_glyphs)`: the entry `(count, covered)` of the lookup is
reset when the closure grew since it was last run; the lookup is skipped when every current glyph is
already covered; otherwise the current glyphs are added to `covered`. -/
def needsToDo (c : Cx) (id : Nat) (current : Option G16) : Bool × Cx :=
  let e0 := (finishedGet c.finished id).getD (0, none)
  let e1 : Nat × Option G16 := if e0.1 ≠ c.glyphs.length then (c.glyphs.length, some []) else e0
  let cur := current.getD c.glyphs
  if cur.all (coveredHas e1.2) then
    (false, { c with finished := finishedSet c.finished id e1 })
  else
    (true, { c with finished := finishedSet c.finished id (e1.1, some ((e1.2.getD []).ext cur)) })

/-- `SingleSubstFormat1::iter_subs`: `(gid as i32).checked_add(delta as i32)`, `u16::try_from(..).ok()?` -/
def single1Subs (covGlyphs : List Nat) (delta : Int) : List (Nat × Nat) :=
  covGlyphs.filterMap (fun (g : Nat) =>
    let raw : Int := (g : Int) + delta
    if -2147483648 ≤ raw ∧ raw ≤ 2147483647 ∧ 0 ≤ raw ∧ raw < 65536 then some (g, raw.toNat) else none)

/-- `for (target, replacement) in … { if ctx.current_glyphs().contains(target) { ctx.add_glyph(replacement) } }`
(`SingleSubst`, the last loop of `ReverseChainSingleSubstFormat1`) -/
def addPairs (c : Cx) : List (Nat × Nat) → Cx
  | [] => c
  | (t, r) :: rest => addPairs (if c.current.contains t then c.addGlyph r else c) rest

/-- the loop of `MultipleSubstFormat1` / `AlternateSubstFormat1` over `coverage.iter().zip(sets.iter())`:
`replacements?` comes before the membership test -/
def addSeqs (c : Cx) : List (Nat × PR (List Nat)) → CR Cx
  | [] => .ok c
  | (_, .error e) :: _ => .err e
  | (g, .ok reps) :: rest => addSeqs (if c.current.contains g then c.extendGlyphs reps else c) rest

/-- `for lig in lig_set.ligatures().iter()`: `lig?`, all components in the closure glyphs → add -/
def addLigs (c : Cx) : List (PR (Nat × List Nat)) → CR Cx
  | [] => .ok c
  | .error e :: _ => .err e
  | .ok (lig, comps) :: rest => addLigs (if comps.all (fun g => c.glyphs.contains g) then c.addGlyph lig else c) rest

/-- the loop of `LigatureSubstFormat1` over `coverage.iter().zip(ligature_sets().iter())` -/
def addLigSets (c : Cx) : List (Nat × PR (List (PR (Nat × List Nat)))) → CR Cx
  | [] => .ok c
  | (_, .error e) :: _ => .err e
  | (g, .ok ligs) :: rest =>
    if c.current.contains g then (addLigs c ligs).bind (fun c' => addLigSets c' rest) else addLigSets c rest

/-- the first loop of `ReverseChainSingleSubstFormat1`: every backtrack / lookahead coverage must
contain a closure glyph (`coverage?` first) -/
def reverseGate (c : Cx) : List (PR Coverage) → CR Bool
  | [] => .ok true
  | .error e :: _ => .err e
  | .ok cov :: rest => if (covIter cov).any (fun g => c.glyphs.contains g) then reverseGate c rest else .ok false

/-- `intersect_coverage`: `None` for an empty intersection -/
def intersectCoverage (cov : Coverage) (glyphs : G16) : Option G16 :=
  let r := G16.ofList ((covIter cov).filter (fun g => glyphs.contains g))
  if r.isEmpty then none else some r

/-- the `for lookup_record in rule.lookup_records()` loop of `ContextFormat1`; `seen` =
`seen_sequence_indices`, `i` = the rule set's index in `coverage.iter().zip(rule_sets()).enumerate()`.
`coverage.iter().nth(i).unwrap()` and `sequence_idx as usize - 1` are the two panic sites. -/
def ruleTodos1 (covGlyphs : List Nat) (i : Nat) (input : List Nat) : Cx → List Nat → List SeqRec → CR Cx
  | c, _, [] => .ok c
  | c, seen, r :: rest =>
    if seen.contains r.seqIdx then ruleTodos1 covGlyphs i input (c.addTodo r.lookup none) seen rest
    else if r.seqIdx = 0 then
      match covGlyphs[i]? with
      | none => .trap
      | some g => ruleTodos1 covGlyphs i input (c.addTodo r.lookup (some (G16.ofList [g]))) (r.seqIdx :: seen) rest
    else
      match subTrap r.seqIdx 1 with
      | .trap => .trap
      | .val k =>
        match input[k]? with
        | some g => ruleTodos1 covGlyphs i input (c.addTodo r.lookup (some (G16.ofList [g]))) (r.seqIdx :: seen) rest
        | none => ruleTodos1 covGlyphs i input c (r.seqIdx :: seen) rest

/-- `Format1Rule::matches_glyphs` / `Format2Rule::matches_classes` -/
def ruleMatches (r : Rule) (s : List Nat) : Bool := (r.input ++ r.back ++ r.look).all (fun g => s.contains g)

/-- `for rule in seq?.rules()` of `ContextFormat1` -/
def rulesLoop1 (covGlyphs : List Nat) (i : Nat) : Cx → List (PR Rule) → CR Cx
  | c, [] => .ok c
  | _, .error e :: _ => .err e
  | c, .ok rule :: rest =>
    if ruleMatches rule c.glyphs then
      (ruleTodos1 covGlyphs i rule.input c [] rule.recs).bind (fun c' => rulesLoop1 covGlyphs i c' rest)
    else rulesLoop1 covGlyphs i c rest

/-- the outer loop of `ContextFormat1`: `coverage.iter().zip(rule_sets()).enumerate()`, null rule sets and
rule sets of glyphs outside `cur_glyphs` filtered out, then `seq?` -/
def setsLoop1 (covGlyphs : List Nat) (curGlyphs : G16) : Cx → Nat → List (Nat × Option (PR (List (PR Rule)))) → CR Cx
  | c, _, [] => .ok c
  | c, i, (_, none) :: rest => setsLoop1 covGlyphs curGlyphs c (i + 1) rest
  | c, i, (g, some s) :: rest =>
    if curGlyphs.contains g then
      match s with
      | .error e => .err e
      | .ok rules => (rulesLoop1 covGlyphs i c rules).bind (fun c' => setsLoop1 covGlyphs curGlyphs c' (i + 1) rest)
    else setsLoop1 covGlyphs curGlyphs c (i + 1) rest

/-- `make_class_set`: the classes of the closure glyphs -/
def makeClassSet (cls : ClassDef) : List Nat → CR (List Nat)
  | [] => .ok []
  | g :: rest => (CR.ofRes (clsGet cls g)).bind (fun k => (makeClassSet cls rest).bind (fun ks => .ok (k :: ks)))

/-- `intersect_class`: the glyphs of the set with that class -/
def intersectClass (cls : ClassDef) (cl : Nat) : List Nat → CR G16
  | [] => .ok []
  | g :: rest =>
    (CR.ofRes (clsGet cls g)).bind (fun k =>
      (intersectClass cls cl rest).bind (fun gs => .ok (if k = cl then G16.ofList (g :: gs) else gs)))

/-- the lookup record loop of `ContextFormat2` for the rule set of class `classI` -/
def ruleTodos2 (cls : ClassDef) (curGlyphs : G16) (classI : Nat) (input : List Nat) : Cx → List Nat → List SeqRec → CR Cx
  | c, _, [] => .ok c
  | c, seen, r :: rest =>
    if seen.contains r.seqIdx then ruleTodos2 cls curGlyphs classI input (c.addTodo r.lookup none) seen rest
    else if r.seqIdx = 0 then
      (intersectClass cls classI curGlyphs).bind (fun a =>
        ruleTodos2 cls curGlyphs classI input (c.addTodo r.lookup (some a)) (r.seqIdx :: seen) rest)
    else
      match subTrap r.seqIdx 1 with
      | .trap => .trap
      | .val k =>
        match input[k]? with
        | some cl =>
          (intersectClass cls cl c.glyphs).bind (fun a =>
            ruleTodos2 cls curGlyphs classI input (c.addTodo r.lookup (some a)) (r.seqIdx :: seen) rest)
        | none => ruleTodos2 cls curGlyphs classI input c (r.seqIdx :: seen) rest

def rulesLoop2 (cls : ClassDef) (curGlyphs : G16) (ourClasses : List Nat) (classI : Nat) : Cx → List (PR Rule) → CR Cx
  | c, [] => .ok c
  | _, .error e :: _ => .err e
  | c, .ok rule :: rest =>
    if ruleMatches rule ourClasses then
      (ruleTodos2 cls curGlyphs classI rule.input c [] rule.recs).bind (fun c' =>
        rulesLoop2 cls curGlyphs ourClasses classI c' rest)
    else rulesLoop2 cls curGlyphs ourClasses classI c rest

/-- the outer loop of `ContextFormat2`: `rule_sets().enumerate()`, null sets and sets of classes outside
`our_classes` filtered out (`i as u16`) -/
def setsLoop2 (cls : ClassDef) (curGlyphs : G16) (ourClasses : List Nat) : Cx → Nat → List (Option (PR (List (PR Rule)))) → CR Cx
  | c, _, [] => .ok c
  | c, i, none :: rest => setsLoop2 cls curGlyphs ourClasses c (i + 1) rest
  | c, i, some s :: rest =>
    if ourClasses.contains (i % 65536) then
      match s with
      | .error e => .err e
      | .ok rules =>
        (rulesLoop2 cls curGlyphs ourClasses (i % 65536) c rules).bind (fun c' =>
          setsLoop2 cls curGlyphs ourClasses c' (i + 1) rest)
    else setsLoop2 cls curGlyphs ourClasses c (i + 1) rest

/-- `ArrayOfOffsets::get(idx)` -/
def arrGet {α : Type} (xs : List (PR α)) (idx : Nat) : PR α :=
  match xs[idx]? with
  | some r => r
  | none => .error (.badIndex (idx % 4294967296))

/-- `ContextFormat3::matches_glyphs`: every input / backtrack / lookahead coverage has a closure glyph; a
coverage that fails to read counts as "no" -/
def ctx3Matches (covs : List (PR Coverage)) (glyphs : G16) : Bool :=
  covs.all (fun r => match r with
    | .ok cov => (covIter cov).any (fun g => glyphs.contains g)
    | .error _ => false)

/-- the lookup record loop of `ContextFormat3` (`seen_sequence_indices` is created INSIDE the loop, so
the "seen before" branch is never taken) -/
def ctx3Todos (covs : List (PR Coverage)) (curGlyphs : G16) : Cx → List SeqRec → CR Cx
  | c, [] => .ok c
  | c, r :: rest =>
    if r.seqIdx = 0 then ctx3Todos covs curGlyphs (c.addTodo r.lookup (some curGlyphs)) rest
    else
      match arrGet covs r.seqIdx with
      | .error e => .err e
      | .ok cov =>
        ctx3Todos covs curGlyphs
          (c.addTodo r.lookup (some (G16.ofList ((covIter cov).filter (fun g => c.glyphs.contains g))))) rest

def liftPR {α β : Type} (r : PR α) (k : α → CR β) : CR β :=
  match r with
  | .ok a => k a
  | .error e => .err e

/-- `GlyphClosure::add_reachable_glyphs` of every subtable type -/
def subAdd (c : Cx) : Sub → CR Cx
  | .single1 cov delta => liftPR cov (fun cv => .ok (addPairs c (single1Subs (covIter cv) delta)))
  | .single2 cov subs => liftPR cov (fun cv => .ok (addPairs c ((covIter cv).zip subs)))
  | .multiple cov seqs => liftPR cov (fun cv => addSeqs c ((covIter cv).zip seqs))
  | .ligature cov sets => liftPR cov (fun cv => addLigSets c ((covIter cv).zip sets))
  | .reverse others cov subs =>
    (reverseGate c others).bind (fun pass =>
      if pass then liftPR cov (fun cv => .ok (addPairs c ((covIter cv).zip subs))) else .ok c)
  | .ctx1 cov sets =>
    liftPR cov (fun cv =>
      match intersectCoverage cv c.current with
      | none => .ok c
      | some cur => setsLoop1 (covIter cv) cur c 0 ((covIter cv).zip sets))
  | .ctx2 cov cls sets =>
    liftPR cov (fun cv =>
      match intersectCoverage cv c.current with
      | none => .ok c
      | some cur =>
        liftPR cls (fun cd =>
          (makeClassSet cd c.glyphs).bind (fun ours => setsLoop2 cd cur ours c 0 sets)))
  | .ctx3 covs others recs =>
    liftPR (arrGet covs 0) (fun cov0 =>
      match intersectCoverage cov0 c.current with
      | none => .ok c
      | some cur => if ctx3Matches (covs ++ others) c.glyphs then ctx3Todos covs cur c recs else .ok c)

/-- `Subtables::add_reachable_glyphs`: `self.iter().try_for_each(|t| t?.add_reachable_glyphs(ctx))` -/
def subsLoop : Cx → List (PR Sub) → CR Cx
  | c, [] => .ok c
  | _, .error e :: _ => .err e
  | c, .ok s :: rest => (subAdd c s).bind (fun c' => subsLoop c' rest)

/-- `ClosureCtx::closure_glyphs(lookup, lookup_id, current_glyphs)` -/
def closureLookup (c : Cx) (lk : Lookup) (id : Nat) (current : Option G16) : CR Cx :=
  let r := needsToDo c id current
  if r.1 then
    liftPR lk (fun subs => (subsLoop { r.2 with cur := current } subs).bind (fun c' => .ok { c' with cur := none }))
  else .ok r.2

/-- the `for idx in lookups_to_use.iter()` loop of `closure_glyphs_once` -/
def onceLookups (lookups : List (PR Lookup)) : Cx → List Nat → CR Cx
  | c, [] => .ok c
  | c, idx :: rest =>
    liftPR (arrGet lookups idx) (fun lk => (closureLookup c lk idx none).bind (fun c' => onceLookups lookups c' rest))

/-- the `while let Some(todo) = ctx.pop_a_todo()` loop; `none` = out of fuel -/
def todoLoop (lookups : List (PR Lookup)) : Nat → Cx → Option (CR Cx)
  | 0, _ => none
  | fuel + 1, c =>
    match c.todos with
    | [] => some (.ok c)
    | (id, active) :: rest =>
      match arrGet lookups id with
      | .error e => some (.err e)
      | .ok lk =>
        match closureLookup { c with todos := rest } lk id active with
        | .ok c' => todoLoop lookups fuel c'
        | .err e => some (.err e)
        | .trap => some .trap

/-- `Gsub::closure_glyphs_once` (`self.lookup_list()?` first) -/
def closureOnce (g : GsubT) (reachable : List Nat) (fuel : Nat) (c : Cx) : Option (CR Cx) :=
  match g.lookups with
  | .error e => some (.err e)
  | .ok lookups =>
    match onceLookups lookups c reachable with
    | .ok c' => todoLoop lookups fuel c'
    | .err e => some (.err e)
    | .trap => some .trap

/-- `lookup_ids.extend(feature?.lookup_list_indices())` over a list of features -/
def extendIds : List Nat → List (PR (List Nat)) → PR (List Nat)
  | ids, [] => .ok ids
  | _, .error e :: _ => .error e
  | ids, .ok xs :: rest => extendIds (xs.foldl (fun s x => insertUniq x s) ids) rest

/-- `Gsub::find_reachable_lookups`: the lookup indices of every feature of the feature list, then of every
alternate feature of the feature variations (`feature_variations().transpose()?`) -/
def findReachable (g : GsubT) : PR (List Nat) := do
  let feats ← g.features
  let alts ← (match g.fvars with
    | none => pure []
    | some r => do
      let recs ← r
      pure (recs.flatMap (fun o => o.getD [])))
  extendIds [] (feats ++ alts)

/-- the `while (prev_glyph_count, prev_lookup_count) != (new_glyph_count, new_lookup_count)` loop of
`Gsub::closure_glyphs`; `none` = out of fuel (outer fuel `fuelO`, inner `fuelI`) -/
def closureLoop (g : GsubT) (reachable : List Nat) (fuelI : Nat) : Nat → Nat × Nat → Cx → Option (CR Cx)
  | 0, _, _ => none
  | fuelO + 1, prev, c =>
    let new := (c.glyphs.length, reachable.length)
    if prev = new then some (.ok c)
    else
      match closureOnce g reachable fuelI c with
      | none => none
      | some (.ok c') => closureLoop g reachable fuelI fuelO new c'
      | some (.err e) => some (.err e)
      | some .trap => some .trap

/-! ### fuel that always suffices (Props/C01HandLayout.lean `closure_glyphs_terminates`)

A lookup pushes at most as many todos as it has sequence lookup records (`…Cost`). -/

/-- total number of lookup records of a rule list -/
def rulesCost : List (PR Rule) → Nat
  | [] => 0
  | .error _ :: rest => rulesCost rest
  | .ok r :: rest => r.recs.length + rulesCost rest

def setCost : Option (PR (List (PR Rule))) → Nat
  | some (.ok rules) => rulesCost rules
  | _ => 0

def setsCost1 : List (Nat × Option (PR (List (PR Rule)))) → Nat
  | [] => 0
  | (_, s) :: rest => setCost s + setsCost1 rest

def setsCost2 : List (Option (PR (List (PR Rule)))) → Nat
  | [] => 0
  | s :: rest => setCost s + setsCost2 rest

/-- the number of todos one subtable can push: its lookup records -/
def subCost : Sub → Nat
  | .ctx1 cov sets => (match cov with
      | .ok cv => setsCost1 ((covIter cv).zip sets)
      | .error _ => 0)
  | .ctx2 _ _ sets => setsCost2 sets
  | .ctx3 _ _ recs => recs.length
  | _ => 0

def subsCost : List (PR Sub) → Nat
  | [] => 0
  | .error _ :: rest => subsCost rest
  | .ok s :: rest => subCost s + subsCost rest

def lookupCost : Lookup → Nat
  | .ok subs => subsCost subs
  | .error _ => 0

/-- the largest number of todos one lookup of the list can push -/
def maxCost : List (PR Lookup) → Nat
  | [] => 0
  | .ok lk :: rest => max (lookupCost lk) (maxCost rest)
  | .error _ :: rest => maxCost rest

/-- fuel for the todo loop of one pass over `R` reachable lookups of a list of `L` lookups, each pushing
at most `K` todos -/
def onceFuel (L K R : Nat) : Nat := (65536 * (L * 65537 + 1) + L * 65537) * (K + 1) + R * K + 1

def closureFuel (g : GsubT) (reachable : List Nat) : Nat :=
  match g.lookups with
  | .ok ls => onceFuel ls.length (maxCost ls) reachable.length
  | .error _ => 1

/-- `Gsub::closure_glyphs(glyphs)`: at most `65536 + 2` passes; the todo loop of a pass gets `onceFuel` -/
def closureGlyphs (g : GsubT) (glyphs : G16) : Option (CR G16) :=
  match findReachable g with
  | .error e => some (.err e)
  | .ok reachable =>
    match closureLoop g reachable (closureFuel g reachable) 65538 (0, 0) ⟨glyphs, none, [], []⟩ with
    | none => none
    | some (.ok c) => some (.ok c.glyphs)
    | some (.err e) => some (.err e)
    | some .trap => some .trap

/-! ## `collect_features` (read-fonts/src/tables/layout/closure.rs, gsub/closure.rs, gpos/closure.rs)

`IntSet<Tag>` arguments: `inv = false` — the ascending member list; `inv = true` (`is_inverted()`, e.g.
`IntSet::all()` with some tags removed) — the excluded tags. -/

structure TagSet where
  inv : Bool
  xs : List Nat
  deriving Repr, DecidableEq

def TagSet.contains (s : TagSet) (t : Nat) : Bool := s.inv != s.xs.contains t

/-- a `LangSys` table: its position (the key of `visited_langsys`), `required_feature_index`,
`feature_indices` -/
structure LangSysT where
  pos : Nat
  required : Nat
  features : List Nat
  deriving Repr, DecidableEq

/-- a `Script` table: position, `default_lang_sys()` (nullable), `(tag, rec.lang_sys(data))` records -/
structure ScriptT where
  pos : Nat
  dflt : Option (PR LangSysT)
  langs : List (Nat × PR LangSysT)
  deriving Repr

def langSysAt (d : List Nat) (q : Nat) : PR LangSysT := do
  let n ← rd16 d (q + 4)
  need d q (6 + 2 * n)
  pure ⟨q, beAt d (q + 2) 2, u16sAt d (q + 6) n⟩

def scriptAt (d : List Nat) (q : Nat) : PR ScriptT := do
  let n ← rd16 d (q + 2)
  need d q (4 + 6 * n)
  let off : Nat := HandRead.beAt d q 2
  pure ⟨q, if off = 0 then none else some (resolveAt d q off >>= langSysAt d),
    (List.range n).map (fun i => (beAt d (q + 4 + 6 * i) 4, resolveAt d q (beAt d (q + 4 + 6 * i + 4) 2) >>= langSysAt d))⟩

/-- `Gsub::collect_features` / `Gpos::collect_features` up to the call of
`ScriptList::collect_features`: `feature_list()?` (only the record tags are used), `script_list()?`
(`(tag, rec.script(data))` records) -/
def collectRead (d : List Nat) : PR (List Nat × List (Nat × PR ScriptT)) := do
  let fl ← resolveAt d 0 (beAt d 6 2)
  let nf ← rd16 d fl
  need d fl (2 + 6 * nf)
  let sl ← resolveAt d 0 (beAt d 4 2)
  let ns ← rd16 d sl
  need d sl (2 + 6 * ns)
  pure ((List.range nf).map (fun i => beAt d (fl + 2 + 6 * i) 4),
    (List.range ns).map (fun i => (beAt d (sl + 2 + 6 * i) 4, resolveAt d sl (beAt d (sl + 2 + 6 * i + 4) 2) >>= scriptAt d)))

/-- `CollectFeaturesContext` (`table_head` is the parameter `head` of the functions below) -/
structure CF where
  scriptCount : Nat
  langsysCount : Nat
  featureIndexCount : Nat
  visitedScript : List Nat
  visitedLangsys : List Nat
  /-- `feature_indices` (the result), ascending -/
  out : List Nat
  /-- `feature_indices_filter` -/
  filter : List Nat
  deriving Repr, DecidableEq

/-- `u16` `+= 1` of the overflow-checked profile -/
def inc16 (a : Nat) : Res Nat := if a + 1 < 65536 then .val (a + 1) else .trap

/-- `script_visited` / `langsys_visited` on `(count, visited)` with limit `max`: over the limit →
`true`; `count += 1`; `delta = (ptr - table_head) as u32`; `!visited.insert(delta)` -/
def visitedStep (count : Nat) (visited : List Nat) (max head addr : Nat) : Res (Bool × Nat × List Nat) :=
  if count > max then .val (true, count, visited)
  else
    (inc16 count).bind (fun n =>
      (subTrap addr head).bind (fun delta =>
        let k := delta % 4294967296
        .val (visited.contains k, n, if visited.contains k then visited else k :: visited)))

/-- `feature_indices_limit_exceeded(count)`: `overflowing_add`; on overflow the counter becomes the
limit; `MAX_FEATURE_INDICES = 1500` -/
def limitExceeded (c : CF) (count : Nat) : Bool × CF :=
  let s := c.featureIndexCount + count
  if s ≥ 65536 then (true, { c with featureIndexCount := 1500 })
  else (decide (s > 1500), { c with featureIndexCount := s })

/-- the `for feature_index in self.feature_indices()` loop of `LangSys::collect_features` -/
def langFeatures (c : CF) : List Nat → CF
  | [] => c
  | idx :: rest =>
    if c.filter.contains idx then
      langFeatures { c with out := insertUniq idx c.out, filter := c.filter.filter (· != idx) } rest
    else langFeatures c rest

/-- `if required != 0xFFFF && !c.feature_indices_limit_exceeded(1) && filter.contains(required) { insert }`
(short circuit: the limit counter moves only for a real required feature) -/
def requiredStep (c : CF) (required : Nat) : CF :=
  if required ≠ 65535 then
    let l := limitExceeded c 1
    if !l.1 && l.2.filter.contains required then { l.2 with out := insertUniq required l.2.out } else l.2
  else c

/-- the part of `LangSys::collect_features(c)` behind the visited / empty-filter checks -/
def langSysBody (c : CF) (ls : LangSysT) : CF :=
  let l2 := limitExceeded (requiredStep c ls.required) ls.features.length
  if l2.1 then l2.2 else langFeatures l2.2 ls.features

/-- `LangSys::collect_features(c)` -/
def langSysCollect (head : Nat) (c : CF) (ls : LangSysT) : Res CF :=
  (visitedStep c.langsysCount c.visitedLangsys 2000 head (head + ls.pos)).bind (fun r =>
    let c1 := { c with langsysCount := r.2.1, visitedLangsys := r.2.2 }
    if r.1 then .val c1
    else if c1.filter.isEmpty then .val c1
    else .val (langSysBody c1 ls))

/-- a `Result<(), ReadError>` step that may panic -/
abbrev RR (α : Type) := Res (PR α)

/-- the record loop of `Script::collect_features` for an inverted language set -/
def scriptLangsInv (head : Nat) (languages : TagSet) : CF → List (Nat × PR LangSysT) → RR CF
  | c, [] => .val (.ok c)
  | c, (tag, r) :: rest =>
    if !languages.contains tag then scriptLangsInv head languages c rest
    else match r with
      | .error e => .val (.error e)
      | .ok ls => (langSysCollect head c ls).bind (fun c' => scriptLangsInv head languages c' rest)

/-- … and for a plain set: `languages.iter().filter_map(|tag| self.lang_sys_index_for_tag(tag))`, then
`lang_sys_records[idx as usize]` (index panic) -/
def scriptLangsSel (head : Nat) (recs : List (Nat × PR LangSysT)) : CF → List Nat → RR CF
  | c, [] => .val (.ok c)
  | c, tag :: rest =>
    match indexForTag (recs.map (·.1)) tag with
    | none => scriptLangsSel head recs c rest
    | some idx =>
      match recs[idx]? with
      | none => .trap
      | some (_, .error e) => .val (.error e)
      | some (_, .ok ls) => (langSysCollect head c ls).bind (fun c' => scriptLangsSel head recs c' rest)

/-- `Script::collect_features(c, languages)` -/
def scriptCollect (head : Nat) (languages : TagSet) (c : CF) (s : ScriptT) : RR CF :=
  (visitedStep c.scriptCount c.visitedScript 500 head (head + s.pos)).bind (fun r =>
    let c1 := { c with scriptCount := r.2.1, visitedScript := r.2.2 }
    if r.1 then .val (.ok c1)
    else
      -- `self.default_lang_sys().transpose()?`
      let afterDflt : RR CF := match s.dflt with
        | none => .val (.ok c1)
        | some (.error e) => .val (.error e)
        | some (.ok ls) => (langSysCollect head c1 ls).bind (fun c' => .val (.ok c'))
      afterDflt.bind (fun r2 => match r2 with
        | .error e => .val (.error e)
        | .ok c2 =>
          if languages.inv then scriptLangsInv head languages c2 s.langs
          else scriptLangsSel head s.langs c2 languages.xs))

def scriptsInv (head : Nat) (scripts languages : TagSet) : CF → List (Nat × PR ScriptT) → RR CF
  | c, [] => .val (.ok c)
  | c, (tag, r) :: rest =>
    if !scripts.contains tag then scriptsInv head scripts languages c rest
    else match r with
      | .error e => .val (.error e)
      | .ok s => (scriptCollect head languages c s).bind (fun r2 => match r2 with
          | .error e => .val (.error e)
          | .ok c' => scriptsInv head scripts languages c' rest)

def scriptsSel (head : Nat) (languages : TagSet) (recs : List (Nat × PR ScriptT)) : CF → List Nat → RR CF
  | c, [] => .val (.ok c)
  | c, tag :: rest =>
    match indexForTag (recs.map (·.1)) tag with
    | none => scriptsSel head languages recs c rest
    | some idx =>
      match recs[idx]? with
      | none => .trap
      | some (_, .error e) => .val (.error e)
      | some (_, .ok s) => (scriptCollect head languages c s).bind (fun r2 => match r2 with
          | .error e => .val (.error e)
          | .ok c' => scriptsSel head languages recs c' rest)

/-- `ScriptList::collect_features(head, feature_list, scripts, languages, features)` with
`CollectFeaturesContext::new` (the filter: indices, `as u16`, of the features whose tag is wanted) -/
def collectFeatures (head : Nat) (featureTags : List Nat) (recs : List (Nat × PR ScriptT))
    (scripts languages features : TagSet) : RR (List Nat) :=
  let filter := ((List.range featureTags.length).zip featureTags).filterMap (fun p =>
    if features.contains p.2 then some (p.1 % 65536) else none)
  let c0 : CF := ⟨0, 0, 0, [], [], [], filter.foldl (fun s x => insertUniq x s) []⟩
  let r := if scripts.inv then scriptsInv head scripts languages c0 recs
           else scriptsSel head languages recs c0 scripts.xs
  r.bind (fun x => .val (x.map (·.out)))

end FontVerif.HandLayout
