/-
C01 (hand-written code) — transcriptions of the loop-carrying / index-computing hand-written functions of
read-fonts/src/tables/layout.rs / gsub.rs / gpos.rs / gdef.rs and the closure modules (Coverage / ClassDef lookups and iterators, Device / VariationIndex decoding, lookup-list walking, context rule walking, FeatureVariations conditions).

Every definition cites the Rust function it transcribes (file + fn) and keeps its checked / saturating /
wrapping arithmetic and its error returns; `Res.trap` results mark what would be a panic of
the overflow-checked profile, and Props/C01HandLayout.lean shows they are never produced.  Tied to the real code
by harness group `layout.model` (driver commands `hl.*`, Drv/C01HandLayout.lean).

The binary searches are the transcription of `core::slice::binary_search_by` of Model/Layout.lean
(`Layout.binarySearchBy`), so every result is determined for unsorted / overlapping records, too; the
parsed forms are the `Layout.Coverage` / `Layout.ClassDef` / `Layout.RangeRec` types of that file.
-/
import FontVerif.Model.ReadIter
import FontVerif.Model.HandRead
import FontVerif.Model.Layout
import FontVerif.Model.ShapeExt
namespace FontVerif.HandLayout
open FontVerif FontVerif.ReadIter FontVerif.HandRead FontVerif.Layout

/-! ## results with a representable panic -/

/-- the value a function returns, or a panic of the overflow-checked profile -/
inductive Res (α : Type) where
  | val (a : α)
  | trap
  deriving Repr, DecidableEq

def Res.bind {α β : Type} (r : Res α) (k : α → Res β) : Res β :=
  match r with
  | .val a => k a
  | .trap => .trap

/-- `u16` / `usize` subtraction `a - b` of the overflow-checked profile -/
def subTrap (a b : Nat) : Res Nat := if b ≤ a then .val (a - b) else .trap

/-- `usize` addition of the overflow-checked profile -/
def addTrapU (a b : Nat) : Res Nat := if a + b ≤ MAXU then .val (a + b) else .trap

/-- `Iterator::any` with a closure that may panic: stops at the first `true` -/
def anyR {α : Type} (f : α → Res Bool) : List α → Res Bool
  | [] => .val false
  | x :: xs =>
    match f x with
    | .trap => .trap
    | .val true => .val true
    | .val false => anyR f xs

/-! ## generated readers (generated_layout.rs) of the tables the hand-written methods work on -/

inductive LErr where
  | oob
  | invalidFormat (n : Nat)
  deriving Repr, DecidableEq

/-- the `n` big-endian `u16`s at byte `at` (only used when they exist) -/
def u16sAt (d : List Nat) (at_ n : Nat) : List Nat := (List.range n).map (fun i => beAt d (at_ + 2 * i) 2)

/-- the `n` 6-byte records `(u16, u16, u16)` at byte `at` -/
def triplesAt (d : List Nat) (at_ n : Nat) : List (Nat × Nat × Nat) :=
  (List.range n).map (fun i => (beAt d (at_ + 6 * i) 2, beAt d (at_ + 6 * i + 2) 2, beAt d (at_ + 6 * i + 4) 2))

/-- `CoverageTable::read` (format switch) with `CoverageFormat1::read` (`glyph_count` × `GlyphId16`) and
`CoverageFormat2::read` (`range_count` × `RangeRecord`): cursor reads, `advance_by(count * size)`,
`finish` = one final bounds check. -/
def covRead (d : List Nat) : Except LErr Coverage :=
  match readAt d 0 2 with
  | none => .error .oob
  | some fmt =>
    if fmt = 1 then
      match readAt d 2 2 with
      | none => .error .oob
      | some n => if 4 + n * 2 ≤ d.length then .ok (.fmt1 (u16sAt d 4 n)) else .error .oob
    else if fmt = 2 then
      match readAt d 2 2 with
      | none => .error .oob
      | some n =>
        if 4 + n * 6 ≤ d.length then
          .ok (.fmt2 ((triplesAt d 4 n).map (fun t => ⟨t.1, t.2.1, t.2.2⟩)))
        else .error .oob
    else .error (.invalidFormat fmt)

/-- `ClassDef::read` with `ClassDefFormat1::read` (`start_glyph_id`, `glyph_count` × `u16`) and
`ClassDefFormat2::read` (`class_range_count` × `ClassRangeRecord`) -/
def clsRead (d : List Nat) : Except LErr ClassDef :=
  match readAt d 0 2 with
  | none => .error .oob
  | some fmt =>
    if fmt = 1 then
      match readAt d 2 2, readAt d 4 2 with
      | some start, some n => if 6 + n * 2 ≤ d.length then .ok (.fmt1 start (u16sAt d 6 n)) else .error .oob
      | _, _ => .error .oob
    else if fmt = 2 then
      match readAt d 2 2 with
      | none => .error .oob
      | some n =>
        if 4 + n * 6 ≤ d.length then
          .ok (.fmt2 ((triplesAt d 4 n).map (fun t => ⟨t.1, t.2.1, t.2.2⟩)))
        else .error .oob
    else .error (.invalidFormat fmt)

/-! ## Coverage (read-fonts/src/tables/layout.rs) -/

/-- `CoverageFormat1::get(gid)`: `gid.try_into::<GlyphId16>().ok()?`,
`glyph_array.binary_search(&gid).ok().map(|idx| idx as u16)` (no arithmetic, no indexing) -/
def cov1Get (xs : List Nat) (g : Nat) : Res (Option Nat) :=
  if g ≥ 65536 then .val none else
  match binarySearchBy xs.length (fun i => natCmp (xs.getD i 0) g) with
  | .ok i => .val (some (i % 65536))
  | .err _ => .val none

/-- `CoverageFormat2::get(gid)`: the binary search with the three-way range comparison, then
`&self.range_records()[idx]` (index panic), `gid.to_u16() - rec.start_glyph_id().to_u16()` (`u16`
subtraction) and `start_coverage_index.checked_add(offset)` -/
def cov2Get (rs : List RangeRec) (g : Nat) : Res (Option Nat) :=
  if g ≥ 65536 then .val none else
  match binarySearchBy rs.length (fun i => rangeCmp (rs.getD i default) g) with
  | .ok i =>
    match rs[i]? with
    | none => .trap
    | some r =>
      (subTrap g r.start).bind (fun off =>
        .val (if r.startCov + off < 65536 then some (r.startCov + off) else none))
  | .err _ => .val none

/-- `CoverageTable::get` -/
def covGet : Coverage → Nat → Res (Option Nat)
  | .fmt1 xs, g => cov1Get xs g
  | .fmt2 rs, g => cov2Get rs g

/-- `RangeRecord::iter`: `(start..=end).map(GlyphId16::new)` — empty for `start > end` -/
def rangeIter (r : RangeRec) : List Nat := r.glyphs

/-- `CoverageTable::iter`: the glyph array, or `range_records().iter().flat_map(RangeRecord::iter)` -/
def covIter : Coverage → List Nat
  | .fmt1 xs => xs
  | .fmt2 rs => expandRanges rs

/-- `RangeRecord::population` / `ClassRangeRecord::population`:
`if start > end { 0 } else { end - start + 1 }` on `usize` (guarded subtraction) -/
def rangePop (start end_ : Nat) : Res Nat :=
  if start > end_ then .val 0 else (subTrap end_ start).bind (fun n => addTrapU n 1)

/-- `.iter().fold(0, |acc, record| acc + record.population())` on `usize` -/
def popFold (acc : Nat) : List (Nat × Nat) → Res Nat
  | [] => .val acc
  | (s, e) :: rest => (rangePop s e).bind (fun p => (addTrapU acc p).bind (fun a => popFold a rest))

/-- `CoverageFormat1::population` (`glyph_count as usize`), `CoverageFormat2::population` -/
def covPop : Coverage → Res Nat
  | .fmt1 xs => .val xs.length
  | .fmt2 rs => popFold 0 (rs.map (fun r => (r.start, r.end_)))

/-- `32 - n.leading_zeros()` of a `u32` -/
def bitLen : Nat → Nat
  | 0 => 0
  | n + 1 => Nat.log2 (n + 1) + 1

/-- `u64::saturating_mul` -/
def satMul64 (a b : Nat) : Nat := min (a * b) 18446744073709551615

/-- A glyph set (`IntSet<GlyphId>`) as the ascending list of its members (what `iter()` yields);
`len()` = length, `contains` = membership, `intersects_range(a..=b)` = some member in `[a, b]`
(its specification; the implementation is collections/int_set). -/
abbrev GSet := List Nat

def GSet.intersectsRange (s : GSet) (a b : Nat) : Bool := s.any (fun g => decide (a ≤ g ∧ g ≤ b))

/-- `CoverageFormat1::intersects(glyphs)`: the cheaper of "look every set member up" and "test every
array entry", chosen by `glyph_count > glyphs.len().saturating_mul(num_bits) / 2` -/
def cov1Intersects (xs : List Nat) (s : GSet) : Res Bool :=
  let count := xs.length
  let numBits := bitLen count
  if count > satMul64 s.length numBits / 2 then
    anyR (fun g => (cov1Get xs g).bind (fun r => .val r.isSome)) s
  else .val (xs.any (fun g => s.contains g))

/-- `RangeRecord::intersects`: `glyphs.intersects_range(start..=end)` -/
def rangeIntersects (r : RangeRec) (s : GSet) : Bool := s.intersectsRange r.start r.end_

/-- `CoverageFormat2::intersects(glyphs)` -/
def cov2Intersects (rs : List RangeRec) (s : GSet) : Res Bool :=
  let count := rs.length
  let numBits := bitLen count
  if count > satMul64 s.length numBits / 2 then
    anyR (fun g => (cov2Get rs g).bind (fun r => .val r.isSome)) s
  else .val (rs.any (fun r => rangeIntersects r s))

/-- `CoverageTable::intersects` -/
def covIntersects : Coverage → GSet → Res Bool
  | .fmt1 xs, s => cov1Intersects xs s
  | .fmt2 rs, s => cov2Intersects rs s

/-! ## ClassDef -/

/-- `ClassDefFormat1::get(gid)`: `if gid < start { return 0 }`, `idx = gid - start` (`u16`
subtraction), `class_value_array.get(idx).unwrap_or(0)` -/
def cls1Get (start : Nat) (cs : List Nat) (g : Nat) : Res Nat :=
  if g < start then .val 0 else
  (subTrap g start).bind (fun idx => .val ((cs[idx]?).getD 0))

/-- `ClassDefFormat2::get(gid)`: binary search on `start_glyph_id`, `Err(ix) → ix.saturating_sub(1)`,
`records.get(ix)`, `(start..=end).contains(&gid)` — nothing that can panic; this is
`Layout.ClassDef.get` of Model/Layout.lean. -/
def cls2Get (rs : List ClassRangeRec) (g : Nat) : Res Nat := .val ((ClassDef.fmt2 rs).get g)

/-- `ClassDef::get` -/
def clsGet : ClassDef → Nat → Res Nat
  | .fmt1 s cs, g => cls1Get s cs g
  | .fmt2 rs, g => cls2Get rs g

/-- `ClassDefFormat1::iter`: `enumerate().map(|(i, val)| (start.saturating_add(i as u16), val))` -/
def cls1Iter (start : Nat) (cs : List Nat) : List (Nat × Nat) :=
  (List.range cs.length).zipWith (fun i c => (min (start + i % 65536) 65535, c)) cs

/-- `ClassDefFormat2::iter`: `flat_map(|range| (start..=end).map(|gid| (gid, range.class())))` -/
def cls2Iter : List ClassRangeRec → List (Nat × Nat)
  | [] => []
  | r :: rs => (List.range' r.start (r.end_ + 1 - r.start)).map (fun g => (g, r.cls)) ++ cls2Iter rs

/-- `ClassDef::iter` -/
def clsIter : ClassDef → List (Nat × Nat)
  | .fmt1 s cs => cls1Iter s cs
  | .fmt2 rs => cls2Iter rs

/-- `ClassDefFormat1::population`, `ClassDefFormat2::population`, `ClassDef::population` -/
def clsPop : ClassDef → Res Nat
  | .fmt1 _ cs => .val cs.length
  | .fmt2 rs => popFold 0 (rs.map (fun r => (r.start, r.end_)))

/-! ## Device tables -/

/-- a parsed `Device`: `start_size`, `end_size`, the raw `delta_format` word and the `delta_value` words -/
structure Dev where
  start : Nat
  end_ : Nat
  fmt : Nat
  words : List Nat
  deriving Repr, DecidableEq

/-- `DeltaFormat::value_count(start_size, end_size)` — transcribed for the generated readers in
Model/ShapeExt.lean -/
def valueCount (fmt start end_ : Nat) : Nat := Shape.customByName "DeltaFormat::value_count" [fmt, start, end_]

/-- generated `Device::read`: three `u16`s, `value_count(..).checked_mul(2).ok_or(OutOfBounds)?`,
`advance_by`, `finish` -/
def devRead (d : List Nat) : Except LErr Dev :=
  match readAt d 0 2, readAt d 2 2, readAt d 4 2 with
  | some s, some e, some f =>
    match checkedMul (valueCount f s e) 2 with
    | none => .error .oob
    | some len => if 6 + len ≤ d.length then .ok ⟨s, e, f, u16sAt d 6 (valueCount f s e)⟩ else .error .oob
  | _, _, _ => .error .oob

/-- `(mask, sign_mask, bits)` of `iter_packed_values`; raw formats 1 / 2 / 3, anything else `(0, 0, 0)` -/
def packParams (fmt : Nat) : Nat × Nat × Nat :=
  if fmt = 1 then (3, 2, 2) else if fmt = 2 then (15, 8, 4) else if fmt = 3 then (255, 128, 8) else (0, 0, 0)

/-- `x as i8` -/
def toI8 (x : Int) : Int := (x + 128) % 256 - 128

/-- the body of the `for i in 0..n.min(max_per_word)` loop of `iter_packed_values`:
`shift = (16 - bits) - i * bits` (`usize` subtractions), `raw >> shift` (panics for `shift ≥ 16`),
the sign extension `(val as i32 - (1 << bits)) as i8`, and `decoded[i] = Some(val)` on `[None; 8]` -/
def packedLoop (raw mask signMask bits : Nat) : List Nat → Res (List Int)
  | [] => .val []
  | i :: rest =>
    (subTrap 16 bits).bind (fun a =>
      (subTrap a (i * bits)).bind (fun shift =>
        if shift ≥ 16 then .trap
        else if i ≥ 8 then .trap
        else
          let v := (raw / 2 ^ shift) % 65536 &&& mask
          let sv : Int := if v &&& signMask ≠ 0 then toI8 ((v : Int) - (2 ^ bits : Nat)) else toI8 v
          (packedLoop raw mask signMask bits rest).bind (fun tl => .val (sv :: tl))))

/-- `iter_packed_values(raw, format, n)`: `max_per_word = 16 / bits` (division by zero for a format
without deltas), the decoding loop, `decoded.into_iter().flatten()` -/
def iterPackedValues (raw fmt n : Nat) : Res (List Int) :=
  let p := packParams fmt
  if p.2.2 = 0 then .trap
  else packedLoop raw p.1 p.2.1 p.2.2 (List.range (min n (16 / p.2.2)))

/-- the `flat_map` closure of `Device::iter` over the delta words:
`iter_packed_values(val, format, n)`, `n = n.saturating_sub(deltas_per_word)` -/
def devWords (fmt perWord : Nat) : Nat → List Nat → Res (List Int)
  | _, [] => .val []
  | n, w :: rest =>
    (iterPackedValues w fmt n).bind (fun vs =>
      (devWords fmt perWord (n - perWord) rest).bind (fun tl => .val (vs ++ tl)))

/-- `Device::iter`: `n = end_size.saturating_sub(start_size) as usize + 1`, 8 / 4 / 2 / 0 deltas per word -/
def devIter (v : Dev) : Res (List Int) :=
  let n := (v.end_ - v.start) + 1
  let perWord := if v.fmt = 1 then 8 else if v.fmt = 2 then 4 else if v.fmt = 3 then 2 else 0
  devWords v.fmt perWord n v.words

/-- generated `DeviceOrVariationIndex::read` + `From<VariationIndex> for DeltaSetIndex`:
the format word at byte 4 selects `Device::read` or `VariationIndex::read` (6 bytes: outer, inner) -/
inductive DevOrVar where
  | device (v : Dev)
  | varIdx (outer inner : Nat)
  deriving Repr, DecidableEq

def devOrVarRead (d : List Nat) : Except LErr DevOrVar :=
  match readAt d 4 2 with
  | none => .error .oob
  | some f =>
    if f ≠ 32768 then (devRead d).map .device
    else
      match readAt d 0 2, readAt d 2 2 with
      | some o, some i => .ok (.varIdx o i)
      | _, _ => .error .oob

/-! ## script lists and script tags (read-fonts/src/tables/layout/script.rs)

Tags are the big-endian `u32` value of their four bytes (`Tag: Ord` is the byte-wise order). -/

def tg (a b c d : Char) : Nat := ((a.toNat * 256 + b.toNat) * 256 + c.toNat) * 256 + d.toNat

def tagBytes (t : Nat) : List Nat := [t / 16777216 % 256, t / 65536 % 256, t / 256 % 256, t % 256]

def tagOfBytes : List Nat → Nat
  | [a, b, c, d] => ((a * 256 + b) * 256 + c) * 256 + d
  | _ => 0

/-- generated `ScriptList::read`: `script_count` × `ScriptRecord { tag, offset }` (6 bytes) -/
def scriptListRead (d : List Nat) : Except LErr (List (Nat × Nat)) :=
  match readAt d 0 2 with
  | none => .error .oob
  | some n =>
    if 2 + n * 6 ≤ d.length then
      .ok ((List.range n).map (fun i => (beAt d (2 + 6 * i) 4, beAt d (2 + 6 * i + 4) 2)))
    else .error .oob

/-- generated `Script::read`: `default_lang_sys_offset`, `lang_sys_count` × `LangSysRecord { tag, offset }` -/
def scriptRead (d : List Nat) : Except LErr (List (Nat × Nat)) :=
  match readAt d 0 2, readAt d 2 2 with
  | some _, some n =>
    if 4 + n * 6 ≤ d.length then
      .ok ((List.range n).map (fun i => (beAt d (4 + 6 * i) 4, beAt d (4 + 6 * i + 4) 2)))
    else .error .oob
  | _, _ => .error .oob

/-- `ScriptList::index_for_tag` / `Script::lang_sys_index_for_tag`:
`records.binary_search_by_key(&tag, |rec| rec.tag()).map(|index| index as u16).ok()` -/
def indexForTag (tags : List Nat) (tag : Nat) : Option Nat :=
  match binarySearchBy tags.length (fun i => natCmp (tags.getD i 0) tag) with
  | .ok i => some (i % 65536)
  | .err _ => none

/-- the two `for` loops of `ScriptList::select`: the first tag with an index -/
def selectLoop (recs : List Nat) : List Nat → Option (Nat × Nat)
  | [] => none
  | t :: rest =>
    match indexForTag recs t with
    | some i => some (t, i)
    | none => selectLoop recs rest

/-- `ScriptList::select(tags)`: `(tag, index, is_fallback)`; the fallbacks are `DFLT`, `dflt`, `latn` -/
def select (recs : List Nat) (tags : List Nat) : Option (Nat × Nat × Bool) :=
  match selectLoop recs tags with
  | some (t, i) => some (t, i, false)
  | none =>
    match selectLoop recs [tg 'D' 'F' 'L' 'T', tg 'd' 'f' 'l' 't', tg 'l' 'a' 't' 'n'] with
    | some (t, i) => some (t, i, true)
    | none => none

/-- `UNICODE_TO_NEW_OPENTYPE_SCRIPT_TAGS` -/
def newScriptTags : List (Nat × Nat) :=
  [(tg 'B' 'e' 'n' 'g', tg 'b' 'n' 'g' '2'), (tg 'D' 'e' 'v' 'a', tg 'd' 'e' 'v' '2'),
   (tg 'G' 'u' 'j' 'r', tg 'g' 'j' 'r' '2'), (tg 'G' 'u' 'r' 'u', tg 'g' 'u' 'r' '2'),
   (tg 'K' 'n' 'd' 'a', tg 'k' 'n' 'd' '2'), (tg 'M' 'l' 'y' 'm', tg 'm' 'l' 'm' '2'),
   (tg 'M' 'y' 'm' 'r', tg 'm' 'y' 'm' '2'), (tg 'O' 'r' 'y' 'a', tg 'o' 'r' 'y' '2'),
   (tg 'T' 'a' 'm' 'l', tg 't' 'm' 'l' '2'), (tg 'T' 'e' 'l' 'u', tg 't' 'e' 'l' '2')]

/-- `new_tag_from_unicode`: `binary_search_by_key(..).ok()?`, `TABLE.get(ix).map(|e| e.1)` -/
def newTagFromUnicode (u : Nat) : Option Nat :=
  match binarySearchBy newScriptTags.length (fun i => natCmp (newScriptTags.getD i (0, 0)).1 u) with
  | .ok i => (newScriptTags[i]?).map (·.2)
  | .err _ => none

/-- `u8::to_ascii_lowercase` -/
def asciiLower (b : Nat) : Nat := if 65 ≤ b ∧ b ≤ 90 then b + 32 else b

/-- `old_tag_from_unicode`: six special cases, else the first byte lower-cased (`bytes[0]` of a `[u8; 4]`) -/
def oldTagFromUnicode (u : Nat) : Nat :=
  if u = tg 'Z' 'm' 't' 'h' then tg 'm' 'a' 't' 'h'
  else if u = tg 'H' 'i' 'r' 'a' then tg 'k' 'a' 'n' 'a'
  else if u = tg 'L' 'a' 'o' 'o' then tg 'l' 'a' 'o' ' '
  else if u = tg 'Y' 'i' 'i' 'i' then tg 'y' 'i' ' ' ' '
  else if u = tg 'N' 'k' 'o' 'o' then tg 'n' 'k' 'o' ' '
  else if u = tg 'V' 'a' 'i' 'i' then tg 'v' 'a' 'i' ' '
  else
    match tagBytes u with
    | b0 :: rest => tagOfBytes (asciiLower b0 :: rest)
    | [] => 0

/-- `tags[len] = t` on the `[Tag; 3]` of `ScriptTags` (index panic for `len ≥ 3`) -/
def setTag (tags : List Nat) (len t : Nat) : Res (List Nat) :=
  if len < tags.length then .val (tags.set len t) else .trap

/-- `ScriptTags::from_unicode` followed by `as_slice` (`&self.tags[..self.len]`, slice panic for
`len > 3`): the version-3 tag (`bytes[3] = b'3'`) unless the new tag is `mym2`, the new tag, the old tag -/
def scriptTagsFromUnicode (u : Nat) : Res (List Nat) :=
  let tags0 : List Nat := [0, 0, 0]
  let st1 : Res (List Nat × Nat) :=
    match newTagFromUnicode u with
    | some nt =>
      let st : Res (List Nat × Nat) :=
        if nt ≠ tg 'm' 'y' 'm' '2' then
          (setTag tags0 0 (tagOfBytes ((tagBytes nt).take 3 ++ [51]))).bind (fun ts => .val (ts, 1))
        else .val (tags0, 0)
      st.bind (fun p => (setTag p.1 p.2 nt).bind (fun ts => .val (ts, p.2 + 1)))
    | none => .val (tags0, 0)
  st1.bind (fun p =>
    (setTag p.1 p.2 (oldTagFromUnicode u)).bind (fun ts =>
      let len := p.2 + 1
      if len ≤ ts.length then .val (ts.take len) else .trap))

end FontVerif.HandLayout
