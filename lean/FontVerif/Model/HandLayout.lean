/-
C01 (hand-written code) — transcriptions of the loop-carrying / index-computing hand-written functions of
read-fonts/src/tables/layout.rs / gsub.rs / gpos.rs / gdef.rs and the closure modules (Coverage / ClassDef lookups and iterators, Device / VariationIndex decoding, lookup-list walking, context rule walking, FeatureVariations conditions).

Every definition cites the Rust function it transcribes (file + fn) and keeps its checked / saturating /
wrapping arithmetic and its error returns; `Out.trap` / `none`-as-panic results mark what would be a panic of
the overflow-checked profile, and Props/C01HandLayout.lean shows they are never produced.  Tied to the real code
by harness group `layout.model` (driver commands `hl.*`, Drv/C01HandLayout.lean).
-/
import FontVerif.Model.ReadIter
import FontVerif.Model.HandRead
namespace FontVerif.HandLayout
open FontVerif FontVerif.ReadIter FontVerif.HandRead

end FontVerif.HandLayout
