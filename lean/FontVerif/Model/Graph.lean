/-
Model of the offset-packing graph of write-fonts:
  write-fonts/src/graph.rs  (Graph, Node, Distance, sort_kahn, sort_shortest_distance,
                             update_parents, update_distances, assign_space_0, has_overflows,
                             find_overflows, assign_spaces_hb, find_space_roots_hb,
                             find_subgraph_hb, find_subgraph_map_hb, find_connected_nodes_hb,
                             isolate_subgraph_hb, duplicate_subgraph, try_isolating_subgraphs,
                             find_root_of_space, basic_sort, pack_objects, serialize)
  write-fonts/src/write.rs  (TableData, OffsetRecord, dump_table's pack/serialize gate)

Representation.
* `ObjectId` is a `Nat`.  `BTreeMap<ObjectId, _>` is an association list kept sorted by key
  (`Map`), `BTreeSet`/`HashSet` of ids a sorted duplicate-free list (`Set`); a `HashMap` is only
  ever used through lookup/insert, so it is a `Map` as well.  `BinaryHeap`s are lists kept in pop
  order by an insertion that transcribes the heap's `Ord` (including tie-breaks).
* an object is `(size, bytes, links)`.  The Rust reads `bytes.len()`; the sorting code of the model
  reads `size` so that the driver can run 64 KiB objects without materialising them.  `Obj.WF`
  (`bytes.length = size`) ties the two; `serialize` uses `bytes` only.
* `ObjectId::next()` is a draw from an explicit supply `fresh : List Nat` (the ids this thread
  will be handed by the global counter, see Model/Counter.lean).
* A Rust panic (`unwrap`, index, `assert`, checked arithmetic in the strict profile) is `none`.
  Loops carry fuel; fuel exhaustion is `none` as well (never reached on the inputs of the harness;
  for the sorts a sufficiency lemma is proved in Props/C05).
* `Priority` is always `ZERO` outside `#[cfg(test)]`, so `modified_distance` is the identity on
  `distance`; splitting and promotion do nothing for objects that are not typed GPOS/GSUB lookups
  and are not modelled.
-/
import FontVerif.Model.Base
namespace FontVerif.Graph
open FontVerif

/-! ## finite maps and sets as sorted lists -/

abbrev Map (α : Type) := List (Nat × α)
abbrev Set := List Nat

def Map.find? {α : Type} : Map α → Nat → Option α
  | [], _ => none
  | (k, v) :: rest, x => if k = x then some v else Map.find? rest x

def Map.contains {α : Type} (m : Map α) (x : Nat) : Bool := (m.find? x).isSome

/-- `BTreeMap::insert` / `HashMap::insert`: replace or insert at the sorted position. -/
def Map.insert {α : Type} : Map α → Nat → α → Map α
  | [], k, v => [(k, v)]
  | (k', v') :: rest, k, v =>
    if k < k' then (k, v) :: (k', v') :: rest
    else if k = k' then (k, v) :: rest
    else (k', v') :: Map.insert rest k v

def Map.modify {α : Type} (m : Map α) (x : Nat) (f : α → α) : Map α :=
  m.map (fun kv => if kv.1 = x then (kv.1, f kv.2) else kv)

def Map.keys {α : Type} (m : Map α) : List Nat := m.map (·.1)

def Set.contains (s : Set) (x : Nat) : Bool := s.elem x

def Set.insert : Set → Nat → Set
  | [], x => [x]
  | y :: rest, x => if x < y then x :: y :: rest else if x = y then y :: rest else y :: Set.insert rest x

def Set.erase (s : Set) (x : Nat) : Set := s.filter (· ≠ x)

/-- insert `x` into a list kept in pop order: after every element that pops no later than `x`. -/
def insertBy {α : Type} (before : α → α → Bool) (x : α) : List α → List α
  | [] => [x]
  | y :: rest => if before x y then x :: y :: rest else y :: insertBy before x rest

/-! ## objects, nodes, graph -/

/-- `OffsetRecord { pos, len, object, adjustment }`; `width` is `len as u8` (2, 3, 4). -/
structure Link where
  pos : Nat
  width : Nat
  target : Nat
  adj : Nat
  deriving Repr, DecidableEq, Inhabited

/-- `TableData { bytes, offsets }` (the `type_` field is not modelled). -/
structure Obj where
  size : Nat
  bytes : List Nat
  links : List Link
  deriving Repr, DecidableEq, Inhabited

def Obj.WF (o : Obj) : Prop := o.bytes.length = o.size

/-- `Node { size, distance, position, space, parents }` (`priority` is constantly ZERO). -/
structure Node where
  size : Nat
  distance : Nat
  position : Nat
  space : Nat
  parents : List (Nat × Nat)
  deriving Repr, DecidableEq, Inhabited

/-- `Node::new`: `space = Space::REACHABLE = 1`. -/
def Node.new (size : Nat) : Node := ⟨size, 0, 0, 1, []⟩

structure Graph where
  objects : Map Obj
  nodes : Map Node
  order : List Nat
  root : Nat
  parentsInvalid : Bool
  /-- `Space::INIT = 2` initially; `next_space()` pre-increments. -/
  nextSpace : Nat
  numRoots : Map Nat
  deriving Repr, Inhabited

/-- `Graph::from_objects`. -/
def Graph.fromObjects (objects : Map Obj) (root : Nat) : Graph :=
  { objects := objects
    nodes := objects.map (fun kv => (kv.1, Node.new kv.2.size))
    order := []
    root := root
    parentsInvalid := true
    nextSpace := 2
    numRoots := [] }

def Graph.obj (g : Graph) (id : Nat) : Obj := (g.objects.find? id).getD default
def Graph.node (g : Graph) (id : Nat) : Node := (g.nodes.find? id).getD default
def Graph.linksOf (g : Graph) (id : Nat) : List Link := (g.obj id).links

/-- `OffsetLen::max_value`. -/
def maxValue (width : Nat) : Nat :=
  if width = 2 then 65535 else if width = 3 then 16777215 else 4294967295

def U32_MAX : Nat := 4294967295

/-! ## update_parents -/

/-- `Graph::update_parents`. -/
def updateParents (g : Graph) : Graph :=
  if !g.parentsInvalid then g else
  let cleared : Map Node := g.nodes.map (fun kv => (kv.1, { kv.2 with parents := [] }))
  let nodes := g.objects.foldl (fun ns kv =>
      kv.2.links.foldl (fun ns l =>
        Map.modify ns l.target (fun n => { n with parents := n.parents ++ [(kv.1, l.width)] })) ns)
    cleared
  { g with nodes := nodes, parentsInvalid := false }

def Graph.indeg (g : Graph) (id : Nat) : Nat := (g.node id).parents.length

/-! ## sort_kahn -/

structure SortSt where
  queue : List Nat            -- ids in pop order
  removed : Map Nat           -- removed_edges
  orderRev : List Nat
  nodes : Map Node
  pos : Nat

/-- one `for link in &next.offsets` body of `sort_kahn`. -/
def kahnVisitLink (g : Graph) (acc : List Nat × Map Nat) (l : Link) : List Nat × Map Nat :=
  let seen := (acc.2.find? l.target).getD 0 + 1
  let removed := acc.2.insert l.target seen
  if seen = g.indeg l.target then (insertBy (fun a b => a < b) l.target acc.1, removed)
  else (acc.1, removed)

/-- the `while let Some(id) = queue.pop()` loop of `sort_kahn`; `none` = out of fuel. -/
def kahnLoop (g : Graph) : Nat → SortSt → Option SortSt
  | 0, _ => none
  | fuel + 1, st =>
    match st.queue with
    | [] => some st
    | id :: rest =>
      let o := g.obj id
      let nodes := Map.modify st.nodes id (fun n => { n with position := st.pos })
      let (queue, removed) := o.links.foldl (kahnVisitLink g) (rest, st.removed)
      kahnLoop g fuel { queue := queue, removed := removed, orderRev := id :: st.orderRev,
                        nodes := nodes, pos := st.pos + o.size }

/-- the trailing `for (id, seen_len) in &removed_edges { if … panic!("cycle or something?") }`. -/
def cycleCheck (g : Graph) (removed : Map Nat) : Bool :=
  removed.all (fun kv => kv.2 = g.indeg kv.1)

/-- `Graph::sort_kahn`.  `none` = the cycle panic. -/
def sortKahn (g : Graph) : Option Graph :=
  if g.nodes.length ≤ 1 then
    some { g with order := g.order ++ g.nodes.keys }
  else
    let g := updateParents g
    match kahnLoop g (g.nodes.length + 2)
        { queue := [g.root], removed := [], orderRev := [], nodes := g.nodes, pos := 0 } with
    | none => none
    | some st =>
      if cycleCheck g st.removed then some { g with order := st.orderRev.reverse, nodes := st.nodes }
      else none

/-! ## update_distances, assign_space_0, sort_shortest_distance -/

/-- pop order of `BinaryHeap<(u32, ObjectId)>`: largest pair first. -/
def distBefore (a b : Nat × Nat) : Bool := a.1 > b.1 || (a.1 = b.1 && a.2 > b.2)

def updDistVisitLink (visited : Set) (nextDistance : Nat) (acc : List (Nat × Nat) × Map Node) (l : Link) :
    List (Nat × Nat) × Map Node :=
  if visited.contains l.target then acc else
  let child := (acc.2.find? l.target).getD default
  let cd := nextDistance + child.size
  if cd < child.distance then
    (insertBy distBefore (cd, l.target) acc.1, Map.modify acc.2 l.target (fun n => { n with distance := cd }))
  else acc

def updDistLoop (g : Graph) : Nat → List (Nat × Nat) → Set → Map Node → Option (Map Node)
  | 0, _, _, _ => none
  | fuel + 1, queue, visited, nodes =>
    match queue with
    | [] => some nodes
    | (_, id) :: rest =>
      if visited.contains id then updDistLoop g fuel rest visited nodes else
      let visited := visited.insert id
      let nd := ((nodes.find? id).getD default).distance
      let (queue, nodes) := (g.linksOf id).foldl (updDistVisitLink visited nd) (rest, nodes)
      updDistLoop g fuel queue visited nodes

def totalLinks (g : Graph) : Nat := g.objects.foldl (fun n kv => n + kv.2.links.length) 0

/-- `Graph::update_distances`. -/
def updateDistances (g : Graph) : Option Graph :=
  let nodes := g.nodes.map (fun kv => (kv.1, { kv.2 with distance := U32_MAX }))
  let nodes := Map.modify nodes g.root (fun n => { n with distance := 0 })
  match updDistLoop g (totalLinks g + 2) [(0, g.root)] [] nodes with
  | none => none
  | some nodes => some { g with nodes := nodes }

def space0Loop (g : Graph) : Nat → List Nat → Map Node → Option (Map Node)
  | 0, _, _ => none
  | fuel + 1, queue, nodes =>
    match queue with
    | [] => some nodes
    | next :: rest =>
      match nodes.find? next with
      | some node =>
        if node.space ≠ 0 then
          let nodes := Map.modify nodes next (fun n => { n with space := 0 })
          let links := match g.objects.find? next with | some o => o.links | none => []
          let queue := links.foldl (fun q l => if l.width ≠ 4 then q ++ [l.target] else q) rest
          space0Loop g fuel queue nodes
        else space0Loop g fuel rest nodes
      | none => space0Loop g fuel rest nodes

/-- `Graph::assign_space_0`. -/
def assignSpace0 (g : Graph) : Option Graph :=
  match space0Loop g (g.nodes.length + totalLinks g + 2) [g.root] g.nodes with
  | none => none
  | some nodes => some { g with nodes := nodes }

/-- a heap entry `(Reverse(Distance { space, distance, order }), id)`. -/
structure QEntry where
  space : Nat
  distance : Nat
  order : Nat
  id : Nat

/-- pop order of `BinaryHeap<(Reverse<Distance>, ObjectId)>`: smallest `Distance` first
(derived lexicographic `Ord` on `space, distance, order`), then the larger id. -/
def qBefore (a b : QEntry) : Bool :=
  a.space < b.space || (a.space = b.space &&
    (a.distance < b.distance || (a.distance = b.distance &&
      (a.order < b.order || (a.order = b.order && a.id > b.id)))))

structure ShortSt where
  queue : List QEntry
  removed : Map Nat
  orderRev : List Nat
  nodes : Map Node
  pos : Nat
  objOrder : Nat

def shortVisitLink (g : Graph) (acc : List QEntry × Map Nat × Nat) (l : Link) : List QEntry × Map Nat × Nat :=
  let seen := (acc.2.1.find? l.target).getD 0 + 1
  let removed := acc.2.1.insert l.target seen
  if seen = g.indeg l.target then
    let n := g.node l.target
    (insertBy qBefore ⟨n.space, n.distance, acc.2.2, l.target⟩ acc.1, removed, acc.2.2 + 1)
  else (acc.1, removed, acc.2.2)

def shortLoop (g : Graph) : Nat → ShortSt → Option ShortSt
  | 0, _ => none
  | fuel + 1, st =>
    match st.queue with
    | [] => some st
    | e :: rest =>
      let o := g.obj e.id
      let nodes := Map.modify st.nodes e.id (fun n => { n with position := st.pos })
      let (queue, removed, objOrder) := o.links.foldl (shortVisitLink g) (rest, st.removed, st.objOrder)
      shortLoop g fuel { queue := queue, removed := removed, orderRev := e.id :: st.orderRev,
                         nodes := nodes, pos := st.pos + o.size, objOrder := objOrder }

/-- `Graph::sort_shortest_distance`. -/
def sortShortest (g : Graph) : Option Graph := do
  let g := updateParents g
  let g ← updateDistances g
  let g ← assignSpace0 g
  let st ← shortLoop g (g.nodes.length + 2)
      { queue := [⟨0, 0, 0, g.root⟩], removed := [], orderRev := [], nodes := g.nodes, pos := 0, objOrder := 1 }
  if cycleCheck g st.removed then some { g with order := st.orderRev.reverse, nodes := st.nodes }
  else none

/-! ## has_overflows / find_overflows -/

/-- `(parent, child, distance, width)` -/
abbrev Overflow := Nat × Nat × Nat × Nat

/-- `Graph::find_overflows`; `none` = `child.position - parent.position` underflows (strict profile). -/
def findOverflows (g : Graph) : Option (List Overflow) :=
  g.objects.foldl (fun acc kv =>
    kv.2.links.foldl (fun acc l =>
      match acc with
      | none => none
      | some res =>
        let pp := (g.node kv.1).position
        let cp := (g.node l.target).position
        if cp < pp then none
        else if maxValue l.width < cp - pp then some (res ++ [(kv.1, l.target, cp - pp, l.width)])
        else some res) acc) (some [])

/-- first link (in `objects` order) that overflows or underflows decides `has_overflows`. -/
def hasOverflowsLinks (g : Graph) (pp : Nat) : List Link → Option Bool
  | [] => some false
  | l :: rest =>
    let cp := (g.node l.target).position
    if cp < pp then none
    else if maxValue l.width < cp - pp then some true
    else hasOverflowsLinks g pp rest

def hasOverflowsObjs (g : Graph) : List (Nat × Obj) → Option Bool
  | [] => some false
  | kv :: rest =>
    match hasOverflowsLinks g (g.node kv.1).position kv.2.links with
    | some false => hasOverflowsObjs g rest
    | r => r

/-- `Graph::has_overflows` (ignores `adjustment`, like the code). -/
def hasOverflows (g : Graph) : Option Bool := hasOverflowsObjs g g.objects

/-! ## space assignment and isolation -/

/-- `Graph::find_subgraph_hb` (fuel bounds the recursion depth). -/
def findSubgraph (g : Graph) : Nat → Nat → Set → Set
  | 0, _, s => s
  | fuel + 1, idx, s =>
    if s.contains idx then s
    else (g.linksOf idx).foldl (fun s l => findSubgraph g fuel l.target s) (s.insert idx)

/-- `Graph::find_subgraph_map_hb`. -/
def findSubgraphMap (g : Graph) : Nat → Nat → Map Nat → Map Nat
  | 0, _, m => m
  | fuel + 1, idx, m =>
    (g.linksOf idx).foldl (fun m l =>
      match m.find? l.target with
      | none => findSubgraphMap g fuel l.target (m.insert l.target 1)
      | some c => m.insert l.target (c + 1)) m

def depthFuel (g : Graph) : Nat := g.objects.length + 2

def spaceRootsLoop (g : Graph) : Nat → List Nat → Set → Set → Option (Set × Set)
  | 0, _, _, _ => none
  | fuel + 1, queue, visited, roots =>
    match queue with
    | [] => some (visited, roots)
    | id :: rest =>
      if visited.contains id then spaceRootsLoop g fuel rest visited roots else
      let (queue, visited, roots) := (g.linksOf id).foldl (fun (acc : List Nat × Set × Set) l =>
          if l.width = 4 then (acc.1, findSubgraph g (depthFuel g) l.target acc.2.1, acc.2.2.insert l.target)
          else (acc.1 ++ [l.target], acc.2.1, acc.2.2)) (rest, visited, roots)
      spaceRootsLoop g fuel queue visited roots

/-- `Graph::find_space_roots_hb`.  The Rust loop does not mark 16/24-bit nodes as visited, so a
node is re-processed once per 16/24-bit path from the root; the fuel is a plain budget. -/
def findSpaceRoots (g : Graph) (fuel : Nat) : Option (Set × Set) :=
  spaceRootsLoop g fuel [g.root] [] []

/-- `Graph::find_connected_nodes_hb`; state = `(targets, visited, connected)`. -/
def findConnected (g : Graph) : Nat → Nat → Set × Set × Set → Set × Set × Set
  | 0, _, st => st
  | fuel + 1, id, (targets, visited, connected) =>
    if visited.contains id then (targets, visited, connected) else
    let visited := visited.insert id
    let tc : Set × Set := if targets.contains id then (targets.erase id, connected.insert id) else (targets, connected)
    let st := (g.node id).parents.foldl (fun st p => findConnected g fuel p.1 st) (tc.1, visited, tc.2)
    (g.linksOf id).foldl (fun st l => findConnected g fuel l.target st) st

/-- mutable state of the graph surgery: the graph, the `dupes`/`id_map`, the id supply. -/
structure Surg where
  g : Graph
  dupes : Map Nat
  fresh : List Nat

/-- `Graph::duplicate_subgraph`; `none` = id supply exhausted (not a Rust outcome) or out of fuel. -/
def duplicateSubgraph : Nat → Nat → Nat → Surg → Option (Nat × Surg)
  | 0, _, _, _ => none
  | fuel + 1, root, space, s =>
    match s.dupes.find? root with
    | some existing => some (existing, s)
    | none =>
      match s.fresh with
      | [] => none
      | newRoot :: fresh =>
        let obj := s.g.obj root
        let s := { s with g := { s.g with parentsInvalid := true }, fresh := fresh }
        let r := obj.links.foldl (fun (acc : Option (List Link × Surg)) l =>
            match acc with
            | none => none
            | some (ls, s) =>
              match duplicateSubgraph fuel l.target space s with
              | none => none
              | some (t, s) => some (ls ++ [{ l with target := t }], s)) (some ([], s))
        match r with
        | none => none
        | some (links, s) =>
          let node : Node := { Node.new obj.size with space := space }
          some (newRoot, { s with
            dupes := s.dupes.insert root newRoot
            g := { s.g with objects := s.g.objects.insert newRoot { obj with links := links }
                            nodes := s.g.nodes.insert newRoot node } })

def remapLinks (dupes : Map Nat) (links : List Link) : List Link :=
  links.map (fun l => match dupes.find? l.target with | some n => { l with target := n } | none => l)

/-- `Graph::isolate_subgraph_hb`; returns `(changed, graph, roots', fresh')`. -/
def isolateSubgraph (g : Graph) (roots : Set) (fresh : List Nat) : Option (Bool × Graph × Set × List Nat) := do
  let g := updateParents g
  let subgraph : Map Nat := roots.foldl (fun m root =>
      let wide := ((g.node root).parents.filter (fun p => p.2 ≠ 2)).length
      findSubgraphMap g (depthFuel g) root (m.insert root wide)) []
  let nextSpace := g.nextSpace + 1
  let g := { g with nextSpace := nextSpace, numRoots := g.numRoots.insert nextSpace roots.length }
  -- duplicate every subgraph node that has an incoming edge from outside the subgraph
  let s ← subgraph.foldl (fun (acc : Option Surg) kv =>
      match acc with
      | none => none
      | some s =>
        if kv.2 < s.g.indeg kv.1 then
          match duplicateSubgraph (depthFuel s.g) kv.1 nextSpace s with
          | none => none
          | some (_, s) => some s
        else some s) (some ⟨g, [], fresh⟩)
  let idMap := s.dupes
  -- remap links of the subgraph nodes that were not duplicated, and move them to the new space
  let g := (subgraph.keys.filter (fun k => !idMap.contains k)).foldl (fun (g : Graph) id =>
      { g with nodes := Map.modify g.nodes id (fun n => { n with space := nextSpace })
               objects := Map.modify g.objects id (fun o => { o with links := remapLinks idMap o.links }) }) s.g
  if idMap.isEmpty then some (false, g, roots, s.fresh) else
  -- remap the wide links to duplicated roots: `for (parent_id, len) in &self.nodes[root].parents`,
  -- wide parents and wide links only (as of /repo fix 653271a)
  let g := roots.foldl (fun (g : Graph) root =>
      match idMap.find? root with
      | none => g
      | some newId =>
        let g := { g with parentsInvalid := true }
        (g.node root).parents.foldl (fun (g : Graph) p =>
          if p.2 ≠ 2 then
            { g with objects := Map.modify g.objects p.1 (fun o =>
                { o with links := o.links.map (fun l =>
                    if l.target = root ∧ l.width ≠ 2 then { l with target := newId } else l) }) }
          else g) g) g
  let roots := idMap.foldl (fun (r : Set) kv => if r.contains kv.1 then (r.erase kv.1).insert kv.2 else r) roots
  some (true, g, roots, s.fresh)

/-- budget for the (path-exponential) breadth-first walk of `find_space_roots_hb`. -/
def SPACE_ROOTS_FUEL : Nat := 2000000

def assignSpacesLoop : Nat → Graph → Set → Set → List Nat → Option (Graph × List Nat)
  | 0, _, _, _, _ => none
  | fuel + 1, g, roots, visited, fresh =>
    match roots with
    | [] => some (g, fresh)
    | next :: _ =>
      let (roots, visited, connected) := findConnected g (depthFuel g) next (roots, visited, [])
      match isolateSubgraph g connected fresh with
      | none => none
      | some (_, g, _, fresh) => assignSpacesLoop fuel g roots visited fresh

/-- `Graph::assign_spaces_hb`. -/
def assignSpaces (g : Graph) (fresh : List Nat) : Option (Bool × Graph × List Nat) := do
  let g := updateParents g
  let (visited, roots) ← findSpaceRoots g SPACE_ROOTS_FUEL
  if roots.isEmpty then some (false, g, fresh) else
  let inv : Set := (g.order.foldl (fun s id => s.insert id) ([] : Set)).filter (fun id => !visited.contains id)
  let (g, fresh) ← assignSpacesLoop (roots.length + 1) g roots inv fresh
  some (true, g, fresh)

/-- `Graph::find_root_of_space`; `none` = `parents[0]` out of bounds. -/
def findRootOfSpace (g : Graph) : Nat → Nat → Option Nat
  | 0, _ => none
  | fuel + 1, obj =>
    let space := (g.node obj).space
    match (g.node obj).parents with
    | [] => none
    | (parent, _) :: _ =>
      if (g.node parent).space ≠ space then some obj else findRootOfSpace g fuel parent

def dropLastUntil (max : Nat) (roots : Set) : Set := roots.take (min roots.length max)

/-- `Graph::try_isolating_subgraphs`. -/
def tryIsolating (g : Graph) (overflows : List Overflow) (fresh : List Nat) :
    Option (Bool × Graph × List Nat) := do
  let toIsolate ← overflows.foldl (fun (acc : Option (Map Set)) ov =>
      match acc with
      | none => none
      | some m =>
        let parentSpace := (g.node ov.1).space
        if parentSpace < 2 then some m else
        match g.numRoots.find? parentSpace with
        | none => none
        | some nr =>
          if nr < 2 then some m else
          if parentSpace ≠ (g.node ov.2.1).space then none else
          match findRootOfSpace g (depthFuel g) ov.1 with
          | none => none
          | some root =>
            if (g.node root).space ≠ parentSpace then none else
            some (m.insert parentSpace (((m.find? parentSpace).getD []).insert root))) (some [])
  if toIsolate.isEmpty then some (false, g, fresh) else
  let r ← toIsolate.foldl (fun (acc : Option (Graph × List Nat)) kv =>
      match acc with
      | none => none
      | some (g, fresh) =>
        match g.numRoots.find? kv.1 with
        | none => none
        | some nTotal =>
          let roots := dropLastUntil (nTotal / 2) kv.2
          match isolateSubgraph g roots fresh with
          | none => none
          | some (_, g, roots, fresh) =>
            match g.numRoots.find? kv.1 with
            | none => none
            | some cur =>
              if cur < roots.length then none
              else some ({ g with numRoots := g.numRoots.insert kv.1 (cur - roots.length) }, fresh)) (some (g, fresh))
  some (true, r.1, r.2)

/-! ## pack_objects -/

/-- `Graph::remove_orphans`: drop every object that `find_subgraph_hb(root)` does not reach. -/
def removeOrphans (g : Graph) : Graph :=
  let visited := findSubgraph g (depthFuel g) g.root []
  if visited.length ≠ g.nodes.length then
    { g with nodes := g.nodes.filter (fun kv => visited.contains kv.1)
             objects := g.objects.filter (fun kv => visited.contains kv.1)
             parentsInvalid := true }
  else g

/-- `Graph::basic_sort`. -/
def basicSort (g : Graph) : Option (Bool × Graph) := do
  let g ← sortKahn g
  let ov ← hasOverflows g
  if !ov then some (true, g) else
  let g ← sortShortest g
  let ov ← hasOverflows g
  some (!ov, g)

def packLoop : Nat → Graph → List Nat → Option (Bool × Graph × List Nat)
  | 0, _, _ => none
  | fuel + 1, g, fresh => do
    let overflows ← findOverflows g
    if overflows.isEmpty then some (true, g, fresh) else
    let (changed, g, fresh) ← tryIsolating g overflows fresh
    if !changed then some (false, g, fresh) else
    let g ← sortShortest (removeOrphans g)
    packLoop fuel g fresh

/-- `Graph::pack_objects` after `basic_sort` failed and after `try_splitting_subtables` /
`try_promoting_subtables`: assign spaces, drop orphans, re-sort, then the isolation loop. -/
def packTail (g : Graph) (fresh : List Nat) : Option (Bool × Graph × List Nat) := do
  let (_, g, fresh) ← assignSpaces g fresh
  let g ← sortShortest (removeOrphans g)
  let ov ← hasOverflows g
  if !ov then some (true, g, fresh) else
  packLoop (g.objects.length + 2) g fresh

/-- `Graph::pack_objects` for graphs without splittable / promotable (typed GPOS/GSUB lookup)
objects, for which `try_splitting_subtables` and `try_promoting_subtables` return immediately. -/
def packObjects (g : Graph) (fresh : List Nat) : Option (Bool × Graph × List Nat) := do
  let (ok, g) ← basicSort g
  if ok then some (true, g, fresh) else
  packTail g fresh

/-! ## serialize -/

/-- overwrite `bs` into `out` at `at` (caller guarantees it fits). -/
def writeAt : List Nat → Nat → List Nat → List Nat
  | out, 0, bs => bs ++ out.drop bs.length
  | [], _ + 1, _ => []
  | o :: out, k + 1, bs => o :: writeAt out k bs

/-- first pass of `serialize`: `(offsets, out, off)`. -/
def layout (g : Graph) : List Nat → Map Nat → List Nat → Nat → Option (Map Nat × List Nat)
  | [], offs, out, _ => some (offs, out)
  | id :: rest, offs, out, off =>
    match g.objects.find? id with
    | none => none
    | some o => layout g rest (offs.insert id off) (out ++ o.bytes) (off + o.bytes.length)

/-- `write_offset` with the arithmetic and slicing that precede it; `none` = panic. -/
def patchLink (offs : Map Nat) (head : Nat) (out : List Nat) (l : Link) : Option (List Nat) :=
  match offs.find? l.target with
  | none => none
  | some abs =>
    if abs < head + l.adj then none else
    let rel := abs - (head + l.adj)
    let bufPos := head + l.pos
    if out.length < bufPos then none
    else if out.length - bufPos < l.width then none
    else if maxValue l.width < rel then none
    else some (writeAt out bufPos (beBytes l.width rel))

def patchLinks (offs : Map Nat) (head : Nat) : List Link → List Nat → Option (List Nat)
  | [], out => some out
  | l :: rest, out =>
    match patchLink offs head out l with
    | none => none
    | some out => patchLinks offs head rest out

/-- second pass of `serialize`. -/
def patchAll (g : Graph) (offs : Map Nat) : List Nat → Nat → List Nat → Option (List Nat)
  | [], _, out => some out
  | id :: rest, head, out =>
    match g.objects.find? id with
    | none => none
    | some o =>
      match patchLinks offs head o.links out with
      | none => none
      | some out => patchAll g offs rest (head + o.bytes.length) out

/-- `Graph::serialize`; `none` = a panic (`assert!(!order.is_empty())`, the `expect`s, checked
subtraction, slice bounds). -/
def serialize (g : Graph) : Option (List Nat) :=
  if g.order.isEmpty then none else
  match layout g g.order [] [] 0 with
  | none => none
  | some (offs, out) => patchAll g offs g.order 0 out

/-- `dump_table` after `make_graph`: bytes only if `pack_objects` returned true. -/
def dump (g : Graph) (fresh : List Nat) : Option (Option (List Nat)) :=
  match packObjects g fresh with
  | none => none
  | some (false, _, _) => some none
  | some (true, g, _) =>
    match serialize g with
    | none => none
    | some out => some (some out)

/-! ## typed layer: extension promotion

`TableData.type_` matters to the packer only in `try_splitting_subtables` / `try_promoting_subtables`
(both run once, right after a failed `basic_sort`).  The typed layer is a side table `types` (absent =
not a lookup); after promotion the packer continues on the plain `Graph` (`packTail`).
Splitting (`graph/splitting*.rs`) is not modelled: the typed requests of the harness never carry the
splittable types GPOS 2 / GPOS 4 (those are exercised on real tables only; internals are C16). -/

/-- `TableType`, as far as `graph.rs` looks at it. -/
inductive TType where
  | other
  | gpos (t : Nat)
  | gsub (t : Nat)
  deriving Repr, DecidableEq, Inhabited

structure TGraph where
  g : Graph
  types : Map TType

def TGraph.typeOf (tg : TGraph) (id : Nat) : TType := (tg.types.find? id).getD TType.other

/-- `TableType::is_promotable` (`GPOS_EXT_TYPE = 9`, `GSUB_EXT_TYPE = 7`). -/
def TType.isPromotable : TType → Bool
  | .gpos t => t ≠ 9
  | .gsub t => t ≠ 7
  | .other => false

/-- `to_lookup_type().map(to_raw)`. -/
def TType.raw? : TType → Option Nat
  | .gpos t => some t
  | .gsub t => some t
  | .other => none

/-- `LookupType::promote`; `none` = "should never be promoting an extension subtable" / not a lookup. -/
def TType.promote? : TType → Option TType
  | .gpos t => if t = 9 then none else some (.gpos 9)
  | .gsub t => if t = 7 then none else some (.gsub 7)
  | .other => none

/-- `make_extension`: `u16 format = 1`, `u16 lookup type`, then one 32-bit offset (placeholder `ff`). -/
def makeExtension (rawType subtable : Nat) : Obj :=
  ⟨8, [0, 1, rawType / 256 % 256, rawType % 256, 255, 255, 255, 255], [⟨4, 4, subtable, 0⟩]⟩

/-- `BTreeMap::remove`. -/
def Map.erase {α : Type} (m : Map α) (k : Nat) : Map α := m.filter (fun kv => kv.1 ≠ k)

/-- `Graph::add_object` with the id drawn by the caller. -/
def addObject (g : Graph) (id : Nat) (o : Obj) : Graph :=
  { g with parentsInvalid := true
           nodes := g.nodes.insert id (Node.new o.size)
           objects := g.objects.insert id o }

/-- one `for subtable_ref in &mut lookup.offsets` body of `actually_promote_subtables`. -/
def promoteLink (raw : Nat) (acc : Option (List Link × Graph × List Nat)) (l : Link) :
    Option (List Link × Graph × List Nat) :=
  match acc with
  | none => none
  | some (ls, g, fresh) =>
    match fresh with
    | [] => none
    | extId :: fresh => some (ls ++ [{ l with target := extId }], addObject g extId (makeExtension raw l.target), fresh)

/-- `write_over(u16, 0)`; sizes-only objects (`bytes = []`, see `Obj.WF`) keep their empty bytes. -/
def writeOverU16 (o : Obj) (v : Nat) : Option Obj :=
  if o.size < 2 then none
  else if o.bytes.length < 2 then some o
  else some { o with bytes := [v / 256 % 256, v % 256] ++ o.bytes.drop 2 }

/-- one `for id in to_promote` body of `actually_promote_subtables`; `none` = a panic (`unwrap`,
`expect("validated before now")`, `promote` of an extension type, slice bounds in `write_over`) or
the id supply exhausted. -/
def promoteOne (tg : TGraph) (fresh : List Nat) (id : Nat) : Option (TGraph × List Nat) :=
  match tg.g.objects.find? id with
  | none => none
  | some lookup =>
    match (tg.typeOf id).raw? with
    | none => none
    | some raw =>
      let g0 := { tg.g with objects := Map.erase tg.g.objects id }
      match lookup.links.foldl (promoteLink raw) (some ([], g0, fresh)) with
      | none => none
      | some (links, g, fresh) =>
        match (tg.typeOf id).promote? with
        | none => none
        | some pt =>
          match pt.raw? with
          | none => none
          | some praw =>
            match writeOverU16 { lookup with links := links } praw with
            | none => none
            | some lookup' =>
              some ({ g := { g with objects := g.objects.insert id lookup' }
                      types := tg.types.insert id pt }, fresh)

/-- `Graph::actually_promote_subtables`. -/
def actuallyPromote (tg : TGraph) (toPromote : List Nat) (fresh : List Nat) : Option (TGraph × List Nat) :=
  match toPromote.foldl (fun (acc : Option (TGraph × List Nat)) id =>
      match acc with
      | none => none
      | some (tg, fresh) => promoteOne tg fresh id) (some (tg, fresh)) with
  | none => none
  | some (tg, fresh) => some ({ tg with g := { tg.g with parentsInvalid := true } }, fresh)

/-- `Graph::get_promotable_subtables`; outer `none` = a panic ("Promotable subtables exist with
multiple parents" under debug assertions, `unwrap` of an empty parent set, a missing node). -/
def getPromotable (tg : TGraph) : Option (Option (List Nat × Nat)) :=
  let can : List Nat := Map.keys (tg.g.objects.filter (fun kv => (tg.typeOf kv.1).isPromotable))
  if can.isEmpty then some none else
  let parents : Option Set := can.foldl (fun (acc : Option Set) id =>
      match acc with
      | none => none
      | some s =>
        match tg.g.nodes.find? id with
        | none => none
        | some n => some (n.parents.foldl (fun s p => s.insert p.1) s)) (some [])
  match parents with
  | some [p] => some (some (can, p))
  | _ => none

/-! ### select_promotions_hb (with the `f64` sort key computed exactly) -/

/-- `find_subgraph_size`: the breadth-first walk marks a node when it is *popped*, so a node queued
twice before its first pop is counted twice. -/
def subgraphSizeLoop (g : Graph) : Nat → List Nat → Set → Nat → Option Nat
  | 0, _, _, _ => none
  | fuel + 1, queue, visited, size =>
    match queue with
    | [] => some size
    | next :: rest =>
      let visited := visited.insert next
      match g.objects.find? next with
      | none => none
      | some o =>
        subgraphSizeLoop g fuel (rest ++ (o.links.filter (fun l => !visited.contains l.target)).map (·.target))
          visited (size + o.size)

def SUBGRAPH_SIZE_FUEL : Nat := 2000000

/-- round-half-even `⌊n / 2^s⌉` -/
def shiftRoundEven (n s : Nat) : Nat :=
  let q := n / 2 ^ s
  let r := n % 2 ^ s
  if 2 * r > 2 ^ s ∨ (2 * r = 2 ^ s ∧ q % 2 = 1) then q + 1 else q

/-- `((count as f64 / size as f64) * 1e9) as u64` with both IEEE-754 binary64 roundings
(round-to-nearest-even) done exactly on integers and the saturating float-to-int cast
(`+inf → u64::MAX`, `NaN → 0`).  `count, size < 2^53` so the conversions are exact. -/
def promotionKey (count size : Nat) : Nat :=
  if size = 0 then (if count = 0 then 0 else 18446744073709551615) else
  if count = 0 then 0 else
  -- quotient rounded to 53 significant bits: q1 * 2^(-k), 2^52 ≤ q1 ≤ 2^53
  let k0 : Nat := 116                                     -- scale so that the integer quotient has > 53 bits
  let num := count * 2 ^ k0
  let qi := num / size
  let sticky : Nat := if num % size = 0 then 0 else 1
  -- fold the remainder into a sticky bit below the quotient so that one rounding step is exact
  let q2 := 2 * qi + sticky                                -- value = q2 * 2^(-k0-1) (up to sticky)
  let bits := Nat.log2 q2 + 1
  let s1 := bits - 53
  let q1 := shiftRoundEven q2 s1                           -- value ≈ q1 * 2^(s1 - k0 - 1)
  -- product with 1e9, rounded to 53 significant bits
  let p := q1 * 1000000000
  let pbits := Nat.log2 p + 1
  let s2 := pbits - 53
  let p1 := shiftRoundEven p s2                            -- value ≈ p1 * 2^(s2 + s1 - k0 - 1)
  let up := s2 + s1
  let down := k0 + 1
  let v := if up ≥ down then p1 * 2 ^ (up - down) else p1 / 2 ^ (down - up)
  min v 18446744073709551615

/-- `(id, subgraph_size, subtable_count)` -/
abbrev LookupSize := Nat × Nat × Nat

/-- the layer-size loop of `select_promotions_hb`; `none` = usize underflow (strict profile). -/
def selectLoop (g : Graph) : List LookupSize → Bool → Nat → Nat → Nat → List Nat → Option (List Nat)
  | [], _, _, _, _, acc => some acc
  | (id, subgraphSize, count) :: rest, full, l23, l34, l4, acc =>
    if full then selectLoop g rest true l23 l34 l4 (acc ++ [id]) else
    match g.objects.find? id with
    | none => none
    | some lookup =>
      let lookupSize := lookup.size
      -- find_children_size: `self.objects.get(..).unwrap()` per link
      match lookup.links.foldl (fun (acc : Option Nat) l =>
          match acc, g.objects.find? l.target with
          | some n, some o => some (n + o.size)
          | _, _ => none) (some 0) with
      | none => none
      | some subtablesSize =>
        if subgraphSize < lookupSize + subtablesSize then none else
        let remaining := subgraphSize - lookupSize - subtablesSize
        let l23 := l23 + lookupSize
        let l34 := l34 + lookupSize + subtablesSize
        if l34 < count * 8 then none else
        let l34 := l34 - count * 8
        let l4 := l4 + subtablesSize + remaining
        if l23 < 65535 ∧ l34 < 65535 ∧ l4 < 65535 then selectLoop g rest false l23 l34 l4 acc
        else selectLoop g rest true l23 l34 l4 (acc ++ [id])

/-- `Graph::select_promotions_hb`. -/
def selectPromotions (tg : TGraph) (candidates : List Nat) (parent : Nat) : Option (List Nat) := do
  let sizes ← candidates.foldl (fun (acc : Option (List LookupSize)) id =>
      match acc with
      | none => none
      | some ls =>
        match subgraphSizeLoop tg.g SUBGRAPH_SIZE_FUEL [id] [] 0, tg.g.objects.find? id with
        | some sz, some o => some (ls ++ [(id, sz, o.links.length)])
        | _, _ => none) (some [])
  -- `sort_by_key(Reverse(key))`: stable, larger keys first
  let sorted := sizes.foldl (fun acc x =>
      insertBy (fun (a b : LookupSize) => promotionKey a.2.2 a.2.1 > promotionKey b.2.2 b.2.1) x acc) []
  let parentObj ← tg.g.objects.find? parent
  let ext := sorted.foldl (fun n x => n + x.2.2 * 8) 0
  selectLoop tg.g sorted false parentObj.size ext ext []

/-- `Graph::try_promoting_subtables`, the selection being a parameter. -/
def tryPromotingWith (sel : TGraph → List Nat → Nat → Option (List Nat)) (tg : TGraph) (fresh : List Nat) :
    Option (TGraph × List Nat) :=
  match getPromotable tg with
  | none => none
  | some none => some (tg, fresh)
  | some (some (can, parent)) =>
    match sel tg can parent with
    | none => none
    | some toPromote => actuallyPromote tg toPromote fresh

/-- `Graph::pack_objects` on typed graphs without splittable subtables. -/
def packObjectsWith (sel : TGraph → List Nat → Nat → Option (List Nat)) (tg : TGraph) (fresh : List Nat) :
    Option (Bool × TGraph × List Nat) := do
  let (ok, g) ← basicSort tg.g
  if ok then some (true, { tg with g := g }, fresh) else
  let (tg, fresh) ← tryPromotingWith sel { tg with g := g } fresh
  let (ok, g, fresh) ← packTail tg.g fresh
  some (ok, { tg with g := g }, fresh)

def packObjectsT (tg : TGraph) (fresh : List Nat) : Option (Bool × TGraph × List Nat) :=
  packObjectsWith selectPromotions tg fresh

/-- `dump_table` after `make_graph`, typed. -/
def dumpWith (sel : TGraph → List Nat → Nat → Option (List Nat)) (tg : TGraph) (fresh : List Nat) :
    Option (Option (List Nat)) :=
  match packObjectsWith sel tg fresh with
  | none => none
  | some (false, _, _) => some none
  | some (true, tg, _) =>
    match serialize tg.g with
    | none => none
    | some out => some (some out)

end FontVerif.Graph
