/-
C17 — "post part": the `post` version 2.0 rebuild, the in-place header rewrites (head, hhea; maxp is
`Subset.subsetMaxp`), VORG, and the tables that are passed through (vmtx, vhea).

Transcribed Rust (klippa/src at /repo HEAD, post-fix):
  post.rs       `Post::subset`, `subset_post_v2tail`
  glyf_loca.rs  `subset_head`;  head.rs `Head::subset`
  hmtx.rs       the `hhea` tail of `Hmtx::subset`
  vorg.rs       `Vorg::subset` / `serialize`
  lib.rs        `subset_table` dispatch (`Hhea::TAG => Ok(())`, `Loca::TAG => Ok(())`, `Head::TAG` subsetted
                directly only without glyf, `_ => passthrough_table`: vmtx / vhea), `subset` ("Err without a
                serializer error = table omitted"), `try_subset` (serializer room, `SubsetGvar.room`)
and the read-fonts side:
  generated_post.rs `Post::read`; tables/post.rs `Post::glyph_name`, `PString::read`, DEFAULT_GLYPH_NAMES
  array.rs      `VarLenArray::get` (what `glyph_name` uses) and `VarLenArray::iter` (what klippa collects)
  read.rs       `VarSize::read_len_at`
  generated_vorg.rs `Vorg::read`; tables/vorg.rs `Vorg::vertical_origin_y` (core `binary_search_by` =
                `Layout.binarySearchBy`)
  tables/hmtx.rs `advance` / `side_bearing` (shared by hmtx and vmtx) = `Subset.hmtxAdvance` / `hmtxLsb`

Hash containers: `plan.glyph_map` (FnvHashMap old -> new) is `Subset.oldToNew n2o` (keys distinct);
`standard_glyphs` (HashMap name -> index, `collect`ed from the 258 distinct names) is `stdIndex`;
`visited_names` (HashMap name -> u16) is an association list, newest first (keys are inserted once).
Only Model imports: the driver is a linked executable.
-/
import FontVerif.Model.SubsetMeta
import FontVerif.Model.SubsetGvar
import FontVerif.Model.SubsetPostNames
import FontVerif.Model.Layout
namespace FontVerif.SubsetPost
open FontVerif FontVerif.Subset FontVerif.SubsetMeta

def u32At (d : Bytes) (i : Nat) : Nat := SubsetGvar.u32At d i

/-! ## read-fonts: `Post::read` and the Pascal strings -/

/-- `version.compatible((2, 0))`: major version 2 (every minor version is `>= 0`, so 2.5 counts) -/
def hasV2Fields (t : Bytes) : Bool := u16At t 0 == 2

/-- the `numGlyphs` field (only meaningful with `hasV2Fields`) -/
def postNumGlyphs (t : Bytes) : Nat := u16At t 32

/-- `Post::read` succeeds: 32 header bytes; with major version 2 also `numGlyphs` and the whole
`glyphNameIndex` array (the cursor's `position()` after the array must be in bounds) -/
def postReadable (t : Bytes) : Bool :=
  if hasV2Fields t then decide (34 + 2 * postNumGlyphs t ≤ t.length) else decide (32 ≤ t.length)

/-- `glyph_name_index()` -/
def glyphNameIndex (t : Bytes) : List Nat :=
  (List.range (postNumGlyphs t)).map (fun g => u16At t (34 + 2 * g))

/-- the bytes `string_data()` wraps: everything after the index array -/
def stringData (t : Bytes) : Bytes := t.drop (34 + 2 * postNumGlyphs t)

def isAscii (s : Bytes) : Bool := s.all (· < 128)

/-- `PString::read` on data that starts at a string; `some s` = `Ok`, `none` = any `Err`
(empty data, string longer than the data, non-ASCII byte) -/
def pstrRead : Bytes → Option Bytes
  | [] => none
  | l :: rest => if l ≤ rest.length then (if isAscii (rest.take l) then some (rest.take l) else none) else none

/-- the loop of `VarLenArray::get`: `pos = pos.checked_add(read_len_at(data, pos)?)?`, `idx` times.
`read_len_at` only needs the length byte to be readable. -/
def pstrPos (data : Bytes) : Nat → Nat → Option Nat
  | 0, pos => some pos
  | k + 1, pos =>
    match data[pos]? with
    | none => none
    | some l => pstrPos data k (pos + (l + 1))

/-- `string_data().get(idx)` as `glyph_name` consumes it: `Some(Ok(s))` ↦ `some s`, `None` and `Some(Err)` ↦ `none` -/
def pstrGet (data : Bytes) (idx : Nat) : Option Bytes :=
  match pstrPos data idx 0 with
  | none => none
  | some pos => if pos ≤ data.length then pstrRead (data.drop pos) else none

/-- `VarLenArray::iter()`: items (`some s` = `Ok`, `none` = `Err`: non-ASCII) until the data is exhausted or the
next item does not fit (`data.slice(..item_len)?` ends the iteration).  Fuel: every item takes >= 1 byte. -/
def pstrIter : Nat → Bytes → List (Option Bytes)
  | 0, _ => []
  | _, [] => []
  | fuel + 1, l :: rest =>
    if l ≤ rest.length then
      (if isAscii (rest.take l) then some (rest.take l) else none) :: pstrIter fuel (rest.drop l)
    else []

/-- `post.string_data().iter().collect::<Vec<_>>()` -/
def pstrAll (data : Bytes) : List (Option Bytes) := pstrIter data.length data

/-- read-fonts `Post::glyph_name` on a whole table (`none` also when `Post::read` fails) -/
def glyphName (t : Bytes) (gid : Nat) : Option Bytes :=
  if !postReadable t then none else
  if u32At t 0 = 0x00010000 then stdNames[gid]?
  else if u32At t 0 = 0x00020000 then
    if gid < postNumGlyphs t then
      let idx := u16At t (34 + 2 * gid)
      if idx < 258 then stdNames[idx]? else pstrGet (stringData t) (idx - 258)
    else none
  else none

/-! ## klippa: `subset_post_v2tail` -/

/-- position of `s` in a list of names -/
def indexIn (s : Bytes) : List Bytes → Nat → Option Nat
  | [], _ => none
  | x :: rest, i => if x = s then some i else indexIn s rest (i + 1)

/-- `standard_glyphs.get(name)` -/
def stdIndex (s : Bytes) : Option Nat := indexIn s stdNames 0

/-- `visited_names.get(name)` -/
def lookupB (s : Bytes) : List (Bytes × Nat) → Option Nat
  | [] => none
  | (k, v) :: rest => if k = s then some v else lookupB s rest

/-- the state of the second loop besides the index array: `visited_names`, the counter `i`, and the strings
embedded so far (emission order) -/
structure Pool where
  visited : List (Bytes × Nat)
  next : Nat
  strs : List Bytes
deriving Repr

def Pool.init : Pool := { visited := [], next := 258, strs := [] }

/-- the `match standard_glyphs.get(ps_name)` expression: the index to store and the updated pool.
`i = i.wrapping_add(1)` (fix: was `i += 1`, which overflowed after the 65278th new name). -/
def poolIndex (p : Pool) (name : Bytes) : Nat × Pool :=
  match stdIndex name with
  | some k => (k, p)
  | none =>
    match lookupB name p.visited with
    | some k => (k, p)
    | none =>
      (p.next, { visited := (name, p.next) :: p.visited, next := (p.next + 1) % 65536, strs := p.strs ++ [name] })

/-- the second loop over its jobs `(new gid, name)`: the `copy_assign`s it performs, in order, and the final pool -/
def runPool : Pool → List (Nat × Bytes) → List (Nat × Nat) × Pool
  | p, [] => ([], p)
  | p, (new, name) :: rest =>
    let r := poolIndex p name
    let q := runPool r.2 rest
    ((new, r.1) :: q.1, q.2)

/-- the (old gid, glyphNameIndex) pairs both loops enumerate: `.iter().enumerate().take(max_old_gid + 1)` -/
def indexPairs (t : Bytes) (maxOld : Nat) : List (Nat × Nat) :=
  ((glyphNameIndex t).zipIdx.map (fun p => (p.2, p.1))).take (maxOld + 1)

/-- first loop (`name_idx < 258`): the writes `(new gid, index)`; old gids without a mapping are skipped, and so
are new gids `>= num_output_glyphs` -/
def jobs1 (nout : Nat) (gmap : Nat → Option Nat) (pairs : List (Nat × Nat)) : List (Nat × Nat) :=
  pairs.filterMap (fun p =>
    if p.2 < 258 then
      match gmap p.1 with
      | none => none
      | some new => if new ≥ nout then none else some (new, p.2)
    else none)

/-- second loop (`name_idx >= 258`) up to the name lookup: `(new gid, name)` for every mapped old gid whose
index `- 258` denotes an item `Some(Ok(..))` of the collected string list -/
def jobs2 (strings : List (Option Bytes)) (gmap : Nat → Option Nat) (pairs : List (Nat × Nat)) :
    List (Nat × Bytes) :=
  pairs.filterMap (fun p =>
    if p.2 < 258 then none else
    match gmap p.1 with
    | none => none
    | some new =>
      match strings[p.2 - 258]? with
      | some (some name) => some (new, name)
      | _ => none)

/-- `copy_assign(idx_start + new * 2, v)` on the zero-initialised array, in program order -/
def applyWrites (arr : List Nat) (ws : List (Nat × Nat)) : List Nat :=
  ws.foldl (fun a w => a.set w.1 w.2) arr

/-- `s.embed(len as u8)`, `s.embed_bytes(name)` -/
def pstrEnc (s : Bytes) : Bytes := (s.length % 256) :: s

structure PostIn where
  flags : Nat
  /-- `plan.num_output_glyphs` -/
  nout : Nat
  /-- `plan.glyphset.last()` -/
  maxOld : Option Nat
  /-- `plan.new_to_old_gid_list` (defines `plan.glyph_map`) -/
  n2o : List (Nat × Nat)
  /-- `plan.font_num_glyphs` (serializer room) -/
  srcGlyphs : Nat
  /-- the source table -/
  t : Bytes

structure TailOut where
  arr : List Nat
  strs : List Bytes
deriving Repr

/-- `subset_post_v2tail` after the header: the final index array and the string pool.
An empty glyph set (`plan.glyphset.last()` is `None`: a font without glyphs) leaves the zero-initialised array
(fix: was `unwrap()`). -/
def v2tail (inp : PostIn) : TailOut :=
  match inp.maxOld with
  | none => { arr := List.replicate inp.nout 0, strs := [] }
  | some m =>
    let gmap := oldToNew inp.n2o
    let pairs := indexPairs inp.t m
    let w1 := jobs1 inp.nout gmap pairs
    let q := runPool Pool.init (jobs2 (pstrAll (stringData inp.t)) gmap pairs)
    { arr := applyWrites (List.replicate inp.nout 0) (w1 ++ q.1), strs := q.2.strs }

/-- the bytes of the rebuilt version 2.0 table -/
def v2bytes (hdr : Bytes) (nout : Nat) (o : TailOut) : Bytes :=
  hdr ++ be16 (nout % 65536) ++ o.arr.flatMap (fun v => be16 (v % 65536)) ++ o.strs.flatMap pstrEnc

/-- `Post::subset` as seen through `subset_font`.
`"dropped"`: `font.post()` fails (`SubsetTableError` without a serializer error: the table is omitted);
`"err"`: the output does not fit the largest serializer buffer tried (`subset_font`
fails); `"unmodelled"`: a plan entry with new gid `>= num_output_glyphs` (never produced by `Plan::new`;
the second loop would write outside the array). -/
def subsetPost (inp : PostIn) : Except String Bytes :=
  if !postReadable inp.t then .error "dropped" else
  let names := hasFlag inp.flags F_GLYPH_NAMES
  let hdr := if names then inp.t.take 32 else patch (inp.t.take 32) 0 [0, 3, 0, 0]
  if names ∧ u32At inp.t 0 = 0x00020000 then
    if inp.n2o.any (fun no => no.1 ≥ inp.nout) then .error "unmodelled" else
    let room := SubsetGvar.room inp.t.length inp.srcGlyphs inp.nout
    if 34 + 2 * inp.nout > room then .error "err" else
    let out := v2bytes hdr inp.nout (v2tail inp)
    if out.length > room then .error "err" else .ok out
  else .ok hdr

/-! ## head, hhea -/

/-- glyf_loca.rs `subset_head` (called from `Glyf::subset` with the loca format it chose): bytes 50..52 :=
`[0, loca_format]`.  `none`: `font.head()` fails (fewer than 54 bytes) — `Glyf::subset` then returns
`SubsetTableError(head)` and neither glyf, loca nor head is emitted. -/
def subsetHead (head : Bytes) (locaFormat : Nat) : Option Bytes :=
  if head.length < 54 then none else some ((head.set 50 0).set 51 locaFormat)

/-- head.rs `Head::subset` (only reached for a font without glyf): the table unchanged -/
def subsetHeadNoGlyf (head : Bytes) : Option Bytes :=
  if head.length < 54 then none else some head

/-- hmtx.rs, tail of `Hmtx::subset`: the whole hhea table with bytes 34..36 := `new_num_h_metrics as u16`.
`none`: `font.hhea()` fails (fewer than 36 bytes); then `font.hmtx()` fails as well and neither table is emitted. -/
def subsetHhea (hhea : Bytes) (newNumH : Nat) : Option Bytes :=
  if hhea.length < 36 then none else some (setU16 hhea 34 (newNumH % 65536))

/-- `hhea.numberOfHMetrics` (read-fonts `Hhea::number_of_h_metrics`) -/
def hheaNumH (hhea : Bytes) : Nat := u16At hhea 34

/-- `head.indexToLocFormat` as a raw u16 -/
def headLocFormat (head : Bytes) : Nat := u16At head 50

/-! ## maxp readers (for the theorems about `Subset.subsetMaxp`) -/

def maxpNumGlyphs (d : Bytes) : Nat := u16At d 4

/-! ## VORG -/

/-- `Vorg::read` succeeds: 8 header bytes and `numVertOriginYMetrics` 4-byte records -/
def vorgReadable (t : Bytes) : Bool := decide (8 ≤ t.length) && decide (8 + 4 * u16At t 6 ≤ t.length)

/-- `vert_origin_y_metrics()` as (glyphIndex, vertOriginY raw 16 bit) -/
def vorgRecords (t : Bytes) : List (Nat × Nat) :=
  (List.range (u16At t 6)).map (fun k => (u16At t (8 + 4 * k), u16At t (10 + 4 * k)))

/-- vorg.rs `serialize`: the kept records, in source order.  Result: (count, records). `count: u16` starts at 0 and
is incremented once per kept record, at most 65535 times (the source count is a u16). -/
def vorgKept (gmap : Nat → Option Nat) (recs : List (Nat × Nat)) : List (Nat × Nat) :=
  recs.filterMap (fun r =>
    match gmap r.1 with
    | none => none
    | some new => some (new % 65536, r.2))

/-- `Vorg::subset`.  `"dropped"`: `font.vorg()` fails; `"err"`: out of serializer room. -/
def subsetVorg (n2o : List (Nat × Nat)) (srcGlyphs nout : Nat) (t : Bytes) : Except String Bytes :=
  if !vorgReadable t then .error "dropped" else
  let kept := vorgKept (oldToNew n2o) (vorgRecords t)
  let out := t.take 6 ++ be16 (kept.length % 65536) ++ kept.flatMap (fun r => be16 r.1 ++ be16 r.2)
  if out.length > SubsetGvar.room t.length srcGlyphs nout then .error "err" else .ok out

/-- read-fonts `Vorg::vertical_origin_y` (raw 16-bit value; `none` when `Vorg::read` fails) -/
def vorgOriginY (t : Bytes) (gid : Nat) : Option Nat :=
  if !vorgReadable t then none else
  let recs := vorgRecords t
  match Layout.binarySearchBy recs.length (fun i => Layout.natCmp (recs.getD i (0, 0)).1 gid) with
  | .ok ix => some (match recs[ix]? with | some r => r.2 | none => 0)
  | .err _ => some (u16At t 4)

/-! ## pass-through tables (lib.rs `subset_table`: `_ => passthrough_table`) -/

/-- `passthrough_table`: vmtx and vhea have no subsetter at this commit and are copied byte for byte -/
def passthrough (t : Bytes) : Bytes := t

/-- long metrics (advance, side bearing) and trailing side bearings of an hmtx / vmtx table with `numLong`
long metrics for `numGlyphs` glyphs (read-fonts `Hmtx::read` / `Vmtx::read` with these arguments);
`none`: the table is too short -/
def metricsOf (t : Bytes) (numLong numGlyphs : Nat) : Option (List (Nat × Nat) × List Nat) :=
  let nb := numGlyphs - numLong
  if 4 * numLong + 2 * nb ≤ t.length then
    some ((List.range numLong).map (fun i => (u16At t (4 * i), u16At t (4 * i + 2))),
          (List.range nb).map (fun k => u16At t (4 * numLong + 2 * k)))
  else none

end FontVerif.SubsetPost
