/-
Model of skrifa/src/outline/glyf/hint/math.rs and `dot14` of hint/projection.rs, in the
overflow-checked profile (the suite's profile and the harness' strict profile): plain `+ - * /`
and unary `-` on `i32`/`i64` trap on overflow (`none`), `as` casts truncate, `wrapping_*` wrap.
`mul`, `div`, `mul_div` delegate to font-types `Fixed` (Model/Fixed.lean).
-/
import FontVerif.Model.Fixed
import FontVerif.Model.Land
namespace FontVerif.HintMath
open FontVerif

/-- an `i32` result of a plain (checked) operation: `none` = overflow trap. -/
def chk (x : Int) : Option Int := if -2147483648 ≤ x ∧ x < 2147483648 then some x else none
/-- same for `i64`. -/
def chk64 (x : Int) : Option Int :=
  if -9223372036854775808 ≤ x ∧ x < 9223372036854775808 then some x else none

/-- `floor(x) = x & !63`. -/
def floor (x : Int) : Int := x - x % 64
/-- `round(x) = floor(x + 32)`. -/
def round (x : Int) : Option Int := (chk (x + 32)).map floor
/-- `ceil(x) = floor(x + 63)`. -/
def ceil (x : Int) : Option Int := (chk (x + 63)).map floor
/-- `floor_pad(x, n) = x & !(n - 1)`. -/
def floorPad (x n : Int) : Option Int := (chk (n - 1)).map (fun m => landInt x (notInt m))
/-- `round_pad(x, n) = floor_pad(x + n / 2, n)` (`n / 2` truncates, cannot overflow). -/
def roundPad (x n : Int) : Option Int := (chk (x + Int.tdiv n 2)).bind (fun s => floorPad s n)

/-- `mul(a, b) = (Fixed(a) * Fixed(b)).to_bits()`. -/
def mul (a b : Int) : Int := Fixed.mul a b
/-- `div(a, b)`. -/
def div (a b : Int) : Int := Fixed.div a b
/-- `mul_div(a, b, c) = Fixed(a).mul_div(Fixed(b), Fixed(c))`. -/
def mulDiv (a b c : Int) : Int := Fixed.mulDiv a b c

/-- `mul_div_no_round`: `a = -a` / `b = -b` / `c = -c` on `i32` (trap at `i32::MIN`),
`d = if c > 0 { (a as i64 * b as i64) / c as i64 } else { 0x7FFFFFFF }`,
`if s < 0 { -(d as i32) } else { d as i32 }` (the negation traps when `d as i32 = i32::MIN`). -/
def mulDivNoRound (a b c : Int) : Option Int :=
  (if a < 0 then chk (-a) else some a).bind fun a' =>
  (if b < 0 then chk (-b) else some b).bind fun b' =>
  (if c < 0 then chk (-c) else some c).bind fun c' =>
  let neg := ((a < 0) != (b < 0)) != (c < 0)
  let d := if c' > 0 then (a' * b') / c' else 2147483647
  if neg then chk (-(wrapI32 d)) else some (wrapI32 d)

/-- `mul14(a, b)`: `v = a as i64 * b as i64; v += 0x2000 + (v >> 63); (v >> 14) as i32`.
No i64 overflow is possible for i32 operands (|v| ≤ 2^62). -/
def mul14 (a b : Int) : Int :=
  let v := a * b
  wrapI32 ((v + (8192 + (if v < 0 then -1 else 0))) / 16384)

/-- projection.rs `dot14(ax, ay, bx, by)`: `v1 = ax*bx; v2 = ay*by; v1 += v2;
v1 += 0x2000 + (v1 >> 63); (v1 >> 14) as i32` — the two `+=` are checked i64 additions. -/
def dot14 (ax ay bx by_ : Int) : Option Int :=
  (chk64 (ax * bx + ay * by_)).bind fun v1 =>
  (chk64 (v1 + (8192 + (if v1 < 0 then -1 else 0)))).map fun v => wrapI32 (v / 16384)

end FontVerif.HintMath
