/-
Model of skrifa/src/outline/glyf/hint/math.rs and `dot14` of hint/projection.rs, in the
overflow-checked profile (the suite's profile and the harness' strict profile): plain `+ - * /`
and unary `-` on `i32`/`i64` trap on overflow (`none`), `as` casts truncate, `wrapping_*` wrap.
State of the code: after /repo commit fafa2bb (`round`/`ceil`/`round_pad`/`mul_div_no_round` wrap).
`mul`, `div`, `mul_div` delegate to font-types `Fixed` (Model/Fixed.lean).
-/
import FontVerif.Model.Fixed
import FontVerif.Model.Land
namespace FontVerif.HintMath
open FontVerif

/-- an `i32` result of a plain (checked) operation: `none` = overflow trap. -/
def chk (x : Int) : Option Int := if -2147483648 ≤ x ∧ x < 2147483648 then some x else none
/-- same for `i64`. -/
def chk64 (x : Int) : Option Int :=
  if -9223372036854775808 ≤ x ∧ x < 9223372036854775808 then some x else none

/-- `floor(x) = x & !63`. -/
def floor (x : Int) : Int := x - x % 64
/-- `round(x) = floor(x.wrapping_add(32))`. -/
def round (x : Int) : Int := floor (wrapI32 (x + 32))
/-- `ceil(x) = floor(x.wrapping_add(63))`. -/
def ceil (x : Int) : Int := floor (wrapI32 (x + 63))
/-- `floor_pad(x, n) = x & !(n - 1)` (`n - 1` is a plain subtraction). -/
def floorPad (x n : Int) : Option Int := (chk (n - 1)).map (fun m => landInt x (notInt m))
/-- `round_pad(x, n) = floor_pad(x.wrapping_add(n / 2), n)` (`n / 2` truncates, cannot overflow). -/
def roundPad (x n : Int) : Option Int := floorPad (wrapI32 (x + Int.tdiv n 2)) n

/-- `mul(a, b) = (Fixed(a) * Fixed(b)).to_bits()`. -/
def mul (a b : Int) : Int := Fixed.mul a b
/-- `div(a, b)`. -/
def div (a b : Int) : Int := Fixed.div a b
/-- `mul_div(a, b, c) = Fixed(a).mul_div(Fixed(b), Fixed(c))`. -/
def mulDiv (a b c : Int) : Int := Fixed.mulDiv a b c

/-- `mul_div_no_round` (after the `fix:` commit fafa2bb): sign from the three operands,
`a.unsigned_abs() as u64` …, `d = if c > 0 { (a * b) / c } else { 0x7FFFFFFF }` in `u64` (the product
of two magnitudes ≤ 2^31 cannot overflow), `if s < 0 { (d as i32).wrapping_neg() } else { d as i32 }`. -/
def mulDivNoRound (a b c : Int) : Int :=
  let neg := ((a < 0) != (b < 0)) != (c < 0)
  let ua := iabs a
  let ub := iabs b
  let uc := iabs c
  let d := if uc > 0 then (ua * ub) / uc else 2147483647
  if neg then wrapI32 (-(wrapI32 d)) else wrapI32 d

/-- `mul14(a, b)`: `v = a as i64 * b as i64; v += 0x2000 + (v >> 63); (v >> 14) as i32`.
No i64 overflow is possible for i32 operands (|v| ≤ 2^62). -/
def mul14 (a b : Int) : Int :=
  let v := a * b
  wrapI32 ((v + (8192 + (if v < 0 then -1 else 0))) / 16384)

/-- projection.rs `dot14(ax, ay, bx, by)`: `v1 = ax*bx; v2 = ay*by; v1 += v2;
v1 += 0x2000 + (v1 >> 63); (v1 >> 14) as i32` — the two `+=` are checked i64 additions. -/
def dot14 (ax ay bx by_ : Int) : Option Int :=
  (chk64 (ax * bx + ay * by_)).bind fun v1 =>
  (chk64 (v1 + (8192 + (if v1 < 0 then -1 else 0)))).map fun v => wrapI32 (v / 16384)

end FontVerif.HintMath
