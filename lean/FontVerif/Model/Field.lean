/-
C04 — a field-level model of the *generated* writers of write-fonts and of the value-level view
of the *generated* readers of read-fonts.

What is transcribed (the Rust that exists):
* `write-fonts/generated/*.rs`, `impl FontWrite for T { fn write_into }` — a rigid sequence of
    `self.f.write_into(writer);`                                        (`WSrc.field`, `WItem.array`)
    `(CONST as T).write_into(writer);`                                  (`WSrc.const`)
    `(u16::try_from(array_len(&self.xs)).unwrap()).write_into(writer);` (`WSrc.count xs 1 0`; `plus_one` ⇒ `b = 1`,
                                                                         `2 * array_len` ⇒ `a = 2`; the `unwrap` panic
                                                                         is `emit = none`)
    `(self.compute_x() as T).write_into(writer);`                       (`WSrc.computed`, interpreted by a parameter)
    `let version = …; version.write_into(writer);`                      (an ordinary scalar whose id later conditions name)
    `version.compatible(V).then(|| self.f.as_ref().expect(..).write_into(writer));`   (`WF.cond`)
  `write-fonts/src/write.rs`: scalars are written big-endian (`write_slice(&x.to_raw())`), a `Vec<T>` writes its
  elements in order, a record writes its fields in order; an `OffsetMarker<T, W>` writes `W` bytes whose final value
  is chosen by the packer (C05) — here it is a scalar of width `W` whose written value is that final offset.
* `read-fonts/generated/*.rs`, `impl FontRead for T` + the `*_byte_range` fns + the getters, seen at value level:
  the fields in layout order, each a scalar of a fixed width, or an array whose element count is an expression of
  previously read scalars (`x as usize`, `transforms::subtract(x, b)`, `transforms::half(x)`), a literal, or "all
  the remaining bytes" (`cursor.remaining_bytes() / N * N`), or a field present only if a condition on a previously
  read version/flags scalar holds (`RF`).  Fixed-size records (`#[repr(packed)]` structs of `BigEndian<T>`) are
  the list of their field widths.

Round 4 (computed sizes, external arguments, count transforms, length-prefixed elements, format dispatch):
* `ComputeSize` records (`font-codegen/src/record.rs`: `impl ComputeSize for R`, `ComputedArray<'a, R>`, and the hand-written
  `ComputeSize for ValueRecord` in read-fonts/src/tables/value_record.rs): the byte size of one array element is an
  expression of previously read fields / of the reader's arguments.  An element is still the flat list of its scalars;
  the reader's element layout is a list of segments `(n, ws)` = "`n` copies of the scalar group `ws`" with `n : NExpr`
  (`RItem.arrayV`).  The writer of such an element (`Vec<T>` fields of the element record, the hand-written
  `FontWrite for ValueRecord`) knows no count: it writes a fixed prefix of scalars followed by *any number* of scalars of
  one width (`WItem.arrayV pre tail`).
* `FontReadWithArgs` (`read_with_args(data, &args)`): the arguments are entries of the *initial* view the reader and the
  writer start from (ids from `argBase`); the writer never looks at them.
* `#[count(..)]` transforms (`read-fonts/src/lib.rs  codegen_prelude::transforms`) and hand-written count functions
  (`DeltaFormat::value_count`, `EntryFormat::map_size`, `ItemVariationData::delta_sets_len`, `TupleIndex::tuple_len`):
  `RCount.expr (e : NExpr)`.
* `VarLenArray<T>` (`read-fonts/src/array.rs`, `VarSize`): every element carries its own item count in a `hw`-byte
  prefix (`WItem.arrayL`, `RItem.arrayL`).
* format enums (`font-codegen/src/table.rs::generate_format_group`): `Variant`, `emitEnum`, `parseEnum`.

Values are *raw*: a scalar is the unsigned big-endian number stored in its bytes (sign, fixed-point scaling and
newtypes are bijective re-interpretations on both sides and are exercised by the harness).

The extraction of both programs from the generated sources is done by `translate/writers.py` on every run.
-/
import FontVerif.Model.Base

namespace FontVerif.Field

abbrev Bytes := List Nat

/-- big-endian bytes of the low `sz` bytes of `n` (`Scalar::to_raw`) -/
def be : Nat → Nat → Bytes
  | 0, _ => []
  | sz + 1, n => be sz (n / 256) ++ [n % 256]

/-- big-endian value of a byte string (`Scalar::from_raw` / `BigEndian::get`) -/
def beVal (bs : Bytes) : Nat := bs.foldl (fun acc b => acc * 256 + b) 0

/-- raw field values -/
inductive Val
  | num (n : Nat)                  -- a scalar (or the final value of an offset)
  | arr (xs : List (List Nat))     -- an array of fixed-size records (a scalar array has 1-field records)
  | absent                         -- a version/flag-gated field that is not present
  deriving DecidableEq, Repr, Inhabited

/-- conditions on a previously written / read scalar -/
inductive Cond
  | geU16 (v : Nat)                -- `version.compatible(v)` for `u16`
  | compatMM (maj min : Nat)       -- `MajorMinor::compatible((maj, min))`
  | compatV16 (maj min : Nat)      -- `Version16Dot16::compatible((maj, min))`
  | contains (bits : Nat)          -- bitflags `contains`
  | intersects (bits : Nat)        -- bitflags `intersects`
  deriving DecidableEq, Repr

/-- `font-types`: `Compatible` impls (`u16`: `self >= other`; `MajorMinor` / `Version16Dot16`: same major,
minor at least), bitflags `contains` / `intersects`. -/
def Cond.eval : Cond → Nat → Bool
  | .geU16 v, x => decide (x ≥ v)
  | .compatMM maj min, x => decide (x / 65536 = maj ∧ x % 65536 ≥ min)
  | .compatV16 maj min, x => decide (x / 65536 = maj ∧ x % 65536 / 4096 ≥ min)
  | .contains bits, x => decide (Nat.land x bits = bits)
  | .intersects bits, x => decide (Nat.land x bits ≠ 0)

/-! ## numbers the generated readers compute (count transforms, computed element sizes) -/

/-- `usize::MAX` on the 64-bit targets -/
def MAXU : Nat := 18446744073709551615
/-- `usize::saturating_add` -/
def satAdd (a b : Nat) : Nat := if a + b ≤ MAXU then a + b else MAXU
/-- `usize::saturating_mul` -/
def satMul (a b : Nat) : Nat := if a * b ≤ MAXU then a * b else MAXU

/-- `count_ones` of the low `k` bits -/
def popcount : Nat → Nat → Nat
  | 0, _ => 0
  | k + 1, n => n % 2 + popcount k (n / 2)

/-- hand-written count functions that generated readers call (`#[count($fn(..))]`), transcribed from
read-fonts/src/tables/{layout,variations}.rs on raw argument values (the translator ties their source by token hash) -/
inductive CFn
  | valueCount      -- `DeltaFormat::value_count(delta_format, start_size, end_size)`
  | mapSize         -- `EntryFormat::map_size(entry_format, map_count)`
  | deltaSetsLen    -- `ItemVariationData::delta_sets_len(item_count, word_delta_count, region_index_count)`
  | tupleLen        -- `TupleIndex::tuple_len(tuple_index, axis_count, flag)`
  deriving DecidableEq, Repr

def CFn.eval : CFn → Nat → Nat → Nat → Nat
  -- `range_len = (end_size as usize + 1).saturating_sub(start_size as usize)`; `val_per_word` 8 / 4 / 2 for
  -- Local{2,4,8}BitDeltas (raw 1, 2, 3), any other format → 0; `range_len / vpw + (range_len % vpw).min(1)`
  | .valueCount, fmt, startSize, endSize =>
    let rangeLen := (endSize + 1) - startSize
    let vpw := if fmt = 1 then 8 else if fmt = 2 then 4 else if fmt = 3 then 2 else 0
    if vpw = 0 then 0 else rangeLen / vpw + min (rangeLen % vpw) 1
  -- `entry_size() as usize * map_count`, `entry_size = ((bits & 0x30) >> 4) + 1`
  | .mapSize, ef, mapCount, _ => (ef / 16 % 4 + 1) * mapCount
  -- `delta_row_len(word_delta_count, region_index_count) * item_count`
  | .deltaSetsLen, itemCount, wdc, ric =>
    let long := wdc / 32768 % 2 = 1
    let wordSize := if long then 4 else 2
    let smallSize := if long then 2 else 1
    let longCount := wdc % 32768
    (longCount * wordSize + (ric - longCount) * smallSize) * itemCount
  -- `flag == 0`: `embedded_peak_tuple() (0x8000) as usize * axis_count`, else `intermediate_region() (0x4000)`
  | .tupleLen, ti, axisCount, flag =>
    if flag = 0 then (ti / 32768 % 2) * axisCount else (ti / 16384 % 2) * axisCount

/-- a `usize` the reader computes from fields it has already read and from its external arguments (both are entries
of the view; `x as usize` / `x.try_into().unwrap_or_default()` of an *unsigned* scalar is its raw value) -/
inductive NExpr
  | lit (n : Nat)
  | field (g : Nat)
  | add (a b : NExpr)                 -- `saturating_add` (`transforms::add`, `checked_add` of sizes)
  | sub (a b : NExpr)                 -- `saturating_sub` (`transforms::subtract`)
  | mul (a b : NExpr)                 -- `saturating_mul` (`transforms::add_multiply`, `checked_mul` of sizes)
  | div (a : NExpr) (k : Nat)         -- `/ k` (`transforms::half`)
  | divCeil (a : NExpr) (k : Nat)     -- `div_ceil(k)` (`transforms::bitmap_len`)
  | popcnt (k : Nat) (a : NExpr)      -- `count_ones` of the low `k` bits (`ValueFormat::record_byte_len / 2`)
  | app (f : CFn) (a b c : NExpr)     -- a hand-written count function
  deriving DecidableEq, Repr

/-- where the number written by a scalar statement comes from -/
inductive WSrc
  | field                          -- `self.f`
  | const (v : Nat)                -- `(CONST as T)`
  | count (arr a b : Nat)          -- `T::try_from(a * array_len(&self.arr) + b).unwrap()`
  | computed (k : Nat)             -- hand-written `self.compute_k()`
  deriving DecidableEq, Repr

inductive WItem
  | scalar (src : WSrc) (sz : Nat)
  | array (elem : List Nat) (fixed : Option Nat)   -- `Vec<T>` (`fixed = none`) or `[T; n]`
  /-- `Vec<T>` (or, `fixed = some 1`, one inline `T`) of records whose writer emits the scalars `pre` followed by any
  number of `tail`-byte scalars (a record with a `Vec` field, the hand-written `ValueRecord`, nestings of these) -/
  | arrayV (pre : List Nat) (tail : Nat) (fixed : Option Nat)
  /-- `Vec<T>` of records that write `u<hw>::try_from(array_len(items)).unwrap()` and then the items (fixed-size
  records `item`): the elements of a `VarLenArray` -/
  | arrayL (hw : Nat) (item : List Nat)
  deriving DecidableEq, Repr

/-- one statement of a generated `write_into` -/
structure WF where
  id : Nat
  cond : Option (Nat × Cond)       -- gated on the value written for field `fst`
  item : WItem
  deriving DecidableEq, Repr

/-- element count of an array on the read side -/
inductive RCount
  | affine (g a b : Nat)           -- `(value of field g - b) / a`   (`as usize`, `subtract`, `half`)
  | lit (n : Nat)
  | rest                           -- `cursor.remaining_bytes() / size`
  | expr (e : NExpr)               -- any other count expression (transforms, custom functions, external arguments)
  deriving DecidableEq, Repr

/-- the element layout of a `ComputedArray`: segments "`n` copies of the scalar group `ws`" -/
abbrev Segs := List (NExpr × List Nat)

inductive RItem
  | scalar (sz : Nat)
  | array (cnt : RCount) (elem : List Nat)
  /-- elements of a size computed from fields / arguments.  `computed = true`: a `ComputedArray` (the getter's
  `read_with_args(range, &args)` → `ComputedArray::new`, whose length is `data.len().checked_div(item_len).unwrap_or(0)`:
  **zero** elements when the element size is zero); `computed = false`: one record read in place
  (`read_with_args::<R>(range, &args)`, `cursor.read_with_args(&args)`) -/
  | arrayV (cnt : RCount) (segs : Segs) (computed : Bool)
  | arrayL (cnt : RCount) (hw : Nat) (item : List Nat)  -- `VarLenArray`: each element = `hw`-byte item count + items
  deriving DecidableEq, Repr

/-- one field of a generated reader -/
structure RF where
  id : Nat
  cond : Option (Nat × Cond)
  item : RItem
  deriving DecidableEq, Repr

/-- an owned value: field id ↦ value -/
abbrev Obj := List (Nat × Val)
/-- what has been written / read so far, most recent first -/
abbrev View := List (Nat × Val)

def Obj.get (o : Obj) (f : Nat) : Val :=
  match o.lookup f with
  | some v => v
  | none => .absent

def numAt (v : View) (f : Nat) : Nat :=
  match v.lookup f with
  | some (.num n) => n
  | _ => 0

def condHolds (v : View) : Option (Nat × Cond) → Bool
  | none => true
  | some (vf, c) => c.eval (numAt v vf)

def elemSize (elem : List Nat) : Nat := elem.foldr (· + ·) 0

/-- ids of the reader's external arguments (`read_with_args(data, &args)`): entry `argBase + i` of the initial view -/
def argBase : Nat := 1000

def NExpr.eval (view : View) : NExpr → Nat
  | .lit n => n
  | .field g => numAt view g
  | .add a b => satAdd (a.eval view) (b.eval view)
  | .sub a b => a.eval view - b.eval view
  | .mul a b => satMul (a.eval view) (b.eval view)
  | .div a k => a.eval view / k
  | .divCeil a k => (a.eval view + (k - 1)) / k
  | .popcnt k a => popcount k (a.eval view)
  | .app f a b c => f.eval (a.eval view) (b.eval view) (c.eval view)

/-- the fields / arguments an expression reads -/
def NExpr.refs : NExpr → List Nat
  | .lit _ => []
  | .field g => [g]
  | .add a b => a.refs ++ b.refs
  | .sub a b => a.refs ++ b.refs
  | .mul a b => a.refs ++ b.refs
  | .div a _ => a.refs
  | .divCeil a _ => a.refs
  | .popcnt _ a => a.refs
  | .app _ a b c => a.refs ++ b.refs ++ c.refs

/-- `n` copies of a scalar group -/
def repGroup : Nat → List Nat → List Nat
  | 0, _ => []
  | n + 1, ws => ws ++ repGroup n ws

/-- the scalar widths of one element of a `ComputedArray` (`ComputeSize::compute_size` + `read_with_args`) -/
def evalSegs (view : View) : Segs → List Nat
  | [] => []
  | (n, ws) :: rest => repGroup (n.eval view) ws ++ evalSegs view rest

def segsRefs : Segs → List Nat
  | [] => []
  | (n, _) :: rest => n.refs ++ segsRefs rest

/-! ## writer -/

/-- a record: its fields in order -/
def emitRec : List Nat → List Nat → Option Bytes
  | [], [] => some []
  | s :: ss, x :: xs =>
    if x < 256 ^ s then
      match emitRec ss xs with
      | some b => some (be s x ++ b)
      | none => none
    else none
  | _, _ => none

def emitRecs (elem : List Nat) : List (List Nat) → Option Bytes
  | [] => some []
  | r :: rs =>
    match emitRec elem r, emitRecs elem rs with
    | some a, some b => some (a ++ b)
    | _, _ => none

/-- the scalar widths the writer of a variable-size record uses for an element of `len` scalars -/
def wWidths (pre : List Nat) (tail len : Nat) : List Nat := pre ++ List.replicate (len - pre.length) tail

/-- elements that are a fixed prefix followed by any number of `tail`-byte scalars -/
def emitRecsV (pre : List Nat) (tail : Nat) : List (List Nat) → Option Bytes
  | [] => some []
  | r :: rs =>
    if pre.length ≤ r.length then
      match emitRec (wWidths pre tail r.length) r, emitRecsV pre tail rs with
      | some a, some b => some (a ++ b)
      | _, _ => none
    else none

/-- length-prefixed elements: `u<hw>::try_from(array_len(items)).unwrap()`, then the items; an element is the flat list
of the scalars of its items (`none`: the count does not fit, or the scalars are not whole items) -/
def emitRecsL (hw : Nat) (item : List Nat) : List (List Nat) → Option Bytes
  | [] => some []
  | r :: rs =>
    let k := r.length / item.length
    if r.length = k * item.length ∧ k < 256 ^ hw then
      match emitRec (repGroup k item) r, emitRecsL hw item rs with
      | some a, some b => some (be hw k ++ a ++ b)
      | _, _ => none
    else none

/-- hand-written `compute_*` functions: any function of the value -/
abbrev Ext := Nat → Obj → Nat

def srcVal (ext : Ext) (o : Obj) (id : Nat) : WSrc → Option Nat
  | .field => match o.get id with | .num n => some n | _ => none
  | .const v => some v
  | .count arr a b => match o.get arr with | .arr xs => some (a * xs.length + b) | _ => none
  | .computed k => some (ext k o)

def fixedOk : Option Nat → Nat → Bool
  | none, _ => true
  | some k, n => k == n

/-- one statement.  `none` = the statement panics (missing conditional field, count does not fit) or the value is
not of the field's type. -/
def emitField (ext : Ext) (o : Obj) (view : View) (w : WF) : Option (Bytes × Val) :=
  if condHolds view w.cond then
    match w.item with
    | .scalar src sz =>
      match srcVal ext o w.id src with
      | some n => if n < 256 ^ sz then some (be sz n, .num n) else none
      | none => none
    | .array elem fixed =>
      match o.get w.id with
      | .arr xs =>
        if fixedOk fixed xs.length then
          match emitRecs elem xs with
          | some b => some (b, .arr xs)
          | none => none
        else none
      | _ => none
    | .arrayV pre tail fixed =>
      match o.get w.id with
      | .arr xs =>
        if fixedOk fixed xs.length then
          match emitRecsV pre tail xs with
          | some b => some (b, .arr xs)
          | none => none
        else none
      | _ => none
    | .arrayL hw item =>
      match o.get w.id with
      | .arr xs =>
        match emitRecsL hw item xs with
        | some b => some (b, .arr xs)
        | none => none
      | _ => none
  else some ([], .absent)

/-- `write_into`: the bytes, and the value every field position holds -/
def emit (ext : Ext) (o : Obj) : List WF → View → Option (Bytes × View)
  | [], view => some ([], view)
  | w :: ws, view =>
    match emitField ext o view w with
    | none => none
    | some (b, v) =>
      match emit ext o ws ((w.id, v) :: view) with
      | none => none
      | some (bs, view') => some (b ++ bs, view')

/-! ## reader -/

def parseRec : List Nat → Bytes → Option (List Nat × Bytes)
  | [], bs => some ([], bs)
  | s :: ss, bs =>
    if bs.length < s then none
    else
      match parseRec ss (bs.drop s) with
      | some (xs, rest) => some (beVal (bs.take s) :: xs, rest)
      | none => none

def parseRecs (elem : List Nat) : Nat → Bytes → Option (List (List Nat) × Bytes)
  | 0, bs => some ([], bs)
  | n + 1, bs =>
    match parseRec elem bs with
    | none => none
    | some (r, rest) =>
      match parseRecs elem n rest with
      | none => none
      | some (rs, rest') => some (r :: rs, rest')

/-- `VarLenArray` elements: `hw`-byte item count, then that many items -/
def parseRecsL (hw : Nat) (item : List Nat) : Nat → Bytes → Option (List (List Nat) × Bytes)
  | 0, bs => some ([], bs)
  | n + 1, bs =>
    if bs.length < hw then none
    else
      match parseRec (repGroup (beVal (bs.take hw)) item) (bs.drop hw) with
      | none => none
      | some (r, rest) =>
        match parseRecsL hw item n rest with
        | none => none
        | some (rs, rest') => some (r :: rs, rest')

def evalCount (view : View) (bs : Bytes) (elem : List Nat) : RCount → Nat
  | .affine g a b => (numAt view g - b) / a
  | .lit n => n
  | .rest => bs.length / elemSize elem
  | .expr e => e.eval view

def parseField (view : View) (r : RF) (bs : Bytes) : Option (Val × Bytes) :=
  if condHolds view r.cond then
    match r.item with
    | .scalar sz => if bs.length < sz then none else some (.num (beVal (bs.take sz)), bs.drop sz)
    | .array cnt elem =>
      match parseRecs elem (evalCount view bs elem cnt) bs with
      | some (xs, rest) => some (.arr xs, rest)
      | none => none
    | .arrayV cnt segs computed =>
      let ws := evalSegs view segs
      let n := evalCount view bs ws cnt
      -- read-fonts/src/array.rs `ComputedArray::new`: the number of zero-sized items cannot be recovered from the bytes
      match parseRecs ws (if computed && elemSize ws == 0 then 0 else n) bs with
      | some (xs, rest) => some (.arr xs, rest)
      | none => none
    | .arrayL cnt hw item =>
      match parseRecsL hw item (evalCount view bs item cnt) bs with
      | some (xs, rest) => some (.arr xs, rest)
      | none => none
  else some (.absent, bs)

/-- the values the generated getters return, in layout order, and the unread tail -/
def parse : List RF → View → Bytes → Option (View × Bytes)
  | [], view, bs => some (view, bs)
  | r :: rs, view, bs =>
    match parseField view r bs with
    | none => none
    | some (v, rest) => parse rs ((r.id, v) :: view) rest

/-! ## compatibility of a (writer, reader) pair — decidable, checked per generated pair by `decide` -/

/-- A validity condition on the owned value that the generated writer does *not* establish by itself (the schema
has no `#[compile(array_len(..))]` for the count; the count is an argument the reader receives from its parent; the
element size depends on a format the writer does not look at): the (writer, reader) pair round-trips only on values
that satisfy it.  Each one emitted by the translator is a place where the real code round-trips only if `Validate`,
a hand-written `compute_*` (or the caller) enforces the condition; the harness probes them on the real code.
`view` is what the writer wrote (and the reader's arguments). -/
inductive Assume
  | fieldIsCount (g arr a b : Nat)   -- the owned scalar `g` holds `a * len(arr) + b`
  | sameLen (arr arr' : Nat)         -- two owned arrays have the same length
  | lenIs (arr n : Nat)              -- an owned `Vec` has exactly `n` elements
  | lenIsExpr (arr : Nat) (e : NExpr) -- an owned `Vec` has exactly as many elements as the reader computes (`e`)
  | elemLen (arr : Nat) (segs : Segs) -- every element of an owned `Vec` of variable-size records has exactly the
                                     -- scalars of the element layout the reader computes
  | elemSized (arr : Nat) (segs : Segs) -- a non-empty owned `Vec` has elements of non-zero size (a `ComputedArray` of
                                     -- zero-sized items reads back empty)
  deriving DecidableEq, Repr

def Assume.holds (o : Obj) (view : View) : Assume → Prop
  | .fieldIsCount g arr a b => ∀ xs, o.get arr = .arr xs → o.get g = .num (a * xs.length + b)
  | .sameLen arr arr' => ∀ xs xs', o.get arr = .arr xs → o.get arr' = .arr xs' → xs.length = xs'.length
  | .lenIs arr n => ∀ xs, o.get arr = .arr xs → xs.length = n
  | .lenIsExpr arr e => ∀ xs, o.get arr = .arr xs → xs.length = e.eval view
  | .elemLen arr segs => ∀ xs, o.get arr = .arr xs → ∀ x ∈ xs, x.length = (evalSegs view segs).length
  | .elemSized arr segs => ∀ xs, o.get arr = .arr xs → xs ≠ [] → 0 < elemSize (evalSegs view segs)

/-- the writer statement that wrote the count the reader sizes array `arr` with -/
def isCountFor (g arr a b : Nat) (p : WF) : Bool :=
  p.id == g && p.cond.isNone &&
    match p.item with
    | .scalar (.count arr' a' b') _ => arr' == arr && a' == a && b' == b
    | _ => false

/-- an unconditional statement `self.g.write_into(writer)` -/
def isPlainField (g : Nat) (p : WF) : Bool :=
  p.id == g && p.cond.isNone &&
    match p.item with
    | .scalar .field _ => true
    | _ => false

def isSameLenFor (pre : List WF) (g id a b : Nat) : Assume → Bool
  | .sameLen arr arr' => arr == id && pre.any (isCountFor g arr' a b)
  | _ => false

def countCompat (as : List Assume) (pre : List WF) (id g a b : Nat) : Bool :=
  pre.any (isCountFor g id a b) ||
  (as.contains (.fieldIsCount g id a b) && pre.any (isPlainField g)) ||
  as.any (isSameLenFor pre g id a b)

/-- the fields / arguments an expression reads are not written by this or a later statement (so the reader evaluates
it on the values the assumption talks about) -/
def exprFresh (later : List WF) (id : Nat) (refs : List Nat) : Bool :=
  refs.all fun g => g != id && !(later.any (fun p => p.id == g))

/-- the element count the reader computes is the number of elements written -/
def cntCompat (as : List Assume) (pre later : List WF) (id : Nat) (fixed : Option Nat) : RCount → Bool
  | .lit n => fixed == some n || as.contains (.lenIs id n)
  | .affine g a b => decide (0 < a) && countCompat as pre id g a b
  | .expr e => as.contains (.lenIsExpr id e) && exprFresh later id e.refs
  | .rest => false

/-- whatever its counts evaluate to, the reader's element layout is the writer's fixed prefix `pre` followed by
`tail`-byte scalars only -/
def segsCompat (tail : Nat) : List Nat → Segs → Bool
  | pre, [] => pre.isEmpty
  | pre, (n, ws) :: rest =>
    if pre.isEmpty then ws.all (· == tail) && segsCompat tail [] rest
    else n == .lit 1 && ws.isPrefixOf pre && segsCompat tail (pre.drop ws.length) rest

def itemCompat (as : List Assume) (pre later : List WF) (id : Nat) : WItem → RItem → Bool
  | .scalar _ sz, .scalar sz' => sz == sz'
  | .array elem fixed, .array cnt elem' =>
    elem == elem' &&
    match cnt with
    | .rest => later.isEmpty && decide (0 < elemSize elem)
    | c => cntCompat as pre later id fixed c
  | .arrayV wpre tail fixed, .arrayV cnt segs computed =>
    segsCompat tail wpre segs && as.contains (.elemLen id segs) && exprFresh later id (segsRefs segs) &&
      (!computed || as.contains (.elemSized id segs)) && cntCompat as pre later id fixed cnt
  | .arrayL hw item, .arrayL cnt hw' item' =>
    hw == hw' && item == item' && cntCompat as pre later id none cnt
  | _, _ => false

/-- a condition names a field that has already been written -/
def condOk (pre : List WF) : Option (Nat × Cond) → Bool
  | none => true
  | some (vf, _) => pre.any (fun p => p.id == vf)

/-- writer-side well-formedness: distinct ids, conditions refer backwards -/
def wfW (pre : List WF) : List WF → Bool
  | [] => true
  | w :: ws => !(pre.any (fun p => p.id == w.id)) && condOk pre w.cond && wfW (w :: pre) ws

def compatAux (as : List Assume) (pre : List WF) : List WF → List RF → Bool
  | [], [] => true
  | w :: ws, r :: rs =>
    w.id == r.id && w.cond == r.cond && !(pre.any (fun p => p.id == w.id)) && condOk pre w.cond &&
      itemCompat as pre ws w.id w.item r.item && compatAux as (w :: pre) ws rs
  | _, _ => false

/-- Same field sequence, names, widths and conditions; every array the reader sizes with a count field is the very
array whose length the writer stored in that field (with inverse arithmetic) — or the listed assumption says so;
arrays sized by the end of the data are last; field ids are distinct; the element layout the reader computes for a
variable-size record is, for every value of its counts, the one the writer uses. -/
def compatU (as : List Assume) (w : List WF) (r : List RF) : Bool := compatAux as [] w r

/-- compatibility with no assumption on the value -/
def compat (w : List WF) (r : List RF) : Bool := compatU [] w r

def usesRest (rs : List RF) : Bool :=
  rs.any fun r => match r.item with | .array .rest _ => true | _ => false

/-! ## owned values -/

/-- the statements that write a field of the owned struct (as opposed to constants and computed fields) -/
def WF.owned (w : WF) : Bool :=
  match w.item with
  | .scalar .field _ => true
  | .scalar _ _ => false
  | .array _ _ => true
  | .arrayV _ _ _ => true
  | .arrayL _ _ => true

/-- `FromObjRef::from_obj_ref`: the owned struct keeps exactly the owned fields of what the getters return -/
def toObj (ws : List WF) (view : View) : Obj :=
  (ws.filter WF.owned).map fun w => (w.id, match view.lookup w.id with | some v => v | none => .absent)

/-- the owned value with every field whose version/flag condition does not hold (for the written version/flags,
as recorded in `view`) replaced by "absent" — what a round trip can at best return, since such fields are not
written -/
def dropGated (ws : List WF) (view : View) (o : Obj) : Obj :=
  (ws.filter WF.owned).map fun w => (w.id, if condHolds view w.cond then o.get w.id else .absent)

/-! ## the flat layout of a record's own writer program / reader layout

An array item of a table (`WItem.array elem`, `WItem.arrayV pre tail`, `RItem.array cnt elem`) describes its elements
only by scalar widths; when the element type is itself a generated record with its own (writer, reader) pair, these
functions compute that description from the record's programs, and the translator emits the (kernel-checked)
equalities `wShape <R>_w = some (…)` / `rFixed <R>_r = some elem` next to the table's pair. -/

/-- `(pre, none)`: exactly the scalars `pre`; `(pre, some t)`: `pre`, then any number of `t`-byte scalars -/
abbrev FlatShape := List Nat × Option Nat

def itemShape : WItem → Option FlatShape
  | .scalar _ sz => some ([sz], none)
  | .array elem (some n) => some (repGroup n elem, none)
  | .array elem none =>
    match elem with
    | [] => none
    | t :: r => if r.all (· == t) then some ([], some t) else none
  | .arrayV pre tail (some 1) => some (pre, some tail)
  | .arrayV pre tail _ => if pre.all (· == tail) then some ([], some tail) else none
  | .arrayL _ _ => none

def shapeCat : FlatShape → FlatShape → Option FlatShape
  | (p1, none), (p2, t2) => some (p1 ++ p2, t2)
  | (p1, some t), (p2, none) => if p2.all (· == t) then some (p1, some t) else none
  | (p1, some t), (p2, some t2) => if t == t2 && p2.all (· == t) then some (p1, some t) else none

/-- the flat layout of what a record's generated `write_into` writes (unconditional statements only) -/
def wShape : List WF → Option FlatShape
  | [] => some ([], none)
  | w :: ws =>
    if w.cond.isSome then none
    else
      match itemShape w.item, wShape ws with
      | some a, some b => shapeCat a b
      | _, _ => none

/-- the scalar widths a flat layout gives to an element of `len` scalars -/
def shapeWidths : FlatShape → Nat → List Nat
  | (pre, none), _ => pre
  | (pre, some t), len => wWidths pre t len

/-- the scalars a field value consists of -/
def itemVals : Val → List Nat
  | .num n => [n]
  | .arr xs => xs.flatten
  | .absent => []

/-- the scalars the statements write, in order (`none` where `emit` panics) -/
def emitVals (ext : Ext) (o : Obj) : List WF → View → Option (List Nat)
  | [], _ => some []
  | w :: ws, view =>
    match emitField ext o view w with
    | none => none
    | some (_, v) =>
      match emitVals ext o ws ((w.id, v) :: view) with
      | none => none
      | some vs => some (itemVals v ++ vs)

/-- a fixed-size record on the read side: the widths of its (unconditional) scalar fields -/
def rFixed : List RF → Option (List Nat)
  | [] => some []
  | r :: rs =>
    match r.cond, r.item, rFixed rs with
    | none, .scalar sz, some ws => some (sz :: ws)
    | _, _, _ => none

/-! ## format enums -/

/-- one variant of a generated format enum: the value of its format field (`impl Format<T> for XMarker { const FORMAT }`),
the writer program and reader layout of the variant's table, and the conditions its round trip needs -/
structure Variant where
  fmt : Nat
  w : List WF
  r : List RF
  as : List Assume
  deriving DecidableEq, Repr

/-- generated `impl FontRead for Enum`: `let format: T = data.read_at(0)?; match format { XMarker::FORMAT =>
Ok(Self::X(FontRead::read(data)?)), …, other => Err(ReadError::InvalidFormat(other)) }` (`hw` = width of `T`): the
format found, and what the selected variant's reader returns.  (The generated `impl FontWrite for Enum` is
`match self { Self::X(item) => item.write_into(writer), … }`: `emit` of the variant's program.) -/
def parseEnum (hw : Nat) (vs : List Variant) (args : View) (bs : Bytes) : Option (Nat × View × Bytes) :=
  if bs.length < hw then none
  else
    match vs.find? (fun v => v.fmt == beVal (bs.take hw)) with
    | none => none
    | some v =>
      match parse v.r args bs with
      | some (view, rest) => some (v.fmt, view, rest)
      | none => none

/-- the variant's writer starts with `(FORMAT as T).write_into(writer)` -/
def startsWithFormat (hw : Nat) (v : Variant) : Bool :=
  match v.w with
  | ⟨_, none, .scalar (.const c) sz⟩ :: _ => c == v.fmt && sz == hw
  | _ => false

/-- every variant is a compatible pair whose writer begins with its own format constant, and the reader's `match`
sends that constant to this variant (the constants are pairwise distinct) -/
def enumCompat (hw : Nat) : List Variant → Bool
  | [] => true
  | v :: vs => startsWithFormat hw v && compatU v.as v.w v.r && !(vs.any (fun v' => v'.fmt == v.fmt)) && enumCompat hw vs

end FontVerif.Field
