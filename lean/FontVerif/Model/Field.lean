/-
C04 — a field-level model of the *generated* writers of write-fonts and of the value-level view
of the *generated* readers of read-fonts.

What is transcribed (the Rust that exists):
* `write-fonts/generated/*.rs`, `impl FontWrite for T { fn write_into }` — a rigid sequence of
    `self.f.write_into(writer);`                                        (`WSrc.field`, `WItem.array`)
    `(CONST as T).write_into(writer);`                                  (`WSrc.const`)
    `(u16::try_from(array_len(&self.xs)).unwrap()).write_into(writer);` (`WSrc.count xs 1 0`; `plus_one` ⇒ `b = 1`,
                                                                         `2 * array_len` ⇒ `a = 2`; the `unwrap` panic
                                                                         is `emit = none`)
    `(self.compute_x() as T).write_into(writer);`                       (`WSrc.computed`, interpreted by a parameter)
    `let version = …; version.write_into(writer);`                      (an ordinary scalar whose id later conditions name)
    `version.compatible(V).then(|| self.f.as_ref().expect(..).write_into(writer));`   (`WF.cond`)
  `write-fonts/src/write.rs`: scalars are written big-endian (`write_slice(&x.to_raw())`), a `Vec<T>` writes its
  elements in order, a record writes its fields in order; an `OffsetMarker<T, W>` writes `W` bytes whose final value
  is chosen by the packer (C05) — here it is a scalar of width `W` whose written value is that final offset.
* `read-fonts/generated/*.rs`, `impl FontRead for T` + the `*_byte_range` fns + the getters, seen at value level:
  the fields in layout order, each a scalar of a fixed width, or an array whose element count is an expression of
  previously read scalars (`x as usize`, `transforms::subtract(x, b)`, `transforms::half(x)`), a literal, or "all
  the remaining bytes" (`cursor.remaining_bytes() / N * N`), or a field present only if a condition on a previously
  read version/flags scalar holds (`RF`).  Fixed-size records (`#[repr(packed)]` structs of `BigEndian<T>`) are
  the list of their field widths.

Values are *raw*: a scalar is the unsigned big-endian number stored in its bytes (sign, fixed-point scaling and
newtypes are bijective re-interpretations on both sides and are exercised by the harness).

The extraction of both programs from the generated sources is done by `translate/writers.py` on every run.
-/
import FontVerif.Model.Base

namespace FontVerif.Field

abbrev Bytes := List Nat

/-- big-endian bytes of the low `sz` bytes of `n` (`Scalar::to_raw`) -/
def be : Nat → Nat → Bytes
  | 0, _ => []
  | sz + 1, n => be sz (n / 256) ++ [n % 256]

/-- big-endian value of a byte string (`Scalar::from_raw` / `BigEndian::get`) -/
def beVal (bs : Bytes) : Nat := bs.foldl (fun acc b => acc * 256 + b) 0

/-- raw field values -/
inductive Val
  | num (n : Nat)                  -- a scalar (or the final value of an offset)
  | arr (xs : List (List Nat))     -- an array of fixed-size records (a scalar array has 1-field records)
  | absent                         -- a version/flag-gated field that is not present
  deriving DecidableEq, Repr, Inhabited

/-- conditions on a previously written / read scalar -/
inductive Cond
  | geU16 (v : Nat)                -- `version.compatible(v)` for `u16`
  | compatMM (maj min : Nat)       -- `MajorMinor::compatible((maj, min))`
  | compatV16 (maj min : Nat)      -- `Version16Dot16::compatible((maj, min))`
  | contains (bits : Nat)          -- bitflags `contains`
  | intersects (bits : Nat)        -- bitflags `intersects`
  deriving DecidableEq, Repr

/-- `font-types`: `Compatible` impls (`u16`: `self >= other`; `MajorMinor` / `Version16Dot16`: same major,
minor at least), bitflags `contains` / `intersects`. -/
def Cond.eval : Cond → Nat → Bool
  | .geU16 v, x => decide (x ≥ v)
  | .compatMM maj min, x => decide (x / 65536 = maj ∧ x % 65536 ≥ min)
  | .compatV16 maj min, x => decide (x / 65536 = maj ∧ x % 65536 / 4096 ≥ min)
  | .contains bits, x => decide (Nat.land x bits = bits)
  | .intersects bits, x => decide (Nat.land x bits ≠ 0)

/-- where the number written by a scalar statement comes from -/
inductive WSrc
  | field                          -- `self.f`
  | const (v : Nat)                -- `(CONST as T)`
  | count (arr a b : Nat)          -- `T::try_from(a * array_len(&self.arr) + b).unwrap()`
  | computed (k : Nat)             -- hand-written `self.compute_k()`
  deriving DecidableEq, Repr

inductive WItem
  | scalar (src : WSrc) (sz : Nat)
  | array (elem : List Nat) (fixed : Option Nat)   -- `Vec<T>` (`fixed = none`) or `[T; n]`
  deriving DecidableEq, Repr

/-- one statement of a generated `write_into` -/
structure WF where
  id : Nat
  cond : Option (Nat × Cond)       -- gated on the value written for field `fst`
  item : WItem
  deriving DecidableEq, Repr

/-- element count of an array on the read side -/
inductive RCount
  | affine (g a b : Nat)           -- `(value of field g - b) / a`   (`as usize`, `subtract`, `half`)
  | lit (n : Nat)
  | rest                           -- `cursor.remaining_bytes() / size`
  deriving DecidableEq, Repr

inductive RItem
  | scalar (sz : Nat)
  | array (cnt : RCount) (elem : List Nat)
  deriving DecidableEq, Repr

/-- one field of a generated reader -/
structure RF where
  id : Nat
  cond : Option (Nat × Cond)
  item : RItem
  deriving DecidableEq, Repr

/-- an owned value: field id ↦ value -/
abbrev Obj := List (Nat × Val)
/-- what has been written / read so far, most recent first -/
abbrev View := List (Nat × Val)

def Obj.get (o : Obj) (f : Nat) : Val :=
  match o.lookup f with
  | some v => v
  | none => .absent

def numAt (v : View) (f : Nat) : Nat :=
  match v.lookup f with
  | some (.num n) => n
  | _ => 0

def condHolds (v : View) : Option (Nat × Cond) → Bool
  | none => true
  | some (vf, c) => c.eval (numAt v vf)

def elemSize (elem : List Nat) : Nat := elem.foldr (· + ·) 0

/-! ## writer -/

/-- a record: its fields in order -/
def emitRec : List Nat → List Nat → Option Bytes
  | [], [] => some []
  | s :: ss, x :: xs =>
    if x < 256 ^ s then
      match emitRec ss xs with
      | some b => some (be s x ++ b)
      | none => none
    else none
  | _, _ => none

def emitRecs (elem : List Nat) : List (List Nat) → Option Bytes
  | [] => some []
  | r :: rs =>
    match emitRec elem r, emitRecs elem rs with
    | some a, some b => some (a ++ b)
    | _, _ => none

/-- hand-written `compute_*` functions: any function of the value -/
abbrev Ext := Nat → Obj → Nat

def srcVal (ext : Ext) (o : Obj) (id : Nat) : WSrc → Option Nat
  | .field => match o.get id with | .num n => some n | _ => none
  | .const v => some v
  | .count arr a b => match o.get arr with | .arr xs => some (a * xs.length + b) | _ => none
  | .computed k => some (ext k o)

def fixedOk : Option Nat → Nat → Bool
  | none, _ => true
  | some k, n => k == n

/-- one statement.  `none` = the statement panics (missing conditional field, count does not fit) or the value is
not of the field's type. -/
def emitField (ext : Ext) (o : Obj) (view : View) (w : WF) : Option (Bytes × Val) :=
  if condHolds view w.cond then
    match w.item with
    | .scalar src sz =>
      match srcVal ext o w.id src with
      | some n => if n < 256 ^ sz then some (be sz n, .num n) else none
      | none => none
    | .array elem fixed =>
      match o.get w.id with
      | .arr xs =>
        if fixedOk fixed xs.length then
          match emitRecs elem xs with
          | some b => some (b, .arr xs)
          | none => none
        else none
      | _ => none
  else some ([], .absent)

/-- `write_into`: the bytes, and the value every field position holds -/
def emit (ext : Ext) (o : Obj) : List WF → View → Option (Bytes × View)
  | [], view => some ([], view)
  | w :: ws, view =>
    match emitField ext o view w with
    | none => none
    | some (b, v) =>
      match emit ext o ws ((w.id, v) :: view) with
      | none => none
      | some (bs, view') => some (b ++ bs, view')

/-! ## reader -/

def parseRec : List Nat → Bytes → Option (List Nat × Bytes)
  | [], bs => some ([], bs)
  | s :: ss, bs =>
    if bs.length < s then none
    else
      match parseRec ss (bs.drop s) with
      | some (xs, rest) => some (beVal (bs.take s) :: xs, rest)
      | none => none

def parseRecs (elem : List Nat) : Nat → Bytes → Option (List (List Nat) × Bytes)
  | 0, bs => some ([], bs)
  | n + 1, bs =>
    match parseRec elem bs with
    | none => none
    | some (r, rest) =>
      match parseRecs elem n rest with
      | none => none
      | some (rs, rest') => some (r :: rs, rest')

def evalCount (view : View) (bs : Bytes) (elem : List Nat) : RCount → Nat
  | .affine g a b => (numAt view g - b) / a
  | .lit n => n
  | .rest => bs.length / elemSize elem

def parseField (view : View) (r : RF) (bs : Bytes) : Option (Val × Bytes) :=
  if condHolds view r.cond then
    match r.item with
    | .scalar sz => if bs.length < sz then none else some (.num (beVal (bs.take sz)), bs.drop sz)
    | .array cnt elem =>
      match parseRecs elem (evalCount view bs elem cnt) bs with
      | some (xs, rest) => some (.arr xs, rest)
      | none => none
  else some (.absent, bs)

/-- the values the generated getters return, in layout order, and the unread tail -/
def parse : List RF → View → Bytes → Option (View × Bytes)
  | [], view, bs => some (view, bs)
  | r :: rs, view, bs =>
    match parseField view r bs with
    | none => none
    | some (v, rest) => parse rs ((r.id, v) :: view) rest

/-! ## compatibility of a (writer, reader) pair — decidable, checked per generated pair by `decide` -/

/-- A validity condition on the owned value that the generated writer does *not* establish by itself (the schema
has no `#[compile(array_len(..))]` for the count): the (writer, reader) pair round-trips only on values that satisfy
it.  Each one emitted by the translator is a place where the real code round-trips only if `Validate` (or the
caller) enforces the condition; the harness probes every one of them on the real code. -/
inductive Assume
  | fieldIsCount (g arr a b : Nat)   -- the owned scalar `g` holds `a * len(arr) + b`
  | sameLen (arr arr' : Nat)         -- two owned arrays have the same length
  | lenIs (arr n : Nat)              -- an owned `Vec` has exactly `n` elements
  deriving DecidableEq, Repr

def Assume.holds (o : Obj) : Assume → Prop
  | .fieldIsCount g arr a b => ∀ xs, o.get arr = .arr xs → o.get g = .num (a * xs.length + b)
  | .sameLen arr arr' => ∀ xs xs', o.get arr = .arr xs → o.get arr' = .arr xs' → xs.length = xs'.length
  | .lenIs arr n => ∀ xs, o.get arr = .arr xs → xs.length = n

/-- the writer statement that wrote the count the reader sizes array `arr` with -/
def isCountFor (g arr a b : Nat) (p : WF) : Bool :=
  p.id == g && p.cond.isNone &&
    match p.item with
    | .scalar (.count arr' a' b') _ => arr' == arr && a' == a && b' == b
    | _ => false

/-- an unconditional statement `self.g.write_into(writer)` -/
def isPlainField (g : Nat) (p : WF) : Bool :=
  p.id == g && p.cond.isNone &&
    match p.item with
    | .scalar .field _ => true
    | _ => false

def isSameLenFor (pre : List WF) (g id a b : Nat) : Assume → Bool
  | .sameLen arr arr' => arr == id && pre.any (isCountFor g arr' a b)
  | _ => false

def countCompat (as : List Assume) (pre : List WF) (id g a b : Nat) : Bool :=
  pre.any (isCountFor g id a b) ||
  (as.contains (.fieldIsCount g id a b) && pre.any (isPlainField g)) ||
  as.any (isSameLenFor pre g id a b)

def itemCompat (as : List Assume) (pre : List WF) (last : Bool) (id : Nat) : WItem → RItem → Bool
  | .scalar _ sz, .scalar sz' => sz == sz'
  | .array elem fixed, .array cnt elem' =>
    elem == elem' &&
    match cnt with
    | .lit n => fixed == some n || as.contains (.lenIs id n)
    | .affine g a b => decide (0 < a) && countCompat as pre id g a b
    | .rest => last && decide (0 < elemSize elem)
  | _, _ => false

/-- a condition names a field that has already been written -/
def condOk (pre : List WF) : Option (Nat × Cond) → Bool
  | none => true
  | some (vf, _) => pre.any (fun p => p.id == vf)

/-- writer-side well-formedness: distinct ids, conditions refer backwards -/
def wfW (pre : List WF) : List WF → Bool
  | [] => true
  | w :: ws => !(pre.any (fun p => p.id == w.id)) && condOk pre w.cond && wfW (w :: pre) ws

def compatAux (as : List Assume) (pre : List WF) : List WF → List RF → Bool
  | [], [] => true
  | w :: ws, r :: rs =>
    w.id == r.id && w.cond == r.cond && !(pre.any (fun p => p.id == w.id)) && condOk pre w.cond &&
      itemCompat as pre ws.isEmpty w.id w.item r.item && compatAux as (w :: pre) ws rs
  | _, _ => false

/-- Same field sequence, names, widths and conditions; every array the reader sizes with a count field is the very
array whose length the writer stored in that field (with inverse arithmetic) — or the listed assumption says so;
arrays sized by the end of the data are last; field ids are distinct. -/
def compatU (as : List Assume) (w : List WF) (r : List RF) : Bool := compatAux as [] w r

/-- compatibility with no assumption on the value -/
def compat (w : List WF) (r : List RF) : Bool := compatU [] w r

def usesRest (rs : List RF) : Bool :=
  rs.any fun r => match r.item with | .array .rest _ => true | _ => false

/-! ## owned values -/

/-- the statements that write a field of the owned struct (as opposed to constants and computed fields) -/
def WF.owned (w : WF) : Bool :=
  match w.item with
  | .scalar .field _ => true
  | .scalar _ _ => false
  | .array _ _ => true

/-- `FromObjRef::from_obj_ref`: the owned struct keeps exactly the owned fields of what the getters return -/
def toObj (ws : List WF) (view : View) : Obj :=
  (ws.filter WF.owned).map fun w => (w.id, match view.lookup w.id with | some v => v | none => .absent)

/-- the owned value with every field whose version/flag condition does not hold (for the written version/flags,
as recorded in `view`) replaced by "absent" — what a round trip can at best return, since such fields are not
written -/
def dropGated (ws : List WF) (view : View) (o : Obj) : Obj :=
  (ws.filter WF.owned).map fun w => (w.id, if condHolds view w.cond then o.get w.id else .absent)

end FontVerif.Field
