/-
C20 — checked-integer layer and arithmetic kernels.

Import-free.  Machine integers are plain `Int`s known to lie in the range of their Rust type.
Every Rust operator that TRAPS in the overflow-checked, assertion-enabled profile (the suite's
profile, the fuzzers' profile, and the harness' strict release profile)

    +  -  *  unary -  .abs()      result out of range            ("attempt to … with overflow")
    <<  >>                         shift amount ≥ bit width       ("attempt to shift … with overflow")
    /  %                           divisor 0, or MIN / -1         ("attempt to divide by zero" / "… with overflow")

becomes an `Option`-valued operation of `IntTy` (`none` = trap).  `wrapping_*`, `saturating_*`,
`checked_*`, `unsigned_abs`, `as` casts, comparisons and bit operations never trap and are total.

A *kernel* is a transcription of one Rust function of /repo through this layer:
`kernel : inputs → Option result`, `none` = the real function panics with an overflow /
assertion payload in the strict profile.  Raw operators of the source are kept as trapping ops
even where they provably never fire: that they never fire is the theorem (Props/C20.lean).
The translator `translate/arith_sites.py` ties the set of raw operators of each transcribed
function to the annotation table this file was written from.
-/
namespace FontVerif.Checked

/-! ## the layer -/

/-- A Rust primitive integer type: inclusive range, `off`/`mod` for two's complement wrapping
(literal fields so that `omega` sees literal moduli), bit width for shifts. -/
structure IntTy where
  lo : Int
  hi : Int
  off : Int
  mod : Int
  bits : Nat

def i8 : IntTy := ⟨-128, 127, 128, 256, 8⟩
def i16 : IntTy := ⟨-32768, 32767, 32768, 65536, 16⟩
def i32 : IntTy := ⟨-2147483648, 2147483647, 2147483648, 4294967296, 32⟩
def i64 : IntTy :=
  ⟨-9223372036854775808, 9223372036854775807, 9223372036854775808, 18446744073709551616, 64⟩
def u8 : IntTy := ⟨0, 255, 0, 256, 8⟩
def u16 : IntTy := ⟨0, 65535, 0, 65536, 16⟩
def u32 : IntTy := ⟨0, 4294967295, 0, 4294967296, 32⟩
def u64 : IntTy := ⟨0, 18446744073709551615, 0, 18446744073709551616, 64⟩
/-- the harness runs on a 64-bit target -/
def usize : IntTy := u64

namespace IntTy

/-- `x` is a value of the type. -/
def inR (t : IntTy) (x : Int) : Prop := t.lo ≤ x ∧ x ≤ t.hi
instance (t : IntTy) (x : Int) : Decidable (t.inR x) := by unfold inR; infer_instance

/-- the result of a trapping operation whose mathematical value is `x`. -/
def chk (t : IntTy) (x : Int) : Option Int := if t.lo ≤ x ∧ x ≤ t.hi then some x else none
/-- two's complement reduction (`as` cast, `wrapping_*`). -/
def wrap (t : IntTy) (x : Int) : Int := (x + t.off) % t.mod - t.off
/-- clamp (`saturating_*`). -/
def sat (t : IntTy) (x : Int) : Int := if x < t.lo then t.lo else if x > t.hi then t.hi else x

/-! trapping operators -/
def add (t : IntTy) (a b : Int) : Option Int := t.chk (a + b)
def sub (t : IntTy) (a b : Int) : Option Int := t.chk (a - b)
def mul (t : IntTy) (a b : Int) : Option Int := t.chk (a * b)
def neg (t : IntTy) (a : Int) : Option Int := t.chk (-a)
def abs (t : IntTy) (a : Int) : Option Int := t.chk (if a < 0 then -a else a)
/-- `/` truncates toward zero; traps on a zero divisor and on `MIN / -1` (out of range). -/
def div (t : IntTy) (a b : Int) : Option Int := if b = 0 then none else t.chk (Int.tdiv a b)
/-- `%`: traps on a zero divisor and on `MIN % -1`. -/
def rem (t : IntTy) (a b : Int) : Option Int :=
  if b = 0 then none else if a = t.lo ∧ b = -1 then none else some (Int.tmod a b)
/-- `<<`: traps only when the amount is out of range; bits shifted out are dropped. -/
def shl (t : IntTy) (a n : Int) : Option Int :=
  if 0 ≤ n ∧ n < t.bits then some (t.wrap (a * 2 ^ n.toNat)) else none
/-- `>>`: arithmetic for signed, logical for unsigned (both = floor division of the value). -/
def shr (t : IntTy) (a n : Int) : Option Int :=
  if 0 ≤ n ∧ n < t.bits then some (a / 2 ^ n.toNat) else none

/-! non-trapping methods -/
def cast (t : IntTy) (a : Int) : Int := t.wrap a
def wrappingAdd (t : IntTy) (a b : Int) : Int := t.wrap (a + b)
def wrappingSub (t : IntTy) (a b : Int) : Int := t.wrap (a - b)
def wrappingMul (t : IntTy) (a b : Int) : Int := t.wrap (a * b)
def wrappingNeg (t : IntTy) (a : Int) : Int := t.wrap (-a)
def wrappingAbs (t : IntTy) (a : Int) : Int := t.wrap (if a < 0 then -a else a)
def saturatingAdd (t : IntTy) (a b : Int) : Int := t.sat (a + b)
def saturatingSub (t : IntTy) (a b : Int) : Int := t.sat (a - b)
def saturatingMul (t : IntTy) (a b : Int) : Int := t.sat (a * b)
/-- `checked_*` return a Rust `Option` VALUE (no trap): inner `none` = Rust `None`. -/
def checkedAdd (t : IntTy) (a b : Int) : Option Int := t.chk (a + b)
def checkedSub (t : IntTy) (a b : Int) : Option Int := t.chk (a - b)
def checkedMul (t : IntTy) (a b : Int) : Option Int := t.chk (a * b)

/-- bitwise `&` of two values of the type (two's complement). -/
def land (t : IntTy) (a b : Int) : Int :=
  t.wrap (Int.ofNat (Nat.land (a % t.mod).toNat (b % t.mod).toNat))
/-- bitwise `!`. -/
def lnot (t : IntTy) (a : Int) : Int := t.wrap (-a - 1)

end IntTy

/-- `|x|` as an unbounded integer (`unsigned_abs` viewed in the unsigned type). -/
def uabs (x : Int) : Int := if x < 0 then -x else x
/-- `if c { sign = -sign }` on an `i32` sign variable (raw unary `-`). -/
def negIf (c : Bool) (sign : Int) : Option Int := if c then i32.neg sign else pure sign
def imax (a b : Int) : Int := if a ≥ b then a else b
def imin (a b : Int) : Int := if a ≤ b then a else b

/-! ## font-types/src/fixed.rs

`fixed_impl!($name, $bits, $fract_bits, $ty)` for `Fixed` (i32, 16), `F26Dot6` (i32, 6),
`F2Dot14` (i16, 14) …; `t` is `$ty`, `fb` is `$fract_bits`. -/

/-- `x & INT_MASK` with `INT_MASK = !0 << fb`: clears the low `fb` bits. -/
def maskInt (fb : Nat) (x : Int) : Int := x - x % 2 ^ fb

/-- `round`: `Self(self.0.wrapping_add(Self::ROUND) & Self::INT_MASK)`. -/
def fxRound (t : IntTy) (fb : Nat) (a : Int) : Option Int :=
  pure (maskInt fb (t.wrappingAdd a (2 ^ (fb - 1))))
/-- `abs` (after fix 7d0f778): `Self(self.0.wrapping_abs())`. -/
def fxAbs (t : IntTy) (a : Int) : Option Int := pure (t.wrappingAbs a)
/-- the pre-fix `abs`: `Self(self.0.abs())` — `.abs()` traps on `MIN`. -/
def fxAbsPreFix (t : IntTy) (a : Int) : Option Int := t.abs a
/-- `floor`: `Self(self.0 & Self::INT_MASK)`. -/
def fxFloor (_t : IntTy) (fb : Nat) (a : Int) : Option Int := pure (maskInt fb a)
/-- `fract`: `Self(self.0 - self.floor().0)` — raw `-`. -/
def fxFract (t : IntTy) (fb : Nat) (a : Int) : Option Int := t.sub a (maskInt fb a)
/-- `impl Add`: `self.0.wrapping_add(other.0)`; `impl Sub`: `wrapping_sub` (never trap). -/
def fxAdd (a b : Int) : Int := i32.wrappingAdd a b
def fxSub (a b : Int) : Int := i32.wrappingSub a b
/-- `impl Neg for Fixed/F26Dot6` (after fix 7d0f778): `Self(self.0.wrapping_neg())`. -/
def fxNeg (a : Int) : Option Int := pure (i32.wrappingNeg a)
/-- the pre-fix `Neg`: `Self(-self.0)` — raw unary `-`. -/
def fxNegPreFix (a : Int) : Option Int := i32.neg a

/-- `impl Mul` (Fixed, F26Dot6): `let ab = self.0 as i64 * other.0 as i64;`
`Self(((ab + 0x8000 - i64::from(ab < 0)) >> 16) as i32)`. -/
def fxMul (a b : Int) : Option Int := do
  let ab ← i64.mul a b
  let s ← i64.add ab 32768
  let d ← i64.sub s (if ab < 0 then 1 else 0)
  let q ← i64.shr d 16
  pure (i32.cast q)

/-- `impl Div` (after fix ff115fd): unsigned magnitudes,
`sign = 1; if self.0 < 0 { sign = -1 } if other.0 < 0 { sign = -sign }`,
`q = if b == 0 { 0x7FFFFFFF } else { ((((a as u64) << 16) + ((b as u64) >> 1)) / (b as u64)) as u32 }`,
`if sign < 0 { (q as i32).wrapping_neg() } else { q as i32 }`. -/
def fxDivQ (a b : Int) : Option Int :=
  if b = 0 then pure 2147483647 else do
    let n ← u64.shl a 16
    let h ← u64.shr b 1
    let s ← u64.add n h
    let d ← u64.div s b
    pure (u32.cast d)

def fxDiv (x y : Int) : Option Int := do
  let a := uabs x
  let b := uabs y
  let sign ← negIf (y < 0) (if x < 0 then -1 else 1)
  let q ← fxDivQ a b
  pure (if sign < 0 then i32.wrappingNeg (i32.cast q) else i32.cast q)

/-- `mul_div(&self, a, b)`: `su/au/bu = x as u64`, `0u64.wrapping_sub(..)` for negatives,
`sign = -sign` (raw), `result = if bu > 0 { su.wrapping_mul(au).wrapping_add(bu >> 1) / bu } else
{ 0x7FFFFFFF }`, `if sign < 0 { (result as i32).wrapping_neg() } else { result as i32 }`. -/
def fxMulDivQ (su au bu : Int) : Option Int :=
  if bu > 0 then do
    let h ← u64.shr bu 1
    u64.div (u64.wrappingAdd (u64.wrappingMul su au) h) bu
  else pure 2147483647

/-- `x as u64`, negated with `0u64.wrapping_sub` when `x < 0`. -/
def u64Mag (x : Int) : Int := if x < 0 then u64.wrappingSub 0 (u64.cast x) else u64.cast x

def fxMulDiv (s a b : Int) : Option Int := do
  let su := u64Mag s
  let au := u64Mag a
  let bu := u64Mag b
  let sign1 ← negIf (a < 0) (if s < 0 then -1 else 1)
  let sign ← negIf (b < 0) sign1
  let result ← fxMulDivQ su au bu
  pure (if sign < 0 then i32.wrappingNeg (i32.cast result) else i32.cast result)

/-- `Fixed::from_i32`: `Self(i << 16)`. -/
def fxFromI32 (i : Int) : Option Int := i32.shl i 16
/-- `Fixed::to_i32`: `self.0.wrapping_add(0x8000) >> 16`. -/
def fxToI32 (a : Int) : Option Int := i32.shr (i32.wrappingAdd a 32768) 16
/-- `Fixed::to_f26dot6`: `self.0.wrapping_add(0x200) >> 10`. -/
def fxToF26Dot6 (a : Int) : Option Int := i32.shr (i32.wrappingAdd a 512) 10
/-- `Fixed::to_f2dot14`: `(self.0.wrapping_add(2) >> 2) as _`. -/
def fxToF2Dot14 (a : Int) : Option Int := do
  let q ← i32.shr (i32.wrappingAdd a 2) 2
  pure (i16.cast q)
/-- `F26Dot6::from_i32`: `Self(i << 6)`. -/
def f26FromI32 (i : Int) : Option Int := i32.shl i 6
/-- `F26Dot6::to_i32`: `self.0.wrapping_add(32) >> 6`. -/
def f26ToI32 (a : Int) : Option Int := i32.shr (i32.wrappingAdd a 32) 6
/-- `F2Dot14::to_fixed`: `Fixed(self.0 as i32 * 4)` — raw `*`. -/
def f2ToFixed (a : Int) : Option Int := i32.mul (i32.cast a) 4

/-! ## skrifa/src/outline/glyf/hint/math.rs -/

/-- `floor(x) = x & !63`. -/
def hFloor (x : Int) : Option Int := pure (maskInt 6 x)
/-- `round(x) = floor(x.wrapping_add(32))` (after the `fix:` commit; before: `floor(x + 32)`). -/
def hRound (x : Int) : Option Int := hFloor (i32.wrappingAdd x 32)
/-- `ceil(x) = floor(x.wrapping_add(63))` (after the fix; before: `floor(x + 63)`). -/
def hCeil (x : Int) : Option Int := hFloor (i32.wrappingAdd x 63)
/-- the pre-fix `round` / `ceil`: raw `+`. -/
def hRoundPreFix (x : Int) : Option Int := do
  let s ← i32.add x 32
  hFloor s
def hCeilPreFix (x : Int) : Option Int := do
  let s ← i32.add x 63
  hFloor s
/-- `floor_pad(x, n) = x & !(n - 1)`. -/
def hFloorPad (x n : Int) : Option Int := do
  let m ← i32.sub n 1
  pure (i32.land x (i32.lnot m))
/-- `round_pad(x, n) = floor_pad(x.wrapping_add(n / 2), n)` (after the fix). -/
def hRoundPad (x n : Int) : Option Int := do
  let h ← i32.div n 2
  hFloorPad (i32.wrappingAdd x h) n
/-- `mul(a, b) = (Fixed::from_bits(a) * Fixed::from_bits(b)).to_bits()`. -/
def hMul (a b : Int) : Option Int := fxMul a b
def hDiv (a b : Int) : Option Int := fxDiv a b
def hMulDiv (a b c : Int) : Option Int := fxMulDiv a b c

/-- `mul_div_no_round(a, b, c)` (after the fix): `s = 1; if a < 0 { s = -1 } if b < 0 { s = -s }
if c < 0 { s = -s }`, `a/b/c = x.unsigned_abs() as u64`,
`d = if c > 0 { (a * b) / c } else { 0x7FFFFFFF }`,
`if s < 0 { (d as i32).wrapping_neg() } else { d as i32 }`. -/
def mdnrQ (ua ub uc : Int) : Option Int :=
  if uc > 0 then do
    let p ← u64.mul ua ub
    u64.div p uc
  else pure 2147483647

def hMulDivNoRound (a b c : Int) : Option Int := do
  let s1 ← negIf (b < 0) (if a < 0 then -1 else 1)
  let s ← negIf (c < 0) s1
  let d ← mdnrQ (uabs a) (uabs b) (uabs c)
  pure (if s < 0 then i32.wrappingNeg (i32.cast d) else i32.cast d)

/-- the pre-fix `mul_div_no_round`: `a = -a` / `b = -b` / `c = -c` on `i32`, i64 product,
`-(d as i32)`. -/
def hMulDivNoRoundPreFix (a b c : Int) : Option Int := do
  let a' ← if a < 0 then i32.neg a else pure a
  let s0 : Int := if a < 0 then -1 else 1
  let b' ← if b < 0 then i32.neg b else pure b
  let s1 ← if b < 0 then i32.neg s0 else pure s0
  let c' ← if c < 0 then i32.neg c else pure c
  let s ← if c < 0 then i32.neg s1 else pure s1
  let d ← if c' > 0 then do
      let p ← i64.mul a' b'
      i64.div p c'
    else pure 2147483647
  if s < 0 then i32.neg (i32.cast d) else pure (i32.cast d)

/-- `mul14(a, b)`: `let mut v = a as i64 * b as i64; v += 0x2000 + (v >> 63); (v >> 14) as i32`. -/
def hMul14 (a b : Int) : Option Int := do
  let v ← i64.mul a b
  let sg ← i64.shr v 63
  let r ← i64.add 8192 sg
  let v' ← i64.add v r
  let q ← i64.shr v' 14
  pure (i32.cast q)

/-! ## skrifa/src/outline/glyf/hint/round.rs — `RoundState::round`

mode numbering (declaration order of `RoundMode`): 0 Grid, 1 HalfGrid, 2 DoubleGrid,
3 DownToGrid, 4 UpToGrid, 5 Off, 6 Super, 7 Super45. -/

/-- the shape shared by the five grid modes (after the fix): `if distance >= 0 { f(distance).max(0) }
else { f(distance.wrapping_neg()).wrapping_neg().min(0) }`. -/
def roundSym (f : Int → Option Int) (d : Int) : Option Int :=
  if d ≥ 0 then do
    let v ← f d
    pure (imax v 0)
  else do
    let v ← f (i32.wrappingNeg d)
    pure (imin (i32.wrappingNeg v) 0)

/-- pre-fix shape: `(-f(-distance)).min(0)` with raw negations. -/
def roundSymPreFix (f : Int → Option Int) (d : Int) : Option Int :=
  if d ≥ 0 then do
    let v ← f d
    pure (imax v 0)
  else do
    let nd ← i32.neg d
    let v ← f nd
    let nv ← i32.neg v
    pure (imin nv 0)

/-- `Super`:
`d ≥ 0`: `(distance.wrapping_add(self.threshold - self.phase) & -self.period).wrapping_add(self.phase)`,
`if val < 0 { self.phase }`;
`d < 0`: `((self.threshold - self.phase).wrapping_sub(distance) & -self.period).wrapping_neg()
.wrapping_sub(self.phase)`, `if val > 0 { -self.phase }`. -/
def roundSuper (thr ph per d : Int) : Option Int := do
  let tp ← i32.sub thr ph
  let np ← i32.neg per
  if d ≥ 0 then
    let v := i32.wrappingAdd (i32.land (i32.wrappingAdd d tp) np) ph
    pure (if v < 0 then ph else v)
  else
    let v := i32.wrappingSub (i32.wrappingNeg (i32.land (i32.wrappingSub tp d) np)) ph
    if v > 0 then i32.neg ph else pure v

/-- `Super45`:
`d ≥ 0`: `((distance.wrapping_add(self.threshold - self.phase) / self.period) * self.period)
.wrapping_add(self.phase)`; `d < 0`: `(((self.threshold - self.phase).wrapping_sub(distance)
/ self.period) * self.period).wrapping_neg().wrapping_sub(self.phase)`. -/
def roundSuper45 (thr ph per d : Int) : Option Int := do
  let tp ← i32.sub thr ph
  let s := if d ≥ 0 then i32.wrappingAdd d tp else i32.wrappingSub tp d
  let q ← i32.div s per
  let m ← i32.mul q per
  if d ≥ 0 then
    let v := i32.wrappingAdd m ph
    pure (if v < 0 then ph else v)
  else
    let v := i32.wrappingSub (i32.wrappingNeg m) ph
    if v > 0 then i32.neg ph else pure v

def roundStateRound (mode thr ph per d : Int) : Option Int :=
  if mode = 1 then
    -- HalfGrid: `math::floor(distance).wrapping_add(32)`
    roundSym (fun x => do let f ← hFloor x; pure (i32.wrappingAdd f 32)) d
  else if mode = 0 then
    -- Grid: `math::round`
    roundSym hRound d
  else if mode = 2 then
    -- DoubleGrid: `math::round_pad(distance, 32)`
    roundSym (fun x => hRoundPad x 32) d
  else if mode = 3 then
    -- DownToGrid: `math::floor`
    roundSym hFloor d
  else if mode = 4 then
    -- UpToGrid: `math::ceil`
    roundSym hCeil d
  else if mode = 6 then roundSuper thr ph per d
  else if mode = 7 then roundSuper45 thr ph per d
  else
    -- Off
    pure d

/-- pre-fix Grid mode (`(-math::round(-distance)).min(0)`, `round(x) = floor(x + 32)`). -/
def roundGridPreFix (d : Int) : Option Int := roundSymPreFix hRoundPreFix d

/-! `Engine::super_round(grid_period, selector)` (hint/engine/graphics.rs): the new
`(threshold, phase, period)` of the round state. -/

/-- `match selector & 0xC0 { 0 => grid_period / 2, 0x40 => grid_period, 0x80 => grid_period * 2,
0xC0 => grid_period, .. }` -/
def srPeriod (grid f76 : Int) : Option Int :=
  if f76 = 0 then i32.div grid 2
  else if f76 = 64 then pure grid
  else if f76 = 128 then i32.mul grid 2
  else pure grid
/-- `match selector & 0x30 { 0 => 0, 0x10 => period / 4, 0x20 => period / 2,
0x30 => period * 3 / 4, .. }` -/
def srPhase (period f54 : Int) : Option Int :=
  if f54 = 0 then pure 0
  else if f54 = 16 then i32.div period 4
  else if f54 = 32 then i32.div period 2
  else do
    let p3 ← i32.mul period 3
    i32.div p3 4
/-- `if (selector & 0x0F) == 0 { period - 1 } else { ((selector & 0x0F) - 4) * period / 8 }` -/
def srThreshold (period f30 : Int) : Option Int :=
  if f30 = 0 then i32.sub period 1
  else do
    let k ← i32.sub f30 4
    let kp ← i32.mul k period
    i32.div kp 8

/-- on the three masked selector fields -/
def superRoundF (grid f76 f54 f30 : Int) : Option (Int × Int × Int) := do
  let period ← srPeriod grid f76
  let phase ← srPhase period f54
  let threshold ← srThreshold period f30
  let per ← i32.shr period 8
  let ph ← i32.shr phase 8
  let thr ← i32.shr threshold 8
  pure (thr, ph, per)

def superRound (grid sel : Int) : Option (Int × Int × Int) :=
  superRoundF grid (i32.land sel 192) (i32.land sel 48) (i32.land sel 15)

/-! ## read-fonts/src/tables/avar.rs — `SegmentMaps::apply`

`maps` = the `(from_coordinate, to_coordinate)` F2Dot14 bit patterns in table order;
`coord` = Fixed bits. -/

def avarGo (coord : Int) : List (Int × Int) → (prev : Int × Int) → (first : Bool) → Option Int
  | [], _, _ => pure coord
  | (f, t) :: rest, prev, first => do
    let fromV ← f2ToFixed f
    if fromV = coord then f2ToFixed t
    else if fromV > coord then
      if first then pure coord
      else do
        let to ← f2ToFixed t
        let prevFrom ← f2ToFixed prev.1
        let prevTo ← f2ToFixed prev.2
        -- `prev_to + (to - prev_to).mul_div(coord - prev_from, from - prev_from)`
        let m ← fxMulDiv (fxSub to prevTo) (fxSub coord prevFrom) (fxSub fromV prevFrom)
        pure (fxAdd prevTo m)
    else avarGo coord rest (f, t) false

def avarApply (maps : List (Int × Int)) (coord : Int) : Option Int :=
  avarGo coord maps (0, 0) true

/-! ## read-fonts/src/tables/variations.rs -/

/-- `coords.get(i).map(|coord| coord.to_fixed()).unwrap_or(ZERO)` (the list is advanced in step
with the axes). -/
def coordHead (cs : List Int) : Option Int :=
  match cs.head? with
  | some c => f2ToFixed c
  | none => pure 0

/-- `VariationRegion::compute_scalar(coords)`; `axes` = `(start, peak, end)` F2Dot14 bits of
`region_axes()`, `coords` F2Dot14 bits (missing trailing coords = 0). Result Fixed bits. -/
def regionScalarGo : List (Int × Int × Int) → List Int → Int → Option Int
  | [], _, scalar => pure scalar
  | (st, pk, en) :: rest, cs, scalar => do
    let coord ← coordHead cs
    let start ← f2ToFixed st
    let end_ ← f2ToFixed en
    let peak ← f2ToFixed pk
    if start > peak ∨ peak > end_ ∨ peak = 0 ∨ (start < 0 ∧ end_ > 0) then
      regionScalarGo rest cs.tail scalar
    else if coord < start ∨ coord > end_ then pure 0
    else if coord = peak then regionScalarGo rest cs.tail scalar
    else if coord < peak then do
      let s ← fxMulDiv scalar (fxSub coord start) (fxSub peak start)
      regionScalarGo rest cs.tail s
    else do
      let s ← fxMulDiv scalar (fxSub end_ coord) (fxSub end_ peak)
      regionScalarGo rest cs.tail s

def regionScalar (axes : List (Int × Int × Int)) (coords : List Int) : Option Int :=
  regionScalarGo axes coords 65536

/-- `Tuple::compute_scalar` of `TupleVariationHeader` (gvar/cvar): result `some none` = Rust
`None` (tuple not applicable).  `peaks` = peak tuple values (already known to have `axis_count`
entries — the length test is a comparison), `inter` = the optional intermediate start/end tuples,
`i` = running axis index. -/
def tupleScalarGo (inter : Option (List Int × List Int)) (coords : List Int) :
    List Int → Nat → Int → Option (Option Int)
  | [], _, scalar => pure (if scalar ≠ 0 then some scalar else none)
  | pk :: rest, i, scalar =>
    if pk = 0 then tupleScalarGo inter coords rest (i + 1) scalar else do
    let peak ← f2ToFixed pk
    let coord ← f2ToFixed (coords.getD i 0)
    if peak = coord then tupleScalarGo inter coords rest (i + 1) scalar
    else if coord = 0 then pure none
    else match inter with
      | some (starts, ends) => do
        let start ← f2ToFixed (starts.getD i 0)
        let end_ ← f2ToFixed (ends.getD i 0)
        if coord ≤ start ∨ coord ≥ end_ then pure none
        else if coord < peak then do
          let s ← fxMulDiv scalar (fxSub coord start) (fxSub peak start)
          tupleScalarGo inter coords rest (i + 1) s
        else do
          let s ← fxMulDiv scalar (fxSub end_ coord) (fxSub end_ peak)
          tupleScalarGo inter coords rest (i + 1) s
      | none =>
        if coord < imin peak 0 ∨ coord > imax peak 0 then pure none
        else do
          let s ← fxMulDiv scalar coord peak
          tupleScalarGo inter coords rest (i + 1) s

def tupleScalar (peaks : List Int) (inter : Option (List Int × List Int)) (coords : List Int) :
    Option (Option Int) :=
  tupleScalarGo inter coords peaks 0 65536

/-- the accumulation loop of `ItemVariationStore::compute_delta`:
`accum += region_delta as i64 * scalar.to_bits() as i64` over `(region_delta, scalar)` pairs,
then `((accum + 0x8000) >> 16) as i32`. -/
def deltaAccum : List (Int × Int) → Int → Option Int
  | [], accum => pure accum
  | (d, s) :: rest, accum => do
    let p ← i64.mul d s
    let a ← i64.add accum p
    deltaAccum rest a

def deltaFinish (accum : Int) : Option Int := do
  let s ← i64.add accum 32768
  let q ← i64.shr s 16
  pure (i32.cast q)

/-- `compute_delta` given, per delta-set column, the region's axes and the raw delta:
scalar of each region through `regionScalar`, then the accumulation. -/
def computeDeltaGo (coords : List Int) : List (List (Int × Int × Int) × Int) → Int → Option Int
  | [], accum => deltaFinish accum
  | (axes, d) :: rest, accum => do
    let s ← regionScalar axes coords
    let p ← i64.mul d s
    let a ← i64.add accum p
    computeDeltaGo coords rest a

def computeDelta (cols : List (List (Int × Int × Int) × Int)) (coords : List Int) : Option Int :=
  if coords.isEmpty then pure 0 else computeDeltaGo coords cols 0

/-- `item_delta` / `advance_delta`: `Fixed::from_i32(ivs.compute_delta(ix, coords)?)`. -/
def itemDelta (cols : List (List (Int × Int × Int) × Int)) (coords : List Int) : Option Int := do
  let d ← computeDelta cols coords
  fxFromI32 d

/-! ## read-fonts/src/tables/fvar.rs — `VariationAxisRecord::normalize`

`minV defV maxV value` are Fixed bits. `clamp`, `max`, `cmp` never trap (max ≥ min is ensured).
`Less => -((default.saturating_sub(value)) / (default.saturating_sub(min)))`,
`Greater => (value.saturating_sub(default)) / (max.saturating_sub(default))`,
then `value.clamp(-Fixed::ONE, Fixed::ONE)`. -/
def clampI (x lo hi : Int) : Int := if x < lo then lo else if x > hi then hi else x

def normalizeRatio (minV defV maxV' v : Int) : Option Int :=
  if v < defV then do
    let q ← fxDiv (i32.saturatingSub defV v) (i32.saturatingSub defV minV)
    fxNeg q
  else if v > defV then fxDiv (i32.saturatingSub v defV) (i32.saturatingSub maxV' defV)
  else pure 0

def normalizeAxis (minV defV maxV value : Int) : Option Int := do
  let maxV' := imax maxV minV
  let v := clampI value minV maxV'
  let r ← normalizeRatio minV defV maxV' v
  let negOne ← fxNeg 65536
  pure (clampI r negOne 65536)

/-- skrifa `Axis::normalize` = `record.normalize(Fixed::from_f64(coord)).to_f2dot14()` on the
already converted Fixed value. -/
def axisNormalize (minV defV maxV value : Int) : Option Int := do
  let n ← normalizeAxis minV defV maxV value
  fxToF2Dot14 n

/-! ## read-fonts/src/tables/cmap.rs — `Cmap4` -/

/-- the `range_offset != 0` arm of `lookup_glyph_id`:
`let mut offset = range_offset / 2 + (codepoint - start_code) as usize;`
`offset = offset.saturating_sub(range_offsets.len() - index);` -/
def cmap4Offset (rangeOffset codepoint startCode nSegs index : Int) : Option Int := do
  let h ← usize.div rangeOffset 2
  let c ← u16.sub codepoint startCode
  let off ← usize.add h c
  let k ← usize.sub nSegs index
  pure (usize.saturatingSub off k)

/-- `(x as i32 + delta) as u16` -/
def cmap4AddDelta (x delta : Int) : Option Int := do
  let s ← i32.add x delta
  pure (u16.cast s)

/-- `Cmap4::lookup_glyph_id(codepoint, index, start_code)`; arrays as lists (`deltas` i16,
`rangeOffsets` u16, `glyphIds` u16).  Inner `none` = Rust `None`. -/
def cmap4Lookup (deltas rangeOffsets glyphIds : List Int) (codepoint index startCode : Int) :
    Option (Option Int) :=
  match deltas[index.toNat]?, rangeOffsets[index.toNat]? with
  | some d, some ro =>
    if ro = 0 then (cmap4AddDelta codepoint d).map some
    else
      match cmap4Offset ro codepoint startCode rangeOffsets.length index with
      | none => none
      | some off =>
        match glyphIds[off.toNat]? with
        | none => some none
        | some gid => if gid ≠ 0 then (cmap4AddDelta gid d).map some else some none
  | _, _ => some none

/-- the binary search of `Cmap4::map_codepoint` (`fuel` ≥ log2 of the segment count + 1):
`let i = (lo + hi) / 2`, `lo = i + 1`. -/
def cmap4MapGo (starts ends deltas rangeOffsets glyphIds : List Int) (cp : Int) :
    Nat → Int → Int → Option (Option Int)
  | 0, _, _ => some none
  | fuel + 1, lo, hi =>
    if lo < hi then
      match usize.add lo hi with
      | none => none
      | some sum =>
        match usize.div sum 2 with
        | none => none
        | some i =>
          match starts[i.toNat]? with
          | none => some none
          | some st =>
            if cp < st then cmap4MapGo starts ends deltas rangeOffsets glyphIds cp fuel lo i
            else
              match ends[i.toNat]? with
              | none => some none
              | some en =>
                if cp > en then
                  match usize.add i 1 with
                  | none => none
                  | some lo' => cmap4MapGo starts ends deltas rangeOffsets glyphIds cp fuel lo' hi
                else cmap4Lookup deltas rangeOffsets glyphIds cp i st
    else some none

/-- `Cmap4::map_codepoint(cp)` for `cp ≤ 0xFFFF`; `segCountX2` as read from the header. -/
def cmap4Map (segCountX2 : Int) (starts ends deltas rangeOffsets glyphIds : List Int) (cp : Int) :
    Option (Option Int) :=
  match usize.div segCountX2 2 with
  | none => none
  | some hi => cmap4MapGo starts ends deltas rangeOffsets glyphIds cp 40 0 hi

/-! ## read-fonts/src/tables/glyf.rs — simple glyph point decoding -/

/-- one step of `resolve_coords_len`'s accumulation for a flag byte with `repeats` repeats:
`x_coords_len += ((flags & x_short) != 0) as u32 * repeats;`
`x_coords_len += ((flags & x_long) == 0) as u32 * repeats * 2;` (same for y),
`flags_left -= repeats`.  `xs`/`xl` are the two tests as 0/1. -/
def coordsLenStep (xs xl ys yl repeats xLen yLen flagsLeft : Int) : Option (Int × Int × Int) := do
  let a ← u32.mul xs repeats
  let x1 ← u32.add xLen a
  let b0 ← u32.mul xl repeats
  let b ← u32.mul b0 2
  let x2 ← u32.add x1 b
  let c ← u32.mul ys repeats
  let y1 ← u32.add yLen c
  let d0 ← u32.mul yl repeats
  let d ← u32.mul d0 2
  let y2 ← u32.add y1 d
  let fl ← u32.sub flagsLeft repeats
  pure (x2, y2, fl)

def flagBit (f : Int) (bit : Nat) : Bool := (f / 2 ^ bit) % 2 = 1

/-- one iteration of the `while flags_left > 0` loop of `resolve_coords_len` on flag byte `f`
followed by `rest`: `some (some (xLen', yLen', flagsLeft', rest', consumed))`; `some none` = `Err`
(data exhausted / repeat count too large). -/
def resolveByte (f : Int) (rest : List Int) (xLen yLen flagsLeft : Int) :
    Option (Option (Int × Int × Int × List Int × Int)) :=
  let rep := flagBit f 3
  match (if rep then rest.head? else some 0) with
  | none => some none
  | some r =>
    -- `u32::from(repeats) + 1`
    match (if rep then u32.add r 1 else some 1) with
    | none => none
    | some repeats =>
      if repeats > flagsLeft then some none else
      let xs : Int := if flagBit f 1 then 1 else 0
      let xl : Int := if ¬ flagBit f 1 ∧ ¬ flagBit f 4 then 1 else 0
      let ys : Int := if flagBit f 2 then 1 else 0
      let yl : Int := if ¬ flagBit f 2 ∧ ¬ flagBit f 5 then 1 else 0
      match coordsLenStep xs xl ys yl repeats xLen yLen flagsLeft with
      | none => none
      | some (x2, y2, fl) =>
        some (some (x2, y2, fl, (if rep then rest.tail else rest), (if rep then 2 else 1)))

/-- `resolve_coords_len(data, points_total)` over the flag bytes: `some (some (flagsLen, x, y))`,
`some none` = `Err`. -/
def resolveCoordsLenGo : Nat → List Int → (pos xLen yLen flagsLeft : Int) →
    Option (Option (Int × Int × Int))
  | 0, _, _, _, _, _ => some none
  | fuel + 1, bytes, pos, xLen, yLen, flagsLeft =>
    if flagsLeft ≤ 0 then some (some (pos, xLen, yLen)) else
    match bytes with
    | [] => some none
    | f :: rest =>
      match resolveByte f rest xLen yLen flagsLeft with
      | none => none
      | some none => some none
      | some (some (x2, y2, fl, rest', consumed)) =>
        resolveCoordsLenGo fuel rest' (pos + consumed) x2 y2 fl

def resolveCoordsLen (flagBytes : List Int) (pointsTotal : Int) : Option (Option (Int × Int × Int)) :=
  resolveCoordsLenGo (flagBytes.length + 1) flagBytes 0 0 0 pointsTotal

/-- `PointIter::advance_flags` repeat counter: `flag_repeats = (repeat byte or 0) as u16 + 1`, then
`flag_repeats -= 1`. -/
def advanceFlagsCount (flagRepeats repeatByte : Int) : Option Int := do
  let fr ← if flagRepeats = 0 then u16.add repeatByte 1 else pure flagRepeats
  u16.sub fr 1

/-- `PointIter::advance_points` for one axis: `(true,false) => -(u8 as i16)`, `(true,true) => u8 as
i16`, `(false,false) => i16`, `_ => 0`; `cur.wrapping_add(delta)` in i16. -/
def pointIterAxis (short same : Bool) (raw cur : Int) : Option Int := do
  let delta ← if short ∧ ¬ same then i16.neg raw
    else if short ∧ same then pure raw
    else if ¬ short ∧ ¬ same then pure raw
    else pure 0
  pure (i16.wrappingAdd cur delta)

/-- `read_points_fast` for one axis: `delta = u8 as i32; if !same { delta = -delta }` /
`delta = i16 as i32`; `x = x.wrapping_add(delta)` in i32. -/
def readFastAxis (short same : Bool) (raw cur : Int) : Option Int := do
  let delta ← if short then (if ¬ same then i32.neg raw else pure raw)
    else if ¬ same then pure raw else pure 0
  pure (i32.wrappingAdd cur delta)

/-- accumulate one axis over the per-point `(short, same, raw)` triples; result = coordinates -/
def decodeAxis (step : Bool → Bool → Int → Int → Option Int) :
    List (Bool × Bool × Int) → Int → Option (List Int)
  | [], _ => some []
  | (sh, sa, raw) :: rest, cur =>
    match step sh sa raw cur with
    | none => none
    | some c => (decodeAxis step rest c).map (c :: ·)

/-! ## skrifa/src/outline/glyf/hint/instance.rs `setup` and read-fonts cvar.rs `deltas` -/

/-- `Cvar::deltas`: per cvt entry `*value = value.wrapping_add(delta.apply_scalar(scalar).to_bits())`
(after the fix; before: `*value += …`), `apply_scalar = Fixed::from_i32(self.value) * scalar`,
over the `(delta value, scalar)` contributions of the active tuples. -/
def cvarAccum : List (Int × Int) → Int → Option Int
  | [], acc => some acc
  | (d, sc) :: rest, acc =>
    match fxFromI32 d with
    | none => none
    | some fd =>
      match fxMul fd sc with
      | none => none
      | some t => cvarAccum rest (i32.wrappingAdd acc t)

/-- the pre-fix accumulation: raw `+=` on i32 -/
def cvarAccumPreFix : List (Int × Int) → Int → Option Int
  | [], acc => some acc
  | (d, sc) :: rest, acc =>
    match fxFromI32 d with
    | none => none
    | some fd =>
      match fxMul fd sc with
      | none => none
      | some t =>
        match i32.add acc t with
        | none => none
        | some a => cvarAccumPreFix rest a

/-- one tuple per element: `(peak, delta)` on a single axis at `coord`; the scalar through
`tupleScalar` (inactive tuples are skipped). -/
def cvarDeltaGo (accum : List (Int × Int) → Int → Option Int) (coord : Int) :
    List (Int × Int) → List (Int × Int) → Option Int
  | [], terms => accum terms.reverse 0
  | (peak, d) :: rest, terms =>
    match tupleScalar [peak] none [coord] with
    | none => none
    | some none => cvarDeltaGo accum coord rest terms
    | some (some sc) => cvarDeltaGo accum coord rest ((d, sc) :: terms)

def cvarDelta (tuples : List (Int × Int)) (coord : Int) : Option Int :=
  cvarDeltaGo cvarAccum coord tuples []

/-- `HintInstance::setup` per cvt entry with a `cvar` table:
`delta = Fixed::from_bits(*value).to_f26dot6().to_bits(); base_value = base as i32 * 64;`
`*value = base_value + delta;` then `(Fixed::from_bits(*value) * scale).to_bits()` with
`scale = Fixed::from_bits(scale >> 6)`. -/
def cvtSetup (base accumulated scale : Int) : Option Int := do
  let delta ← fxToF26Dot6 accumulated
  let bv ← i32.mul (i32.cast base) 64
  let v ← i32.add bv delta
  let sc ← i32.shr scale 6
  fxMul v sc

/-! ## klippa/src/glyf_loca.rs — `write_glyf_loca` offsets -/

/-- `padded_size(len) = len + len % 2` (usize) -/
def paddedSize (len : Int) : Option Int := do
  let r ← usize.rem len 2
  usize.add len r

/-- short format: `offset += padded_len as u32; value = (offset >> 1) as u16` per glyph length;
result = the loca entries written after the leading 0. -/
def locaShort : List Int → Int → Option (List Int)
  | [], _ => some []
  | len :: rest, offset =>
    match paddedSize len with
    | none => none
    | some p =>
      match u32.add offset (u32.cast p) with
      | none => none
      | some o =>
        match u32.shr o 1 with
        | none => none
        | some h => (locaShort rest o).map (u16.cast h :: ·)

/-- long format: `offset += g.len() as u32; value = offset`. -/
def locaLong : List Int → Int → Option (List Int)
  | [], _ => some []
  | len :: rest, offset =>
    match u32.add offset (u32.cast len) with
    | none => none
    | some o => (locaLong rest o).map (o :: ·)

/-! ## read-fonts/src/tables/variations.rs — `DeltaSetIndexMap::get` -/

/-- the bit field `(x & mask) >> lo` for a mask of `n` contiguous bits starting at bit `lo`
(`x` non-negative). -/
def bitField (x : Int) (lo n : Nat) : Int := (x / 2 ^ lo) % 2 ^ n

/-- `EntryFormat::entry_size`: `((self.bits() & MAP_ENTRY_SIZE_MASK.bits()) >> 4) + 1` in `u8`
(mask `0x30`): raw `>>` and `+`. -/
def entrySize (bits : Int) : Option Int := do
  let m := bitField bits 4 2 * 16        -- bits & 0x30
  let s ← u8.shr m 4
  u8.add s 1

/-- `EntryFormat::bit_count`: `(self.bits() & INNER_INDEX_BIT_COUNT_MASK.bits()) + 1` (mask `0x0F`). -/
def bitCount (bits : Int) : Option Int := u8.add (bitField bits 0 4) 1

/-- big-endian read of `n` bytes at `off` (`data.read_at::<u8 | u16 | Uint24 | u32>(offset)?`):
`none` = `ReadError::OutOfBounds` (a Rust `Err`, not a trap). -/
def readBE : List Int → Nat → Nat → Option Int
  | _, _, 0 => some 0
  | data, off, n + 1 =>
    match data[off]?, readBE data (off + 1) n with
    | some b, some rest => some (b * 256 ^ n + rest)
    | _, _ => none

/-- the clamp `index.min(map_count.saturating_sub(1))` as the code has it. -/
def dsimClamp (mapCount index : Int) : Option Int :=
  pure (imin index (u32.saturatingSub mapCount 1))

/-- the clamp with a raw `map_count - 1` (u32): what the saturating form guards against. -/
def dsimClampRawSub (mapCount index : Int) : Option Int := do
  let m ← u32.sub mapCount 1
  pure (imin index m)

/-- `DeltaSetIndexMap::get(index)` on the parsed fields (`entryFormat` u8 bits, `mapCount` u32 — u16
for format 0 —, `data` = the map data bytes).  `some none` = `Err(ReadError)`, `none` = trap.
`let index = index.min(map_count.saturating_sub(1)); let offset = index as usize * entry_size as usize;`
`entry = read 1..4 bytes`; `outer: (entry >> bit_count) as u16`,
`inner: (entry & ((1 << bit_count) - 1)) as u16`. -/
def dsimGetWith (clamp : Int → Int → Option Int) (entryFormat mapCount index : Int) (data : List Int) :
    Option (Option (Int × Int)) := do
  let es ← entrySize entryFormat
  let ix ← clamp mapCount index
  let off ← usize.mul ix es
  match readBE data off.toNat es.toNat with
  | none => pure none
  | some entry => do
    let bc ← bitCount entryFormat
    let outer ← u32.shr entry bc
    let one ← u32.shl 1 bc
    let mask ← u32.sub one 1
    pure (some (u16.cast outer, u16.cast (u32.land entry mask)))

def dsimGet := dsimGetWith dsimClamp
def dsimGetRawSub := dsimGetWith dsimClampRawSub

/-! ## skrifa hint engine — SDS / SDB and the DELTAP / DELTAC exception arithmetic
(`hint/engine/graphics.rs` `op_sds`, `op_sdb`; `hint/engine/delta.rs` `op_deltap`, `op_deltac`) -/

/-- `op_sds`: `if n as u32 > 6 { Err(InvalidStackValue) } else { delta_shift = n as u16 }`;
`none` = the instruction is rejected (a Rust `Err`). -/
def opSds (n : Int) : Option Int := if u32.cast n > 6 then none else some (u16.cast n)
/-- the same with a SIGNED range check `n > 6` (what `as u32` guards against: negative operands). -/
def opSdsSigned (n : Int) : Option Int := if n > 6 then none else some (u16.cast n)
/-- `op_sdb`: `delta_base = n as u16`. -/
def opSdb (n : Int) : Int := u16.cast n

/-- one exception of DELTAP1-3 / DELTAC1-3 (`variant` = 0, 16, 32):
`let ppem = gs.ppem as u32; let bias = variant + gs.delta_base as u32;`
`let mut c = (b as u32 & 0xF0) >> 4; c += bias;`
`if ppem == c { b = (b & 0xF) - 8; if b >= 0 { b += 1 } b *= 1 << (6 - gs.delta_shift as i32); … }`.
`some none` = the exception does not apply at this size, `some (some adj)` = the adjustment in
26.6 units, `none` = trap. -/
def deltaException (ppem deltaBase deltaShift variant b : Int) : Option (Option Int) := do
  let bias ← u32.add variant (u32.cast deltaBase)
  let c0 ← u32.shr (bitField (u32.cast b) 4 4 * 16) 4
  let c ← u32.add c0 bias
  if u32.cast ppem = c then do
    let lo := bitField (u32.cast b) 0 4          -- b & 0xF  (i32 `&` with a non-negative mask)
    let b1 ← i32.sub lo 8
    let b2 ← if b1 ≥ 0 then i32.add b1 1 else pure b1
    let sh ← i32.sub 6 (i32.cast deltaShift)
    let f ← i32.shl 1 sh
    let b3 ← i32.mul b2 f
    pure (some b3)
  else pure none

/-- a program `[SDB sdb] [SDS sds] DELTA(arg)` at `ppem` from the default graphics state
(delta base 9, delta shift 3): `none` = trap, `some none` = a rejected SDS (hinting error),
`some (some r)` = the exception result. -/
def deltaProgramWith (sdsOp : Int → Option Int) (ppem : Int) (sdb sds : Option Int) (variant b : Int) :
    Option (Option (Option Int)) :=
  let base := match sdb with | some n => opSdb n | none => 9
  match sds with
  | none => (deltaException ppem base 3 variant b).map some
  | some n =>
    match sdsOp n with
    | none => some none
    | some sh => (deltaException ppem base sh variant b).map some

def deltaProgram := deltaProgramWith opSds

/-! ## incremental-font-transfer/src/patchmap.rs — format 2 entry ids -/

inductive IdxRes where
  | ok (v : Int)
  | negative
  | tooBig
  deriving Repr, DecidableEq

/-- `compute_format2_new_entry_index(entry_data, last_entry_index)`:
`let new_index = (last_entry_index as i64) + 1 + delta.unwrap_or(0) as i64;` (two raw i64 `+`),
`if new_index.is_negative() { Err } ; u32::try_from(new_index).map_err(..)`. -/
def f2NewEntryIndex (last : Int) (delta : Option Int) : Option IdxRes := do
  let a ← i64.add last 1
  let n ← i64.add a (delta.getD 0)
  if n < 0 then pure .negative
  else if n > 4294967295 then pure .tooBig
  else pure (.ok n)

/-- the 32-bit variant: `let next = last_entry_index + 1;` (raw u32 `+`) then
`next.checked_add_signed(delta)`. -/
def f2NewEntryIndexU32 (last : Int) (delta : Option Int) : Option IdxRes := do
  let next ← u32.add last 1
  let n := next + delta.getD 0
  if n < 0 then pure .negative
  else if n > 4294967295 then pure .tooBig
  else pure (.ok n)

/-- the ids of a run of entries (`deltas[i] = none`: no ENTRY_ID_DELTA field); decoding stops at
the first error: `some (ids, err?)`, `none` = trap.  The first entry starts from 0
(`last_entry.….unwrap_or(0)`). -/
def f2EntryIdsWith (step : Int → Option Int → Option IdxRes) :
    List (Option Int) → Int → Option (List Int × Bool)
  | [], _ => some ([], false)
  | d :: rest, last =>
    match step last d with
    | none => none
    | some (.ok v) => (f2EntryIdsWith step rest v).map fun (ids, e) => (v :: ids, e)
    | some _ => some ([], true)

def f2EntryIds (deltas : List (Option Int)) : Option (List Int × Bool) :=
  f2EntryIdsWith f2NewEntryIndex deltas 0

/-! ## skrifa/src/color/instance.rs — `ColrInstance::var_deltas` -/

/-- the index of the `i`-th delta of a variable paint (after fix 50dca03):
`var_index_base.saturating_add(i as u32)`. -/
def colrVarIndex (base i : Int) : Option Int := pure (u32.saturatingAdd base i)
/-- the pre-fix form: `var_index_base + i as u32` (raw u32 `+`; only `base = 0xFFFFFFFF` was excluded). -/
def colrVarIndexPreFix (base i : Int) : Option Int := u32.add base i

end FontVerif.Checked
