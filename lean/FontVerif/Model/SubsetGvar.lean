/-
C17 — gvar subsetting: model of `klippa/src/gvar.rs` (after the repairs 78d5004, 9ff1630, ba2710f) and of
the read-fonts reader that the read-back theorems use.

  klippa/src/gvar.rs      `impl Subset for Gvar` (`subset`), `subset_with_offset_type::<u16|u32>`,
                          `GvarOffset::{stored_value, PAD_TO_EVEN}`
  klippa/src/lib.rs       `subset` / `try_subset` (serializer room: start size, `* 2 + 16` retries up to
                          `table_len * 256`), `estimate_subset_table_size`
  read-fonts  generated_gvar.rs `Gvar::read`;  tables/gvar.rs `U16Or32::read_with_args`,
                          `Gvar::data_range_for_gid`, `Gvar::data_for_gid`

The source table enters as plain data: its first 12 bytes, the byte slice
`[sharedTuplesOffset, sharedTuplesOffset + 2 * axisCount * sharedTupleCount)` (or the fact that it is out of
bounds), and for every entry (new, old) of `plan.new_to_old_gid_list` the result of `data_for_gid(old)`.
`ofTable` derives these from raw table bytes with the reader model.

Klippa never parses or renumbers anything inside a glyph's variation data: per-glyph blobs and the shared
tuple block are copied byte for byte, so a shared tuple index embedded in a blob keeps its meaning.
-/
import FontVerif.Model.Subset
namespace FontVerif.SubsetGvar
open FontVerif FontVerif.Subset

/-! ## plain-data view of the source table -/

/-- `Gvar::data_for_gid`: `Ok(None)` / `Err(_)` / `Ok(Some(bytes))` -/
inductive Slot where
  | none
  | err
  | data (b : Bytes)
  deriving Repr, DecidableEq

/-- what `.ok().flatten()` / `if let Ok(Some(d))` leave: the bytes, nothing for `Ok(None)` and `Err` -/
def Slot.bytes : Slot → Bytes
  | .data b => b
  | _ => []

structure GvarIn where
  /-- `plan.subset_flags` -/
  flags : Nat
  /-- `plan.num_output_glyphs` -/
  nout : Nat
  /-- length of the source table (`record.length()`, serializer room) -/
  tableLen : Nat
  /-- `plan.font_num_glyphs` (serializer room) -/
  srcGlyphs : Nat
  /-- `offset_data()[0..12]`: version, axisCount, sharedTupleCount, sharedTuplesOffset -/
  header : Bytes
  /-- `offset_data().get(off .. off + 2 * axisCount * sharedTupleCount)` (`none`: out of bounds) -/
  sharedSlice : Option Bytes
  /-- `plan.new_to_old_gid_list` -/
  n2o : List (Nat × Nat)
  /-- `data_for_gid(old)` for every entry of `n2o`, in order -/
  slots : List Slot

def u32At (d : Bytes) (i : Nat) : Nat :=
  d.getD i 0 * 16777216 + d.getD (i + 1) 0 * 65536 + d.getD (i + 2) 0 * 256 + d.getD (i + 3) 0

/-! ## the plan entries the loops visit -/

/-- the filter of both loops: `x.0 != NOTDEF || flags.contains(NOTDEF_OUTLINE)` -/
def keeps (flags new : Nat) : Bool := new != 0 || hasFlag flags F_NOTDEF_OUTLINE

/-- (new gid, bytes of `data_for_gid(old)`) of the visited entries -/
def keptEntries (inp : GvarIn) : List (Nat × Bytes) :=
  ((inp.n2o.zip inp.slots).filter (fun e => keeps inp.flags e.1.1)).map (fun e => (e.1.1, e.2.bytes))

/-- `subset_data_size`: Σ `len + (len & 1)` -/
def dataSize (ks : List (Nat × Bytes)) : Nat := (ks.map (fun k => k.2.length + k.2.length % 2)).sum

/-! ## the copy loop of `subset_with_offset_type` -/

/-- `glyph_offset` after one visited glyph: `+= len`, and with `PAD_TO_EVEN` one more when odd -/
def stepOffset (short : Bool) (off : Nat) (b : Bytes) : Nat :=
  if b.isEmpty then off else
  let o := off + b.length
  if short ∧ o % 2 = 1 then o + 1 else o

/-- the bytes embedded for one visited glyph -/
def stepBytes (short : Bool) (off : Nat) (b : Bytes) : Bytes :=
  if b.isEmpty then [] else
  if short ∧ (off + b.length) % 2 = 1 then b ++ [0] else b

/-- the values passed to `stored_value`, entries 1.. of the offsets array in order: gap fill
(`for _ in last..new_gid`), the glyph's own entry, and the trailing fill (`for _ in last..num_output_glyphs`) -/
def offsetsGo (short : Bool) (nout : Nat) : List (Nat × Bytes) → Nat → Nat → List Nat
  | [], last, off => List.replicate (nout - last) off
  | (gid, b) :: rest, last, off =>
    let off' := stepOffset short off b
    List.replicate (gid - last) off ++ off' ::
      offsetsGo short nout rest ((if last < gid then gid else last) + 1) off'

/-- entry 0 is never written: the serializer buffer is zero-initialised -/
def offsets (short : Bool) (nout : Nat) (ks : List (Nat × Bytes)) : List Nat :=
  0 :: offsetsGo short nout ks 0 0

/-- the GlyphVariationData array as embedded -/
def dataGo (short : Bool) : List (Nat × Bytes) → Nat → Bytes
  | [], _ => []
  | (_, b) :: rest, off => stepBytes short off b ++ dataGo short rest (stepOffset short off b)

/-- `stored_value` + big-endian write: `(val / 2) as u16` resp. the u32 itself -/
def encodeOffsets (short : Bool) (offs : List Nat) : Bytes :=
  if short then offs.flatMap (fun o => be16 (o / 2 % 65536)) else offs.flatMap (fun o => be32 (o % 4294967296))

/-! ## serializer room (lib.rs `subset`, `try_subset`, `estimate_subset_table_size`) -/

/-- largest buffer size that is tried: start at `s`, `s * 2 + 16` while that is `<= limit` -/
def maxRoom (limit : Nat) : Nat → Nat → Nat
  | 0, s => s
  | fuel + 1, s => if s * 2 + 16 > limit then s else maxRoom limit fuel (s * 2 + 16)

/-- `8192 + table_len * ((dst / src) as f32).sqrt() as usize`: the factor is 0 for dst < src and 1 for
src <= dst < 4 src (a plan never has more output glyphs than the font has glyphs); `bulk + table_len`
for a font without glyphs -/
def room (tableLen srcGlyphs nout : Nat) : Nat :=
  let f := if srcGlyphs = 0 then 1 else if nout < srcGlyphs then 0 else 1
  maxRoom (tableLen * 256) 64 (8192 + tableLen * f)

/-! ## the subsetter -/

/-- new ids strictly ascending from `lo` and below `nout` (what `create_old_gid_to_new_gid_map` produces;
C17 theorem `glyph_map_monotone_bijection`) -/
def ascBelow (nout : Nat) : List Nat → Nat → Bool
  | [], _ => true
  | g :: rest, lo => decide (lo ≤ g) && decide (g < nout) && ascBelow nout rest (g + 1)

structure Layout where
  numGlyphs : Nat
  long : Bool
  sharedOff : Nat
  dataOff : Nat
  deriving Repr, DecidableEq

/-- byte size of the offsets array: `(num_glyphs + 1) * size_of::<OffsetType>()` -/
def arrSize (nout : Nat) (long : Bool) : Nat := (nout + 1) * (if long then 4 else 2)

/-- `has_shared_tuples`: `shared_tuple_count() != 0 && !shared_tuples_offset().is_null()` -/
def hasShared (cnt soff : Nat) : Bool := decide (cnt ≠ 0 ∧ soff ≠ 0)

/-- the new sharedTuplesOffset: 0 only for a non-zero count with a null source offset -/
def sharedOffOf (cnt soff arr : Nat) : Nat := if cnt ≠ 0 ∧ hasShared cnt soff = false then 0 else 20 + arr

/-- `shared_tuples_size` -/
def sharedSizeOf (axis cnt soff : Nat) : Nat := if hasShared cnt soff then 2 * axis * cnt else 0

/-- the plan shape the model covers: at most 0xFFFF output glyphs, one slot per entry, new ids ascending
and below `num_output_glyphs` -/
def planOk (inp : GvarIn) : Bool :=
  decide (inp.nout ≤ 0xFFFF) && decide (inp.n2o.length = inp.slots.length) &&
    ascBelow inp.nout (inp.n2o.map (·.1)) 0

/-- glyphCount (`.min(0xFFFF)`, the identity under `planOk`), the format flag
(`subset_data_size > 0x1FFFE`), the two offsets -/
def layoutOf (inp : GvarIn) (axis cnt soff : Nat) : Layout :=
  let long := decide (dataSize (keptEntries inp) > 0x1FFFE)
  let arr := arrSize inp.nout long
  { numGlyphs := inp.nout, long, sharedOff := sharedOffOf cnt soff arr,
    dataOff := 20 + arr + sharedSizeOf axis cnt soff }

/-- the emitted table: 8 copied header bytes, sharedTuplesOffset, glyphCount, flags,
glyphVariationDataArrayOffset, offsets array, shared tuples, glyph variation data -/
def assemble (h8 : Bytes) (lay : Layout) (nout : Nat) (ks : List (Nat × Bytes)) (shared : Bytes) : Bytes :=
  h8 ++ be32 lay.sharedOff ++ be16 lay.numGlyphs ++ be16 (if lay.long then 1 else 0) ++ be32 lay.dataOff ++
    encodeOffsets (!lay.long) (offsets (!lay.long) nout ks) ++ shared ++ dataGo (!lay.long) ks 0

/-- the bytes `embed_bytes(shared_tuples_data)` copies (`none`: the `unwrap()` panics) -/
def sharedSource (inp : GvarIn) (cnt soff : Nat) : Option Bytes :=
  if hasShared cnt soff then inp.sharedSlice else some []

/-- `Gvar::subset` after the header fields have been read -/
def emit (inp : GvarIn) (h8 : Bytes) (axis cnt soff : Nat) : Except String (Layout × Bytes) :=
  if planOk inp = false then .error "unmodelled" else
  if dataSize (keptEntries inp) ≥ 4294967296 then .error "trap" else
  if (layoutOf inp axis cnt soff).dataOff ≥ 4294967296 then .error "dropped" else
  if 20 + arrSize inp.nout (layoutOf inp axis cnt soff).long > room inp.tableLen inp.srcGlyphs inp.nout then
    .error "err" else
  match sharedSource inp cnt soff with
  | none => .error "trap"
  | some shared =>
    if shared.length ≠ sharedSizeOf axis cnt soff then .error "unmodelled" else
    if (assemble h8 (layoutOf inp axis cnt soff) inp.nout (keptEntries inp) shared).length >
        room inp.tableLen inp.srcGlyphs inp.nout then .error "err" else
    .ok (layoutOf inp axis cnt soff, assemble h8 (layoutOf inp axis cnt soff) inp.nout (keptEntries inp) shared)

/-- `Gvar::subset`.  Errors: `"trap"` a panic (u32 `sum()` overflow in the overflow-checked profile, the
`unwrap()` of the shared tuple slice), `"dropped"` the `u32::try_from` failure (`subset()` in lib.rs then omits
the table), `"err"` out of serializer room for every buffer size tried (`subset_font` fails),
`"unmodelled"` inputs outside the model (header not 12 bytes, a plan whose new ids are not ascending and below
`num_output_glyphs <= 0xFFFF`, a shared slice of the wrong length). -/
def subsetGvar (inp : GvarIn) : Except String (Layout × Bytes) :=
  match inp.header with
  | [v0, v1, v2, v3, a0, a1, c0, c1, o0, o1, o2, o3] =>
    emit inp [v0, v1, v2, v3, a0, a1, c0, c1] (a0 * 256 + a1) (c0 * 256 + c1)
      (o0 * 16777216 + o1 * 65536 + o2 * 256 + o3)
  | _ => .error "unmodelled"

/-! ## the reader (read-fonts) -/

/-- `U16Or32::read_with_args` over the whole array: u16 entries doubled -/
def decodeShort : Bytes → List Nat
  | a :: b :: rest => (a * 256 + b) * 2 :: decodeShort rest
  | _ => []

/-- u32 entries -/
def decodeLong : Bytes → List Nat
  | a :: b :: c :: d :: rest => (a * 16777216 + b * 65536 + c * 256 + d) :: decodeLong rest
  | _ => []

structure Reader where
  axisCount : Nat
  sharedCount : Nat
  sharedOff : Nat
  glyphCount : Nat
  long : Bool
  /-- glyphVariationDataArrayOffset -/
  dao : Nat
  /-- `glyph_variation_data_offsets()[i].get()` -/
  offs : List Nat
  deriving Repr, DecidableEq

/-- `Gvar::read`: 20 header bytes and `(glyphCount + 1)` offsets of 2 or 4 bytes (flags bit 0) must be
present; nothing else is validated -/
def readGvar (t : Bytes) : Option Reader :=
  if t.length < 20 then none else
  let gc := u16At t 12
  let long := u16At t 14 % 2 == 1
  let len := (gc + 1) * (if long then 4 else 2)
  if t.length < 20 + len then none else
  let arr := (t.drop 20).take len
  some { axisCount := u16At t 4, sharedCount := u16At t 6, sharedOff := u32At t 8, glyphCount := gc, long,
         dao := u32At t 16, offs := if long then decodeLong arr else decodeShort arr }

/-- `Gvar::data_range_for_gid` (`none` = `Err`: index beyond the array or u32 `checked_add` overflow) -/
def dataRange (r : Reader) (gid : Nat) : Option (Nat × Nat) :=
  match r.offs[gid]?, r.offs[gid + 1]? with
  | some a, some b =>
    if r.dao + a ≥ 4294967296 ∨ r.dao + b ≥ 4294967296 then none else some (r.dao + a, r.dao + b)
  | _, _ => none

/-- `Gvar::data_for_gid` -/
def dataForGid (t : Bytes) (r : Reader) (gid : Nat) : Slot :=
  match dataRange r gid with
  | none => .err
  | some (s, e) =>
    if s ≥ e then .none
    else if e ≤ t.length then .data ((t.drop s).take (e - s))
    else .err

/-- `Gvar::shared_tuples()` as raw bytes: the `2 * axisCount * sharedTupleCount` bytes at
sharedTuplesOffset (`none`: null offset or out of bounds) -/
def sharedTuplesOf (t : Bytes) (r : Reader) : Option Bytes :=
  if r.sharedOff = 0 then none else sliceGet t r.sharedOff (r.sharedOff + 2 * r.axisCount * r.sharedCount)

/-- the subsetter's inputs read off a raw source table -/
def ofTable (t : Bytes) (r : Reader) (flags nout srcGlyphs : Nat) (n2o : List (Nat × Nat)) : GvarIn :=
  { flags, nout, tableLen := t.length, srcGlyphs, header := t.take 12,
    sharedSlice := sliceGet t r.sharedOff (r.sharedOff + 2 * r.axisCount * r.sharedCount),
    n2o, slots := n2o.map (fun p => dataForGid t r p.2) }

end FontVerif.SubsetGvar
