/-
Model of skrifa's interpolation / shifting opcodes (value computations), overflow-checked profile:
  skrifa/src/outline/glyf/hint/zone.rs           `Zone::iup`, `iup_shift`, `iup_interpolate`
  skrifa/src/outline/glyf/hint/engine/outline.rs `op_ip`, `op_shpix` (displacement), `op_isect`,
                                                 `op_alignpts`, `op_alignrp`, `op_msirp`, `op_mdap`
`F26Dot6` `+ - -x` wrap; unscaled coordinates are plain `i32` (`-` is checked: `none` = trap).
-/
import FontVerif.Model.HintVec
set_option linter.unusedVariables false
namespace FontVerif.HintInterp
open FontVerif FontVerif.HintMath FontVerif.HintMove FontVerif.HintRound FontVerif.Tt FontVerif.HintVec

/-! ### IUP -/

/-- coordinate of a vector along the IUP axis (`true` = x). -/
def co (ax : Bool) (v : Vec) : Int := if ax then v.x else v.y
def setCo (ax : Bool) (v : Vec) (c : Int) : Vec := if ax then ⟨c, v.y⟩ else ⟨v.x, c⟩
def touched (ax : Bool) (p : ZPt) : Bool := if ax then p.tx else p.ty

/-- `iup_interpolate`, the references: `(orus1, orus2, ref1, ref2)` after the swap
`if orus1 > orus2 { swap(orus1, orus2); swap(ref1, ref2) }`. -/
def orderRefs (ax : Bool) (r1 r2 : ZPt) : ZPt × ZPt :=
  if co ax r1.orus > co ax r2.orus then (r2, r1) else (r1, r2)

/-- `iup_interpolate`: the new coordinate of one point of the range (`a` = its original scaled
coordinate, `u` = its unscaled coordinate) from the six coordinates of the ORDERED references. -/
def interpCore (orus1 orus2 org1 org2 cur1 cur2 a u : Int) : Option Int :=
  let delta1 := wsub cur1 org1
  let delta2 := wsub cur2 org2
  if cur1 = cur2 ∨ orus1 = orus2 then
    some (if a ≤ org1 then wadd a delta1 else if a ≥ org2 then wadd a delta2 else cur1)
  else
    -- let scale = math::div((cur2 - cur1).to_bits(), orus2 - orus1)   (plain i32 subtraction)
    (chk (orus2 - orus1)).bind fun dorus =>
    let scale := div (wsub cur2 cur1) dorus
    if a ≤ org1 then some (wadd a delta1)
    else if a ≥ org2 then some (wadd a delta2)
    else (chk (u - orus1)).map fun du => wadd cur1 (mul du scale)

def interpCoord (ax : Bool) (r1 r2 : ZPt) (a u : Int) : Option Int :=
  interpCore (co ax r1.orus) (co ax r2.orus) (co ax r1.org) (co ax r2.org) (co ax r1.cur) (co ax r2.cur) a u

/-- apply `f` to the points `p1 ..= p2` of a zone (index order), `none` if `f` traps. -/
def mapRange (pts : List ZPt) (p1 p2 : Nat) (f : ZPt → Option ZPt) : Option (List ZPt) :=
  (pts.zipIdx).mapM fun (p, i) => if p1 ≤ i ∧ i ≤ p2 then f p else some p

/-- `Zone::iup_interpolate(axis, p1, p2, ref1, ref2)`. -/
def iupInterpolate (ax : Bool) (pts : List ZPt) (p1 p2 ref1 ref2 : Nat) : Option (List ZPt) :=
  if p1 > p2 then some pts
  else if ref1 ≥ pts.length ∨ ref2 ≥ pts.length then some pts
  else
    match pts[ref1]?, pts[ref2]? with
    | some r1, some r2 =>
      let (r1, r2) := orderRefs ax r1 r2
      mapRange pts p1 p2 fun p =>
        (interpCoord ax r1 r2 (co ax p.org) (co ax p.orus)).map fun c => { p with cur := setCo ax p.cur c }
    | _, _ => some pts

/-- `Zone::iup_shift(axis, p1, p2, p)`. -/
def iupShift (ax : Bool) (pts : List ZPt) (p1 p2 p : Nat) : Option (List ZPt) :=
  if p1 > p2 ∨ p1 > p ∨ p > p2 then some pts
  else
    match pts[p]? with
    | none => some pts
    | some r =>
      let delta := wsub (co ax r.cur) (co ax r.org)
      if delta = 0 then some pts
      else
        (pts.zipIdx).mapM fun (q, i) =>
          if p1 ≤ i ∧ i ≤ p2 ∧ i ≠ p then some { q with cur := setCo ax q.cur (wadd (co ax q.cur) delta) } else some q

def isTouched (ax : Bool) (pts : List ZPt) (i : Nat) : Bool :=
  match pts[i]? with
  | some p => touched ax p
  | none => false

/-- `while point <= end_point && !self.is_touched(point, axis)? { point += 1 }`. -/
def skipUntouched (ax : Bool) (pts : List ZPt) : Nat → Nat → Nat → Nat
  | 0, point, _ => point
  | fuel + 1, point, endp =>
    if point ≤ endp ∧ ¬ isTouched ax pts point then skipUntouched ax pts fuel (point + 1) endp else point

/-- the inner `while point <= end_point { if touched { interpolate(cur_touched + 1, point - 1, cur_touched,
point); cur_touched = point } point += 1 }`: new points and `cur_touched`. -/
def walkTouched (ax : Bool) : Nat → List ZPt → Nat → Nat → Nat → Option (List ZPt × Nat)
  | 0, pts, _, _, ct => some (pts, ct)
  | fuel + 1, pts, point, endp, ct =>
    if point ≤ endp then
      if isTouched ax pts point then
        (iupInterpolate ax pts (ct + 1) (point - 1) ct point).bind fun pts' =>
          walkTouched ax fuel pts' (point + 1) endp point
      else walkTouched ax fuel pts (point + 1) endp ct
    else some (pts, ct)

/-- one iteration of the `for i in 0..self.contours.len()` loop of `Zone::iup`: `point` is the running
index, `e` the contour's end point; returns the new points and the new running index. -/
def iupContour (ax : Bool) (pts : List ZPt) (point e : Nat) : Option (List ZPt × Nat) :=
  let endp := if e ≥ pts.length then pts.length - 1 else e
  let first := point
  let point := skipUntouched ax pts (endp + 2) point endp
  if point ≤ endp then
    let firstTouched := point
    (walkTouched ax (endp + 2) pts (point + 1) endp point).bind fun (pts, ct) =>
    let next := if point + 1 ≤ endp then endp + 1 else point + 1
    if ct = firstTouched then
      (iupShift ax pts first endp ct).map fun pts => (pts, next)
    else
      (iupInterpolate ax pts (ct + 1) endp ct firstTouched).bind fun pts =>
      if firstTouched > 0 then
        (iupInterpolate ax pts first (firstTouched - 1) ct firstTouched).map fun pts => (pts, next)
      else some (pts, next)
  else some (pts, point)

/-- `Zone::iup(axis)`. -/
def iupLoop (ax : Bool) : List Nat → List ZPt → Nat → Option (List ZPt)
  | [], pts, _ => some pts
  | e :: rest, pts, point => (iupContour ax pts point e).bind fun (pts, point) => iupLoop ax rest pts point

def iup (ax : Bool) (pts : List ZPt) (ends : List Nat) : Option (List ZPt) := iupLoop ax ends pts 0

/-! ### UTP, FLIPPT, FLIPRGON / FLIPRGOFF -/

/-- `op_utp`: untouch along the non-zero components of the freedom vector. -/
def utp (fv : Vec) (p : ZPt) : ZPt :=
  { p with tx := if fv.x ≠ 0 then false else p.tx, ty := if fv.y ≠ 0 then false else p.ty }

/-- `op_flippt`, one point: `flip_on_curve`. -/
def flipPt (p : ZPt) : ZPt := { p with on := ¬ p.on }

/-- `set_on_curve_for_range(on)` after the backward-compatibility test: `low_point ..= high_point`. -/
def flipRange (pts : List ZPt) (lo hi : Nat) (on : Bool) : List ZPt :=
  (pts.zipIdx).map fun (p, i) => if lo ≤ i ∧ i ≤ hi then { p with on := on } else p

/-! ### IP -/

/-- `op_ip`, one point: `new_distance` from `original_distance`, `cur_range`, `old_range`. -/
def ipNewDist (orgDist curRange oldRange : Int) : Int :=
  if orgDist ≠ 0 then (if oldRange ≠ 0 then mulDiv orgDist curRange oldRange else orgDist) else 0

/-- `op_ip`, the ranges: `twilight` = any of zp0/zp1/zp2 is the twilight zone; `b` = `zp0[rp1]`,
`r2` = `zp1[rp2]`: `(old_range, cur_range)`. -/
def ipRanges (g : Proj) (twilight : Bool) (b r2 : ZPt) : Option (Int × Int) :=
  let orusBase := if twilight then b.org else b.orus
  (if twilight then dualProject g r2.org orusBase else dualProject g r2.orus orusBase).bind fun oldRange =>
  (project g r2.cur b.cur).map fun curRange => (oldRange, curRange)

/-- `op_ip`, one point `p` of zp2 against the base `b` = `zp0[rp1]`: the moved point. -/
def ipPoint (g : Proj) (bc iupd twilight : Bool) (oldRange curRange : Int) (b p : ZPt) : Option MPt :=
  let orusBase := if twilight then b.org else b.orus
  (if twilight then dualProject g p.org orusBase else dualProject g p.orus orusBase).bind fun orgDist =>
  (project g p.cur b.cur).map fun curDist =>
  movePoint g bc iupd ⟨p.cur.x, p.cur.y, p.tx, p.ty⟩ (wsub (ipNewDist orgDist curRange oldRange) curDist)

/-! ### SHPIX, ALIGNRP, ALIGNPTS, MSIRP, MDAP, ISECT -/

/-- `op_shpix`: `(dx, dy) = (mul14(amount, fv.x), mul14(amount, fv.y))`. -/
def shpixDisp (fv : Vec) (amount : Int) : Int × Int := (mul14 amount fv.x, mul14 amount fv.y)

/-- `op_shpix`: is the point moved?  (`inTwilight` = any zone pointer is the twilight zone). -/
def shpixMoves (bc iupd inTwilight composite : Bool) (fv : Vec) (touchedY : Bool) : Bool :=
  if bc then inTwilight ∨ (¬ iupd ∧ ((composite ∧ fv.y ≠ 0) ∨ touchedY)) else true

/-- `op_alignrp`, one point: `move_point(zp1, p, -project(p, rp0))`. -/
def alignrp (g : Proj) (bc iupd : Bool) (p : MPt) (rp0 : Vec) : Option MPt :=
  (project g ⟨p.x, p.y⟩ rp0).map fun d => movePoint g bc iupd p (wneg d)

/-- `op_alignpts`: `distance = project(zp0[p2], zp1[p1]).to_bits() / 2` (truncating `i32` division);
returns the moved `(p1, p2)`.  When both indices name the same point of the same zone the step function
applies the two moves in sequence. -/
def alignptsDist (g : Proj) (p2 p1 : Vec) : Option Int := (project g p2 p1).map fun d => Int.tdiv d 2

/-- `op_msirp`, glyph-zone part: `d = project(p, rp0); move_point(zp1, p, distance.wrapping_sub(d))`. -/
def msirp (g : Proj) (bc iupd : Bool) (p : MPt) (rp0 : Vec) (distance : Int) : Option MPt :=
  (project g ⟨p.x, p.y⟩ rp0).map fun d => movePoint g bc iupd p (wsub distance d)

/-- `op_mdap`: `a` = round flag; `round` = `GraphicsState::round`. -/
def mdap (g : Proj) (bc iupd a : Bool) (mode thr ph per : Int) (p : MPt) : Option MPt :=
  if a then
    (project g ⟨p.x, p.y⟩ Vec.zero).bind fun cur =>
    (HintRound.round mode thr ph per cur).map fun r => movePoint g bc iupd p (wsub r cur)
  else some (movePoint g bc iupd p 0)

/-- `i32::wrapping_abs`. -/
def wabs32 (a : Int) : Int := if a < 0 then wrapI32 (-a) else a

/-- `op_isect`: the new position of the point from the four current positions. -/
def isect (a0 a1 b0 b1 : Vec) : Vec :=
  let dbx := wsub b1.x b0.x
  let dby := wsub b1.y b0.y
  let dax := wsub a1.x a0.x
  let day := wsub a1.y a0.y
  let dx := wsub b0.x a0.x
  let dy := wsub b0.y a0.y
  let discriminant := wadd (mulDiv dax (wneg dby) 64) (mulDiv day dbx 64)
  let dotproduct := wadd (mulDiv dax dbx 64) (mulDiv day dby 64)
  if wrapI32 (wabs32 discriminant * 19) > wabs32 dotproduct then
    let v := wadd (mulDiv dx (wneg dby) 64) (mulDiv dy dbx 64)
    let x := mulDiv v dax discriminant
    let y := mulDiv v day discriminant
    ⟨wadd a0.x x, wadd a0.y y⟩
  else
    ⟨Int.tdiv (wadd (wadd (wadd a0.x a1.x) b0.x) b1.x) 4, Int.tdiv (wadd (wadd (wadd a0.y a1.y) b0.y) b1.y) 4⟩

end FontVerif.HintInterp
