/-
C01 (hand-written code) — transcriptions of the loop-carrying / index-computing hand-written functions of
read-fonts/src/tables/colr.rs / colr/closure.rs / cpal.rs / svg.rs / stat.rs / hdmx.rs / vorg.rs / gasp.rs / meta.rs / tables.rs / offset_array.rs helpers.

Every definition cites the Rust function it transcribes (file + fn) and keeps its checked / saturating /
wrapping arithmetic and its error returns; `Out.trap` / `none`-as-panic results mark what would be a panic of
the overflow-checked profile, and Props/C01HandColr.lean shows they are never produced.  Tied to the real code
by harness group `colr.model` (driver commands `hc.*`, Drv/C01HandColr.lean).
-/
import FontVerif.Model.ReadIter
import FontVerif.Model.HandRead
namespace FontVerif.HandColr
open FontVerif FontVerif.ReadIter FontVerif.HandRead

end FontVerif.HandColr
