/-
C01 (hand-written code) — transcriptions of the loop-carrying / index-computing hand-written functions of
read-fonts/src/tables/colr.rs / colr/closure.rs / cpal.rs / svg.rs / stat.rs / hdmx.rs / vorg.rs / gasp.rs / meta.rs / tables.rs / offset_array.rs helpers.

Every definition cites the Rust function it transcribes (file + fn) and keeps its checked / saturating /
wrapping arithmetic and its error returns; `Out.trap` / `none`-as-panic results mark what would be a panic of
the overflow-checked profile, and Props/C01HandColr.lean shows they are never produced.  Tied to the real code
by harness group `colr.model` (driver commands `hc.*`, Drv/C01HandColr.lean).

* `Colr::{v0_base_glyph, v0_layer, v1_base_glyph, v1_layer, v1_clip_box}`      tables/colr.rs
  over the byte-level view of the generated readers they call (`Colr::read`, the nullable
  `base_glyph_records` / `layer_records` arrays, `BaseGlyphList` / `LayerList` / `ClipList`,
  `Paint::read`, `ClipBox::read`); the binary searches are `Layout.binarySearchBy`
  (core's `binary_search_by`, determined for every — also unsorted — record array) and the
  `&records[ix]` indexing after `Ok(ix)` is a representable panic (`Res.trap`).
* `Colr::{v0_closure_glyphs, v0_closure_palette_indices, v1_closure}`,
  `Colrv1ClosureContext::{dispatch, paint_visited, add_*}`, every `Paint*::v1_closure`,
  `ColorLine / VarColorLine::v1_closure`, `Clip / ClipBox::v1_closure`             tables/colr/closure.rs
  over an abstract paint graph (`Graph`: what each paint offset resolves to) with the byte-level
  instance `graphOf`.
* `Svg::glyph_data` (tables/svg.rs), `Hdmx::record_for_size` (tables/hdmx.rs),
  `Vorg::vertical_origin_y` (tables/vorg.rs), `Metadata::read_with_args` / `DataMapRecord::data`
  (tables/meta.rs), `compute_checksum` (tables.rs), `ArrayOfOffsets::{get, iter}`,
  `ArrayOfNullableOffsets::{get, iter}` (offset_array.rs).

cpal.rs, stat.rs (three straight-line `match`es), gasp.rs, base.rs, os2.rs hold no hand-written loop or
index computation (their arrays are generated getters, covered by the shape theorems).

`usize` is 64 bit (`HandRead.MAXU`).  NOT modelled: the `PaintId` handed out by `v1_base_glyph` /
`v1_layer` (`offset + offset_data.as_ptr() as usize`: an address, its sum with a `u32` cannot wrap for
any user-space address).
-/
import FontVerif.Model.ReadIter
import FontVerif.Model.HandRead
import FontVerif.Model.Layout
namespace FontVerif.HandColr
open FontVerif FontVerif.ReadIter FontVerif.HandRead FontVerif.Layout

/-- `ReadError` values of the functions below -/
inductive CErr where
  | nullOffset
  | oob
  | invalidFormat (f : Nat)
  | badIndex (i : Nat)
  deriving DecidableEq, Repr

/-- result of a fallible function: `Ok`, `Err(ReadError)`, or a panic of the strict profile -/
inductive Res (α : Type) where
  | ok (a : α)
  | err (e : CErr)
  | trap
  deriving DecidableEq, Repr

def U32MAX : Nat := 4294967295

/-! ## generated readers the COLR helpers call (byte-level view) -/

/-- big-endian scalar of `n` bytes at `p`; only used where the reader validated `p + n ≤ len` -/
def be (d : List Nat) (p n : Nat) : Nat := HandRead.beAt d p n

/-- `Colr::read` (generated): `version`, the v0 header (14 bytes) and for `version ≥ 1`
(`version.compatible(1u16)`) the five v1 offsets (34 bytes); the marker fields are read back by the
getters. -/
structure Colr where
  d : List Nat
  version : Nat
  numBase : Nat
  baseOff : Nat
  layerOff : Nat
  numLayer : Nat
  /-- `base_glyph_list_offset`, `layer_list_offset`, `clip_list_offset` (`None` for version 0) -/
  v1 : Option (Nat × Nat × Nat)
  deriving Repr

def colrRead (d : List Nat) : Option Colr :=
  match readAt d 0 2 with
  | none => none
  | some version =>
    let need := if version ≥ 1 then 34 else 14
    if need ≤ d.length then
      some { d := d, version := version, numBase := be d 2 2, baseOff := be d 4 4, layerOff := be d 8 4,
             numLayer := be d 12 2,
             v1 := if version ≥ 1 then some (be d 14 4, be d 18 4, be d 22 4) else none }
    else none

/-- `BaseGlyph` record -/
structure BaseGlyph where
  gid : Nat
  first : Nat
  num : Nat
  deriving Repr, DecidableEq, Inhabited

/-- `Layer` record -/
structure Layer where
  gid : Nat
  pal : Nat
  deriving Repr, DecidableEq, Inhabited

/-- `BaseGlyphPaint` record (`paint_offset` relative to the list) -/
structure BasePaint where
  gid : Nat
  off : Nat
  deriving Repr, DecidableEq, Inhabited

/-- `Clip` record (`clip_box_offset` relative to the list) -/
structure Clip where
  start : Nat
  end_ : Nat
  off : Nat
  deriving Repr, DecidableEq, Inhabited

/-- `Nullable<Offset32>::resolve_with_args::<&[T]>(data, &count)` (offset.rs + array.rs): `None` for a
null offset, `OutOfBounds` when `split_off(off)` or `read_array(0..count * size)` fails, else the absolute
position of the first record -/
def resolveArray (len off count size : Nat) : Option (Except CErr Nat) :=
  if off = 0 then none
  else if off > len then some (.error .oob)
  else if count * size ≤ len - off then some (.ok off) else some (.error .oob)

/-- the `count` records of `size` bytes from `at_` -/
def records {α : Type} (f : Nat → α) (at_ count size : Nat) : List α :=
  (List.range count).map (fun i => f (at_ + i * size))

/-- `Colr::base_glyph_records()` -/
def Colr.baseGlyphRecords (t : Colr) : Option (Except CErr (List BaseGlyph)) :=
  match resolveArray t.d.length t.baseOff t.numBase 6 with
  | none => none
  | some (.error e) => some (.error e)
  | some (.ok a) => some (.ok (records (fun p => ⟨be t.d p 2, be t.d (p + 2) 2, be t.d (p + 4) 2⟩) a t.numBase 6))

/-- `Colr::layer_records()` -/
def Colr.layerRecords (t : Colr) : Option (Except CErr (List Layer)) :=
  match resolveArray t.d.length t.layerOff t.numLayer 4 with
  | none => none
  | some (.error e) => some (.error e)
  | some (.ok a) => some (.ok (records (fun p => ⟨be t.d p 2, be t.d (p + 2) 2⟩) a t.numLayer 4))

/-- a resolved list table: absolute position (= its `offset_data()`) and its records -/
structure ListT (α : Type) where
  at_ : Nat
  recs : List α
  deriving Repr

/-- `Nullable<Offset32>::resolve::<L>(data)` for the three v1 list tables: `hdr` header bytes whose last
four are the `u32` count, then `count * size` record bytes (`L::read`: `cursor.read()?`, `checked_mul`
— a `u32` times a record size cannot overflow a 64-bit `usize` —, `advance_by`, `finish`) -/
def resolveList {α : Type} (d : List Nat) (off? : Option Nat) (hdr size : Nat) (f : Nat → α) :
    Option (Except CErr (ListT α)) :=
  match off? with
  | none => none
  | some off =>
    if off = 0 then none
    else if off > d.length then some (.error .oob)
    else
      match readAt d (off + hdr - 4) 4 with
      | none => some (.error .oob)
      | some count =>
        if hdr + count * size ≤ d.length - off then
          some (.ok ⟨off, records f (off + hdr) count size⟩)
        else some (.error .oob)

/-- `Colr::base_glyph_list()` -/
def Colr.baseGlyphList (t : Colr) : Option (Except CErr (ListT BasePaint)) :=
  resolveList t.d (t.v1.map (·.1)) 4 6 (fun p => ⟨be t.d p 2, be t.d (p + 2) 4⟩)

/-- `Colr::layer_list()`; the records are the `paint_offsets` -/
def Colr.layerList (t : Colr) : Option (Except CErr (ListT Nat)) :=
  resolveList t.d (t.v1.map (·.2.1)) 4 4 (fun p => be t.d p 4)

/-- `Colr::clip_list()` -/
def Colr.clipList (t : Colr) : Option (Except CErr (ListT Clip)) :=
  resolveList t.d (t.v1.map (·.2.2)) 5 7 (fun p => ⟨be t.d p 2, be t.d (p + 2) 2, be t.d (p + 4) 3⟩)

/-- `MinByteRange` of the `Paint` formats (generated `Paint*::read`: fixed-size `advance`s + `finish`) -/
def paintSize (fmt : Nat) : Option Nat :=
  match fmt with
  | 1 => some 6 | 2 => some 5 | 3 => some 9 | 4 => some 16 | 5 => some 20 | 6 => some 16 | 7 => some 20
  | 8 => some 12 | 9 => some 16 | 10 => some 6 | 11 => some 3 | 12 => some 7 | 13 => some 7
  | 14 => some 8 | 15 => some 12 | 16 => some 8 | 17 => some 12 | 18 => some 12 | 19 => some 16
  | 20 => some 6 | 21 => some 10 | 22 => some 10 | 23 => some 14 | 24 => some 6 | 25 => some 10
  | 26 => some 10 | 27 => some 14 | 28 => some 8 | 29 => some 12 | 30 => some 12 | 31 => some 16
  | 32 => some 8
  | _ => none

/-- `Paint::read(data)` on the data starting at absolute position `p`: the format -/
def paintRead (d : List Nat) (p : Nat) : Except CErr Nat :=
  match readAt d p 1 with
  | none => .error .oob
  | some fmt =>
    match paintSize fmt with
    | none => .error (.invalidFormat fmt)
    | some sz => if p + sz ≤ d.length then .ok fmt else .error .oob

/-- `off.resolve::<Paint>(data)` with `data` starting at absolute position `base`: `NullOffset`,
`OutOfBounds` (`split_off`), else `Paint::read`; `ok (format, absolute position)` -/
def resolvePaint (d : List Nat) (base off : Nat) : Except CErr (Nat × Nat) :=
  if off = 0 then .error .nullOffset
  else if base + off > d.length then .error .oob
  else match paintRead d (base + off) with
    | .error e => .error e
    | .ok fmt => .ok (fmt, base + off)

/-- `Offset24::resolve::<ClipBox>(data)`: format 1 (9 bytes) / 2 (13 bytes); `ok (format, position)` -/
def resolveClipBox (d : List Nat) (base off : Nat) : Except CErr (Nat × Nat) :=
  if off = 0 then .error .nullOffset
  else if base + off > d.length then .error .oob
  else match readAt d (base + off) 1 with
    | none => .error .oob
    | some fmt =>
      if fmt = 1 then (if base + off + 9 ≤ d.length then .ok (1, base + off) else .error .oob)
      else if fmt = 2 then (if base + off + 13 ≤ d.length then .ok (2, base + off) else .error .oob)
      else .error (.invalidFormat fmt)

/-- `opt.ok_or(ReadError::NullOffset)??` -/
def orNull {α β : Type} (x : Option (Except CErr α)) (k : α → Res β) : Res β :=
  match x with
  | none => .err .nullOffset
  | some (.error e) => .err e
  | some (.ok a) => k a

/-! ## `Colr::v0_base_glyph`, `v0_layer`, `v1_base_glyph`, `v1_layer`, `v1_clip_box` (tables/colr.rs) -/

/-- `usize` addition of the strict profile -/
def addU (a b : Nat) : Option Nat := checkedAdd a b

/-- the tail of `v0_base_glyph` (shared with the v0 closures): `binary_search_by(|rec| rec.glyph_id().cmp(&gid))`,
`Ok(ix) => &records[ix]` (index panic representable), `start = first_layer_index as usize`,
`end = start + num_layers as usize` (unchecked `usize` add). -/
def v0Range (recs : List BaseGlyph) (gid : Nat) : Res (Option (Nat × Nat)) :=
  match binarySearchBy recs.length (fun i => natCmp (recs.getD i default).gid gid) with
  | .err _ => .ok none
  | .ok ix =>
    match recs[ix]? with
    | none => .trap
    | some r =>
      match addU r.first r.num with
      | none => .trap
      | some e => .ok (some (r.first, e))

/-- `Colr::v0_base_glyph(glyph_id)`; `glyph_id` is a `GlyphId` (u32): the records are fetched first, then
`glyph_id.try_into::<GlyphId16>()` fails above `0xFFFF` → `Ok(None)`. -/
def v0BaseGlyph (t : Colr) (gid : Nat) : Res (Option (Nat × Nat)) :=
  orNull t.baseGlyphRecords fun recs =>
    if gid > 65535 then .ok none else v0Range recs gid

/-- `Colr::v0_layer(index)` given the result of `self.layer_records()`:
`.ok_or(ReadError::NullOffset)??`, `layers.get(index).ok_or(OutOfBounds)` -/
def v0LayerOf (lr : Option (Except CErr (List Layer))) (index : Nat) : Res Layer :=
  orNull lr fun ls =>
    match ls[index]? with
    | none => .err .oob
    | some l => .ok l

/-- `Colr::v0_layer(index)` -/
def v0Layer (t : Colr) (index : Nat) : Res Layer := v0LayerOf t.layerRecords index

/-- binary search + `&records[ix]` of `v1_base_glyph` / `PaintColrGlyph::v1_closure` -/
def v1Find (recs : List BasePaint) (gid : Nat) : Res (Option BasePaint) :=
  match binarySearchBy recs.length (fun i => natCmp (recs.getD i default).gid gid) with
  | .err _ => .ok none
  | .ok ix =>
    match recs[ix]? with
    | none => .trap
    | some r => .ok (some r)

/-- `Colr::v1_base_glyph(glyph_id)`: the `GlyphId16` conversion comes first; `ok (some (format, position))`
is the resolved paint -/
def v1BaseGlyph (t : Colr) (gid : Nat) : Res (Option (Nat × Nat)) :=
  if gid > 65535 then .ok none else
  orNull t.baseGlyphList fun l =>
    match v1Find l.recs gid with
    | .trap => .trap
    | .err e => .err e
    | .ok none => .ok none
    | .ok (some r) =>
      match resolvePaint t.d l.at_ r.off with
      | .error e => .err e
      | .ok p => .ok (some p)

/-- `Colr::v1_layer(index)` -/
def v1Layer (t : Colr) (index : Nat) : Res (Nat × Nat) :=
  orNull t.layerList fun l =>
    match l.recs[index]? with
    | none => .err .oob
    | some off =>
      match resolvePaint t.d l.at_ off with
      | .error e => .err e
      | .ok p => .ok p

/-- comparison closure of `v1_clip_box` -/
def clipCmp (c : Clip) (gid : Nat) : Ordering :=
  if gid < c.start then .gt else if gid > c.end_ then .lt else .eq

/-- `Colr::v1_clip_box(glyph_id)`; `ok (some (format, position))` is the resolved `ClipBox` -/
def v1ClipBox (t : Colr) (gid : Nat) : Res (Option (Nat × Nat)) :=
  if gid > 65535 then .ok none else
  orNull t.clipList fun l =>
    match binarySearchBy l.recs.length (fun i => clipCmp (l.recs.getD i default) gid) with
    | .err _ => .ok none
    | .ok ix =>
      match l.recs[ix]? with
      | none => .trap
      | some c =>
        match resolveClipBox t.d l.at_ c.off with
        | .error e => .err e
        | .ok b => .ok (some b)

/-! ## COLR v0 closures (tables/colr/closure.rs)

`glyph_set.iter()` is rendered as the list of its members; the result sets are lists (insertion order,
duplicates kept — the driver sorts and dedups, an `IntSet` has no order of insertion). -/

/-- the loop `for layer_index in start..end { if let Ok((gid, pal)) = self.v0_layer(layer_index) { set.insert(..) } }`;
`pick` selects the glyph id or the palette index -/
def v0LayerLoop (t : Colr) (pick : Layer → Nat) (start end_ : Nat) (acc : List Nat) : List Nat :=
  let lr := t.layerRecords   -- `self.v0_layer(i)` resolves the same array on every trip
  (List.range' start (end_ - start)).foldl (fun acc i =>
    match v0LayerOf lr i with
    | .ok l => pick l :: acc
    | _ => acc) acc

/-- loop body of `v0_closure_glyphs` / `v0_closure_palette_indices` for one member of the glyph set;
`none` = panic -/
def v0ClosureStep (t : Colr) (recs : List BaseGlyph) (pick : Layer → Nat) (acc : List Nat) (gid : Nat) :
    Option (List Nat) :=
  if gid > 65535 then some acc else
  match v0Range recs gid with
  | .trap => none
  | .err _ => some acc
  | .ok none => some acc
  | .ok (some (s, e)) => some (v0LayerLoop t pick s e acc)

def v0ClosureLoop (t : Colr) (recs : List BaseGlyph) (pick : Layer → Nat) : List Nat → List Nat → Option (List Nat)
  | [], acc => some acc
  | g :: gs, acc =>
    match v0ClosureStep t recs pick acc g with
    | none => none
    | some acc' => v0ClosureLoop t recs pick gs acc'

/-- `Colr::v0_closure_glyphs(glyph_set, out)`: `out.union(glyph_set)`, then the layers' glyph ids -/
def v0ClosureGlyphs (t : Colr) (glyphs : List Nat) : Option (List Nat) :=
  match t.baseGlyphRecords with
  | some (.ok recs) => v0ClosureLoop t recs (·.gid) glyphs glyphs
  | _ => some glyphs

/-- `Colr::v0_closure_palette_indices(glyph_set, out)` -/
def v0ClosurePalettes (t : Colr) (glyphs : List Nat) : Option (List Nat) :=
  match t.baseGlyphRecords with
  | some (.ok recs) => v0ClosureLoop t recs (·.pal) glyphs []
  | _ => some []

/-! ## COLR v1 closure (tables/colr/closure.rs) over an abstract paint graph -/

/-- what `Paint::v1_closure` reads of a paint.  A child is `some position` when `self.paint()` (…) is
`Ok`, the position being the child's `offset_data()` relative to the COLR table. -/
inductive PNode where
  /-- `PaintColrLayers` -/
  | layers (num first : Nat)
  /-- `PaintSolid` / `PaintVarSolid` (`var_index_base`, 1 delta) -/
  | solid (pal : Nat) (var : Option Nat)
  /-- the six gradient formats: the stops of `color_line()` (`none` = `Err`; palette index and, for a
  `VarColorStop`, its `var_index_base`), and `(var_index_base, num_vars)` of a Var gradient -/
  | gradient (stops : Option (List (Nat × Option Nat))) (var : Option (Nat × Nat))
  /-- `PaintGlyph` -/
  | glyph (gid : Nat) (child : Option Nat)
  /-- `PaintColrGlyph` -/
  | colrGlyph (gid : Nat)
  /-- `PaintTransform` … `PaintVarSkewAroundCenter`: the child and the `add_variation_indices(base, n)` that
  follows `dispatch` inside `if let Ok(paint)` (for `PaintVarTransform`: present when `transform()` is `Ok`) -/
  | unary (child : Option Nat) (var : Option (Nat × Nat))
  /-- `PaintComposite` -/
  | composite (src backdrop : Option Nat)
  deriving Repr, DecidableEq, Inhabited

/-- the part of a COLR table the v1 closure reads -/
structure Graph where
  /-- the paint whose data starts at a position (`none`: `Paint::read` fails there) -/
  node : Nat → Option PNode
  /-- `c.colr.layer_list()` is `Some(Ok(_))`: per layer, `paint_offset.resolve::<Paint>()` is `Ok` at … -/
  layerList : Option (List (Option Nat))
  /-- `c.colr.base_glyph_list()` is `Some(Ok(_))`: glyph id and `record.paint(..)` is `Ok` at … -/
  baseList : Option (List (Nat × Option Nat))

/-- `Colrv1ClosureContext` (+ ghost counters `calls`, `stops` and the failure flags) -/
structure Ctx where
  glyphs : List Nat := []
  /-- `layer_indices.insert_range(a..=b)` calls -/
  layers : List (Nat × Nat) := []
  palettes : List Nat := []
  /-- `variation_indices.insert_range(a..=b)` calls -/
  vars : List (Nat × Nat) := []
  /-- `nesting_level_left: u8` -/
  level : Nat := 64
  /-- `visited_paints` -/
  visited : List Nat := []
  /-- number of `dispatch` calls so far -/
  calls : Nat := 0
  /-- a `u8` / `u32` operation of the strict profile overflowed, or an index was out of bounds -/
  trap : Bool := false
  /-- the model ran out of fuel (artefact) -/
  starved : Bool := false
  deriving Repr

/-- `add_variation_indices(var_index_base, num_vars)`: nothing for `num_vars == 0` or
`NO_VARIATION_INDEX`; `last = base.saturating_add(num_vars as u32 - 1)` -/
def Ctx.addVars (c : Ctx) (base n : Nat) : Ctx :=
  if n = 0 ∨ base = U32MAX then c
  else { c with vars := (base, min (base + (n - 1)) U32MAX) :: c.vars }

def Ctx.addVarsOpt (c : Ctx) : Option (Nat × Nat) → Ctx
  | none => c
  | some (b, n) => c.addVars b n

/-- `ColorStop::v1_closure` / `VarColorStop::v1_closure` (2 deltas) -/
def Ctx.addStop (c : Ctx) (s : Nat × Option Nat) : Ctx :=
  let c := { c with palettes := s.1 :: c.palettes }
  match s.2 with
  | none => c
  | some b => c.addVars b 2

/-- the layer indices `first..=last` of `PaintColrLayers::v1_closure` -/
def layerIndices (first last : Nat) : List Nat := List.range' first (last + 1 - first)

/-- consecutive `dispatch` calls (the `for layer_index in first..=last` loop of `PaintColrLayers`,
restricted to the layers that resolve); `rec` is `dispatch` one nesting level down -/
def dispatchAll (rec : Ctx → Nat → Ctx) : Ctx → List Nat → Ctx
  | c, [] => c
  | c, p :: ps => dispatchAll rec (rec c p) ps

/-- `Paint::v1_closure` → the format's `v1_closure`; `rec` = `c.dispatch(&paint)` -/
def body (G : Graph) (rec : Ctx → Nat → Ctx) (c : Ctx) : PNode → Ctx
  | .layers num first =>
    if num = 0 then c else
    match G.layerList with
    | none => c
    | some ll =>
      -- `first_layer_index.saturating_add(num_layers as u32 - 1)`, `num_layers ≠ 0`
      let last := min (first + (num - 1)) U32MAX
      let c := { c with layers := (first, last) :: c.layers }
      dispatchAll rec c ((layerIndices first last).filterMap (fun i => (ll[i]?).join))
  | .solid pal var =>
    let c := { c with palettes := pal :: c.palettes }
    match var with
    | none => c
    | some b => c.addVars b 1
  | .gradient stops var =>
    let c := match stops with
      | none => c
      | some ss => ss.foldl Ctx.addStop c
    c.addVarsOpt var
  | .glyph gid child =>
    let c := { c with glyphs := gid :: c.glyphs }
    match child with
    | none => c
    | some p => rec c p
  | .colrGlyph gid =>
    match G.baseList with
    | none => c
    | some recs =>
      match binarySearchBy recs.length (fun i => natCmp (recs.getD i default).1 gid) with
      | .err _ => c
      | .ok ix =>
        match recs[ix]? with
        | none => { c with trap := true }   -- `&records[ix]`
        | some (_, none) => c
        | some (_, some p) => rec { c with glyphs := gid :: c.glyphs } p
  | .unary child var =>
    match child with
    | none => c
    | some p => (rec c p).addVarsOpt var
  | .composite src backdrop =>
    let c := match src with
      | none => c
      | some p => rec c p
    match backdrop with
    | none => c
    | some p => rec c p

/-- `Colrv1ClosureContext::dispatch(&paint)` for the paint at `pos`: nesting limit, `paint_visited`
(key `(paint_ptr - colr_head) as u32`: the paint's data lies inside the table's, the difference is its
position), `nesting_level_left -= 1`, `paint.v1_closure(self)`, `nesting_level_left += 1` (`u8`, strict). -/
def dispatch (G : Graph) : Nat → Ctx → Nat → Ctx
  | 0, c, _ => { c with starved := true }
  | fuel + 1, c, pos =>
    let c := { c with calls := c.calls + 1 }
    match G.node pos with
    | none => c   -- not reached: every caller holds a parsed `Paint`
    | some n =>
      if c.level = 0 then c
      else if c.visited.contains (pos % 4294967296) then c
      else
        let c := { c with visited := pos % 4294967296 :: c.visited, level := c.level - 1 }
        let c := body G (dispatch G fuel) c n
        if c.level + 1 > 255 then { c with trap := true } else { c with level := c.level + 1 }

/-- `Clip::v1_closure`: `clip_box(..)` must resolve (`box`: `some (some base)` = Format2 with its
`var_index_base`, `some none` = Format1), the glyph range `start..=end` must meet `c.glyph_set`
(an empty range for `start > end`) -/
def clipClosure (c : Ctx) (start end_ : Nat) (box : Option (Option Nat)) : Ctx :=
  match box with
  | none => c
  | some b =>
    if c.glyphs.any (fun g => start ≤ g ∧ g ≤ end_) then
      match b with
      | none => c
      | some base => c.addVars base 4
    else c

/-- the base-glyph loop of `Colr::v1_closure`: `for paint_record in base_glyph_records`,
`glyph_set.contains(gid)`, `paint_record.paint(..)` `Ok` → `c.dispatch(&paint)` (fuel 65 for the 64
nesting levels) -/
def v1Roots (G : Graph) (glyphSet : List Nat) : Ctx :=
  match G.baseList with
  | none => {}
  | some recs =>
    dispatchAll (dispatch G 65) {}
      (recs.filterMap (fun (r : Nat × Option Nat) => if glyphSet.contains r.1 then r.2 else none))

/-- the clip loop: `for clip_record in clip_list.clips() { clip_record.v1_closure(&mut c, &clip_list) }` -/
def v1Clips (c : Ctx) (cl : List (Nat × Nat × Option (Option Nat))) : Ctx :=
  cl.foldl (fun c (r : Nat × Nat × Option (Option Nat)) => clipClosure c r.1 r.2.1 r.2.2) c

/-- `Colr::v1_closure(glyph_set, layer_indices, palette_indices, variation_indices)` for a table of
`version ≥ 1`: the base-glyph loop, `glyph_set.union(&c.glyph_set)` (only when the base glyph list
resolves), then — when `clip_list()` is `Some(Ok(_))` (`clips ≠ none`) — `c.glyph_set.union(glyph_set)`
and the clip loop.  Result: the context and the final `glyph_set`. -/
def v1Closure (G : Graph) (clips : Option (List (Nat × Nat × Option (Option Nat)))) (glyphSet : List Nat) :
    Ctx × List Nat :=
  let c := v1Roots G glyphSet
  let gs := match G.baseList with
    | none => glyphSet
    | some _ => glyphSet ++ c.glyphs
  match clips with
  | none => (c, gs)
  | some cl => (v1Clips { c with glyphs := c.glyphs ++ gs } cl, gs)

/-! ### the paint graph of a COLR table (byte-level view of the generated `Paint*` getters) -/

/-- `Offset24` at `at_` resolved against the paint's own data (`self.paint()`, `source_paint()`, …) -/
def childAt (d : List Nat) (p at_ : Nat) : Option Nat :=
  match resolvePaint d p (be d at_ 3) with
  | .ok (_, q) => some q
  | .error _ => none

/-- `self.color_line()` of a gradient at `p` + `color_stops()`: `ColorLine::read` / `VarColorLine::read`
(`extend`, `num_stops`, `num_stops` stops of 6 / 10 bytes) -/
def colorLine (d : List Nat) (p : Nat) (var : Bool) : Option (List (Nat × Option Nat)) :=
  let off := be d (p + 1) 3
  if off = 0 then none
  else if p + off > d.length then none
  else
    let q := p + off
    match readAt d (q + 1) 2 with
    | none => none
    | some n =>
      let sz := if var then 10 else 6
      if 3 + n * sz ≤ d.length - q then
        some (records (fun r => (be d (r + 2) 2, if var then some (be d (r + 6) 4) else none)) (q + 3) n sz)
      else none

/-- `PaintVarTransform::transform()` (`VarAffine2x3`, 28 bytes) → `add_variation_indices(base, 6)` -/
def affineVar (d : List Nat) (p : Nat) : Option (Nat × Nat) :=
  let off := be d (p + 4) 3
  if off = 0 then none
  else if p + off + 28 ≤ d.length then some (be d (p + off + 24) 4, 6) else none

/-- number of deltas of the Var transform formats (`add_variation_indices(self.var_index_base(), n)`) -/
def unaryVars (fmt : Nat) : Nat :=
  match fmt with
  | 15 => 2 | 17 => 2 | 19 => 4 | 21 => 1 | 23 => 3 | 25 => 1 | 27 => 3 | 29 => 2 | 31 => 4
  | _ => 0

/-- the paint at position `p` as `v1_closure` sees it -/
def nodeAt (d : List Nat) (p : Nat) : Option PNode :=
  match paintRead d p with
  | .error _ => none
  | .ok fmt =>
    match paintSize fmt with
    | none => none
    | some sz =>
      some (
        if fmt = 1 then .layers (be d (p + 1) 1) (be d (p + 2) 4)
        else if fmt = 2 then .solid (be d (p + 1) 2) none
        else if fmt = 3 then .solid (be d (p + 1) 2) (some (be d (p + 5) 4))
        else if fmt = 4 ∨ fmt = 6 ∨ fmt = 8 then .gradient (colorLine d p false) none
        else if fmt = 5 ∨ fmt = 7 then .gradient (colorLine d p true) (some (be d (p + 16) 4, 6))
        else if fmt = 9 then .gradient (colorLine d p true) (some (be d (p + 12) 4, 4))
        else if fmt = 10 then .glyph (be d (p + 4) 2) (childAt d p (p + 1))
        else if fmt = 11 then .colrGlyph (be d (p + 1) 2)
        else if fmt = 13 then .unary (childAt d p (p + 1)) (affineVar d p)
        else if fmt = 32 then .composite (childAt d p (p + 1)) (childAt d p (p + 5))
        else if fmt % 2 = 1 then .unary (childAt d p (p + 1)) (some (be d (p + sz - 4) 4, unaryVars fmt))
        else .unary (childAt d p (p + 1)) none)

def okPos : Except CErr (Nat × Nat) → Option Nat
  | .ok (_, q) => some q
  | .error _ => none

/-- the graph of a parsed COLR table -/
def graphOf (t : Colr) : Graph where
  node := nodeAt t.d
  layerList := match t.layerList with
    | some (.ok l) => some (l.recs.map (fun off => okPos (resolvePaint t.d l.at_ off)))
    | _ => none
  baseList := match t.baseGlyphList with
    | some (.ok l) => some (l.recs.map (fun r => (r.gid, okPos (resolvePaint t.d l.at_ r.off))))
    | _ => none

/-- the clip records as `Clip::v1_closure` sees them -/
def clipsOf (t : Colr) : Option (List (Nat × Nat × Option (Option Nat))) :=
  match t.clipList with
  | some (.ok l) => some (l.recs.map (fun c =>
      (c.start, c.end_, match resolveClipBox t.d l.at_ c.off with
        | .ok (fmt, q) => some (if fmt = 2 then some (be t.d (q + 9) 4) else none)
        | .error _ => none)))
  | _ => none

/-- `Colr::v1_closure` on a parsed table: `if self.version() < 1 { return }` -/
def v1ClosureOf (t : Colr) (glyphSet : List Nat) : Ctx × List Nat :=
  if t.version < 1 then ({}, glyphSet) else v1Closure (graphOf t) (clipsOf t) glyphSet

/-! ## `Svg::glyph_data` (tables/svg.rs) -/

/-- `SVGDocumentRecord` -/
structure SvgRec where
  start : Nat
  end_ : Nat
  off : Nat
  len : Nat
  deriving Repr, DecidableEq, Inhabited

/-- comparison closure of `glyph_data` (`glyph_id` is a `GlyphId`, u32) -/
def svgCmp (r : SvgRec) (gid : Nat) : Ordering :=
  if r.start > gid then .gt else if r.end_ < gid then .lt else .eq

/-- the search and slice of `Svg::glyph_data` on the records of a document list whose data
(`document_list.data`, from the list's start to the end of the table) is `dataLen` bytes long:
`binary_search_by(..).ok()`, `.get(index)`, `start.checked_add(len)?`, `all_data.get(start..end)`;
`some (start, end)` = the document -/
def svgDoc (recs : List SvgRec) (dataLen gid : Nat) : Option (Nat × Nat) :=
  match binarySearchBy recs.length (fun i => svgCmp (recs.getD i default) gid) with
  | .err _ => none
  | .ok ix =>
    match recs[ix]? with
    | none => none
    | some r =>
      match checkedAdd r.off r.len with
      | none => none
      | some e => if r.off ≤ e ∧ e ≤ dataLen then some (r.off, e) else none

/-- `Svg::read` (8 bytes) + `svg_document_list()` (non-nullable `Offset32`, `SVGDocumentList::read`):
the records and the length of the list's data -/
def svgList (d : List Nat) : Option (Except CErr (List SvgRec × Nat)) :=
  if 8 ≤ d.length then
    let off := be d 2 4
    if off = 0 then some (.error .nullOffset)
    else if off > d.length then some (.error .oob)
    else match readAt d off 2 with
      | none => some (.error .oob)
      | some n =>
        if 2 + n * 12 ≤ d.length - off then
          some (.ok (records (fun p => ⟨be d p 2, be d (p + 2) 2, be d (p + 4) 4, be d (p + 8) 4⟩) (off + 2) n 12,
                     d.length - off))
        else some (.error .oob)
  else none

/-- `Svg::glyph_data(glyph_id)` on table bytes (`none`: `Svg::read` fails) -/
def svgGlyphData (d : List Nat) (gid : Nat) : Option (Res (Option (Nat × Nat))) :=
  match svgList d with
  | none => none
  | some (.error e) => some (.err e)
  | some (.ok (recs, dl)) => some (.ok (svgDoc recs dl gid))

/-! ## `Hdmx::record_for_size` (tables/hdmx.rs) -/

/-- a `ComputedArray<DeviceRecord>` over `area` (the `num_records * size_device_record` record bytes):
`item_len = size_device_record`, `len = area.len / item_len` (0 for a zero size) -/
structure HdmxArr where
  area : List Nat
  itemLen : Nat
  numGlyphs : Nat
  deriving Repr

def HdmxArr.len (a : HdmxArr) : Nat := compLen a.area.length a.itemLen

/-- `ComputedArray::get(idx)` for `DeviceRecord`: `idx.checked_mul(item_len)`, `split_off`,
`DeviceRecord::read_with_args` (pixel size, max width, `num_glyphs` widths from whatever follows —
NOT limited to the record's `item_len` bytes); `some (start, pixel_size)` -/
def HdmxArr.get (a : HdmxArr) (idx : Nat) : Option (Nat × Nat) :=
  match checkedMul idx a.itemLen with
  | none => none
  | some start =>
    if start ≤ a.area.length ∧ 2 + a.numGlyphs ≤ a.area.length - start then some (start, a.area.getD start 0)
    else none

/-- result of one trip of the `while lo < hi` loop -/
inductive HStep where
  | found (start : Nat)
  | fail            -- `records.get(mid).ok()?` returned `None`
  | go (lo hi : Nat)
  | trap            -- `lo + hi` / `mid + 1` overflow
  deriving Repr, DecidableEq

def hdmxStep (a : HdmxArr) (size lo hi : Nat) : HStep :=
  match addU lo hi with
  | none => .trap
  | some s =>
    let mid := s / 2
    match a.get mid with
    | none => .fail
    | some (start, px) =>
      if px < size then (match addU mid 1 with | none => .trap | some l => .go l hi)
      else if px > size then .go lo mid
      else .found start

/-- `Hdmx::record_for_size(size)`: `ok (some start)` = `Some(record)`; `none` = out of fuel; the second
component counts the trips -/
def hdmxLoop (a : HdmxArr) (size : Nat) : Nat → Nat → Nat → Nat → Option (Res (Option Nat) × Nat)
  | 0, _, _, _ => none
  | fuel + 1, lo, hi, trips =>
    if lo < hi then
      match hdmxStep a size lo hi with
      | .found s => some (.ok (some s), trips + 1)
      | .fail => some (.ok none, trips + 1)
      | .trap => some (.trap, trips + 1)
      | .go lo' hi' => hdmxLoop a size fuel lo' hi' (trips + 1)
    else some (.ok none, trips)

def hdmxRecordForSize (a : HdmxArr) (size : Nat) : Option (Res (Option Nat) × Nat) :=
  hdmxLoop a size (a.len + 1) 0 a.len 0

/-- `Hdmx::read(data, num_glyphs)` (generated): version, `num_records`, `size_device_record`,
`num_records * size` record bytes -/
def hdmxRead (d : List Nat) (numGlyphs : Nat) : Option HdmxArr :=
  match readAt d 2 2, readAt d 4 4 with
  | some n, some size =>
    if 8 + n * size ≤ d.length then some ⟨(d.drop 8).take (n * size), size, numGlyphs⟩ else none
  | _, _ => none

/-! ## `Vorg::vertical_origin_y` (tables/vorg.rs) -/

/-- `binary_search_by(|rec| rec.glyph_index().to_u32().cmp(&gid))`, `Ok(ix) => metrics.get(ix).map(..)
.unwrap_or_default()`, else the default; values are the raw `u16` bit patterns of the `i16`s -/
def vorgY (recs : List (Nat × Nat)) (dflt gid : Nat) : Nat :=
  match binarySearchBy recs.length (fun i => natCmp (recs.getD i default).1 gid) with
  | .err _ => dflt
  | .ok ix =>
    match recs[ix]? with
    | none => 0
    | some r => r.2

/-- `Vorg::read`: version (4), default (2), count (2), `count` records of 4 bytes -/
def vorgRead (d : List Nat) : Option (List (Nat × Nat) × Nat) :=
  match readAt d 6 2 with
  | none => none
  | some n =>
    if 8 + n * 4 ≤ d.length then
      some (records (fun p => (be d p 2, be d (p + 2) 2)) 8 n 4, be d 4 2)
    else none

/-! ## `DataMapRecord::data` → `Metadata::read_with_args` (tables/meta.rs) -/

/-- `data_offset().resolve_with_args::<Metadata>(data, &(tag, len))`: `NullOffset`, `split_off`,
`data.slice(0..len as usize)`; `ok (start, end, is_lang_tags)` -/
def metaData (dataLen off len : Nat) (lang : Bool) : Except CErr (Nat × Nat × Bool) :=
  if off = 0 then .error .nullOffset
  else if off > dataLen then .error .oob
  else if len ≤ dataLen - off then .ok (off, off + len, lang) else .error .oob

/-- `Meta::read`: 12 header bytes, `data_maps_count`, the 12-byte records `(tag, offset, length)` -/
def metaRead (d : List Nat) : Option (List (Nat × Nat × Nat)) :=
  match readAt d 12 4 with
  | none => none
  | some n =>
    if 16 + n * 12 ≤ d.length then
      some (records (fun p => (be d p 4, be d (p + 4) 4, be d (p + 8) 4)) 16 n 12)
    else none

/-- `DLNG` / `SLNG` -/
def isLangTag (tag : Nat) : Bool := tag = 0x646C6E67 || tag = 0x736C6E67

/-! ## `compute_checksum` (tables.rs) -/

/-- the `for quad in &mut iter` loop over `chunks_exact(4)` (`sum.wrapping_add(u32::from_be_bytes(quad))`)
and `iter.remainder()`; the third component counts the trips -/
def checksumLoop : List Nat → Nat → Nat → Nat × List Nat × Nat
  | a :: b :: c :: e :: rest, sum, trips =>
    checksumLoop rest ((sum + (((a * 256 + b) * 256 + c) * 256 + e)) % 4294967296) (trips + 1)
  | rem, sum, trips => (sum, rem, trips)

/-- `compute_checksum(table)`: the remainder (1–3 bytes) is padded with zeros on the right -/
def computeChecksum (d : List Nat) : Nat × Nat :=
  let r := checksumLoop d 0 0
  let rem := match r.2.1 with
    | [a] => a * 16777216
    | [a, b] => a * 16777216 + b * 65536
    | [a, b, c] => a * 16777216 + b * 65536 + c * 256
    | _ => 0
  ((r.1 + rem) % 4294967296, r.2.2)

/-! ## `ArrayOfOffsets` / `ArrayOfNullableOffsets` (offset_array.rs) -/

/-- `ArrayOfOffsets::get(idx)`: `offsets.get(idx).ok_or(InvalidCollectionIndex(idx as u32))`, then
`resolve_with_args` (`read pos` = `T::read_with_args` on the data from `pos`) -/
def arrGet {α : Type} (offs : List Nat) (dataLen : Nat) (read : Nat → Except CErr α) (idx : Nat) : Except CErr α :=
  match offs[idx]? with
  | none => .error (.badIndex (idx % 4294967296))
  | some off =>
    if off = 0 then .error .nullOffset
    else if off > dataLen then .error .oob
    else read off

/-- `ArrayOfOffsets::iter()`: one resolved item per offset (`from_fn` over `offsets.iter()`) -/
def arrIter {α : Type} (offs : List Nat) (dataLen : Nat) (read : Nat → Except CErr α) : List (Except CErr α) :=
  (List.range offs.length).map (arrGet offs dataLen read)

/-- `ArrayOfNullableOffsets::get(idx)`: `Some(Err(InvalidCollectionIndex))` past the end, `None` for a
null offset -/
def arrGetNullable {α : Type} (offs : List Nat) (dataLen : Nat) (read : Nat → Except CErr α) (idx : Nat) :
    Option (Except CErr α) :=
  match arrGet offs dataLen read idx with
  | .error .nullOffset => none
  | r => some r

def arrIterNullable {α : Type} (offs : List Nat) (dataLen : Nat) (read : Nat → Except CErr α) :
    List (Option (Except CErr α)) :=
  (List.range offs.length).map (arrGetNullable offs dataLen read)

end FontVerif.HandColr
