/-
Lookup-level model of GPOS compilation: a lookup is an ORDERED list of subtables (first match
wins); the class-pair and MarkToBase builders; the lookup assembly after overflow splitting; the
MarkToBase split's class information and size heuristic.

  write-fonts/src/graph/splitting.rs              split_subtables
  write-fonts/src/tables/gpos/builders.rs         ClassPairPosBuilder::insert, ClassPairPosSubtable::
                                                  {can_add, add, compute_value_formats, build},
                                                  PairPosBuilder::build, MarkList::{insert, get_class,
                                                  build}, MarkToBaseBuilder::{insert_mark, insert_base,
                                                  build}
  write-fonts/src/graph/splitting/mark2base.rs    get_class_info, compute_subgraph_size, the size
                                                  loop of split_mark_to_base_subtable

`HashMap` / `BTreeMap` are association lists (`insert` replaces the value of an existing key).
Panics (`unwrap` of a missing key, index out of bounds, `assert!`, `try_into().unwrap()`) are
`none`.
-/
import FontVerif.Model.Layout
namespace FontVerif.Layout

/-! ## `split_subtables`: the lookup after some of its subtables were split -/

/-- a GPOS lookup on the packing graph: the header fields that `split_subtables` copies and the
subtable objects in order (`data.offsets`; identical subtables are ONE object that occurs more than
once) -/
structure LookupG where
  lookupType : Nat
  flag : Nat
  offsets : List Nat
  markFilteringSet : Option Nat
deriving DecidableEq, Repr

/-- `HashMap::insert` -/
def splitMapInsert (k : Nat) (v : List Nat) : List (Nat × List Nat) → List (Nat × List Nat)
  | [] => [(k, v)]
  | e :: rest => if e.1 = k then (k, v) :: rest else e :: splitMapInsert k v rest

/-- `HashMap::get` -/
def splitMapGet (m : List (Nat × List Nat)) (k : Nat) : Option (List Nat) :=
  (m.find? (fun e => e.1 == k)).map (·.2)

/-- the first loop of `split_subtables`:
```
for (i, subtable) in data.offsets.iter().enumerate() {
    if let Some(split_subtables) = split_fn(graph, subtable.object) {
        new_subtables.insert(subtable.object, split_subtables);
    }
}
```
`splitFn i obj` is the outcome of the `i`-th call (the real function allocates fresh object ids on
every call, so a shared object that is visited twice is split twice and the later result
replaces the earlier one). -/
def collectSplits (splitFn : Nat → Nat → Option (List Nat)) :
    Nat → List Nat → List (Nat × List Nat) → List (Nat × List Nat)
  | _, [], m => m
  | i, o :: os, m =>
    collectSplits splitFn (i + 1) os
      (match splitFn i o with
       | some s => splitMapInsert o s m
       | none => m)

/-- what one old offset becomes in the second loop:
`match new_subtables.get(&sub.object) { Some(new) => new.iter().for_each(add_offset), None =>
add_offset(sub.object) }` -/
def replacement (m : List (Nat × List Nat)) (o : Nat) : List Nat := (splitMapGet m o).getD [o]

/-- the lookup table that `split_subtables` writes: `subtableCount` is the `u16` count field, the
reader takes that many of `offsets` -/
structure LookupOut where
  lookupType : Nat
  flag : Nat
  subtableCount : Nat
  offsets : List Nat
  markFilteringSet : Option Nat
deriving DecidableEq, Repr

/-- `split_subtables(graph, lookup, split_fn)` (since /repo 4cfebdf the count is the number of
offsets written: `data.offsets.iter().map(|sub| new_subtables.get(&sub.object).map_or(1,
Vec::len)).sum()`; `try_into::<u16>().unwrap()` = `none`).  When nothing was split the old table is
put back. -/
def splitSubtables (lk : LookupG) (splitFn : Nat → Nat → Option (List Nat)) : Option LookupOut :=
  let m := collectSplits splitFn 0 lk.offsets []
  if m.isEmpty then
    some ⟨lk.lookupType, lk.flag, lk.offsets.length, lk.offsets, lk.markFilteringSet⟩
  else
    let n := (lk.offsets.map (fun o => ((splitMapGet m o).map List.length).getD 1)).sum
    if n ≥ 65536 then none
    else some ⟨lk.lookupType, lk.flag, n, lk.offsets.flatMap (replacement m), lk.markFilteringSet⟩

/-- the subtables a reader of the written lookup sees -/
def LookupOut.subtables (l : LookupOut) : List Nat := l.offsets.take l.subtableCount

/-! ### typed lookups: PairPos subtables of both formats, MarkBasePos subtables -/

/-- a PairPos subtable of either format -/
inductive PairSub (V : Type) where
  | f1 (t : PairPos1 V)
  | f2 (t : PairPos2 V)

def PairSub.lookup {V : Type} : PairSub V → Nat → Nat → Option V
  | .f1 t, g1, g2 => t.lookup g1 g2
  | .f2 t, g1, g2 => t.lookup g1 g2

/-- a PairPos lookup: first matching subtable wins -/
def firstMatchPair {V : Type} (ts : List (PairSub V)) (g1 g2 : Nat) : Option V :=
  ts.findSome? (fun t => t.lookup g1 g2)

/-- `split_pair_pos_subtable` for one subtable with an externally chosen outcome: `none` = the
heuristic found nothing to split, `some pts` = split at `pts` -/
def PairSub.splitAt {V : Type} (s : PairSub V) : Option (List Nat) → Option (List (PairSub V))
  | none => some [s]
  | some pts =>
    match s with
    | .f1 t => (splitPpf1Go t 0 pts).map (·.map .f1)
    | .f2 t => (splitPpf2Go t 0 pts).map (·.map .f2)

/-- `split_mark_to_base_subtable` for one subtable with an externally chosen outcome -/
def MarkBase.splitAt {A : Type} (t : MarkBase A) : Option (List Nat) → Option (List (MarkBase A))
  | none => some [t]
  | some pts => splitMarkBaseGo t 0 pts

/-- the lookup's subtable list after splitting: every subtable is replaced IN PLACE by its pieces -/
def splitLookupWith {S C : Type} (splitOne : S → C → Option (List S)) :
    List S → List C → Option (List S)
  | [], [] => some []
  | t :: ts, c :: cs =>
    match splitOne t c, splitLookupWith splitOne ts cs with
    | some ps, some rest => some (ps ++ rest)
    | _, _ => none
  | _, _ => none

/-! ## `ClassPairPosBuilder` -/

/-- `entry(k) … insert(v)` on nested `BTreeMap`s: the value of an existing key is replaced (the
LAST rule for a (class 1, class 2) cell wins) -/
def cellInsert {K V : Type} [DecidableEq K] (k : K) (v : V) : List (K × V) → List (K × V)
  | [] => [(k, v)]
  | e :: es => if e.1 = k then (k, v) :: es else e :: cellInsert k v es

/-- `ClassPairPosSubtable { items, classdef_1, classdef_2 }`; a class is its strictly increasing
glyph list (`IntSet<GlyphId16>`), `items` maps `(class 1, class 2)` to the (opaque) pair of value
records -/
structure ClassPairSub (V : Type) where
  items : List ((List Nat × List Nat) × V)
  cd1 : ClassDefBuilder
  cd2 : ClassDefBuilder

/-- `ClassPairPosSubtable::default()`: `classdef_1: ClassDefBuilder::new_using_class_0()` -/
def ClassPairSub.empty {V : Type} : ClassPairSub V := ⟨[], ⟨[], true⟩, ⟨[], false⟩⟩

/-- `ClassPairPosSubtable::can_add` -/
def ClassPairSub.canAdd {V : Type} (s : ClassPairSub V) (c1 c2 : List Nat) : Bool :=
  s.cd1.canAdd c1 && s.cd2.canAdd c2

/-- `ClassPairPosSubtable::add` (the results of the two `checked_add`s are ignored) -/
def ClassPairSub.add {V : Type} (s : ClassPairSub V) (c1 c2 : List Nat) (v : V) : ClassPairSub V :=
  ⟨cellInsert (c1, c2) v s.items, (s.cd1.checkedAdd c1).1, (s.cd2.checkedAdd c2).1⟩

/-- `if last.can_add(r) != Some(true) { push(default) }; last_mut().add(r)`: the greedy
partition into subtables shared by the builder and by the rule-level specification -/
def greedyInsert {S R : Type} (canAdd : S → R → Bool) (add : S → R → S) (empty : S)
    (b : List S) (r : R) : List S :=
  match b.getLast? with
  | some last => if canAdd last r then b.dropLast ++ [add last r] else b ++ [add empty r]
  | none => [add empty r]

/-- one `insert_classes(class1, record1, class2, record2)` call -/
structure ClassRule (V : Type) where
  c1 : List Nat
  c2 : List Nat
  v : V

/-- `ClassPairPosBuilder::insert` -/
def ClassPairs.insert {V : Type} (b : List (ClassPairSub V)) (r : ClassRule V) : List (ClassPairSub V) :=
  greedyInsert (fun s r => s.canAdd r.c1 r.c2) (fun s r => s.add r.c1 r.c2 r.v) ClassPairSub.empty b r

/-- a sequence of `insert_classes` calls on an empty builder -/
def ClassPairs.ofRules {V : Type} (rules : List (ClassRule V)) : List (ClassPairSub V) :=
  rules.foldl ClassPairs.insert []

/-- `HashMap<IntSet<GlyphId16>, u16>::get` on the mapping of `build_with_mapping` -/
def mappingGet (m : List (List Nat × Nat)) (c : List Nat) : Option Nat :=
  (m.find? (fun p => p.1 == c)).map (·.2)

/-- the keys of the outer `BTreeMap` (distinct class-1 sets) -/
def distinctKeys : List (List Nat) → List (List Nat)
  | [] => []
  | k :: ks => if ks.contains k then distinctKeys ks else k :: distinctKeys ks

/-- `xs[i] = v` (index out of bounds = panic) -/
def setAt? {α : Type} (xs : List α) (i : Nat) (v : α) : Option (List α) :=
  if i < xs.length then some (xs.set i v) else none

/-- a loop that assigns `out[idx] = val` for every element, where computing `(idx, val)` may panic
(`step a = none`) and so may the assignment (index out of bounds) -/
def setMany {α β : Type} (step : α → Option (Nat × β)) : List α → List β → Option (List β)
  | [], out => some out
  | a :: as, out =>
    match step a with
    | none => none
    | some (i, v) =>
      match setAt? out i v with
      | none => none
      | some out' => setMany step as out'

/-- `mapM` for `Option` -/
def mapOpt {α β : Type} (f : α → Option β) : List α → Option (List β)
  | [] => some []
  | a :: as =>
    match f a, mapOpt f as with
    | some b, some bs => some (b :: bs)
    | _, _ => none

/-- the inner loop of `ClassPairPosSubtable::build`:
`for (class, (v1, v2)) in stuff { let idx = class2map.get(&class).unwrap(); records[*idx] = … }` -/
def buildRow {V : Type} (map2 : List (List Nat × Nat)) (stuff : List (List Nat × V))
    (row : List (Option V)) : Option (List (Option V)) :=
  setMany (fun e => (mappingGet map2 e.1).map (fun idx => (idx, some e.2))) stuff row

/-- the `BTreeMap<GlyphSet, _>` stored under class 1 `k` -/
def stuffOf {V : Type} (items : List ((List Nat × List Nat) × V)) (k : List Nat) : List (List Nat × V) :=
  (items.filter (fun e => e.1.1 == k)).map (fun e => (e.1.2, e.2))

/-- the outer loop: `for (cls1, stuff) in self.items { let idx = class1map.get(&cls1).unwrap();
let mut records = vec![empty_record; class2map.len() + 1]; …; out[*idx] = Class1Record::new(records) }` -/
def buildRows {V : Type} (items : List ((List Nat × List Nat) × V))
    (map1 map2 : List (List Nat × Nat)) (keys : List (List Nat)) (out : List (List (Option V))) :
    Option (List (List (Option V))) :=
  setMany (fun k =>
    match mappingGet map1 k, buildRow map2 (stuffOf items k) (List.replicate (map2.length + 1) none) with
    | some idx, some row => some (idx, row)
    | _, _ => none) keys out

/-- `ClassPairPosSubtable::compute_value_formats`: the union (bitwise or) of the value formats of
all cells, separately for the two records -/
def computeValueFormats {V : Type} (fmt : V → Nat × Nat) (items : List ((List Nat × List Nat) × V)) :
    Nat × Nat :=
  items.foldl (fun acc e => (acc.1 ||| (fmt e.2).1, acc.2 ||| (fmt e.2).2)) (0, 0)

/-- a compiled class subtable: the PairPos format 2 table (a cell is `some v` = the record built
from a rule, re-encoded `with_explicit_value_format`, or `none` = the all-zero `empty_record`) and
its two value formats -/
structure ClassPairOut (V : Type) where
  tbl : PairPos2 (Option V)
  vf1 : Nat
  vf2 : Nat

/-- `ClassPairPosSubtable::build`; `none` = panic (`assert!(!self.items.is_empty())`, `unwrap` of a
missing class, row / cell index out of bounds) -/
def ClassPairSub.build {V : Type} (fmt : V → Nat × Nat) (s : ClassPairSub V) : Option (ClassPairOut V) :=
  if s.items.isEmpty then none else
  let f := computeValueFormats fmt s.items
  let m1 := s.cd1.buildWithMapping
  let m2 := s.cd2.buildWithMapping
  let keys := distinctKeys (s.items.map (·.1.1))
  match buildRows s.items m1.2 m2.2 keys (List.replicate keys.length []) with
  | none => none
  | some rows => some ⟨⟨buildCoverage (keys.flatMap id), m1.1, m2.1, rows⟩, f.1, f.2⟩

/-- `ClassPairPosBuilder::build`: one subtable per `ClassPairPosSubtable`, in order -/
def buildClassPairs {V : Type} (fmt : V → Nat × Nat) (b : List (ClassPairSub V)) :
    Option (List (ClassPairOut V)) :=
  mapOpt (ClassPairSub.build fmt) b

/-- `PairPosBuilder::build`: `let mut out = self.pairs.build(); out.extend(self.classes.build())`
— glyph-pair subtables first, then class subtables.  Results are `Option V`-valued: a glyph-pair
record is `some v`. -/
def buildPairPos {V : Type} (fmtKey : V → Nat) (fmt : V → Nat × Nat) (pairs : GlyphPairs V)
    (classes : List (ClassPairSub V)) : Option (List (PairSub (Option V))) :=
  match buildClassPairs fmt classes with
  | none => none
  | some cs =>
    some ((buildGlyphPairs fmtKey pairs).map
        (fun t => PairSub.f1 ⟨t.cov, t.pairSets.map (·.map (fun p => (p.1, some p.2)))⟩) ++
      cs.map (fun c => PairSub.f2 c.tbl))

/-! ### rule-level specification of class kerning -/

/-- `can_add` at the level of rules: a class may join a group iff it IS one of the group's classes
or shares no glyph with any of them -/
def classCompat (classes : List (List Nat)) (c : List Nat) : Bool :=
  classes.contains c || c.all (fun g => !classes.any (fun c' => c'.contains g))

/-- the greedy partition of the rule sequence into subtables, on the rules alone -/
def groupClassRules {V : Type} (rules : List (ClassRule V)) : List (List (ClassRule V)) :=
  rules.foldl (greedyInsert
    (fun grp r => classCompat (grp.map (·.c1)) r.c1 && classCompat (grp.map (·.c2)) r.c2)
    (fun grp r => grp ++ [r]) []) []

/-- what one group of class rules says about `(g1, g2)`: nothing if `g1` is in no first class;
otherwise a match — with the value of the LAST rule whose classes contain `g1` and `g2`, or the
all-zero record (`some none`) if there is no such rule -/
def classGroupValue {V : Type} (grp : List (ClassRule V)) (g1 g2 : Nat) : Option (Option V) :=
  if grp.any (fun r => r.c1.contains g1) then
    some ((grp.reverse.find? (fun r => r.c1.contains g1 && r.c2.contains g2)).map (·.v))
  else none

/-- the class rules' answer: the FIRST group (subtable) that covers `g1` decides -/
def classRulesValue {V : Type} (rules : List (ClassRule V)) (g1 g2 : Nat) : Option (Option V) :=
  (groupClassRules rules).findSome? (fun grp => classGroupValue grp g1 g2)

/-- the whole `PairPosBuilder`'s answer: the first `insert_pair` rule for the pair, else the class
rules -/
def pairRulesValue {V : Type} (pairRules : List ((Nat × Nat) × V)) (classRules : List (ClassRule V))
    (g1 g2 : Nat) : Option (Option V) :=
  match pairRules.find? (fun r => r.1.1 == g1 && r.1.2 == g2) with
  | some r => some (some r.2)
  | none => classRulesValue classRules g1 g2

/-! ## `MarkToBaseBuilder` -/

/-- `BTreeMap<GlyphId16, β>::insert` on the in-order entry list (replaces) -/
def bmInsert {β : Type} (g : Nat) (v : β) : List (Nat × β) → List (Nat × β)
  | [] => [(g, v)]
  | (k, w) :: rest =>
    if g < k then (g, v) :: (k, w) :: rest
    else if g = k then (g, v) :: rest
    else (k, w) :: bmInsert g v rest

def bmGet {β : Type} (g : Nat) : List (Nat × β) → Option β
  | [] => none
  | (k, w) :: rest => if k = g then some w else bmGet g rest

/-- `MarkList { glyphs: BTreeMap<GlyphId16, (u16, AnchorBuilder)>, classes: HashMap<String, u16> }`
(class names are numbers here) -/
structure MarkList (A : Type) where
  glyphs : List (Nat × (Nat × A))
  classes : List (Nat × Nat)

def classId (classes : List (Nat × Nat)) (name : Nat) : Option Nat :=
  (classes.find? (fun p => p.1 == name)).map (·.2)

/-- `MarkList::insert`: the class gets the next id at its first use; the glyph's entry is REPLACED
even when the glyph was in another class before (then `Err(previous class name)` is returned);
result `.inl id` = `Ok(id)`, `.inr name` = `Err(PreviouslyAssignedClass)`. -/
def MarkList.insert {A : Type} (ml : MarkList A) (g name : Nat) (a : A) : MarkList A × (Nat ⊕ Nat) :=
  let nextId := ml.classes.length
  let (id, classes) := match classId ml.classes name with
    | some id => (id, ml.classes)
    | none => (nextId, ml.classes ++ [(name, nextId)])
  let prev := bmGet g ml.glyphs
  let ml' : MarkList A := ⟨bmInsert g (id, a) ml.glyphs, classes⟩
  match prev with
  | some p =>
    if p.1 ≠ id then
      (ml', .inr (((classes.find? (fun q => q.2 == p.1)).map (·.1)).getD 0))
    else (ml', .inl id)
  | none => (ml', .inl id)

/-- `MarkToBaseBuilder { marks: MarkList, bases: BTreeMap<GlyphId16, Vec<(u16, AnchorBuilder)>> }` -/
structure MarkToBase (A : Type) where
  marks : MarkList A
  bases : List (Nat × List (Nat × A))

def MarkToBase.empty {A : Type} : MarkToBase A := ⟨⟨[], []⟩, []⟩

/-- `insert_mark` -/
def MarkToBase.insertMark {A : Type} (b : MarkToBase A) (g name : Nat) (a : A) : MarkToBase A :=
  { b with marks := (b.marks.insert g name a).1 }

/-- `insert_base`: `let class = self.marks.get_class(class)` (`expect("marks added before bases")`,
`none` here), `self.bases.entry(glyph).or_default().push((class, anchor))` -/
def MarkToBase.insertBase {A : Type} (b : MarkToBase A) (g name : Nat) (a : A) : Option (MarkToBase A) :=
  match classId b.marks.classes name with
  | none => none
  | some id =>
    some { b with bases := bmInsert g (((bmGet g b.bases).getD []) ++ [(id, a)]) b.bases }

/-- one builder call -/
inductive MbOp (A : Type) where
  | mark (g name : Nat) (a : A)
  | base (g name : Nat) (a : A)

def MarkToBase.apply {A : Type} (b : MarkToBase A) : MbOp A → Option (MarkToBase A)
  | .mark g n a => some (b.insertMark g n a)
  | .base g n a => b.insertBase g n a

def MarkToBase.ofOps {A : Type} : List (MbOp A) → MarkToBase A → Option (MarkToBase A)
  | [], b => some b
  | op :: ops, b =>
    match b.apply op with
    | none => none
    | some b' => MarkToBase.ofOps ops b'

/-- the `BaseRecord` of one base glyph: `let mut anchor_offsets = vec![None; n_classes]; for (class,
anchor) in anchors { anchor_offsets[class as usize] = Some(anchor) }` (later entries overwrite) -/
def baseRecord {A : Type} (anchors : List (Nat × A)) (row : List (Option A)) : Option (List (Option A)) :=
  setMany (fun e => some (e.1, some e.2)) anchors row

/-- `MarkToBaseBuilder::build` (`MarkList::build` for the mark coverage / mark array) -/
def MarkToBase.build {A : Type} (b : MarkToBase A) : Option (MarkBase A) :=
  let n := b.marks.classes.length
  match mapOpt (fun e => baseRecord e.2 (List.replicate n none)) b.bases with
  | none => none
  | some rows =>
    some ⟨buildCoverage (b.marks.glyphs.map (·.1)), buildCoverage (b.bases.map (·.1)), n,
      b.marks.glyphs.map (·.2), rows⟩

/-- rule-level specification: the LAST `insert_mark` of the mark glyph gives its class name and
mark anchor; the LAST `insert_base` of the base glyph for that class name gives the base anchor -/
def mbExpected {A : Type} (ops : List (MbOp A)) (m b : Nat) : Option (A × A) :=
  let lastMark := ops.reverse.findSome? (fun op => match op with
    | .mark g n a => if g = m then some (n, a) else none
    | .base _ _ _ => none)
  match lastMark with
  | none => none
  | some (n, am) =>
    (ops.reverse.findSome? (fun op => match op with
      | .base g n' a => if g = b ∧ n' = n then some a else none
      | .mark _ _ _ => none)).map (fun ab => (am, ab))

/-! ## the MarkToBase split: `get_class_info`, `compute_subgraph_size`, the size loop -/

/-- `Mark2BaseClassInfo { marks, children }` -/
structure MbClassInfo where
  /-- mark record indices (= mark coverage indices) of the class -/
  marks : List Nat
  /-- anchor objects attributed to the class -/
  children : List Nat
deriving DecidableEq, Repr

/-- `slice.chunks_exact(k)` for `k > 0`: the full chunks only, a remainder is dropped -/
def chunksExact {α : Type} (k : Nat) (xs : List α) : List (List α) :=
  if _h : k = 0 then [] else
  if _h2 : xs.length < k then [] else xs.take k :: chunksExact k (xs.drop k)
termination_by xs.length
decreasing_by simp only [List.length_drop]; omega

/-- `get_class_info(graph, subtable)`: `markRecs` = `(mark_class, anchor object)` per mark record,
`baseOffsets` = the base array's offset list, i.e. the object ids of the NON-NULL base anchors in
row-major order (null offsets have no entry).  Marks with a class `>= mark_class_count` are
skipped.  The base anchors are attributed by
`for offsets in base_array_data.offsets.chunks_exact(mark_class_count) { for (i, off) in
offsets.iter().enumerate() { class_to_info[i].children.push(off.object) } }`
— a chunk of the NON-NULL list is taken for a base record (since /repo 9c48e38 a subtable without
classes returns before the `chunks_exact(0)`). -/
def getClassInfo (classCount : Nat) (markRecs : List (Nat × Nat)) (baseOffsets : List Nat) :
    List MbClassInfo :=
  (List.range classCount).map (fun c =>
    let idx := (List.range markRecs.length).filter (fun i => (markRecs.getD i (0, 0)).1 == c)
    ⟨idx, (idx.map (fun i => (markRecs.getD i (0, 0)).2)) ++
      (chunksExact classCount baseOffsets).filterMap (fun ch => ch[c]?)⟩)

/-- the attribution a base-array walk with null offsets would give (what HarfBuzz does, and
/repo 16b8947 did before it was reverted): class `c` gets column `c` of the anchor matrix -/
def idealClassInfo (classCount : Nat) (markRecs : List (Nat × Nat)) (rows : List (List (Option Nat))) :
    List MbClassInfo :=
  (List.range classCount).map (fun c =>
    let idx := (List.range markRecs.length).filter (fun i => (markRecs.getD i (0, 0)).1 == c)
    ⟨idx, (idx.map (fun i => (markRecs.getD i (0, 0)).2)) ++
      rows.filterMap (fun row => (row[c]?).join)⟩)

/-- the base array's offset list: the non-null anchors, row-major -/
def baseOffsetsOf (rows : List (List (Option Nat))) : List Nat :=
  rows.flatMap (fun row => row.filterMap id)

/-- an anchor object on the graph: its byte length and its device / variation-index children
`(object id, byte length)` -/
structure AnchorObj where
  size : Nat
  children : List (Nat × Nat)
deriving DecidableEq, Repr

/-- `compute_subgraph_size(objects, graph, visited)`; returns the size and the new `visited` -/
def computeSubgraphSize (obj : Nat → AnchorObj) : List Nat → List Nat → Nat × List Nat
  | [], visited => (0, visited)
  | id :: rest, visited =>
    if visited.contains id then computeSubgraphSize obj rest visited
    else
      let visited := id :: visited
      let (childSize, visited) := (obj id).children.foldl
        (fun (acc : Nat × List Nat) ch =>
          if acc.2.contains ch.1 then acc else (acc.1 + ch.2, ch.1 :: acc.2)) (0, visited)
      let (restSize, visited) := computeSubgraphSize obj rest visited
      ((obj id).size + childSize + restSize, visited)

structure MbAcc where
  partialCov : Nat
  accumulated : Nat
  visited : List Nat
  points : List Nat   -- reversed

/-- one iteration of the size loop of `split_mark_to_base_subtable` for class `i`;
`MarkRecord::RAW_BYTE_LEN = 4`, `MAX_TABLE_SIZE = 65535` -/
def mbStep (obj : Nat → AnchorObj) (minSize baseCount : Nat) (st : MbAcc) (i : Nat) (info : MbClassInfo) :
    MbAcc :=
  let partialCov := st.partialCov + 2 * info.marks.length
  let (sub, visited) := computeSubgraphSize obj info.children st.visited
  let delta := 4 * info.marks.length + 2 * baseCount + sub
  let accumulated := st.accumulated + delta
  if accumulated + partialCov > 65535 then
    -- since /repo b7790d4: `visited.clear()`, then the class's children are counted again (anchors it
    -- shares with the previous subtable are new in the next one); the set keeps them
    let (sub', visited') := computeSubgraphSize obj info.children []
    { partialCov := 4 + 2 * info.marks.length,
      accumulated := minSize + (4 * info.marks.length + 2 * baseCount + sub'), visited := visited',
      points := i :: st.points }
  else { partialCov := partialCov, accumulated := accumulated, visited := visited, points := st.points }

def mbLoop (obj : Nat → AnchorObj) (minSize baseCount : Nat) : MbAcc → Nat → List MbClassInfo → MbAcc
  | st, _, [] => st
  | st, i, info :: rest => mbLoop obj minSize baseCount (mbStep obj minSize baseCount st i info) (i + 1) rest

/-- the split points of `split_mark_to_base_subtable` (`BASE_SIZE = 16`): `none` = nothing to
split, otherwise the points end with the class count -/
def mbSplitPoints (obj : Nat → AnchorObj) (baseCovSize baseCount : Nat) (infos : List MbClassInfo) :
    Option (List Nat) :=
  let minSize := 16 + baseCovSize
  let st := mbLoop obj minSize baseCount ⟨4, minSize, [], []⟩ 0 infos
  if st.points.isEmpty then none else some (st.points.reverse ++ [infos.length])

end FontVerif.Layout

namespace FontVerif.Layout

/-! ## the size loop of `split_pair_pos_format_2` WITH device / variation-index tables
(`graph/splitting/pairpos.rs`: `size_of_class1_record_children`, `size_of_value_record_children`,
the `visited` set; since /repo 2b4b586 the record that starts a new piece is re-counted after
`visited.clear()`) -/

/-- `size_of_class1_record_children`: the non-null device offsets of one class1 record in writing
order as `(object id, byte length)`; an object already in `visited` counts 0 (`seen.insert`) -/
def childrenSize (devs : List (Nat × Nat)) (visited : List Nat) : Nat × List Nat :=
  devs.foldl (fun acc d => if acc.2.contains d.1 then acc else (acc.1 + d.2, d.1 :: acc.2)) (0, visited)

structure Ppf2DAcc where
  /-- first class1 record of the piece being accumulated -/
  start : Nat
  accumulated : Nat
  covSize : Nat
  cd1Size : Nat
  visited : List Nat
  /-- finished pieces `(start, end, accumulated estimate)`, reversed -/
  pieces : List (Nat × Nat × Nat)

/-- one iteration for class1 record `idx` with device offsets `devs`.  `fixed = true`: the current
code (at a split `visited.clear()`, then the record's device tables are counted again);
`fixed = false`: the code before /repo 2b4b586 (the delta computed against the previous piece's
`visited` set is kept). -/
def ppf2DStep (fixed : Bool) (e : Ppf2Est) (recSize cd2Size : Nat) (st : Ppf2DAcc) (idx : Nat)
    (devs : List (Nat × Nat)) : Ppf2DAcc :=
  let covSize := st.covSize + e.incCov idx
  let cd1Size := st.cd1Size + e.incClassDef idx
  let ch := childrenSize devs st.visited
  let delta := recSize + ch.1
  let accumulated := st.accumulated + delta
  let largest := max (max covSize cd1Size) cd2Size
  let total := accumulated + covSize + cd1Size + cd2Size - largest
  if total > 65535 then
    let ch' := if fixed then childrenSize devs [] else (ch.1, [])
    { start := idx, accumulated := 16 + (recSize + ch'.1), covSize := 4 + e.incCov idx,
      cd1Size := 4 + e.incClassDef idx, visited := ch'.2,
      pieces := (st.start, idx, st.accumulated) :: st.pieces }
  else
    { st with accumulated := accumulated, covSize := covSize, cd1Size := cd1Size, visited := ch.2 }

def ppf2DLoop (fixed : Bool) (e : Ppf2Est) (recSize cd2Size : Nat) :
    Ppf2DAcc → Nat → List (List (Nat × Nat)) → Ppf2DAcc
  | st, _, [] => st
  | st, idx, devs :: rest =>
    ppf2DLoop fixed e recSize cd2Size (ppf2DStep fixed e recSize cd2Size st idx devs) (idx + 1) rest

/-- the pieces `(first class1 record, end, estimated bytes of the subtable + its device tables)` of
`split_pair_pos_format_2` for a subtable whose class1 record `i` has the device offsets `rows[i]`;
`none` = nothing to split -/
def ppf2DPieces (fixed : Bool) (gc : List (Nat × Nat)) (recSize cd2Size : Nat)
    (rows : List (List (Nat × Nat))) : Option (List (Nat × Nat × Nat)) :=
  let st := ppf2DLoop fixed ⟨gc⟩ recSize cd2Size ⟨0, 16, 4, 4, [], []⟩ 0 rows
  if st.pieces.isEmpty then none
  else some (st.pieces.reverse ++ [(st.start, rows.length, st.accumulated)])

/-- the device objects of a list of device offsets, each object once (first occurrence) -/
def dedupDevs : List (Nat × Nat) → List Nat → List (Nat × Nat)
  | [], _ => []
  | d :: rest, seen => if seen.contains d.1 then dedupDevs rest seen else d :: dedupDevs rest (d.1 :: seen)

/-- the true size of a piece: header + records + every distinct device object once -/
def ppf2PieceSize (recSize : Nat) (rows : List (List (Nat × Nat))) (s e : Nat) : Nat :=
  16 + (e - s) * recSize + ((dedupDevs ((rows.drop s).take (e - s)).flatten []).map (·.2)).sum

end FontVerif.Layout

namespace FontVerif.Layout

/-! ## byte sizes of the emitted Coverage / ClassDef tables and the split loop's estimates -/

/-- serialized size: format 1 = 4 + 2·glyphs, format 2 = 4 + 6·ranges -/
def Coverage.byteSize : Coverage → Nat
  | .fmt1 gs => 4 + 2 * gs.length
  | .fmt2 rs => 4 + 6 * rs.length

/-- serialized size: format 1 = 6 + 2·classes, format 2 = 4 + 6·ranges -/
def ClassDef.byteSize : ClassDef → Nat
  | .fmt1 _ cs => 6 + 2 * cs.length
  | .fmt2 rs => 4 + 6 * rs.length

/-- the loop's coverage estimate for the piece of class-1 values `s..t`:
`coverage_size = 4 + Σ increment_coverage_size(class)` -/
def ppf2CovEstimate (e : Ppf2Est) (s t : Nat) : Nat := 4 + ((List.range' s (t - s)).map e.incCov).sum

/-- the loop's class-definition-1 estimate for the piece `s..t` -/
def ppf2Cd1Estimate (e : Ppf2Est) (s t : Nat) : Nat := 4 + ((List.range' s (t - s)).map e.incClassDef).sum

/-- the `(glyph, class 1)` list the estimator is built from -/
def gcOf (cov : Coverage) (cd : ClassDef) : List (Nat × Nat) := cov.glyphs.map (fun g => (g, cd.get g))

/-- the covered glyphs of the piece `s..t` (keys of `split_off_ppf2`'s class map) -/
def pieceGlyphs (cov : Coverage) (cd : ClassDef) (s t : Nat) : List Nat :=
  (cov.glyphs.filterMap (fun g =>
    let c := cd.get g
    if s ≤ c ∧ c < t then some (g, c - s) else none)).map (·.1)

end FontVerif.Layout

namespace FontVerif.Layout

/-! ## the size loop of `split_pair_pos_format_1` with the estimate of every piece
(`graph/splitting/pairpos.rs`; the same loop as `ppf1Step`, recording what it believes each piece
weighs).  A pair set is `(object id, bytes of the pair set + its device tables)`; identical pair
sets are ONE object and count once per piece through `visited`.  `fixed = false` is the code as it
is: at a split the pair set that did not fit keeps the delta computed against the PREVIOUS piece's
`visited` set (0 bytes if that piece already holds the object) and the set is cleared;
`fixed = true` is the repair analogous to /repo 2b4b586 (re-count after clearing). -/

structure Ppf1DAcc where
  start : Nat
  partialCov : Nat
  accumulated : Nat
  visited : List Nat
  pieces : List (Nat × Nat × Nat)

def ppf1DStep (fixed : Bool) (coverageSize : Nat) (st : Ppf1DAcc) (i : Nat) (ps : Nat × Nat) : Ppf1DAcc :=
  let ch := childrenSize [ps] st.visited
  let delta := 2 + ch.1
  let partialCov := st.partialCov + 2
  let accumulated := st.accumulated + delta
  if accumulated + min coverageSize partialCov > 65535 then
    let ch' := if fixed then childrenSize [ps] [] else (ch.1, [])
    { start := i, partialCov := 6, accumulated := 10 + (2 + ch'.1), visited := ch'.2,
      pieces := (st.start, i, st.accumulated) :: st.pieces }
  else { st with partialCov := partialCov, accumulated := accumulated, visited := ch.2 }

def ppf1DLoop (fixed : Bool) (coverageSize : Nat) : Ppf1DAcc → Nat → List (Nat × Nat) → Ppf1DAcc
  | st, _, [] => st
  | st, i, ps :: rest => ppf1DLoop fixed coverageSize (ppf1DStep fixed coverageSize st i ps) (i + 1) rest

/-- pieces `(first pair set, end, estimated bytes of subtable + pair sets)`; `none` = no split -/
def ppf1DPieces (fixed : Bool) (coverageSize : Nat) (pairSets : List (Nat × Nat)) :
    Option (List (Nat × Nat × Nat)) :=
  let st := ppf1DLoop fixed coverageSize ⟨0, 4, 10, [], []⟩ 0 pairSets
  if st.pieces.isEmpty then none
  else some (st.pieces.reverse ++ [(st.start, pairSets.length, st.accumulated)])

/-- true size of the piece `s..e`: 10 header bytes, one offset per pair set, every distinct pair-set
object (with its device tables) once -/
def ppf1PieceSize (pairSets : List (Nat × Nat)) (s e : Nat) : Nat :=
  10 + (e - s) * 2 + ((dedupDevs ((pairSets.drop s).take (e - s)) []).map (·.2)).sum

end FontVerif.Layout
