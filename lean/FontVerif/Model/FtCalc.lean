/-
Model of FreeType's fixed-point helpers, transcribed from the FreeType 2.12.1 sources that
`freetype-sys 0.17.0` bundles and compiles (the build `/repo/fauntlet` links):
  freetype2/src/base/ftcalc.c            (FT_MulDiv, FT_MulDiv_No_Round, FT_MulFix, FT_DivFix,
                                          FT_RoundFix, FT_CeilFix, FT_FloorFix)  — the `FT_INT64` path
  freetype2/include/freetype/internal/ftcalc.h   (FT_MulFix_x86_64, ADD_LONG/SUB_LONG/NEG_LONG)
  freetype2/include/freetype/internal/ftobjs.h   (FT_PIX_FLOOR/ROUND/CEIL, FT_PAD_*)
  freetype2/src/truetype/ttinterp.c      (TT_MulFix14_long_long, TT_DotFix14_long_long)

Platform: x86-64 LP64, GCC (`__GNUC__ && __x86_64__`), `FT_CONFIG_OPTION_NO_ASSEMBLER` undefined,
`FT_CONFIG_OPTION_INLINE_MULFIX` defined.  So `FT_Long`/`FT_Fixed`/`FT_F26Dot6`/`FT_Pos` are 64-bit
`long`, `FT_Int`/`FT_Int32` are 32-bit, and `FT_MulFix` is `FT_MulFix_x86_64` (the exported symbol
too: ftcalc.c `#ifdef FT_MULFIX_ASSEMBLER return FT_MULFIX_ASSEMBLER((FT_Int32)a_, (FT_Int32)b_)`).

Values are `Int`s; `FT_Long` arguments are expected in the i64 range.  Unsigned arithmetic wraps
mod 2^64 (`wrapU64`), signed casts are two's complement (`wrapI64`, `wrapI32`).  Signed overflow in
the C source that is undefined behaviour is modelled as the wrap x86-64 performs and is called out.
-/
import FontVerif.Model.Base
namespace FontVerif.FtCalc
open FontVerif

/-- `(FT_UInt64)x` followed by `FT_MOVE_SIGN`: `x_unsigned = 0U - x_unsigned` when `x < 0`.
For `x` in the i64 range this is `|x|` (2^63 for `LONG_MIN`). -/
def moveSign (x : Int) : Int := if x < 0 then wrapU64 (0 - wrapU64 x) else wrapU64 x

/-- the sign `s` after the three/two `FT_MOVE_SIGN`s: `true` = negative. -/
def sign3 (a b c : Int) : Bool := ((a < 0) != (b < 0)) != (c < 0)

/-- `ADD_LONG(a,b) = (FT_Long)((FT_ULong)a + (FT_ULong)b)`. -/
def addLong (a b : Int) : Int := wrapI64 (a + b)
/-- `SUB_LONG`. -/
def subLong (a b : Int) : Int := wrapI64 (a - b)
/-- `NEG_LONG(a) = (FT_Long)((FT_ULong)0 - (FT_ULong)a)`. -/
def negLong (a : Int) : Int := wrapI64 (-a)

/-- ftcalc.c `FT_MulDiv` (FT_INT64): `d = c > 0 ? (a*b + (c>>1)) / c : 0x7FFFFFFF` in u64,
`d_ = (FT_Long)d`, `s < 0 ? NEG_LONG(d_) : d_`. -/
def mulDiv (a_ b_ c_ : Int) : Int :=
  let a := moveSign a_
  let b := moveSign b_
  let c := moveSign c_
  let d := if c > 0 then wrapU64 (wrapU64 (a * b) + c / 2) / c else 2147483647
  let d_ := wrapI64 d
  if sign3 a_ b_ c_ then negLong d_ else d_

/-- ftcalc.c `FT_MulDiv_No_Round` (FT_INT64): `d = c > 0 ? a*b / c : 0x7FFFFFFF`. -/
def mulDivNoRound (a_ b_ c_ : Int) : Int :=
  let a := moveSign a_
  let b := moveSign b_
  let c := moveSign c_
  let d := if c > 0 then wrapU64 (a * b) / c else 2147483647
  let d_ := wrapI64 d
  if sign3 a_ b_ c_ then negLong d_ else d_

/-- ftcalc.c `FT_MulFix`, the portable FT_INT64 body (NOT what is compiled on x86-64/GCC):
`ab = (FT_Int64)a_ * (FT_Int64)b_; (FT_Long)((ab + 0x8000L - (ab < 0)) >> 16)`.
The signed product is UB when it overflows i64; for i32 operands it cannot. -/
def mulFixGeneric (a_ b_ : Int) : Int :=
  let ab := wrapI64 (a_ * b_)
  wrapI64 (ab + 32768 - (if ab < 0 then 1 else 0)) / 65536

/-- ftcalc.h `FT_MulFix_x86_64(FT_Int32 a, FT_Int32 b)`:
`ret = (long long)a * b; tmp = ret >> 63; ret += 0x8000 + tmp; return (FT_Int32)(ret >> 16)`.
Called as `FT_MULFIX_ASSEMBLER((FT_Int32)a_, (FT_Int32)b_)`: the `FT_Long` arguments are
truncated to 32 bits first, the 32-bit result is sign-extended to `FT_Long`. -/
def mulFixX8664 (a_ b_ : Int) : Int :=
  let a := wrapI32 a_
  let b := wrapI32 b_
  let ret := a * b
  let tmp := if ret < 0 then -1 else 0
  wrapI32 ((ret + (32768 + tmp)) / 65536)

/-- `FT_MulFix` as compiled and linked here (exported symbol and inlined macro alike). -/
def mulFix (a b : Int) : Int := mulFixX8664 a b

/-- ftcalc.c `FT_DivFix` (FT_INT64): `q = b > 0 ? ((a << 16) + (b >> 1)) / b : 0x7FFFFFFF` in u64. -/
def divFix (a_ b_ : Int) : Int :=
  let a := moveSign a_
  let b := moveSign b_
  let q := if b > 0 then wrapU64 (wrapU64 (a * 65536) + b / 2) / b else 2147483647
  let q_ := wrapI64 q
  if (a_ < 0) != (b_ < 0) then negLong q_ else q_

/-- ftcalc.c `FT_RoundFix`: `ADD_LONG(a, 0x8000L - (a < 0)) & ~0xFFFFL`. -/
def roundFix (a : Int) : Int :=
  let t := addLong a (32768 - (if a < 0 then 1 else 0))
  t - t % 65536
/-- ftcalc.c `FT_CeilFix`: `ADD_LONG(a, 0xFFFFL) & ~0xFFFFL`. -/
def ceilFix (a : Int) : Int :=
  let t := addLong a 65535
  t - t % 65536
/-- ftcalc.c `FT_FloorFix`: `a & ~0xFFFFL`. -/
def floorFix (a : Int) : Int := a - a % 65536

/-- ftobjs.h `FT_PIX_FLOOR(x) = x & ~63` on a `long`. -/
def pixFloor (x : Int) : Int := x - x % 64
/-- `FT_PIX_ROUND_LONG(x) = FT_PIX_FLOOR(ADD_LONG(x, 32))`. -/
def pixRoundLong (x : Int) : Int := pixFloor (addLong x 32)
/-- `FT_PIX_CEIL_LONG(x) = FT_PIX_FLOOR(ADD_LONG(x, 63))`. -/
def pixCeilLong (x : Int) : Int := pixFloor (addLong x 63)
/-- `FT_PAD_ROUND_LONG(x, 32) = FT_PAD_FLOOR(ADD_LONG(x, 32/2), 32)`, `FT_PAD_FLOOR(x,32) = x & ~31`. -/
def padRoundLong32 (x : Int) : Int :=
  let t := addLong x 16
  t - t % 32

/-- ttinterp.c `TT_MulFix14_long_long(FT_Int32 a, FT_Int b)` (GCC, i386/x86-64):
`ret = (long long)a * b; tmp = ret >> 63; ret += 0x2000 + tmp; (FT_Int32)(ret >> 14)`. -/
def mulFix14 (a b : Int) : Int :=
  let ret := a * b
  let tmp := if ret < 0 then -1 else 0
  wrapI32 ((ret + (8192 + tmp)) / 16384)

/-- ttinterp.c `TT_DotFix14_long_long(FT_Int32 ax, ay, FT_Int bx, by)`:
`temp1 = ax*bx; temp2 = ay*by; temp1 += temp2; temp2 = temp1 >> 63; temp1 += 0x2000 + temp2;
(FT_Int32)(temp1 >> 14)`.  `temp1 += temp2` is signed `long long` addition: UB exactly when
all four operands are `INT_MIN` (2^62 + 2^62); modelled as the two's-complement wrap. -/
def dotFix14 (ax ay bx by_ : Int) : Int :=
  let t1 := wrapI64 (ax * bx + ay * by_)
  let t2 := if t1 < 0 then -1 else 0
  wrapI32 (wrapI64 (t1 + (8192 + t2)) / 16384)

end FontVerif.FtCalc
