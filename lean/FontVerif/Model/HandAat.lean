/-
C01 (hand-written code) — transcriptions of the loop-carrying / index-computing hand-written functions of
read-fonts/src/tables/aat.rs state tables (StateTable / ExtendedStateTable class / entry), kern.rs, ankr.rs / feat.rs / ltag.rs / trak.rs accessors, ift.rs patch-map header helpers.

Every definition cites the Rust function it transcribes (file + fn) and keeps its checked / saturating /
wrapping arithmetic and its error returns; `Out.trap` / `none`-as-panic results mark what would be a panic of
the overflow-checked profile, and Props/C01HandAat.lean shows they are never produced.  Tied to the real code
by harness group `aats.model` (driver commands `ha.*`, Drv/C01HandAat.lean).

(At the verified commit /repo has no kern.rs / kerx.rs / morx.rs / trak.rs; their state machines are the
`StateTable` / `ExtendedStateTable` of aat.rs modelled here.)

* `StateTable::{read, class, entry}`, `ExtendedStateTable::{read, class, entry}`,
  `StateEntry::read`                                                     tables/aat.rs
* `Lookup::read` + `Lookup::value` / `TypedLookup::{read, value}` at BYTE level, for hostile bytes (the
  binary searches of formats 2 / 4 / 6 are the transcribed `core::slice::binary_search_by` of
  Model/Layout.lean; Model/HandIter.lean `lookup0 … lookup10` are the same lookups over parsed, sorted
  fields)                                                                tables/aat.rs
* `Ankr::anchor_points`                                                  tables/ankr.rs
* `Feat::find`, `FeatureName::{is_exclusive, default_setting_index}`     tables/feat.rs
* `Ltag::{tag_indices, index_for_tag}` (with `core::str::from_utf8`)     tables/ltag.rs
* `PatchMapFormat1::{gid_to_entry_iter, entry_count, is_entry_applied}`, `GidToEntryIter::next`,
  `FeatureMap::entry_records_size`, `CompatibilityId::from_u32s`, `U8Or16`,
  `GlyphPatches::glyph_data_for_table`, `GlyphDataIterator::next`        tables/ift.rs

The data of a table is a byte list; the header getters of the generated `TableRef`s
(`self.data.read_at(range.start).unwrap()`) are `readAt … ` with `none ↦ trap`.
-/
import FontVerif.Model.ReadIter
import FontVerif.Model.HandRead
import FontVerif.Model.Layout
import FontVerif.Model.PatchMapDecode
namespace FontVerif.HandAat
open FontVerif FontVerif.HandRead
open FontVerif.ReadIter (Out run items trapped)

/-- the `ReadError` values these functions produce -/
inductive AErr where
  | oob
  | null
  | malformed
  | badFormat (n : Nat)
  deriving DecidableEq, Repr

/-- result of a call: a value, an `Err(ReadError)`, or a panic of the overflow-checked profile
(`unwrap` on `None`, index out of range, unchecked `+` / `*` beyond `usize::MAX`, division by zero) -/
inductive R (α : Type) where
  | ok (a : α)
  | err (e : AErr)
  | trap
  deriving Repr, DecidableEq

/-- `Offset16/32::resolve` up to the data handed to `T::read`: `non_null().ok_or(NullOffset)`,
`data.split_off(off).ok_or(OutOfBounds)` (read-fonts/src/offset.rs `ResolveOffset::resolve`) -/
def resolveOff (d : List Nat) (off : Nat) : Except AErr (List Nat) :=
  if off = 0 then .error .null else if off ≤ d.length then .ok (d.drop off) else .error .oob

/-- `x as i32` of a `u32` / `usize` value that came from a `u16` / `u32` field -/
def asI32 (v : Nat) : Int :=
  let m := v % 4294967296
  if m < 2147483648 then (m : Int) else (m : Int) - 4294967296

/-! ## AAT lookup tables at byte level — `Lookup::read`, `LookupN::value::<T>`

`size = T::RAW_BYTE_LEN` (2 for `u16` / `GlyphId16`, 4 for `u32`). -/

/-- index both arms of `match search { Ok(ix) => ix, Err(ix) => ix.saturating_sub(1) }` produce -/
def bsIx (n : Nat) (cmpAt : Nat → Ordering) : Nat :=
  match Layout.binarySearchBy n cmpAt with
  | .ok i => i
  | .err i => i - 1

/-- `Lookup0::read` (`advance::<u16>()`, the rest is `values_data`) + `Lookup0::value`:
`n_elems = data_len / size` (division by zero = panic), `&data[..n_elems * size]` (slice index =
panic when out of range), `read_array(n_elems)?.get(index)` -/
def lookup0v (d : List Nat) (size g : Nat) : R Nat :=
  if d.length < 2 then .err .oob else
  let vals := d.drop 2
  if size = 0 then .trap else
  let n := vals.length / size
  if n * size > vals.length then .trap else
  if g < n then (match readAt vals (g * size) size with | some v => .ok v | none => .trap)
  else .err .oob

/-- `Lookup2::read` (`unit_size`, `n_units` by `cursor.read()?`, `segments_data` =
`add_multiply(unit_size, 0, n_units)` bytes from offset 12) + `Lookup2::value`: `segments::<T>()` =
`read_array::<LookupSegment2<T>>(n_units)` over `segments_data` (records of `4 + size` bytes whatever
`unit_size` says; `Err` when they do not fit), binary search on `first_glyph`, `segments.get(ix)`,
`(first..=last).contains(&index)` -/
def lookup2v (d : List Nat) (size g : Nat) : R Nat :=
  match readAt d 2 2 with
  | none => .err .oob
  | some unit =>
    match readAt d 4 2 with
    | none => .err .oob
    | some n =>
      let segLen := unit * n
      if 12 + segLen ≤ d.length then
        let seg := (d.drop 12).take segLen
        let rec_ := 4 + size
        if n * rec_ ≤ seg.length then
          let ix := bsIx n (fun i => Layout.natCmp (beAt seg (i * rec_ + 2) 2) g)
          if ix < n then
            let last := beAt seg (ix * rec_) 2
            let first := beAt seg (ix * rec_ + 2) 2
            if first ≤ g ∧ g ≤ last then
              (match readAt seg (ix * rec_ + 4) size with | some v => .ok v | none => .trap)
            else .err .oob
          else .err .oob
        else .err .oob
      else .err .oob

/-- `Lookup4::read` (`n_units` at 4, `n_units * 6` bytes of `LookupSegment4` from offset 12) +
`Lookup4::value`: binary search on `first_glyph`, `segments.get(ix)`, containment, then
`offset = value_offset + (index - first) * size` (unchecked `usize` arithmetic) and
`self.offset_data().read_at(offset)` — relative to the start of the lookup table -/
def lookup4v (d : List Nat) (size g : Nat) : R Nat :=
  match readAt d 4 2 with
  | none => .err .oob
  | some n =>
    if 12 + n * 6 ≤ d.length then
      let ix := bsIx n (fun i => Layout.natCmp (beAt d (12 + i * 6 + 2) 2) g)
      if ix < n then
        let last := beAt d (12 + ix * 6) 2
        let first := beAt d (12 + ix * 6 + 2) 2
        let off := beAt d (12 + ix * 6 + 4) 2
        if first ≤ g ∧ g ≤ last then
          if off + (g - first) * size > MAXU then .trap else
          (match readAt d (off + (g - first) * size) size with | some v => .ok v | none => .err .oob)
        else .err .oob
      else .err .oob
    else .err .oob

/-- `Lookup6::read` (like format 2) + `Lookup6::value`: `entries::<T>()` =
`read_array::<LookupSingle<T>>(n_units)` (records of `2 + size` bytes), `binary_search_by_key` on
`glyph`, `&entries[ix]` (index = panic when out of range) -/
def lookup6v (d : List Nat) (size g : Nat) : R Nat :=
  match readAt d 2 2 with
  | none => .err .oob
  | some unit =>
    match readAt d 4 2 with
    | none => .err .oob
    | some n =>
      let entLen := unit * n
      if 12 + entLen ≤ d.length then
        let ent := (d.drop 12).take entLen
        let rec_ := 2 + size
        if n * rec_ ≤ ent.length then
          match Layout.binarySearchBy n (fun i => Layout.natCmp (beAt ent (i * rec_) 2) g) with
          | .ok ix =>
            if ix < n then
              (match readAt ent (ix * rec_ + 2) size with | some v => .ok v | none => .trap)
            else .trap
          | .err _ => .err .oob
        else .err .oob
      else .err .oob

/-- `Lookup8::read` (6 header bytes, then `remaining / 2` values — `glyph_count` is not consulted) +
`Lookup8::value`: `index.checked_sub(first_glyph)`, `value_array().get(ix)`, `T::from_u16` -/
def lookup8v (d : List Nat) (g : Nat) : R Nat :=
  if 6 ≤ d.length then
    match readAt d 2 2 with
    | none => .trap
    | some first =>
      if g < first then .err .oob
      else
        let n := (d.length - 6) / 2
        if g - first < n then
          (match readAt d (6 + (g - first) * 2) 2 with | some v => .ok v | none => .trap)
        else .err .oob
  else .err .oob

/-- `Lookup10::read` (8 header bytes, the rest is `values_data`) + `Lookup10::value`:
`index.checked_sub(first_glyph)`, `offset = ix * unit_size` (unchecked), `cursor.advance_by(offset)`,
a read of 1 / 2 / 4 bytes (any other unit size: `MalformedData`), `T::from_u32` (truncating for
`size = 2`) -/
def lookup10v (d : List Nat) (size g : Nat) : R Nat :=
  if 8 ≤ d.length then
    match readAt d 2 2, readAt d 4 2 with
    | some unit, some first =>
      if g < first then .err .oob
      else
        let vals := d.drop 8
        if (g - first) * unit > MAXU then .trap else
        if unit = 1 ∨ unit = 2 ∨ unit = 4 then
          (match readAt vals ((g - first) * unit) unit with
           | some v => .ok (if size = 2 then v % 65536 else v)
           | none => .err .oob)
        else .err .malformed
    | _, _ => .trap
  else .err .oob

/-- `Lookup::read(data)?.value::<T>(index)` = `TypedLookup::<T>::read(data)?.value(index)` -/
def lookupValue (d : List Nat) (size g : Nat) : R Nat :=
  match readAt d 0 2 with
  | none => .err .oob
  | some fmt =>
    if fmt = 0 then lookup0v d size g
    else if fmt = 2 then lookup2v d size g
    else if fmt = 4 then lookup4v d size g
    else if fmt = 6 then lookup6v d size g
    else if fmt = 8 then lookup8v d g
    else if fmt = 10 then lookup10v d size g
    else .err (.badFormat fmt)

/-! ## legacy state table — `StateTable` -/

/-- `StateTable::read` = `StateHeader::read`: four 16-bit fields -/
def stRead (d : List Nat) : Bool := decide (8 ≤ d.length)

/-- `ClassSubtable::read`: `first_glyph`, `n_glyphs` (`cursor.read()?`), `n_glyphs` class bytes;
returns `n_glyphs` -/
def classSubRead (sub : List Nat) : Except AErr Nat :=
  match readAt sub 2 2 with
  | none => .error .oob
  | some n => if 4 + n ≤ sub.length then .ok n else .error .oob

/-- `StateTable::class(glyph_id)`: `0xFFFF` ↦ `DELETED_GLYPH`; `self.header.class_table()?`;
`glyph_id.checked_sub(first_glyph)`, `class_array().get(ix)`; `ok (class)` -/
def stClass (d : List Nat) (g : Nat) : R Nat :=
  if g = 0xFFFF then .ok 2 else
  match readAt d 2 2 with
  | none => .trap
  | some co =>
    match resolveOff d co with
    | .error e => .err e
    | .ok sub =>
      match classSubRead sub with
      | .error e => .err e
      | .ok n =>
        match readAt sub 0 2 with
        | none => .trap
        | some first =>
          if g < first then .err .oob
          else if 4 + n ≤ sub.length then
            (if g - first < n then
              (match sub[4 + (g - first)]? with | some c => .ok c | none => .trap)
             else .err .oob)
          else .trap

/-- `StateEntry::<T>::read(data)`, `psize = T::RAW_BYTE_LEN`: `new_state`, `flags` (`cursor.read()?`),
`cursor.remaining()`, `remaining.get(..psize)`, `try_pod_read_unaligned` (the alignment-independent
copy of /repo 4e41891); `(new_state, flags, payload bytes as a big-endian number)` -/
def stateEntryRead (e : List Nat) (psize : Nat) : Except AErr (Nat × Nat × Nat) :=
  match readAt e 0 2 with
  | none => .error .oob
  | some ns =>
    match readAt e 2 2 with
    | none => .error .oob
    | some fl =>
      if 4 ≤ e.length then
        (if psize ≤ e.length - 4 then .ok (ns, fl, beAt e 4 psize) else .error .oob)
      else .error .oob

/-- `StateTable::entry(state, class)`: `n_classes = state_size` (0 ↦ `MalformedData`), class clamp to
`OUT_OF_BOUNDS`, `state_array()?`, index `state.checked_mul(n_classes)? + class` (the `+` is
unchecked), `entry_offset = entry_ix * 4` (unchecked), `entry_table()?.data().get(entry_offset..)`,
`StateEntry::read`, and the conversion of the byte offset `new_state` to a row index:
`(new_state as i32).checked_sub(state_array_offset as i32)? / n_classes as i32` (truncating),
`try_into::<u16>()`.  `ok (new_state, flags)`. -/
def stEntry (d : List Nat) (state cls : Nat) : R (Nat × Nat) :=
  match readAt d 0 2, readAt d 4 2, readAt d 6 2 with
  | some nc, some ao, some eo =>
    if nc = 0 then .err .malformed else
    let cls := if cls ≥ nc then 1 else cls
    match resolveOff d ao with
    | .error e => .err e
    | .ok arr =>
      match checkedMul state nc with
      | none => .err .oob
      | some m =>
        if m + cls > MAXU then .trap else
        match arr[m + cls]? with
        | none => .err .oob
        | some eix =>
          if eix * 4 > MAXU then .trap else
          match resolveOff d eo with
          | .error e => .err e
          | .ok ent =>
            if eix * 4 ≤ ent.length then
              match stateEntryRead (ent.drop (eix * 4)) 0 with
              | .error e => .err e
              | .ok (ns, fl, _) =>
                let diff : Int := asI32 ns - asI32 ao
                if diff < -2147483648 ∨ diff > 2147483647 then .err .oob else
                if asI32 nc = 0 ∨ (diff = -2147483648 ∧ asI32 nc = -1) then .trap else
                let q := Int.tdiv diff (asI32 nc)
                if 0 ≤ q ∧ q ≤ 65535 then .ok (q.toNat, fl) else .err .oob
            else .err .oob
  | _, _, _ => .trap

/-! ## extended state table — `ExtendedStateTable<T>` -/

/-- `ExtendedStateTable::read` = `StxHeader::read`: four 32-bit fields -/
def stxRead (d : List Nat) : Bool := decide (16 ≤ d.length)

/-- `ExtendedStateTable::class(glyph_id)`: `0xFFFF` ↦ 2, else
`self.header.class_table()?.value(glyph_id)` (a `LookupU16`) -/
def stxClass (d : List Nat) (g : Nat) : R Nat :=
  if g = 0xFFFF then .ok 2 else
  match readAt d 4 4 with
  | none => .trap
  | some co =>
    match resolveOff d co with
    | .error e => .err e
    | .ok sub => lookupValue sub 2 g

/-- `ExtendedStateTable::<T>::entry(state, class)`, `psize = T::RAW_BYTE_LEN`: class clamp,
`state_array()?` (`RawWords`: `remaining / 2` big-endian words), `state_ix = state * n_classes + class`
(unchecked `usize` arithmetic), `entry_offset = entry_ix * (4 + psize)` (unchecked),
`entry_table()?.data().get(entry_offset..)`, `StateEntry::read`.
`ok (new_state, flags, payload)`. -/
def stxEntry (d : List Nat) (psize state cls : Nat) : R (Nat × Nat × Nat) :=
  match readAt d 0 4, readAt d 8 4, readAt d 12 4 with
  | some nc, some ao, some eo =>
    let cls := if cls ≥ nc then 1 else cls
    match resolveOff d ao with
    | .error e => .err e
    | .ok arr =>
      if state * nc + cls > MAXU then .trap else
      let ix := state * nc + cls
      if ix < arr.length / 2 then
        match readAt arr (2 * ix) 2 with
        | none => .trap
        | some eix =>
          if eix * (4 + psize) > MAXU then .trap else
          match resolveOff d eo with
          | .error e => .err e
          | .ok ent =>
            if eix * (4 + psize) ≤ ent.length then
              match stateEntryRead (ent.drop (eix * (4 + psize))) psize with
              | .error e => .err e
              | .ok r => .ok r
            else .err .oob
      else .err .oob
  | _, _, _ => .trap

/-! ## `ankr` — `Ankr::anchor_points` -/

/-- `Ankr::read`: version, flags, two 32-bit fields -/
def ankrRead (d : List Nat) : Bool := decide (12 ≤ d.length)

/-- `Ankr::anchor_points(glyph_id)`: `GlyphId16::try_from`, `lookup_table()?.value(gid)?`,
`glyph_data_table_offset.checked_add(entry_offset)`, `offset_data().split_off(full)`,
`GlyphDataEntry::read` (`num_points`, `num_points * 4` bytes).  `ok (byte offset of the first point
in the table, number of points)`. -/
def ankrPoints (d : List Nat) (gid : Nat) : R (Nat × Nat) :=
  if gid > 0xFFFF then .err .oob else
  match readAt d 4 4, readAt d 8 4 with
  | some lo, some gdo =>
    match resolveOff d lo with
    | .error e => .err e
    | .ok sub =>
      match lookupValue sub 2 gid with
      | .trap => .trap
      | .err e => .err e
      | .ok v =>
        match checkedAdd gdo v with
        | none => .err .oob
        | some full =>
          if full ≤ d.length then
            let e := d.drop full
            match readAt e 0 4 with
            | none => .err .oob
            | some n =>
              match checkedMul n 4 with
              | none => .err .oob
              | some bl => if 4 + bl ≤ e.length then .ok (full + 4, n) else .err .oob
          else .err .oob
  | _, _ => .trap

/-! ## `feat` — `Feat::find`, `FeatureName` flags -/

/-- `Feat::read`: version (4), `feature_name_count` (`cursor.read()?`), 2 + 4 reserved bytes,
`feature_name_count * 12` bytes of `FeatureName` records; returns the count -/
def featRead (d : List Nat) : Option Nat :=
  match readAt d 4 2 with
  | none => none
  | some n =>
    match checkedMul n 12 with
    | none => none
    | some bl => if 12 + bl ≤ d.length then some n else none

/-- `Feat::find(feature)`: `names.binary_search_by(|name| name.feature().cmp(&feature)).ok()?`,
`names.get(ix)`; the index of the record found -/
def featFind (d : List Nat) (n feature : Nat) : Option Nat :=
  match Layout.binarySearchBy n (fun i => Layout.natCmp (beAt d (12 + i * 12) 2) feature) with
  | .ok ix => if ix < n then some ix else none
  | .err _ => none

/-- `FeatureName::is_exclusive`: `feature_flags & 0x8000 != 0` -/
def featExclusive (flags : Nat) : Bool := flags / 32768 % 2 = 1

/-- `FeatureName::default_setting_index`: the low byte when bit `0x4000` is set -/
def featDefaultIndex (flags : Nat) : Nat := if flags / 16384 % 2 = 1 then flags % 256 else 0

/-! ## `ltag` — `Ltag::tag_indices`, `Ltag::index_for_tag` -/

/-- `Ltag::read`: version, flags, `num_tags` (`cursor.read()?`), `num_tags * 4` bytes of
`FTStringRange` records; returns `num_tags` -/
def ltagRead (d : List Nat) : Option Nat :=
  match readAt d 8 4 with
  | none => none
  | some n =>
    match checkedMul n 4 with
    | none => none
    | some bl => if 12 + bl ≤ d.length then some n else none

def isCont (b : Nat) : Bool := decide (0x80 ≤ b ∧ b ≤ 0xBF)

/-- `core::str::from_utf8(bytes).is_ok()`: well-formed UTF-8 (Unicode table 3-7: no overlong forms,
no surrogates, nothing above U+10FFFF) -/
def utf8Valid : List Nat → Bool
  | [] => true
  | b0 :: rest =>
    if b0 < 0x80 then utf8Valid rest
    else if 0xC2 ≤ b0 ∧ b0 ≤ 0xDF then
      match rest with
      | b1 :: r => isCont b1 && utf8Valid r
      | _ => false
    else if 0xE0 ≤ b0 ∧ b0 ≤ 0xEF then
      match rest with
      | b1 :: b2 :: r =>
        (if b0 = 0xE0 then decide (0xA0 ≤ b1 ∧ b1 ≤ 0xBF)
         else if b0 = 0xED then decide (0x80 ≤ b1 ∧ b1 ≤ 0x9F)
         else isCont b1) && isCont b2 && utf8Valid r
      | _ => false
    else if 0xF0 ≤ b0 ∧ b0 ≤ 0xF4 then
      match rest with
      | b1 :: b2 :: b3 :: r =>
        (if b0 = 0xF0 then decide (0x90 ≤ b1 ∧ b1 ≤ 0xBF)
         else if b0 = 0xF4 then decide (0x80 ≤ b1 ∧ b1 ≤ 0x8F)
         else isCont b1) && isCont b2 && isCont b3 && utf8Valid r
      | _ => false
    else false
termination_by l => l.length

/-- the closure of `tag_indices` on tag range `i`: `start..start + length` (unchecked `usize` add),
`table_data.get(range)?`, `from_utf8(..).ok()?`; `ok (some (i, start, length))` = yielded,
`ok none` = filtered out -/
def ltagItem (d : List Nat) (i : Nat) : R (Option (Nat × Nat × Nat)) :=
  match readAt d (12 + i * 4) 2, readAt d (12 + i * 4 + 2) 2 with
  | some off, some len =>
    if off + len > MAXU then .trap
    else if off + len ≤ d.length then
      (if utf8Valid ((d.drop off).take len) then .ok (some (i, off, len)) else .ok none)
    else .ok none
  | _, _ => .trap

/-- `ltag.tag_indices().collect()`: `tag_ranges().iter().enumerate().filter_map(..)` over the
`n = num_tags` records -/
def ltagLoop (d : List Nat) : List Nat → R (List (Nat × Nat × Nat))
  | [] => .ok []
  | i :: is =>
    match ltagItem d i with
    | .trap => .trap
    | .err e => .err e
    | .ok x =>
      match ltagLoop d is with
      | .trap => .trap
      | .err e => .err e
      | .ok xs => .ok (match x with | some t => t :: xs | none => xs)

def ltagTags (d : List Nat) (n : Nat) : R (List (Nat × Nat × Nat)) := ltagLoop d (List.range n)

/-- `Ltag::index_for_tag(tag)`: `tag_indices().find(|x| x.1 == tag).map(|x| x.0)` -/
def ltagIndexFor (d : List Nat) (n : Nat) (tag : List Nat) : R (Option Nat) :=
  match ltagTags d n with
  | .trap => .trap
  | .err e => .err e
  | .ok xs => .ok ((xs.find? (fun t => (d.drop t.2.1).take t.2.2 == tag)).map (·.1))

/-! ## IFT (`tables/ift.rs`, feature `ift`) -/

/-- `usize::saturating_mul` -/
def satMul (a b : Nat) : Nat := if a * b ≤ MAXU then a * b else MAXU

/-- `U8Or16::compute_size(max_entry_index)` -/
def u8or16Size (mei : Nat) : Nat := if mei < 256 then 1 else 2

/-- `U8Or16::read_with_args(data, max_entry_index)`: `read_at::<u8>(0)` / `read_at::<u16>(0)` -/
def u8or16Read (d : List Nat) (mei : Nat) : Option Nat := readAt d 0 (u8or16Size mei)

/-- inner `for j in 0..4 { data[i * 4 + j] = be_bytes[j]; }` of `CompatibilityId::from_u32s`;
`none` = an index out of bounds (panic) -/
def compatInner (be : List Nat) (i : Nat) : List Nat → List Nat → Option (List Nat)
  | [], data => some data
  | j :: js, data =>
    match be[j]? with
    | none => none
    | some b => if i * 4 + j < data.length then compatInner be i js (data.set (i * 4 + j) b) else none

/-- outer `for i in 0..4 { let be_bytes = values[i].to_be_bytes(); … }` -/
def compatOuter (vals : List Nat) : List Nat → List Nat → Option (List Nat)
  | [], data => some data
  | i :: is, data =>
    match vals[i]? with
    | none => none
    | some v =>
      match compatInner (beBytes 4 v) i [0, 1, 2, 3] data with
      | none => none
      | some data' => compatOuter vals is data'

/-- `CompatibilityId::from_u32s(values)`: the 16 bytes, `none` = panic -/
def compatFromU32s (vals : List Nat) : Option (List Nat) :=
  compatOuter vals [0, 1, 2, 3] (List.replicate 16 0)

/-- the fields of a successfully read `PatchMapFormat1` the hand-written helpers use -/
structure F1Hdr where
  maxEntry : Nat
  glyphCount : Nat
  gmOff : Nat
  fmOff : Nat
  /-- the applied-entries bitmap is `bitmapLen` bytes at offset 36 -/
  bitmapLen : Nat
  /-- the URI template is `uriLen` bytes at offset `36 + bitmapLen + 2` -/
  uriLen : Nat
  deriving Repr, DecidableEq

/-- `PatchMapFormat1::read` (generated): format + 3 reserved bytes, `field_flags` (`cursor.read()?`),
compatibility id (16), `max_entry_index` (`cursor.read()?`), `max_glyph_map_entry_index`, `glyph_count`
(u24), two 32-bit offsets, `max_value_bitmap_len(max_entry_index)` = `(mei + 1).div_ceil(8)` bitmap
bytes, `uri_template_length` (`cursor.read()?`), the template, `patch_format`, the optional CFF / CFF2
charstrings offsets (flag bits 0 / 1), `finish` -/
def f1Read (d : List Nat) : Option F1Hdr :=
  match readAt d 4 1 with
  | none => none
  | some flags =>
    match readAt d 21 2 with
    | none => none
    | some mei =>
      let bl := (mei + 1 + 7) / 8
      match readAt d (36 + bl) 2 with
      | none => none
      | some ul =>
        let e := 36 + bl + 2 + ul + 1 + (if flags % 2 = 1 then 4 else 0) + (if flags / 2 % 2 = 1 then 4 else 0)
        if e ≤ d.length then
          some { maxEntry := mei, glyphCount := beAt d 25 3, gmOff := beAt d 28 4, fmOff := beAt d 32 4,
                 bitmapLen := bl, uriLen := ul }
        else none

/-- `PatchMapFormat1::entry_count`: `max_entry_index as u32 + 1`; `none` = `u32` overflow -/
def f1EntryCount (h : F1Hdr) : Option Nat := if h.maxEntry + 1 ≤ 4294967295 then some (h.maxEntry + 1) else none

/-- `PatchMapFormat1::uri_template_as_string().is_ok()` -/
def f1UriOk (d : List Nat) (h : F1Hdr) : Bool := utf8Valid ((d.drop (36 + h.bitmapLen + 2)).take h.uriLen)

/-- `PatchMapFormat1::is_entry_applied(entry_index)` = Model/PatchMapDecode.lean `isEntryApplied` on the
bitmap bytes (`byte_index = entry_index / 8`, `1 << (entry_index % 8)`, `bitmap.get(byte_index)`) -/
def f1IsEntryApplied (d : List Nat) (h : F1Hdr) (i : Nat) : Bool :=
  PatchMap.isEntryApplied ((d.drop 36).take h.bitmapLen) i

/-- a successfully read `GlyphMap`: `first_mapped_glyph`, item size and the bytes of `entry_index` -/
structure GmView where
  first : Nat
  size : Nat
  data : List Nat
  deriving Repr, DecidableEq

/-- `GlyphMap::read_with_args(data, (glyph_count, max_entry_index))`: `first_mapped_glyph`
(`cursor.read()?`), `subtract(glyph_count, first)` (saturating) items of `U8Or16::compute_size` bytes -/
def glyphMapRead (sub : List Nat) (glyphCount mei : Nat) : Except AErr GmView :=
  match readAt sub 0 2 with
  | none => .error .oob
  | some first =>
    match checkedMul (glyphCount - first) (u8or16Size mei) with
    | none => .error .oob
    | some bl =>
      if 2 + bl ≤ sub.length then .ok { first := first, size := u8or16Size mei, data := (sub.drop 2).take bl }
      else .error .oob

/-- `PatchMapFormat1::glyph_map()` -/
def f1GlyphMap (d : List Nat) (h : F1Hdr) : Except AErr GmView :=
  match resolveOff d h.gmOff with
  | .error e => .error e
  | .ok sub => glyphMapRead sub h.glyphCount h.maxEntry

/-- one call of `GidToEntryIter::next` under the `.filter(|(_, entry_index)| *entry_index > 0)` of
`gid_to_entry_iter` (a zero entry = `continue`): `self.gid += 1` (`u32`), `cur_gid >= glyph_count` ends,
`index = cur_gid as usize - first_mapped_glyph as usize` (unchecked), `entry_index().get(index).ok()`
(`ComputedArray::get` = Model/HandRead.lean `compGet`, then `U8Or16::read_with_args`).  The state is
`self.gid`. -/
def gidStep (gm : Option GmView) (glyphCount : Nat) (gid : Nat) : Out (Nat × Nat) × Nat :=
  match gm with
  | none => (.done, gid)
  | some gm =>
    if gid + 1 > 4294967295 then (.trap, gid)
    else if gid ≥ glyphCount then (.done, gid + 1)
    else if gid < gm.first then (.trap, gid + 1)
    else
      match compGet gm.data.length gm.size (gid - gm.first) with
      | none => (.done, gid + 1)
      | some off =>
        match readAt gm.data off gm.size with
        | none => (.done, gid + 1)
        | some e => if e > 0 then (.yield (gid, e), gid + 1) else (.cont, gid + 1)

/-- `map.gid_to_entry_iter().collect()` -/
def gidTrace (d : List Nat) (h : F1Hdr) : Option (List (Out (Nat × Nat))) :=
  let gm := match f1GlyphMap d h with | .ok g => some g | .error _ => none
  run (gidStep gm h.glyphCount) (h.glyphCount + 2) (match gm with | some g => g.first | none => 0)

/-- `FeatureMap::read_with_args(data, max_entry_index)`: `feature_count` (`cursor.read()?`),
`feature_count * FeatureRecord::compute_size` bytes of records (4 + 2·`U8Or16` size), the rest is the entry
map data; `(feature_count, record size)` -/
def featureMapRead (sub : List Nat) (mei : Nat) : Except AErr (Nat × Nat) :=
  match readAt sub 0 2 with
  | none => .error .oob
  | some n =>
    let recSize := 4 + 2 * u8or16Size mei
    match checkedMul n recSize with
    | none => .error .oob
    | some bl => if 2 + bl ≤ sub.length then .ok (n, recSize) else .error .oob

/-- `FeatureRecord::read_with_args(data, max_entry_index)` up to `entry_map_count`: tag (4 bytes,
`cursor.read_be()?`) and two `U8Or16` (`cursor.read_with_args()?`) -/
def featureRecordCount (rec_ : List Nat) (w : Nat) : Option Nat :=
  match readAt rec_ 0 4, readAt rec_ 4 w, readAt rec_ (4 + w) w with
  | some _, some _, some c => some c
  | _, _, _ => none

/-- the `for record in self.feature_records().iter()` loop of `FeatureMap::entry_records_size`:
`ComputedArray::iter` (`item_len.checked_mul(i)?`, `data.split_off(item_start)?` — a `None` ENDS the
iteration —, `Some(T::read_with_args(..))`), `record?`, and the unchecked
`num_bytes += count as usize * field_width * 2` -/
def ersLoop (recs : List Nat) (recSize w fw : Nat) : List Nat → Nat → R Nat
  | [], acc => .ok acc
  | i :: is, acc =>
    match checkedMul recSize i with
    | none => .ok acc
    | some st =>
      if st > recs.length then .ok acc else
      match featureRecordCount (recs.drop st) w with
      | none => .err .oob
      | some c =>
        if c * fw > MAXU ∨ c * fw * 2 > MAXU ∨ acc + c * fw * 2 > MAXU then .trap
        else ersLoop recs recSize w fw is (acc + c * fw * 2)

/-- `FeatureMap::entry_records_size(max_entry_index)` on the feature map `sub` that was read with
`meiOwn`: the records are the `feature_count * record size` bytes behind the count,
`ComputedArray::len = byte_len.checked_div(item_len).unwrap_or(0)` -/
def entryRecordsSize (sub : List Nat) (meiOwn meiArg : Nat) : R Nat :=
  match featureMapRead sub meiOwn with
  | .error e => .err e
  | .ok (n, recSize) =>
    let recs := (sub.drop 2).take (n * recSize)
    ersLoop recs recSize (u8or16Size meiOwn) (if meiArg < 256 then 1 else 2)
      (List.range (compLen recs.length recSize)) 0

/-- `PatchMapFormat1::feature_map()`: `Nullable<Offset32>` — `none` = no feature map -/
def f1FeatureMap (d : List Nat) (h : F1Hdr) : Option (Except AErr (List Nat)) :=
  match resolveOff d h.fmOff with
  | .error .null => none
  | .error e => some (.error e)
  | .ok sub =>
    match featureMapRead sub h.maxEntry with
    | .error e => some (.error e)
    | .ok _ => some (.ok sub)

/-- the fields of a successfully read `GlyphPatches` -/
structure GpHdr where
  gc : Nat
  tc : Nat
  /-- glyph id width: 3 with `WIDE_GLYPH_IDS`, else 2 -/
  w : Nat
  idsAt : Nat
  offsAt : Nat
  /-- number of `glyph_data_offsets` -/
  nOffs : Nat
  deriving Repr, DecidableEq

/-- `GlyphPatches::read_with_args(data, flags)` (generated): `glyph_count` (u32), `table_count` (u8),
`glyph_count` ids of 2 / 3 bytes, `table_count` tags, `multiply_add(glyph_count, table_count, 1)`
(saturating) 32-bit offsets -/
def gpRead (d : List Nat) (wide : Bool) : Option GpHdr :=
  match readAt d 0 4 with
  | none => none
  | some gc =>
    match readAt d 4 1 with
    | none => none
    | some tc =>
      let w := if wide then 3 else 2
      match checkedMul gc w, checkedMul tc 4 with
      | some idsLen, some tabLen =>
        let nOffs := satAdd (satMul gc tc) 1
        match checkedMul nOffs 4 with
        | none => none
        | some offLen =>
          if 5 + idsLen + tabLen + offLen ≤ d.length then
            some { gc := gc, tc := tc, w := w, idsAt := 5, offsAt := 5 + idsLen + tabLen, nOffs := nOffs }
          else none
      | _, _ => none

/-- state of `GlyphDataIterator`: items consumed from the zipped offset iterator, `previous_gid`,
`failed` -/
structure GdSt where
  k : Nat
  prev : Option Nat
  failed : Bool
  deriving Repr, DecidableEq

/-- `GlyphPatches::glyph_data_for_table(table_index)`: `start_index = table_index.saturating_mul(glyph_count)` -/
def gdStartIndex (h : GpHdr) (ti : Nat) : Nat := satMul ti h.gc

/-- the tail of `GlyphDataIterator::next` once the glyph id was accepted (`s2` = the state with
`previous_gid` updated): `end.checked_sub(start)` (`MalformedData`), `self.patches.resolve_offset(start)`,
`data.as_bytes().get(..len)` -/
def gdData (d : List Nat) (s2 : GdSt) (gid st en : Nat) : Out (Except AErr (Nat × Nat × Nat)) × GdSt :=
  if en < st then (.yield (.error .malformed), { s2 with failed := true })
  else
    match resolveOff d st with
    | .error e => (.yield (.error e), { s2 with failed := true })
    | .ok data =>
      if en - st ≤ data.length then (.yield (.ok (gid, st, en - st)), s2)
      else (.yield (.error .oob), { s2 with failed := true })

/-- one call of `GlyphDataIterator::next`.  The zipped iterator
`glyph_ids().iter().take(glyph_count).zip(offsets.iter().skip(start_index).zip(offsets.iter().skip(start_index.saturating_add(1))))`
yields its `k`-th item iff `k < glyph_count`, `start_index + k < offsets.len()` and
`start_index.saturating_add(1) + k < offsets.len()`.  Items: `ok (gid, start, len)` = the glyph's data is
`data[start .. start + len]`, or the error; after an error the iterator is finished. -/
def gdStep (d : List Nat) (h : GpHdr) (si : Nat) (s : GdSt) : Out (Except AErr (Nat × Nat × Nat)) × GdSt :=
  if s.failed then (.done, s)
  else if s.k ≥ h.gc then (.done, s)
  else if si + s.k ≥ h.nOffs ∨ satAdd si 1 + s.k ≥ h.nOffs then (.done, s)
  else
    match readAt d (h.offsAt + 4 * (si + s.k)) 4, readAt d (h.offsAt + 4 * (satAdd si 1 + s.k)) 4 with
    | some st, some en =>
      let s1 : GdSt := { s with k := s.k + 1 }
      -- the glyph id item of `ComputedArray::iter`: `Err` when it does not fit
      match readAt d (h.idsAt + h.w * s.k) h.w with
      | none => (.yield (.error .oob), { s1 with failed := true })
      | some gid =>
        match s.prev with
        | none => gdData d { s1 with prev := some gid } gid st en
        | some p =>
          if gid ≤ p then (.yield (.error .malformed), { s1 with failed := true })
          else gdData d { s1 with prev := some gid } gid st en
    -- the offsets are elements of the `glyph_data_offsets` slice: reading them cannot fail
    | _, _ => (.trap, s)

/-- `patches.glyph_data_for_table(table_index).collect()` -/
def gdTrace (d : List Nat) (h : GpHdr) (ti : Nat) : Option (List (Out (Except AErr (Nat × Nat × Nat)))) :=
  run (gdStep d h (gdStartIndex h ti)) (h.gc + 2) { k := 0, prev := none, failed := false }

end FontVerif.HandAat
