/-
C01 (hand-written code) — transcriptions of the loop-carrying / index-computing hand-written functions of
read-fonts/src/tables/aat.rs state tables (StateTable / ExtendedStateTable class / entry), kern.rs, ankr.rs / feat.rs / ltag.rs / trak.rs accessors, ift.rs patch-map header helpers.

Every definition cites the Rust function it transcribes (file + fn) and keeps its checked / saturating /
wrapping arithmetic and its error returns; `Out.trap` / `none`-as-panic results mark what would be a panic of
the overflow-checked profile, and Props/C01HandAat.lean shows they are never produced.  Tied to the real code
by harness group `aats.model` (driver commands `ha.*`, Drv/C01HandAat.lean).
-/
import FontVerif.Model.ReadIter
import FontVerif.Model.HandRead
namespace FontVerif.HandAat
open FontVerif FontVerif.ReadIter FontVerif.HandRead

end FontVerif.HandAat
