/-
C04 ⇄ C05 — the field DSL of Model/Field.lean with REAL offsets.

What is transcribed: in `write-fonts/generated/*.rs` a field of type `OffsetMarker<T, N>` / `NullableOffsetMarker<T, N>`
is written by the same statement shape as a scalar — `self.f.write_into(writer);`, possibly under
`version.compatible(V).then(|| …)` — but `write_into` of the marker (write-fonts/src/offsets.rs) calls
`writer.write_offset(obj, N)` (child table written first, a record pushed, `N` placeholder bytes) or, for `None`,
`writer.write_slice([0u8; N])`.  Model/Field.lean treats such a statement as a scalar of width `N` holding the final
offset.  Here a table type declares which of its scalar `.field` statements are offsets (`Slots`: field id ↦ width), a
value carries its children (`Kids`: field id ↦ `none` for a null offset, or the child's `table_type()` and value tree),
and `emitN` produces the calls on the `TableWriter` (`TableWriter.Fields`): byte runs for ordinary statements, `null` /
`link` for offset statements.  The reader side is Model/Field.lean's `parse` at the position the offset resolves to
(`read-fonts` `ResolveOffset`: `data.split_off(offset)` from the start of the PARENT table).

Scope: offset fields that are scalar statements.  Offsets inside arrays (`Vec<OffsetMarker<T>>`, records with offset
columns) stay scalars-in-arrays as in Model/Field.lean.
-/
import FontVerif.Model.Field
import FontVerif.Model.TableWriter
namespace FontVerif.FieldNested
open FontVerif FontVerif.Field FontVerif.TableWriter

/-- the offset fields of a generated table type: field id ↦ width `N` -/
abbrev Slots := List (Nat × Nat)

def slotW (slots : Slots) (f : Nat) : Option Nat := slots.lookup f

/-- the subtables of one value: field id ↦ `none` (null) or the child (its `table_type()`, its value tree) -/
abbrev Kids := Nat → Option (Graph.TType × Fields)

/-- `write_into` of a generated table whose offset statements are real: the calls on the `TableWriter`.  The view entry
of an offset statement is a placeholder (no condition or count may look at it: `slotOK`). -/
def emitN (ext : Ext) (o : Obj) (slots : Slots) (kids : Kids) : List WF → View → Option (Fields × View)
  | [], view => some (.nil, view)
  | w :: ws, view =>
    match slotW slots w.id with
    | some width =>
      if condHolds view w.cond then
        match kids w.id with
        | none =>
          match emitN ext o slots kids ws ((w.id, .num 0) :: view) with
          | some (fs, v) => some (.null width fs, v)
          | none => none
        | some (ty, c) =>
          match emitN ext o slots kids ws ((w.id, .num (256 ^ width - 1)) :: view) with
          | some (fs, v) => some (.link width ty c fs, v)
          | none => none
      else emitN ext o slots kids ws ((w.id, .absent) :: view)
    | none =>
      match emitField ext o view w with
      | none => none
      | some (b, v) =>
        match emitN ext o slots kids ws ((w.id, v) :: view) with
        | some (fs, v') => some (.bytes b fs, v')
        | none => none

/-- the declaration of offset fields fits the writer program: an offset statement is `self.f.write_into(writer)` of the
declared width 2/3/4; no condition looks at an offset field; no count is taken of one -/
def slotOK (slots : Slots) (ws : List WF) : Bool :=
  ws.all fun w =>
    (match w.cond with
     | some (vf, _) => (slotW slots vf).isNone
     | none => true) &&
    (match slotW slots w.id with
     | some width => decide (w.item = .scalar .field width) && (width == 2 || width == 3 || width == 4)
     | none =>
       match w.item with
       | .scalar (.count arr _ _) _ => (slotW slots arr).isNone
       | _ => true)

/-- what the nested reader does at one table: the generated reader's `parse` at `pos`, then, for every offset field that
is present and not null, the child's position `pos + offset` (`ResolveOffset::resolve` with the parent's data) -/
def resolveAll (slots : Slots) (view : View) (pos : Nat) : List (Nat × Option Nat) :=
  slots.map fun s =>
    match view.lookup s.1 with
    | some (.num v) => (s.1, if v = 0 then none else some (pos + v))
    | _ => (s.1, none)

end FontVerif.FieldNested
