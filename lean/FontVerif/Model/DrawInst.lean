/-
Model of the location handling in front of every draw:
  * `skrifa/src/instance.rs`: `LocationRef::is_default`, `LocationRef::effective_coords`.
Coordinates are the raw bits of `NormalizedCoord` (`F2Dot14`).
`OutlineGlyph::draw_unhinted` and `HintingInstance::reconfigure` read the caller's location only through
`effective_coords()` (skrifa/src/outline/mod.rs, skrifa/src/outline/hint.rs).
-/
import FontVerif.Model.Base
namespace FontVerif.DrawInst

/-- `LocationRef::is_default`: `self.0.is_empty() || self.0.iter().all(|c| *c == NormalizedCoord::ZERO)` -/
def isDefault (coords : List Int) : Bool := coords.isEmpty || coords.all (fun c => c == 0)

/-- `LocationRef::effective_coords` -/
def effectiveCoords (coords : List Int) : List Int := if isDefault coords then [] else coords

end FontVerif.DrawInst
