/-
Models of the hand-written iterators of read-fonts whose termination / yield bounds are part
of property C01 ("... never panics or hangs ... terminates within time proportional to the
input"):

* `Cmap4Iter`, `Cmap12Iter` (+ `Cmap12IterLimits`)        read-fonts/src/tables/cmap.rs
* `PackedPointNumbers` (`count`, `total_len`, iterator),
  `PackedDeltas` / `DeltaRunIter` (`next`, `skip_fast`),
  `count_all_deltas`, `TupleDeltaIter`                    read-fonts/src/tables/variations.rs
* `VarSize::read_len_at` / `total_len_for_count`,
  `VarLenArray::{iter,get}`, `ComputedArray::{iter,get}`  read-fonts/src/read.rs, array.rs

Every iterator is transcribed as a *step function* `σ → Out α × σ` (one trip round the `loop`
of `next`, or one call of `next` when it has no loop) and executed by the generic fuel-driven
`run`.  `Out.trap` marks an arithmetic trap of the overflow-checked profile; the theorems in
Props/C01Iter.lean show it is never produced.  `usize`/`u64` cursor positions are plain `Nat`s:
every position that occurs is below `len + 2^33`, far from the saturation point of
`saturating_add` (64-bit targets only).
-/
import FontVerif.Model.Base
namespace FontVerif.ReadIter
open FontVerif

/-! ## generic iterator machine -/

/-- one trip round an iterator's loop -/
inductive Out (α : Type) where
  /-- `return Some(a)` -/
  | yield (a : α)
  /-- `continue` (no item produced, iterator not finished) -/
  | cont
  /-- `return None` -/
  | done
  /-- arithmetic overflow / underflow panic of the strict profile -/
  | trap
  deriving Repr, DecidableEq

/-- Run `step` until the iterator returns `None` (or traps); the result lists every trip round
the loop except the final `done` one.  `none` = out of fuel. -/
def run {σ α : Type} (step : σ → Out α × σ) : Nat → σ → Option (List (Out α))
  | 0, _ => none
  | fuel + 1, s =>
    match step s with
    | (.done, _) => some []
    | (.trap, _) => some [.trap]
    | (.cont, s') => (run step fuel s').map (Out.cont :: ·)
    | (.yield a, s') => (run step fuel s').map (Out.yield a :: ·)

/-- the items an event trace yielded -/
def items {α : Type} : List (Out α) → List α
  | [] => []
  | .yield a :: r => a :: items r
  | _ :: r => items r

def trapped {α : Type} : List (Out α) → Bool
  | [] => false
  | .trap :: _ => true
  | _ :: r => trapped r

/-- `iter.take(k).collect()`: stop as soon as `k` items were produced (used by the driver on
iterators whose full output is too long to print; `runTake_eq` in Props ties it to `run`). -/
def runTake {σ α : Type} (step : σ → Out α × σ) : Nat → Nat → σ → Option (List α)
  | _, 0, _ => some []
  | 0, _ + 1, _ => none
  | fuel + 1, k + 1, s =>
    match step s with
    | (.done, _) => some []
    | (.trap, _) => some []
    | (.cont, s') => runTake step fuel (k + 1) s'
    | (.yield a, s') => (runTake step fuel k s').map (a :: ·)

/-! ## byte access (`FontData::read_at`) -/

/-- `read_at::<u8>(p)` -/
def u8At (d : List Nat) (p : Nat) : Option Nat := d[p]?

/-- `read_at::<u16>(p)`: needs `p + 2 ≤ len` -/
def u16At (d : List Nat) (p : Nat) : Option Nat :=
  match d[p]?, d[p + 1]? with
  | some a, some b => some (a * 256 + b)
  | _, _ => none

/-- `read_at::<u32>(p)`: needs `p + 4 ≤ len` -/
def u32At (d : List Nat) (p : Nat) : Option Nat :=
  match d[p]?, d[p + 1]?, d[p + 2]?, d[p + 3]? with
  | some a, some b, some c, some e => some (((a * 256 + b) * 256 + c) * 256 + e)
  | _, _, _, _ => none

def toSigned (bits : Nat) (v : Nat) : Int :=
  if v < 2 ^ (bits - 1) then (v : Int) else (v : Int) - (2 ^ bits : Nat)

/-! ## cmap format 4 — `Cmap4::iter`, `Cmap4Iter::next`, `Cmap4::lookup_glyph_id`, `code_range`

The arrays are the already parsed fields of the subtable (`end_code`, `start_code`, `id_delta`,
`id_range_offsets`, `glyph_id_array`); the generated reader gives the first four the same
length `segCountX2 / 2`, the model does not rely on that. -/

structure Cmap4 where
  endCode : List Nat
  startCode : List Nat
  idDelta : List Int
  idRangeOffset : List Nat
  glyphIdArray : List Nat
  deriving Repr

/-- the fields hold `u16` (`i16` for deltas) values -/
def Cmap4.wf (t : Cmap4) : Bool :=
  t.endCode.all (· < 65536) && t.startCode.all (· < 65536) &&
  t.idDelta.all (fun d => decide (-32768 ≤ d ∧ d < 32768)) &&
  t.idRangeOffset.all (· < 65536) && t.glyphIdArray.all (· < 65536)

/-- `Cmap4::code_range(index)`: `start .. end + 1` as `u32`s; `None` when either `get` fails. -/
def Cmap4.codeRange (t : Cmap4) (i : Nat) : Option (Nat × Nat) :=
  match t.startCode[i]? with
  | none => none
  | some s =>
    match t.endCode[i]? with
    | none => none
    | some e => some (s, e + 1)

/-- number of segments `code_range` can return -/
def Cmap4.segCount (t : Cmap4) : Nat := min t.startCode.length t.endCode.length

inductive Look where
  | gid (g : Nat)
  | none
  /-- `codepoint - start_code` underflows in `u16` -/
  | trap
  deriving Repr, DecidableEq

/-- `(x as i32 + delta) as u16` -/
def addDeltaU16 (x : Nat) (delta : Int) : Nat := (((x : Int) + delta) % 65536).toNat

/-- `Cmap4::lookup_glyph_id(codepoint, index, start_code)`.
`deltas.get(index)?`, `range_offsets.get(index)?`; `range_offset == 0` → `(cp + delta) as u16`;
otherwise `offset = range_offset / 2 + (codepoint - start_code)` (u16 subtraction: traps on
underflow in the strict profile), `offset.saturating_sub(range_offsets.len() - index)`,
`glyph_id_array.get(offset)?`, and `gid != 0` → `(gid + delta) as u16`. -/
def Cmap4.lookupGlyphId (t : Cmap4) (cp index startCode : Nat) : Look :=
  match t.idDelta[index]? with
  | none => .none
  | some delta =>
    match t.idRangeOffset[index]? with
    | none => .none
    | some ro =>
      if ro = 0 then .gid (addDeltaU16 cp delta)
      else if cp < startCode then .trap
      else
        let offset := ro / 2 + (cp - startCode) - (t.idRangeOffset.length - index)
        match t.glyphIdArray[offset]? with
        | none => .none
        | some g => if g = 0 then .none else .gid (addDeltaU16 g delta)

/-- `Cmap4Iter { cur_range: start..stop, cur_start_code, cur_range_ix }` -/
structure St4 where
  start : Nat
  stop : Nat
  startCode : Nat
  ix : Nat
  deriving Repr, DecidableEq

/-- `Cmap4Iter::new`: `code_range(0).unwrap_or_default()`, `cur_start_code = start as u16`. -/
def Cmap4.init (t : Cmap4) : St4 :=
  let r := (t.codeRange 0).getD (0, 0)
  { start := r.1, stop := r.2, startCode := r.1 % 65536, ix := 0 }

/-- one trip round the `loop` of `Cmap4Iter::next`.
* `cur_range.next()` is `Some(codepoint)` (i.e. `start < stop`): look the glyph up with
  `codepoint as u16`; a failed lookup `continue`s.
* otherwise `cur_range_ix += 1`, `code_range(ix)?`, and the clamp
  `cur_range = next.start.max(cur.end) .. next.end.max(cur.end)`,
  `cur_start_code = cur_range.start as u16`. -/
def Cmap4.step (t : Cmap4) (s : St4) : Out (Nat × Nat) × St4 :=
  if s.start < s.stop then
    let cp := s.start
    let s' := { s with start := s.start + 1 }
    match t.lookupGlyphId (cp % 65536) s.ix s.startCode with
    | .trap => (.trap, s')
    | .none => (.cont, s')
    | .gid g => (.yield (cp, g), s')
  else
    let ix := s.ix + 1
    match t.codeRange ix with
    | none => (.done, { s with ix := ix })
    | some (ns, ne) =>
      let st := max ns s.stop
      (.cont, { start := st, stop := max ne s.stop, startCode := st % 65536, ix := ix })

/-- fuel that always suffices (`cmap4_run_complete`) -/
def Cmap4.fuel (t : Cmap4) : Nat := 65536 + t.segCount + 1

/-- `cmap4.iter().collect()` together with the number of trips round the loop (including the
last one, which returns `None`). -/
def Cmap4.trace (t : Cmap4) : Option (List (Out (Nat × Nat))) := run t.step t.fuel t.init

def Cmap4.iter (t : Cmap4) : List (Nat × Nat) := items (t.trace.getD [])

/-! ## cmap format 12 — `Cmap12::iter`, `iter_with_limits`, `Cmap12::group`, `Cmap12Iter::next` -/

structure Group where
  startChar : Nat
  endChar : Nat
  startGlyph : Nat
  deriving Repr, DecidableEq

/-- `Cmap12IterLimits { max_char, glyph_count }` -/
structure Limits where
  maxChar : Nat
  glyphCount : Nat
  deriving Repr, DecidableEq

def Group.wf (g : Group) : Bool :=
  g.startChar < 4294967296 && g.endChar < 4294967296 && g.startGlyph < 4294967296

def Limits.wf (l : Limits) : Bool := l.maxChar < 4294967296 && l.glyphCount < 4294967296

/-- `Cmap12Group { range: start..stop (u64), start_code, start_glyph_id }` -/
structure G12 where
  start : Nat
  stop : Nat
  startCode : Nat
  startGlyph : Nat
  deriving Repr, DecidableEq

/-- exclusive end of the codepoint range of one group, as computed by `Cmap12::group`:
`end_char_code as u64 + 1`, and with limits
`(glyph_count as u64).saturating_sub(start_glyph_id).saturating_add(start_code)
   .min(end_code.min(max_char as u64 + 1))`  (the u64 `saturating_add` of two values below 2^32
never saturates; `max_char` is the maximum *valid* character — /repo fix 692a13d). -/
def groupEnd (g : Group) (lim : Option Limits) : Nat :=
  let e := g.endChar + 1
  match lim with
  | none => e
  | some l => min ((l.glyphCount - g.startGlyph) + g.startChar) (min e (l.maxChar + 1))

/-- `Cmap12::group(index, limits)` -/
def group12 (gs : List Group) (i : Nat) (lim : Option Limits) : Option G12 :=
  match gs[i]? with
  | none => none
  | some g =>
    some { start := g.startChar, stop := groupEnd g lim, startCode := g.startChar,
           startGlyph := g.startGlyph }

/-- `Cmap12Iter { cur_group, cur_group_ix }` -/
structure St12 where
  cur : Option G12
  ix : Nat
  deriving Repr, DecidableEq

/-- `Cmap12Iter::new` -/
def init12 (gs : List Group) (lim : Option Limits) : St12 := { cur := group12 gs 0 lim, ix := 0 }

/-- `Cmap12::lookup_glyph_id`: `start_glyph_id.wrapping_add(codepoint.wrapping_sub(start_char_code))` -/
def lookup12 (cp startCode startGlyph : Nat) : Nat :=
  (startGlyph + (cp + 4294967296 - startCode) % 4294967296) % 4294967296

/-- one trip round the `loop` of `Cmap12Iter::next`.
`self.cur_group.as_mut()?`; `group.range.next()` yields `(codepoint as u32, gid)`; otherwise
`cur_group_ix += 1`, `group(ix, limits)?` and the clamp
`if next.range.start < group.range.end { next.range = group.range.end..next.range.end }`
(only the start is clamped: the end may move backwards). -/
def step12 (gs : List Group) (lim : Option Limits) (s : St12) : Out (Nat × Nat) × St12 :=
  match s.cur with
  | none => (.done, s)
  | some g =>
    if g.start < g.stop then
      let cp := g.start
      (.yield (cp % 4294967296, lookup12 (cp % 4294967296) g.startCode g.startGlyph),
        { s with cur := some { g with start := g.start + 1 } })
    else
      let ix := s.ix + 1
      match group12 gs ix lim with
      | none => (.done, { s with ix := ix })
      | some n =>
        let n' := if n.start < g.stop then { n with start := g.stop } else n
        (.cont, { cur := some n', ix := ix })

/-- total of the (limited, unclamped) group lengths: the yield bound -/
def groupLenSum (gs : List Group) (lim : Option Limits) : Nat :=
  (gs.map (fun g => groupEnd g lim - g.startChar)).sum

def fuel12 (gs : List Group) (lim : Option Limits) : Nat := groupLenSum gs lim + gs.length + 1

def trace12 (gs : List Group) (lim : Option Limits) : Option (List (Out (Nat × Nat))) :=
  run (step12 gs lim) (fuel12 gs lim) (init12 gs lim)

def iter12 (gs : List Group) (lim : Option Limits) : List (Nat × Nat) :=
  items ((trace12 gs lim).getD [])

/-! ## packed point numbers — `PackedPointNumbers::{count_and_count_bytes,total_len,iter}`,
`PackedPointNumbersIter::next`, `PointRunIter::next`, `read_control_byte` -/

/-- `count_and_count_bytes`: first byte 0 (or no data) → `(0, 1)`; `1..=127` → `(b, 1)`;
otherwise `read_at::<u16>(0).unwrap_or_default() & 0x7FFF`, and `(0, 2)` if that is 0. -/
def countAndCountBytes (d : List Nat) : Nat × Nat :=
  let b0 := (u8At d 0).getD 0
  if b0 = 0 then (0, 1)
  else if b0 < 128 then (b0, 1)
  else
    let c := ((u16At d 0).getD 0) % 32768
    if c = 0 then (0, 2) else (c % 32768, 2)

/-- `PackedPointNumbers::count` -/
def pointCount (d : List Nat) : Nat := (countAndCountBytes d).1

/-- the `while n_seen < n_points` loop of `total_len`.  `none` = out of fuel, or the `u16`
addition `n_seen += count as u16` overflowed (strict profile trap). -/
def totalLenLoop (d : List Nat) (nPoints : Nat) : Nat → Nat → Nat → Nat → Option Nat
  | 0, _, _, _ => none
  | fuel + 1, nSeen, nBytes, pos =>
    if nSeen < nPoints then
      match u8At d pos with
      | none => some nBytes
      | some control =>
        let count := control % 128 + 1
        let wordSize := 1 + (if control ≥ 128 then 1 else 0)
        let runSize := wordSize * count
        if nSeen + count > 65535 then none
        else totalLenLoop d nPoints fuel (nSeen + count) (nBytes + (runSize + 1)) (pos + 1 + runSize)
    else some nBytes

/-- `PackedPointNumbers::total_len` -/
def totalLen (d : List Nat) : Option Nat :=
  let c := countAndCountBytes d
  if c.1 = 0 then some c.2 else totalLenLoop d c.1 (c.1 + 1) 0 c.2 c.2

/-- `split_off_front`: length of the remainder, `data.split_off(total_len).unwrap_or_default()` -/
def splitOffFrontRemainder (d : List Nat) : Option Nat :=
  (totalLen d).map (fun t => d.length - t)

/-- `PackedPointNumbersIter` + its `PointRunIter` (cursor position `pos`) -/
structure PtSt where
  count : Nat
  seen : Nat
  lastVal : Nat
  remaining : Nat
  twoBytes : Bool
  pos : Nat
  deriving Repr, DecidableEq

/-- `PackedPointNumbers::iter` -/
def ptInit (d : List Nat) : PtSt :=
  let c := countAndCountBytes d
  { count := c.1, seen := 0, lastVal := 0, remaining := 0, twoBytes := false, pos := c.2 }

/-- `PointRunIter::next`.  The `while self.remaining == 0` loop runs at most once because
`read_control_byte` returns a count `(control & 0x7F) + 1 ≥ 1`.  A failed read still advances
the cursor (`Cursor::read`). -/
def ptRunNext (d : List Nat) (s : PtSt) : Option Nat × PtSt :=
  let r : Option PtSt :=
    if s.remaining = 0 then
      match u8At d s.pos with
      | none => none
      | some control =>
        some { s with remaining := control % 128 + 1, twoBytes := decide (control ≥ 128), pos := s.pos + 1 }
    else some s
  match r with
  | none => (none, { s with pos := s.pos + 1 })
  | some s =>
    let s1 := { s with remaining := s.remaining - 1 }
    if s.twoBytes then (u16At d s.pos, { s1 with pos := s.pos + 2 })
    else (u8At d s.pos, { s1 with pos := s.pos + 1 })

/-- `PackedPointNumbersIter::next` (one call).  `count == 0`: count upwards, `checked_add(1)?`.
Otherwise `seen += 1` and `last_val.checked_add(run.next()?)?`. -/
def ptNext (d : List Nat) (s : PtSt) : Out Nat × PtSt :=
  if s.count = 0 then
    if s.lastVal + 1 > 65535 then (.done, s)
    else (.yield s.lastVal, { s with lastVal := s.lastVal + 1 })
  else if s.count = s.seen then (.done, s)
  else
    let s := { s with seen := s.seen + 1 }
    match ptRunNext d s with
    | (none, s') => (.done, s')
    | (some v, s') =>
      if s'.lastVal + v > 65535 then (.done, s')
      else (.yield (s'.lastVal + v), { s' with lastVal := s'.lastVal + v })

def ptFuel : Nat := 65537

/-- `points.iter().collect()` (up to the first `None`) -/
def ptTrace (d : List Nat) : Option (List (Out Nat)) := run (ptNext d) ptFuel (ptInit d)
def ptIter (d : List Nat) : List Nat := items ((ptTrace d).getD [])

/-! ## packed deltas — `DeltaRunType::new`, `DeltaRunIter::{next,skip_fast,read_next_control}`,
`count_all_deltas`, `PackedDeltas::{consume_all,iter,x_deltas,y_deltas}` -/

/-- `DeltaRunType::new(control) as usize`: byte size of one value of the run -/
def runTypeSize (control : Nat) : Nat :=
  match decide (control % 256 ≥ 128), decide (control / 64 % 2 = 1) with
  | false, false => 1
  | false, true => 2
  | true, false => 0
  | true, true => 4

structure DlSt where
  limit : Option Nat
  remaining : Nat
  vsize : Nat
  pos : Nat
  deriving Repr, DecidableEq

/-- `DeltaRunIter::new(cursor, limit)` (`value_type: I8`) -/
def dlInit (limit : Option Nat) : DlSt := { limit := limit, remaining := 0, vsize := 1, pos := 0 }

/-- `read_next_control`: `remaining_in_run = 0`, then read the control byte. -/
def dlReadControl (d : List Nat) (s : DlSt) : Bool × DlSt :=
  match u8At d s.pos with
  | none => (false, { s with remaining := 0, pos := s.pos + 1 })
  | some control =>
    (true, { s with remaining := control % 64 + 1, vsize := runTypeSize control, pos := s.pos + 1 })

/-- the value read of `DeltaRunIter::next` for the current run type -/
def dlReadValue (d : List Nat) (vsize pos : Nat) : Option Int :=
  match vsize with
  | 0 => some 0
  | 1 => (u8At d pos).map (toSigned 8)
  | 2 => (u16At d pos).map (toSigned 16)
  | _ => (u32At d pos).map (toSigned 32)

/-- `DeltaRunIter::next` (one call) -/
def dlNext (d : List Nat) (s : DlSt) : Out Int × DlSt :=
  match s.limit with
  | some 0 => (.done, s)
  | _ =>
    let s := { s with limit := s.limit.map (· - 1) }
    let r := if s.remaining = 0 then dlReadControl d s else (true, s)
    if r.1 = false then (.done, r.2)
    else
      let s := r.2
      let s1 := { s with remaining := s.remaining - 1, pos := s.pos + s.vsize }
      match dlReadValue d s.vsize s.pos with
      | none => (.done, s1)
      | some v => (.yield v, s1)

/-- the `loop` of `DeltaRunIter::skip_fast(n)` (`wanted` counts down; `n` is the original
argument, used for `limit.saturating_sub(n)`).  `none` = out of fuel. -/
def skipFastLoop (d : List Nat) (n : Nat) : Nat → Nat → DlSt → Option DlSt
  | 0, _, _ => none
  | fuel + 1, wanted, s =>
    if wanted > s.remaining then
      let s1 := { s with pos := s.pos + s.remaining * s.vsize }
      let r := dlReadControl d s1
      if r.1 = false then some { r.2 with limit := some 0 }
      else skipFastLoop d n fuel (wanted - s.remaining) r.2
    else
      let consumed := min wanted s.remaining
      some { s with remaining := s.remaining - consumed, pos := s.pos + consumed * s.vsize,
                    limit := s.limit.map (· - n) }

/-- `skip_fast(n)`; each trip reads one control byte so `len + 2` trips suffice -/
def skipFast (d : List Nat) (n : Nat) (s : DlSt) : Option DlSt := skipFastLoop d n (d.length + 2) n s

/-- the `while let Ok(control) = data.read_at::<u8>(offset)` loop of `count_all_deltas` -/
def countAllLoop (d : List Nat) : Nat → Nat → Nat → Option Nat
  | 0, _, _ => none
  | fuel + 1, count, offset =>
    match u8At d offset with
    | none => some count
    | some control =>
      let runCount := control % 64 + 1
      countAllLoop d fuel (count + runCount) (offset + (runCount * runTypeSize control + 1))

/-- `count_all_deltas(data)` -/
def countAllDeltas (d : List Nat) : Option Nat := countAllLoop d (d.length + 1) 0 0

/-- fuel for collecting a `DeltaRunIter` over `d` -/
def dlFuel (d : List Nat) : Nat := 64 * d.length + 65

/-- `PackedDeltas::consume_all(data).iter().collect()` -/
def consumeAllIter (d : List Nat) : Option (List (Out Int)) :=
  match countAllDeltas d with
  | none => none
  | some c => run (dlNext d) (dlFuel d) (dlInit (some c))

/-! ## `TupleVariation::deltas()` → `TupleDeltaIter`

`ser` is the tuple's serialized data with private point numbers: packed points followed by
packed deltas.  `isPoint` = `T::is_point()` (gvar `GlyphDelta`: true, cvar `CvtDelta`: false). -/

structure TdSt where
  cur : Nat
  points : Option PtSt
  nextPoint : Nat
  x : DlSt
  y : Option DlSt
  deriving Repr, DecidableEq

/-- `TupleVariation::deltas` + `TupleDeltaIter::new`: returns the packed-delta bytes and the
initial iterator state.  `none` = a modelled helper ran out of fuel / trapped (never happens:
`tdInit_isSome`). -/
def tdInit (ser : List Nat) (isPoint : Bool) : Option (List Nat × TdSt) :=
  match totalLen ser with
  | none => none
  | some tl =>
    let dd := ser.drop tl
    let count := pointCount ser
    let total : Option Nat :=
      if count = 0 then countAllDeltas dd else some (if isPoint then count * 2 else count)
    match total with
    | none => none
    | some total =>
      let p0 := ptInit ser
      let first := ptNext ser p0
      let (pts, np) : Option PtSt × Nat :=
        match first.1 with
        | .yield v => (some first.2, v)
        | _ => (none, 0)
      if isPoint then
        match skipFast dd (total / 2) (dlInit (some total)) with
        | none => none
        | some ys =>
          some (dd, { cur := 0, points := pts, nextPoint := np, x := dlInit (some (total / 2)), y := some ys })
      else
        some (dd, { cur := 0, points := pts, nextPoint := np, x := dlInit (some total), y := none })

/-- the part of one trip of `TupleDeltaIter::next` after `position` is known:
`if position == self.cur { (dx, dy) = values.next()?; break } self.cur += 1;` … `self.cur += 1` -/
def tdEmit (dd : List Nat) (s : TdSt) (position : Nat) : Out (Nat × Int × Int) × TdSt :=
  if position = s.cur then
    match dlNext dd s.x with
    | (.yield dx, x') =>
      match s.y with
      | none => (.yield (position % 65536, dx, 0), { s with x := x', cur := s.cur + 1 })
      | some y =>
        match dlNext dd y with
        | (.yield dy, y') => (.yield (position % 65536, dx, dy), { s with x := x', y := some y', cur := s.cur + 1 })
        | (_, y') => (.done, { s with x := x', y := some y' })
    | (_, x') => (.done, { s with x := x' })
  else (.cont, { s with cur := s.cur + 1 })

/-- one trip round the `loop` of `TupleDeltaIter::next`; items are `(position as u16, dx, dy)`. -/
def tdStep (ser dd : List Nat) (s : TdSt) : Out (Nat × Int × Int) × TdSt :=
  -- `let position = if let Some(points) = &mut self.points { if cur > next_point { next_point = points.next()? } next_point } else { cur }`
  match s.points with
  | some p =>
    if s.cur > s.nextPoint then
      match ptNext ser p with
      | (.yield v, p') => tdEmit dd { s with points := some p', nextPoint := v } v
      | (_, p') => (.done, { s with points := some p' })
    else tdEmit dd s s.nextPoint
  | none => tdEmit dd s s.cur

def tdFuel (dd : List Nat) : Nat := 2 * (64 * dd.length + 65) + 65537 + 65537

/-- `tuple.deltas().collect()` -/
def tdTrace (ser : List Nat) (isPoint : Bool) : Option (List (Out (Nat × Int × Int))) :=
  match tdInit ser isPoint with
  | none => none
  | some (dd, s) => run (tdStep ser dd) (tdFuel dd) s

/-! ## `VarSize::read_len_at`, `total_len_for_count`, `VarLenArray::{iter,get}` -/

/-- which `VarSize` impl -/
inductive VarKind where
  /-- default `read_len_at` with a `Size` scalar of `n` bytes (`PString`: 1; test dummies: 2, 4) -/
  | plain (n : Nat)
  /-- avar `SegmentMaps`: `read_at::<u16>(pos)? as usize * 4 + 2` -/
  | segmentMaps
  /-- meta `ScriptLangTag`: up to and including the first `,` **of the whole data** (the code
  searches `data`, not `data[pos..]`), or the rest of the data -/
  | scriptLangTag
  deriving Repr, DecidableEq

def beAt (d : List Nat) (pos n : Nat) : Option Nat :=
  if pos + n ≤ d.length then some (beValue ((d.drop pos).take n)) else none

/-- index of the first byte equal to `b` (`iter().position`) -/
def findByte (b : Nat) : List Nat → Option Nat
  | [] => none
  | x :: r => if x = b then some 0 else (findByte b r).map (· + 1)

/-- `T::read_len_at(data, pos)`.  Default impl: `(read_at::<Size>(pos)? as usize).checked_add(SIZE)`
(cannot overflow a 64-bit `usize`). -/
def readLenAt (k : VarKind) (d : List Nat) (pos : Nat) : Option Nat :=
  match k with
  | .plain n => (beAt d pos n).map (· + n)
  | .segmentMaps => (u16At d pos).map (fun c => c * 4 + 2)
  | .scriptLangTag =>
    -- `data.split_off(pos)?` fails for `pos > len`; empty remainder → `None`
    if pos ≥ d.length then none
    else
      match findByte 44 d with
      | some i => some (i + 1)
      | none => some (d.length - pos)

/-- `total_len_for_count(data, count)`: `none` = `Err(OutOfBounds)`.  Structural on `count`. -/
def totalLenForCount (k : VarKind) (d : List Nat) : Nat → Nat → Option Nat
  | 0, pos => some pos
  | n + 1, pos =>
    match readLenAt k d pos with
    | none => none
    | some l => totalLenForCount k d n (pos + l)

/-- result of `T::read(item_data)` as far as the harness observes it: `some n` = `Ok` with an
observable size `n`, `none` = `Err`.
* `PString` (`plain 1`): length byte, `get(1..len+1)` else OutOfBounds, must be ASCII; `n` = string length.
* plain 2 / 4: the harness' dummy types read the length field and need `len ≥ SIZE + value`; `n` = value.
* `SegmentMaps`: `read_be::<u16>`, `read_array(count)` of 4-byte records; `n` = count.
* `ScriptLangTag`: `from_utf8` (the driver only accepts ASCII data, so always `Ok`) and
  `trim_matches([' ', ','])`; `n` = trimmed length. -/
def readItem (k : VarKind) (b : List Nat) : Option Nat :=
  match k with
  | .plain 1 =>
    match b with
    | [] => none
    | l :: rest =>
      if l ≤ rest.length then (if (rest.take l).all (· < 128) then some l else none) else none
  | .plain n =>
    match beAt b 0 n with
    | none => none
    | some v => if n + v ≤ b.length then some v else none
  | .segmentMaps =>
    match u16At b 0 with
    | none => none
    | some c => if 2 + c * 4 ≤ b.length then some c else none
  | .scriptLangTag =>
    let isTrim := fun (x : Nat) => x = 32 || x = 44
    some ((((b.dropWhile isTrim).reverse).dropWhile isTrim).length)

/-- one call of the `from_fn` closure of `VarLenArray::iter`; the state is the remaining data.
`data.is_empty()` → `None`; `read_len_at(data, 0)?`; `data.slice(..item_len)?`;
`data = data.split_off(item_len)?`. -/
def varIterStep (k : VarKind) (d : List Nat) : Out (Option Nat) × List Nat :=
  if d.isEmpty then (.done, d)
  else
    match readLenAt k d 0 with
    | none => (.done, d)
    | some l =>
      if l ≤ d.length then (.yield (readItem k (d.take l)), d.drop l)
      else (.done, d)

def varIterTrace (k : VarKind) (d : List Nat) : Option (List (Out (Option Nat))) :=
  run (varIterStep k) (d.length + 1) d

/-- the `for _ in 0..idx` loop of `VarLenArray::get`: `none` = early `?` return. -/
def varGetPos (k : VarKind) (d : List Nat) : Nat → Nat → Option Nat
  | 0, pos => some pos
  | n + 1, pos =>
    match readLenAt k d pos with
    | none => none
    | some l => varGetPos k d n (pos + l)

/-- `VarLenArray::get(idx)`: `none` = `None`, `some r` = `Some(T::read(data[pos..]))` -/
def varGet (k : VarKind) (d : List Nat) (idx : Nat) : Option (Option Nat) :=
  match varGetPos k d idx 0 with
  | none => none
  | some pos => if pos ≤ d.length then some (readItem k (d.drop pos)) else none

/-! ## `ComputedArray::{new,iter,get}` over items of constant computed size -/

/-- `ComputedArray::new`: `len = data.len().checked_div(item_len).unwrap_or(0)` -/
def computedLen (dataLen itemLen : Nat) : Nat := if itemLen = 0 then 0 else dataLen / itemLen

/-- `ComputedArray::iter` closure: state `i`; yields the start offset handed to
`T::read_with_args(data.split_off(item_start)?, ..)`. -/
def computedIterStep (dataLen itemLen : Nat) (i : Nat) : Out Nat × Nat :=
  if i = computedLen dataLen itemLen then (.done, i)
  else if itemLen * i ≤ dataLen then (.yield (itemLen * i), i + 1)
  else (.done, i + 1)

/-- `ComputedArray::get(idx)`: `none` = `Err(OutOfBounds)`; `some off` = item read at `off`
(`checked_mul` overflow → OutOfBounds, modelled at 2^64).  `get` does not consult `len()`
(/repo 504de7e added such a check, 6475b6a took it out again: the count of zero-sized items is not
recoverable from the byte length); what is bounded by `len()` is the traversal, see
Model/HandIter.lean `travGet`. -/
def computedGet (dataLen itemLen idx : Nat) : Option Nat :=
  if idx * itemLen ≥ 18446744073709551616 then none
  else if idx * itemLen ≤ dataLen then some (idx * itemLen) else none

end FontVerif.ReadIter
