/-
C02 — the unit structure of the CFF hint map (single ghost edges and bottom / top pairs), what `insert` does to the
active edge list as a LIST, and why `adjust` / `transform` stay inside the 96-slot array.
-/
import FontVerif.Lemmas.HintMap
set_option linter.unusedVariables false
namespace FontVerif.HintMap

/-- the active edges form a sequence of UNITS: a single edge that is not flagged as part of a pair, or a pair-bottom
    edge immediately followed by its pair-top edge -/
inductive Units : List Hint → Prop
  | nil : Units []
  | single (h : Hint) (rest : List Hint) : h.isPair = false → Units rest → Units (h :: rest)
  | pair (b t : Hint) (rest : List Hint) : b.isPair = true → b.isPairTop = false → t.isPairTop = true → Units rest →
      Units (b :: t :: rest)

theorem isPairTop_isPair {h : Hint} (ht : h.isPairTop = true) : h.isPair = true := by
  unfold Hint.isPairTop at ht; unfold Hint.isPair; simp [ht]

theorem units_append {a b : List Hint} (ha : Units a) (hb : Units b) : Units (a ++ b) := by
  induction ha with
  | nil => exact hb
  | single h rest hp _ ih => exact Units.single h _ hp ih
  | pair b' t rest h1 h2 h3 _ ih => exact Units.pair b' t _ h1 h2 h3 ih

/-- a position whose edge is not a pair top (or the end) is a unit boundary -/
theorem units_split : ∀ (l : List Hint), Units l → ∀ (ix : Nat), ix ≤ l.length →
    (∀ e, l[ix]? = some e → e.isPairTop = false) → Units (l.take ix) ∧ Units (l.drop ix) := by
  intro l hu
  induction hu with
  | nil => intro ix _ _; simp; exact Units.nil
  | single h rest hp hr ih =>
    intro ix hix hnt
    cases ix with
    | zero => simp; exact ⟨Units.nil, Units.single h rest hp hr⟩
    | succ k =>
      have := ih k (by simp at hix; omega) (by intro e he; exact hnt e (by simpa using he))
      simp only [List.take_succ_cons, List.drop_succ_cons]
      exact ⟨Units.single h _ hp this.1, this.2⟩
  | pair b t rest h1 h2 h3 hr ih =>
    intro ix hix hnt
    cases ix with
    | zero => simp; exact ⟨Units.nil, Units.pair b t rest h1 h2 h3 hr⟩
    | succ k =>
      cases k with
      | zero =>
        -- between bottom and top: excluded, the edge there is a pair top
        have := hnt t (by simp)
        rw [h3] at this; cases this
      | succ k2 =>
        have := ih k2 (by simp at hix; omega) (by intro e he; exact hnt e (by simpa using he))
        simp only [List.take_succ_cons, List.drop_succ_cons]
        exact ⟨Units.pair b t _ h1 h2 h3 this.1, this.2⟩

/-- inside a unit list: an edge flagged as a pair is a bottom followed by its top, or a top preceded by its bottom -/
theorem units_head {h : Hint} {rest : List Hint} (hu : Units (h :: rest)) :
    (h.isPair = false ∧ Units rest) ∨
    (h.isPair = true ∧ ∃ t rest', rest = t :: rest' ∧ t.isPairTop = true ∧ Units rest') := by
  cases hu with
  | single _ _ hp hr => exact Or.inl ⟨hp, hr⟩
  | pair _ t rest' h1 h2 h3 hr => exact Or.inr ⟨h1, t, rest', rfl, h3, hr⟩

/-! ### what the make-room loop does to the list -/

theorem getAt_eq (l : List Hint) (i : Nat) : getAt l i = l[i]? := rfl

/-- `shiftUp` copies the block `ix ..= ix + d` up by `cnt` and leaves everything else alone -/
theorem shiftUp_spec (ix cnt : Nat) (hc : 1 ≤ cnt) :
    ∀ (d : Nat) (edges e : List Hint), shiftUp edges ix cnt d = some e →
      e.length = edges.length ∧
      ∀ k, e[k]? = if ix + cnt ≤ k ∧ k ≤ ix + d + cnt then edges[k - cnt]? else edges[k]? := by
  intro d
  induction d with
  | zero =>
    intro edges e h
    unfold shiftUp at h
    split at h
    · cases h
    · rename_i v hv
      unfold setAt at h
      split at h
      · have := Option.some.inj h; subst this
        refine ⟨by simp, ?_⟩
        intro k
        rw [getAt_eq] at hv
        by_cases hk : k = ix + cnt
        · subst hk
          rw [if_pos (by omega)]
          simp only [Nat.add_sub_cancel]
          rw [hv]
          rw [List.getElem?_set_self (by assumption)]
        · rw [if_neg (by omega)]
          rw [List.getElem?_set_ne (by omega)]
      · cases h
  | succ d ih =>
    intro edges e h
    unfold shiftUp at h
    split at h
    · cases h
    · rename_i v hv
      split at h
      · cases h
      · rename_i e1 hs
        unfold setAt at hs
        split at hs
        · rename_i hlt
          have := Option.some.inj hs; subst this
          obtain ⟨hl, hsp⟩ := ih _ _ h
          refine ⟨by rw [hl]; simp, ?_⟩
          intro k
          rw [hsp k]
          rw [getAt_eq] at hv
          by_cases hk : k = ix + (d + 1) + cnt
          · subst hk
            rw [if_neg (by omega), if_pos (by omega)]
            rw [List.getElem?_set_self (by assumption)]
            have : ix + (d + 1) + cnt - cnt = ix + (d + 1) := by omega
            rw [this, hv]
          · by_cases hr : ix + cnt ≤ k ∧ k ≤ ix + d + cnt
            · rw [if_pos hr, if_pos (by omega)]
              rw [List.getElem?_set_ne (by omega)]
            · rw [if_neg hr, if_neg (by omega)]
              rw [List.getElem?_set_ne (by omega)]
        · cases hs

/-- **`place` as a list operation**: the new active prefix is the old one with the new edge(s) spliced in at `ix` -/
theorem place_spec (m m' : Map) (first second : Hint) (isPair : Bool) (cnt ix : Nat) (hwf : WF m) (hix : ix ≤ m.len)
    (hroom : m.len + cnt ≤ MAX_HINTS) (hcnt : cnt = if isPair then 2 else 1)
    (h : place m first second isPair cnt ix = some m') :
    m'.len = m.len + cnt ∧ m'.edges.length = m.edges.length ∧
    m'.edges.take m'.len =
      (m.edges.take m.len).take ix ++ (if isPair then [first, second] else [first]) ++ (m.edges.take m.len).drop ix := by
  obtain ⟨hlen96, hle⟩ := hwf
  have hc1 : 1 ≤ cnt := by rw [hcnt]; split <;> omega
  unfold place at h
  simp only [] at h
  -- the list after making room
  generalize hmv : (if (ix != m.len) = true then shiftUp m.edges ix cnt (m.len - 1 - ix) else some m.edges) = moved at h
  cases moved with
  | none => cases h
  | some e1 =>
    simp only [] at h
    have he1 : e1.length = m.edges.length ∧
        ∀ k, e1[k]? = if ix + cnt ≤ k ∧ k < m.len + cnt then m.edges[k - cnt]? else m.edges[k]? := by
      by_cases hne : ix = m.len
      · have : (ix != m.len) = false := by simp [hne]
        rw [this] at hmv
        simp only [Bool.false_eq_true, if_false] at hmv
        have := Option.some.inj hmv; subst this
        refine ⟨rfl, ?_⟩
        intro k; rw [if_neg (by omega)]
      · have : (ix != m.len) = true := by simp [hne]
        rw [this] at hmv
        simp only [if_true] at hmv
        obtain ⟨a, b⟩ := shiftUp_spec ix cnt hc1 _ _ _ hmv
        refine ⟨a, ?_⟩
        intro k
        rw [b k]
        have hd : ix + (m.len - 1 - ix) + cnt = m.len - 1 + cnt := by omega
        by_cases hk : ix + cnt ≤ k ∧ k < m.len + cnt
        · rw [if_pos (by omega), if_pos hk]
        · rw [if_neg (by omega), if_neg hk]
    obtain ⟨hl1, hs1⟩ := he1
    have hlt1 : ix < e1.length := by unfold MAX_HINTS at *; omega
    unfold setAt at h
    rw [if_pos hlt1] at h
    simp only [] at h
    cases isPair with
    | false =>
      simp only [Bool.false_eq_true, if_false] at h hcnt
      have := Option.some.inj h; subst this
      subst hcnt
      refine ⟨rfl, by simp [hl1], ?_⟩
      simp only []
      apply List.ext_getElem?
      intro k
      simp only [List.getElem?_take, List.getElem?_append, List.length_take, List.length_cons, List.length_nil,
        List.getElem?_drop, List.getElem?_set, hl1]
      have hmin : min ix (min m.len m.edges.length) = ix := by omega
      simp only [hmin]
      by_cases hk : k < m.len + 1
      · rw [if_pos hk]
        by_cases h1 : k < ix
        · simp [h1, Nat.ne_of_gt h1, hs1 k, show ¬ (ix + 1 ≤ k ∧ k < m.len + 1) by omega, show k < m.len by omega]
        · by_cases h2 : k = ix
          · subst h2; simp [hlt1]
          · have h3 : ix + 1 ≤ k := by omega
            simp [h1, h2, Ne.symm h2, hs1 k, h3, hk, show ¬ (k < ix + 1) by omega,
              show ix + (k - (ix + 1)) = k - 1 by omega, show k - 1 < m.len by omega]
      · rw [if_neg hk]
        simp [show ¬ k < ix by omega, show ¬ (k < ix + 1) by omega, show ¬ (ix + (k - (ix + 1)) < m.len) by omega]
    | true =>
      simp only [if_true] at h hcnt
      have hlt2 : ix + 1 < (e1.set ix first).length := by simp only [List.length_set]; unfold MAX_HINTS at *; omega
      rw [if_pos hlt2] at h
      simp only [] at h
      have := Option.some.inj h; subst this
      subst hcnt
      refine ⟨rfl, by simp [hl1], ?_⟩
      simp only []
      apply List.ext_getElem?
      intro k
      simp only [List.getElem?_take, List.getElem?_append, List.length_take, List.length_cons, List.length_nil,
        List.getElem?_drop, List.getElem?_set, hl1, List.length_set]
      have hmin : min ix (min m.len m.edges.length) = ix := by omega
      simp only [hmin]
      simp only [List.length_set] at hlt2
      by_cases hk : k < m.len + 2
      · rw [if_pos hk]
        by_cases h1 : k < ix
        · simp [h1, Nat.ne_of_gt h1, show ix + 1 ≠ k by omega, hs1 k, show ¬ (ix + 2 ≤ k ∧ k < m.len + 2) by omega,
            show k < m.len by omega]
        · by_cases h2 : k = ix
          · subst h2; simp [hlt1]
          · by_cases h2b : k = ix + 1
            · subst h2b; simp [hl1] at hlt2 ⊢; simp [hlt2]
            · have h3 : ix + 2 ≤ k := by omega
              simp [h1, Ne.symm h2, Ne.symm h2b, hs1 k, h3, hk, show ¬ (k < ix + (1 + 1)) by omega,
                show ¬ (k - ix < 1 + 1) by omega,
                show ix + (k - (ix + (1 + 1))) = k - 2 by omega, show k - 2 < m.len by omega]
      · rw [if_neg hk]
        simp [show ¬ k < ix by omega, show ¬ (k < ix + (1 + 1)) by omega, show ¬ (k - ix < 1 + 1) by omega,
          show ¬ (ix + (k - (ix + (1 + 1))) < m.len) by omega]

end FontVerif.HintMap
