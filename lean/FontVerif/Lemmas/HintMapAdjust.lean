/-
C02 — the unit structure of the CFF hint map (single ghost edges and bottom / top pairs), what `insert` does to the
active edge list as a LIST, and why `adjust` / `transform` stay inside the 96-slot array.
-/
import FontVerif.Lemmas.HintMap
set_option linter.unusedVariables false
namespace FontVerif.HintMap

/-- the active edges form a sequence of UNITS: a single edge that is not flagged as part of a pair, or a pair-bottom
    edge immediately followed by its pair-top edge -/
inductive Units : List Hint → Prop
  | nil : Units []
  | single (h : Hint) (rest : List Hint) : h.isPair = false → Units rest → Units (h :: rest)
  | pair (b t : Hint) (rest : List Hint) : b.isPair = true → b.isPairTop = false → t.isPairTop = true → Units rest →
      Units (b :: t :: rest)

theorem isPairTop_isPair {h : Hint} (ht : h.isPairTop = true) : h.isPair = true := by
  unfold Hint.isPairTop at ht; unfold Hint.isPair; simp [ht]

theorem units_append {a b : List Hint} (ha : Units a) (hb : Units b) : Units (a ++ b) := by
  induction ha with
  | nil => exact hb
  | single h rest hp _ ih => exact Units.single h _ hp ih
  | pair b' t rest h1 h2 h3 _ ih => exact Units.pair b' t _ h1 h2 h3 ih

/-- a position whose edge is not a pair top (or the end) is a unit boundary -/
theorem units_split : ∀ (l : List Hint), Units l → ∀ (ix : Nat), ix ≤ l.length →
    (∀ e, l[ix]? = some e → e.isPairTop = false) → Units (l.take ix) ∧ Units (l.drop ix) := by
  intro l hu
  induction hu with
  | nil => intro ix _ _; simp; exact Units.nil
  | single h rest hp hr ih =>
    intro ix hix hnt
    cases ix with
    | zero => simp; exact ⟨Units.nil, Units.single h rest hp hr⟩
    | succ k =>
      have := ih k (by simp at hix; omega) (by intro e he; exact hnt e (by simpa using he))
      simp only [List.take_succ_cons, List.drop_succ_cons]
      exact ⟨Units.single h _ hp this.1, this.2⟩
  | pair b t rest h1 h2 h3 hr ih =>
    intro ix hix hnt
    cases ix with
    | zero => simp; exact ⟨Units.nil, Units.pair b t rest h1 h2 h3 hr⟩
    | succ k =>
      cases k with
      | zero =>
        -- between bottom and top: excluded, the edge there is a pair top
        have := hnt t (by simp)
        rw [h3] at this; cases this
      | succ k2 =>
        have := ih k2 (by simp at hix; omega) (by intro e he; exact hnt e (by simpa using he))
        simp only [List.take_succ_cons, List.drop_succ_cons]
        exact ⟨Units.pair b t _ h1 h2 h3 this.1, this.2⟩

/-- inside a unit list: an edge flagged as a pair is a bottom followed by its top, or a top preceded by its bottom -/
theorem units_head {h : Hint} {rest : List Hint} (hu : Units (h :: rest)) :
    (h.isPair = false ∧ Units rest) ∨
    (h.isPair = true ∧ ∃ t rest', rest = t :: rest' ∧ t.isPairTop = true ∧ Units rest') := by
  cases hu with
  | single _ _ hp hr => exact Or.inl ⟨hp, hr⟩
  | pair _ t rest' h1 h2 h3 hr => exact Or.inr ⟨h1, t, rest', rfl, h3, hr⟩

/-! ### what the make-room loop does to the list -/

theorem getAt_eq (l : List Hint) (i : Nat) : getAt l i = l[i]? := rfl

/-- `shiftUp` copies the block `ix ..= ix + d` up by `cnt` and leaves everything else alone -/
theorem shiftUp_spec (ix cnt : Nat) (hc : 1 ≤ cnt) :
    ∀ (d : Nat) (edges e : List Hint), shiftUp edges ix cnt d = some e →
      e.length = edges.length ∧
      ∀ k, e[k]? = if ix + cnt ≤ k ∧ k ≤ ix + d + cnt then edges[k - cnt]? else edges[k]? := by
  intro d
  induction d with
  | zero =>
    intro edges e h
    unfold shiftUp at h
    split at h
    · cases h
    · rename_i v hv
      unfold setAt at h
      split at h
      · have := Option.some.inj h; subst this
        refine ⟨by simp, ?_⟩
        intro k
        rw [getAt_eq] at hv
        by_cases hk : k = ix + cnt
        · subst hk
          rw [if_pos (by omega)]
          simp only [Nat.add_sub_cancel]
          rw [hv]
          rw [List.getElem?_set_self (by assumption)]
        · rw [if_neg (by omega)]
          rw [List.getElem?_set_ne (by omega)]
      · cases h
  | succ d ih =>
    intro edges e h
    unfold shiftUp at h
    split at h
    · cases h
    · rename_i v hv
      split at h
      · cases h
      · rename_i e1 hs
        unfold setAt at hs
        split at hs
        · rename_i hlt
          have := Option.some.inj hs; subst this
          obtain ⟨hl, hsp⟩ := ih _ _ h
          refine ⟨by rw [hl]; simp, ?_⟩
          intro k
          rw [hsp k]
          rw [getAt_eq] at hv
          by_cases hk : k = ix + (d + 1) + cnt
          · subst hk
            rw [if_neg (by omega), if_pos (by omega)]
            rw [List.getElem?_set_self (by assumption)]
            have : ix + (d + 1) + cnt - cnt = ix + (d + 1) := by omega
            rw [this, hv]
          · by_cases hr : ix + cnt ≤ k ∧ k ≤ ix + d + cnt
            · rw [if_pos hr, if_pos (by omega)]
              rw [List.getElem?_set_ne (by omega)]
            · rw [if_neg hr, if_neg (by omega)]
              rw [List.getElem?_set_ne (by omega)]
        · cases hs

theorem splice_get (A new : List Hint) (ix : Nat) (hix : ix ≤ A.length) (k : Nat) :
    (A.take ix ++ new ++ A.drop ix)[k]? =
      if k < ix then A[k]? else if k < ix + new.length then new[k - ix]? else A[k - new.length]? := by
  have hl : (A.take ix).length = ix := by simp [List.length_take]; omega
  rw [List.append_assoc, List.getElem?_append, hl]
  by_cases h1 : k < ix
  · rw [if_pos h1, if_pos h1, List.getElem?_take, if_pos h1]
  · rw [if_neg h1, if_neg h1, List.getElem?_append]
    by_cases h2 : k < ix + new.length
    · rw [if_pos (by omega), if_pos h2]
    · rw [if_neg (by omega), if_neg h2, List.getElem?_drop]
      congr 1; omega

/-- **`place` as a list operation**: the new active prefix is the old one with the new edge(s) spliced in at `ix` -/
theorem place_spec (m m' : Map) (first second : Hint) (isPair : Bool) (cnt ix : Nat) (hwf : WF m) (hix : ix ≤ m.len)
    (hroom : m.len + cnt ≤ MAX_HINTS) (hcnt : cnt = if isPair then 2 else 1)
    (h : place m first second isPair cnt ix = some m') :
    m'.len = m.len + cnt ∧ m'.edges.length = m.edges.length ∧
    m'.edges.take m'.len =
      (m.edges.take m.len).take ix ++ (if isPair then [first, second] else [first]) ++ (m.edges.take m.len).drop ix := by
  obtain ⟨hlen96, hle⟩ := hwf
  have hc1 : 1 ≤ cnt := by rw [hcnt]; split <;> omega
  unfold place at h
  simp only [] at h
  -- the list after making room
  generalize hmv : (if (ix != m.len) = true then shiftUp m.edges ix cnt (m.len - 1 - ix) else some m.edges) = moved at h
  cases moved with
  | none => cases h
  | some e1 =>
    simp only [] at h
    have he1 : e1.length = m.edges.length ∧
        ∀ k, e1[k]? = if ix + cnt ≤ k ∧ k < m.len + cnt then m.edges[k - cnt]? else m.edges[k]? := by
      by_cases hne : ix = m.len
      · have : (ix != m.len) = false := by simp [hne]
        rw [this] at hmv
        simp only [Bool.false_eq_true, if_false] at hmv
        have := Option.some.inj hmv; subst this
        refine ⟨rfl, ?_⟩
        intro k; rw [if_neg (by omega)]
      · have : (ix != m.len) = true := by simp [hne]
        rw [this] at hmv
        simp only [if_true] at hmv
        obtain ⟨a, b⟩ := shiftUp_spec ix cnt hc1 _ _ _ hmv
        refine ⟨a, ?_⟩
        intro k
        rw [b k]
        by_cases hk : ix + cnt ≤ k ∧ k < m.len + cnt
        · rw [if_pos (by omega), if_pos hk]
        · rw [if_neg (by omega), if_neg hk]
    obtain ⟨hl1, hs1⟩ := he1
    have hlt1 : ix < e1.length := by unfold MAX_HINTS at *; omega
    have hA : (m.edges.take m.len).length = m.len := by simp [List.length_take]; unfold MAX_HINTS at *; omega
    have hAget : ∀ k, (m.edges.take m.len)[k]? = if k < m.len then m.edges[k]? else none := by
      intro k; rw [List.getElem?_take]
    unfold setAt at h
    rw [if_pos hlt1] at h
    simp only [] at h
    cases isPair with
    | false =>
      simp only [Bool.false_eq_true, if_false] at h hcnt
      have := Option.some.inj h; subst this
      subst hcnt
      refine ⟨rfl, by simp [hl1], ?_⟩
      simp only [Bool.false_eq_true, if_false]
      apply List.ext_getElem?
      intro k
      rw [splice_get _ _ _ (by rw [hA]; exact hix), List.getElem?_take]
      simp only [List.length_cons, List.length_nil]
      by_cases hk : k < m.len + 1
      · rw [if_pos hk]
        by_cases h1 : k < ix
        · rw [if_pos h1, List.getElem?_set_ne (by omega), hs1 k, if_neg (by omega), hAget, if_pos (by omega)]
        · rw [if_neg h1]
          by_cases h2 : k = ix
          · subst h2
            rw [if_pos (by omega), List.getElem?_set_self hlt1]; simp
          · rw [if_neg (by omega), List.getElem?_set_ne (by omega), hs1 k, if_pos (by omega), hAget,
              if_pos (by omega)]
      · rw [if_neg hk, if_neg (by omega), if_neg (by omega), hAget, if_neg (by omega)]
    | true =>
      simp only [if_true] at h hcnt
      have hlt2 : ix + 1 < (e1.set ix first).length := by simp only [List.length_set]; unfold MAX_HINTS at *; omega
      rw [if_pos hlt2] at h
      simp only [] at h
      have := Option.some.inj h; subst this
      subst hcnt
      refine ⟨rfl, by simp [hl1], ?_⟩
      simp only [if_true]
      apply List.ext_getElem?
      intro k
      rw [splice_get _ _ _ (by rw [hA]; exact hix), List.getElem?_take]
      simp only [List.length_cons, List.length_nil]
      by_cases hk : k < m.len + 2
      · rw [if_pos hk]
        by_cases h1 : k < ix
        · rw [if_pos h1, List.getElem?_set_ne (by omega), List.getElem?_set_ne (by omega), hs1 k, if_neg (by omega),
            hAget, if_pos (by omega)]
        · rw [if_neg h1]
          by_cases h2 : k = ix
          · subst h2
            rw [if_pos (by omega), List.getElem?_set_ne (by omega), List.getElem?_set_self hlt1]; simp
          · by_cases h3 : k = ix + 1
            · subst h3
              rw [if_pos (by omega), List.getElem?_set_self hlt2]
              have : ix + 1 - ix = 1 := by omega
              rw [this]; rfl
            · rw [if_neg (by omega), List.getElem?_set_ne (by omega), List.getElem?_set_ne (by omega), hs1 k,
                if_pos (by omega), hAget, if_pos (by omega)]
      · rw [if_neg hk, if_neg (by omega), if_neg (by omega), hAget, if_neg (by omega)]

/-! ### `insert` keeps the unit structure -/

/-- the hints `build` hands to `insert` (`Hint::setup`, the em-box ghosts, the baseline ghost; `lock()` only adds
    LOCKED): a single edge that is not flagged as a pair edge, or a pair-bottom edge with its pair-top edge -/
def Shaped (bottom top : Hint) : Prop :=
  if (bottom.isValid && top.isValid) = true then
    bottom.isPair = true ∧ bottom.isPairTop = false ∧ top.isPairTop = true
  else (if (!bottom.isValid) = true then top else bottom).isPair = false

instance (bottom top : Hint) : Decidable (Shaped bottom top) := by unfold Shaped; infer_instance

theorem discard_false_not_top (m : Map) (first second : Hint) (isPair : Bool) (ix : Nat)
    (h : discard m first second isPair ix = some false) (hlt : ix < m.len) :
    ∀ e, getAt m.edges ix = some e → e.isPairTop = false := by
  intro e he
  unfold discard at h
  simp only [hlt, if_true, he] at h
  cases ht : e.isPairTop with
  | false => rfl
  | true => simp [ht] at h

theorem take_getElem? (l : List Hint) (n k : Nat) (hk : k < n) : (l.take n)[k]? = l[k]? := by
  rw [List.getElem?_take, if_pos hk]

/-- **`insert` keeps the unit structure** (for shaped hints) -/
theorem insert_units (m m' : Map) (bottom top : Hint) (hwf : WF m) (hu : Units (m.edges.take m.len))
    (hs : Shaped bottom top) (h : HintMap.insert m bottom top = some m') : Units (m'.edges.take m'.len) := by
  unfold HintMap.insert insertWith at h
  simp only [] at h
  unfold Shaped at hs
  generalize hp : (bottom.isValid && top.isValid) = isPair at h hs
  generalize hf : (if (!bottom.isValid) = true then top else bottom) = first at h hs
  split at h
  · have := Option.some.inj h; subst this; exact hu
  · generalize hcnt : (if isPair = true then 2 else 1) = cnt at h
    split at h
    · have := Option.some.inj h; subst this; exact hu
    · rename_i hfit
      have hroom : m.len + cnt ≤ MAX_HINTS := by
        simp only [wontFit, decide_eq_true_eq] at hfit; omega
      obtain ⟨ix, hix, _, hixle⟩ := findIx_ok m.edges m.len first.cs (by have := hwf.1; have := hwf.2; omega) m.len 0 (by omega)
      rw [hix] at h
      simp only [] at h
      split at h
      · cases h
      · have := Option.some.inj h; subst this; exact hu
      · rename_i hd
        obtain ⟨e1, e2, e3⟩ := place_spec m m' first top isPair cnt ix hwf hixle hroom hcnt.symm h
        rw [e3]
        -- the insertion index is a unit boundary
        have hb : ∀ e, (m.edges.take m.len)[ix]? = some e → e.isPairTop = false := by
          intro e he
          by_cases hlt : ix < m.len
          · rw [take_getElem? _ _ _ hlt] at he
            exact discard_false_not_top m first top isPair ix hd hlt e he
          · rw [List.getElem?_take, if_neg hlt] at he; cases he
        have hlenA : (m.edges.take m.len).length = m.len := by
          simp [List.length_take]; have := hwf.1; have := hwf.2; omega
        obtain ⟨u1, u2⟩ := units_split _ hu ix (by rw [hlenA]; exact hixle) hb
        refine units_append (units_append u1 ?_) u2
        cases isPair with
        | true =>
          simp only [if_true] at hs ⊢
          exact Units.pair _ _ _ (by rw [← hf]; simp at hp; simp [hp.1]; exact hs.1) (by rw [← hf]; simp at hp; simp [hp.1]; exact hs.2.1) hs.2.2 Units.nil
        | false =>
          simp only [Bool.false_eq_true, if_false] at hs ⊢
          exact Units.single _ _ hs Units.nil

/-! ### `adjust` stays inside the array -/

/-- what is known about a saved index: the edge above exists, and a pair edge is never at index 0 -/
def SavedOk (edges : List Hint) (len : Nat) (saved : List Nat) : Prop :=
  ∀ j ∈ saved, j + 1 < len ∧ (∀ e, edges[j]? = some e → e.isPair = true → 1 ≤ j)

theorem adjustUnit_ok (edges : List Hint) (len : Nat) (ora : Nat → Nat → Bool) (i j : Nat) (saved : List Nat)
    (hlen : len ≤ edges.length) (hl96 : len ≤ MAX_HINTS) (hij : i ≤ j) (hj : j < len) (hs : saved.length ≤ i) :
    ∃ saved', adjustUnit edges len ora i j saved = some saved' ∧
      (saved' = saved ∨ (saved' = j :: saved ∧ j + 1 < len)) := by
  unfold adjustUnit
  obtain ⟨vj, hvj⟩ := getAt_ok (l := edges) (i := j) (by omega)
  rw [hvj]
  simp only []
  -- `up`
  have hup : ∃ b, (if j ≥ len - 1 then some true else (getAt edges (j + 1)).map (fun _ => ora i 0)) = some b := by
    split
    · exact ⟨true, rfl⟩
    · obtain ⟨v, hv⟩ := getAt_ok (l := edges) (i := j + 1) (by omega)
      rw [hv]; exact ⟨_, rfl⟩
  obtain ⟨up, hup⟩ := hup
  rw [hup]
  simp only []
  have hdown : ∃ b, (if i = 0 then some true else (getAt edges (i - 1)).map (fun _ => ora i 1)) = some b := by
    split
    · exact ⟨true, rfl⟩
    · obtain ⟨v, hv⟩ := getAt_ok (l := edges) (i := i - 1) (by omega)
      rw [hv]; exact ⟨_, rfl⟩
  obtain ⟨down, hdown⟩ := hdown
  rw [hdown]
  simp only []
  by_cases hsv : ((if up = true then false else if down = true then ora i 2 else true) = true ∧ j < len - 1)
  · rw [if_pos hsv]
    obtain ⟨v, hv⟩ := getAt_ok (l := edges) (i := j + 1) (by omega)
    rw [hv]
    simp only []
    by_cases hl : (!v.isLocked) = true
    · rw [if_pos hl, if_pos (by omega)]
      exact ⟨_, rfl, Or.inr ⟨rfl, by omega⟩⟩
    · rw [if_neg hl]
      exact ⟨_, rfl, Or.inl rfl⟩
  · rw [if_neg hsv]
    exact ⟨_, rfl, Or.inl rfl⟩

theorem drop_cons_get (A : List Hint) (i : Nat) (h : Hint) (rest : List Hint) (hd : A.drop i = h :: rest) :
    A[i]? = some h ∧ A.drop (i + 1) = rest ∧ i < A.length := by
  have h0 : (A.drop i)[0]? = some h := by rw [hd]; rfl
  rw [List.getElem?_drop] at h0
  have hlt : i < A.length := by
    by_cases hlt : i < A.length
    · exact hlt
    · rw [List.drop_eq_nil_of_le (by omega)] at hd; cases hd
  have h1 : A[i]? = some h := by simpa using h0
  have h2 : A.drop (i + 1) = (A.drop i).drop 1 := by rw [List.drop_drop]
  exact ⟨h1, by rw [h2, hd]; rfl, hlt⟩

theorem adjustPass1_ok (edges : List Hint) (len : Nat) (ora : Nat → Nat → Bool) (hlen : len ≤ edges.length)
    (hl96 : len ≤ MAX_HINTS) :
    ∀ (fuel i : Nat) (saved : List Nat), i ≤ len → Units ((edges.take len).drop i) → saved.length ≤ i →
      SavedOk edges len saved →
      ∃ saved', adjustPass1 edges len ora fuel i saved = some saved' ∧ SavedOk edges len saved' := by
  intro fuel
  induction fuel with
  | zero => intro i saved _ _ _ hs; exact ⟨saved, rfl, hs⟩
  | succ fuel ih =>
    intro i saved hi hu hsl hs
    unfold adjustPass1
    by_cases hlt : i < len
    rotate_left
    · rw [if_neg hlt]; exact ⟨saved, rfl, hs⟩
    rw [if_pos hlt]
    have hAlen : (edges.take len).length = len := by simp [List.length_take]; omega
    -- the unit starting at `i`
    cases hdr : (edges.take len).drop i with
    | nil =>
      have : ((edges.take len).drop i).length = len - i := by simp [List.length_drop, hAlen]
      rw [hdr] at this; simp at this; omega
    | cons hd rest =>
      obtain ⟨g1, g2, g3⟩ := drop_cons_get _ _ _ _ hdr
      rw [take_getElem? _ _ _ hlt] at g1
      have hget : getAt edges i = some hd := g1
      rw [hget]
      simp only []
      rw [hdr] at hu
      rcases units_head hu with ⟨hnp, hur⟩ | ⟨hp, t, rest', hrest, htop, hur⟩
      · -- a single edge: j = i
        simp only [hnp, Bool.false_eq_true, if_false]
        have hunit : ∃ saved1, (if (!hd.isLocked) = true then adjustUnit edges len ora i i saved else some saved) = some saved1 ∧
            SavedOk edges len saved1 ∧ saved1.length ≤ i + 1 := by
          split
          · obtain ⟨s1, h1, h2⟩ := adjustUnit_ok edges len ora i i saved hlen hl96 (Nat.le_refl _) hlt hsl
            refine ⟨s1, h1, ?_, ?_⟩
            · rcases h2 with rfl | ⟨rfl, hj1⟩
              · exact hs
              · intro j hj
                rcases List.mem_cons.mp hj with rfl | hj
                · refine ⟨hj1, ?_⟩
                  intro e he hpe
                  have : e = hd := by
                    have : edges[j]? = some hd := g1
                    rw [this] at he; exact (Option.some.inj he).symm
                  rw [this, hnp] at hpe; cases hpe
                · exact hs j hj
            · rcases h2 with rfl | ⟨rfl, _⟩
              · omega
              · simp; omega
          · exact ⟨saved, rfl, hs, by omega⟩
        obtain ⟨saved1, h1, hs1, hl1⟩ := hunit
        rw [h1]
        simp only []
        have hprev : ∃ u, (if i > 0 then (getAt edges (i - 1)).map (fun _ => ()) else some ()) = some u := by
          split
          · obtain ⟨v, hv⟩ := getAt_ok (l := edges) (i := i - 1) (by omega)
            rw [hv]; exact ⟨_, rfl⟩
          · exact ⟨_, rfl⟩
        obtain ⟨u, hprev⟩ := hprev
        rw [hprev]
        simp only []
        exact ih (i + 1) saved1 (by omega) (by rw [g2]; exact hur) hl1 hs1
      · -- a pair: j = i + 1, and the top edge exists
        subst hrest
        simp only [hp, if_true]
        have g2' : (edges.take len).drop (i + 1) = t :: rest' := g2
        obtain ⟨k1, k2, k3⟩ := drop_cons_get _ _ _ _ g2'
        rw [hAlen] at k3
        rw [take_getElem? _ _ _ k3] at k1
        have hunit : ∃ saved1, (if (!hd.isLocked) = true then adjustUnit edges len ora i (i + 1) saved else some saved) = some saved1 ∧
            SavedOk edges len saved1 ∧ saved1.length ≤ i + 2 := by
          split
          · obtain ⟨s1, h1, h2⟩ := adjustUnit_ok edges len ora i (i + 1) saved hlen hl96 (by omega) k3 hsl
            refine ⟨s1, h1, ?_, ?_⟩
            · rcases h2 with rfl | ⟨rfl, hj1⟩
              · exact hs
              · intro j hj
                rcases List.mem_cons.mp hj with rfl | hj
                · exact ⟨hj1, fun _ _ _ => by omega⟩
                · exact hs j hj
            · rcases h2 with rfl | ⟨rfl, _⟩
              · omega
              · simp; omega
          · exact ⟨saved, rfl, hs, by omega⟩
        obtain ⟨saved1, h1, hs1, hl1⟩ := hunit
        rw [h1]
        simp only []
        have hprev : ∃ u, (if i > 0 then (getAt edges (i - 1)).map (fun _ => ()) else some ()) = some u := by
          split
          · obtain ⟨v, hv⟩ := getAt_ok (l := edges) (i := i - 1) (by omega)
            rw [hv]; exact ⟨_, rfl⟩
          · exact ⟨_, rfl⟩
        obtain ⟨u, hprev⟩ := hprev
        rw [hprev]
        simp only []
        have hgj : getAt edges (i + 1) = some t := k1
        rw [hgj]
        simp only []
        exact ih (i + 2) saved1 (by omega) (by rw [k2]; exact hur) hl1 hs1

theorem adjustPass2_ok (edges : List Hint) (len : Nat) (hlen : len ≤ edges.length) :
    ∀ (saved : List Nat), SavedOk edges len saved → adjustPass2 edges saved = some () := by
  intro saved
  induction saved with
  | nil => intro _; rfl
  | cons j rest ih =>
    intro hs
    have hj := hs j (by simp)
    have hrest : SavedOk edges len rest := fun k hk => hs k (by simp [hk])
    unfold adjustPass2
    obtain ⟨v1, hv1⟩ := getAt_ok (l := edges) (i := j + 1) (by omega)
    obtain ⟨v0, hv0⟩ := getAt_ok (l := edges) (i := j) (by omega)
    rw [hv1, hv0]
    simp only []
    split
    · rename_i hp
      have := hj.2 v0 hv0 hp
      rw [if_neg (by omega)]
      obtain ⟨v2, hv2⟩ := getAt_ok (l := edges) (i := j - 1) (by omega)
      rw [hv2]
      exact ih hrest
    · exact ih hrest

/-! ### the two scans of `transform` -/

theorem transformUp_ok (edges : List Hint) (limit : Nat) (ge : Nat → Bool) (hl : limit < edges.length) :
    ∀ (fuel i : Nat), i ≤ limit → ∃ r, transformUp edges limit ge fuel i = some r ∧ r ≤ limit := by
  intro fuel
  induction fuel with
  | zero => intro i hi; exact ⟨i, rfl, hi⟩
  | succ f ih =>
    intro i hi
    unfold transformUp
    split
    · obtain ⟨v, hv⟩ := getAt_ok (l := edges) (i := i + 1) (by omega)
      rw [hv]
      simp only []
      split
      · exact ih (i + 1) (by omega)
      · exact ⟨i, rfl, hi⟩
    · exact ⟨i, rfl, hi⟩

theorem transformDown_ok (edges : List Hint) (lt : Nat → Bool) :
    ∀ (fuel i : Nat), i < edges.length → ∃ r, transformDown edges lt fuel i = some r ∧ r ≤ i := by
  intro fuel
  induction fuel with
  | zero => intro i hi; exact ⟨i, rfl, Nat.le_refl _⟩
  | succ f ih =>
    intro i hi
    unfold transformDown
    split
    · obtain ⟨v, hv⟩ := getAt_ok (l := edges) (i := i) hi
      rw [hv]
      simp only []
      split
      · obtain ⟨r, hr, hle⟩ := ih (i - 1) (by omega)
        exact ⟨r, hr, by omega⟩
      · exact ⟨i, rfl, Nat.le_refl _⟩
    · exact ⟨i, rfl, Nat.le_refl _⟩

end FontVerif.HintMap
