/-
Helper lemmas for C16: the Coverage / ClassDef tables the builders emit are never larger than the
split loop's estimates.
-/
import FontVerif.Lemmas.LayoutPpf2Dev
import FontVerif.Lemmas.LayoutBuilder
set_option linter.unusedVariables false
set_option linter.unusedSimpArgs false
namespace FontVerif.Layout

theorem nodup_subset_length_le : ∀ (l₁ l₂ : List Nat), l₁.Nodup → (∀ x ∈ l₁, x ∈ l₂) →
    l₁.length ≤ l₂.length := by
  intro l₁
  induction l₁ with
  | nil => intro l₂ _ _; exact Nat.zero_le _
  | cons a t ih =>
    intro l₂ hnd hsub
    rw [List.nodup_cons] at hnd
    have ha : a ∈ l₂ := hsub a (List.mem_cons_self ..)
    have := ih (l₂.erase a) hnd.2 (fun x hx => by
      have hne : x ≠ a := fun e => hnd.1 (e ▸ hx)
      exact (List.mem_erase_of_ne hne).mpr (hsub x (List.mem_cons_of_mem _ hx)))
    rw [List.length_erase_of_mem ha] at this
    have hpos : 0 < l₂.length := List.length_pos_of_mem ha
    simp only [List.length_cons]
    omega

theorem sum_two_len {α : Type} (f : α → List Nat) : ∀ (l : List α),
    (l.map (fun c => 2 * (f c).length)).sum = 2 * (l.flatMap f).length := by
  intro l
  induction l with
  | nil => rfl
  | cons a l ih =>
    simp only [List.map_cons, List.sum_cons, List.flatMap_cons, List.length_append, ih]
    omega

/-- `CoverageTableBuilder::build` emits the smaller of the two formats: never more than
4 + 2·(number of distinct glyphs) -/
theorem buildCoverage_byteSize_le (gs : List Nat) :
    (buildCoverage gs).byteSize ≤ 4 + 2 * (sortDedup gs).length := by
  unfold buildCoverage buildCoverageSorted shouldChooseFormat2
  split
  · rename_i h
    simp only [decide_eq_true_eq] at h
    simp only [Coverage.byteSize]
    omega
  · simp [Coverage.byteSize]

/-- `ClassDefBuilderImpl::build` emits format 1 only when it is smaller than format 2: never more
than 4 + 6·(number of class ranges) -/
theorem buildClassDefItems_byteSize_le (items : List (Nat × Nat)) :
    (buildClassDefItems items).byteSize ≤ 4 + 6 * (iterClassRanges items).length := by
  unfold buildClassDefItems
  split
  · rename_i h
    unfold preferFormat1 at h
    split at h
    · rename_i f l hf hl
      simp only [decide_eq_true_eq] at h
      simp only [hf, hl, ClassDef.byteSize, List.length_map, List.length_range']
      omega
    · cases h
  · simp [ClassDef.byteSize]

end FontVerif.Layout
