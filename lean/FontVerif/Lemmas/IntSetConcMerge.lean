/- C14 / concrete BitSet: the page-wise merge on concrete views (`cmerge`), its relation to the
abstract `processPages`, and the list facts the in-place `process` proof needs. -/
import FontVerif.Lemmas.IntSetConcInv
set_option linter.unusedVariables false
set_option linter.unusedSimpArgs false
namespace FontVerif.IntSet

abbrev CView := List (Nat × CPage)

/-- functional content of `process` on concrete views (mirror of `processPages`) -/
def cmerge (cop : CPage → CPage → CPage) (ptl ptr : Bool) : CView → CView → CView
  | [], bs => if ptr then bs else []
  | a :: as, [] => if ptl then a :: as else []
  | (ka, pa) :: as, (kb, pb) :: bs =>
    if ka = kb then (ka, cop pa pb) :: cmerge cop ptl ptr as bs
    else if ka < kb then
      (if ptl then [(ka, pa)] else []) ++ cmerge cop ptl ptr as ((kb, pb) :: bs)
    else
      (if ptr then [(kb, pb)] else []) ++ cmerge cop ptl ptr ((ka, pa) :: as) bs
termination_by as bs => as.length + bs.length
decreasing_by all_goals simp_wf <;> omega

def absView (v : CView) : Pages := v.map (fun kp => (kp.1, kp.2.abs))

theorem CBitSet.abs_pages (s : CBitSet) : s.abs.pages = absView (cview s.pageMap s.pages) := rfl

theorem cmerge_nil_right (cop : CPage → CPage → CPage) (ptl ptr : Bool) (as : CView) :
    cmerge cop ptl ptr as [] = if ptl then as else [] := by
  cases as <;> simp [cmerge]

theorem cmerge_nil_left (cop : CPage → CPage → CPage) (ptl ptr : Bool) (bs : CView) :
    cmerge cop ptl ptr [] bs = if ptr then bs else [] := by
  simp [cmerge]

/-- `cmerge` refines `processPages` -/
theorem absView_cmerge {cop op} (hr : PageOpRefines cop op) (ptl ptr : Bool) (as bs : CView)
    (ha : ∀ kp ∈ as, CPageOk kp.2) (hb : ∀ kp ∈ bs, CPageOk kp.2) :
    absView (cmerge cop ptl ptr as bs) = processPages op ptl ptr (absView as) (absView bs) := by
  fun_induction cmerge cop ptl ptr as bs with
  | case1 bs hp => simp [absView, processPages, hp]
  | case2 bs hp => simp [absView, processPages, hp]
  | case3 a as hp => simp [absView, processPages, hp]
  | case4 a as hp => simp [absView, processPages, hp]
  | case5 pa as kb pb bs ih =>
    have h1 := hr.abs pa pb (ha (kb, pa) (by simp)) (hb (kb, pb) (by simp))
    have := ih (fun kp h => ha kp (by simp [h])) (fun kp h => hb kp (by simp [h]))
    simp only [absView, List.map_cons] at this ⊢
    rw [processPages]
    simp [this, h1]
  | case6 ka pa as kb pb bs hne hlt ih =>
    have := ih (fun kp h => ha kp (by simp [h])) hb
    simp only [absView, List.map_cons, List.map_append] at this ⊢
    rw [processPages]
    simp only [hne, hlt, if_true, if_false]
    rw [← this]
    cases ptl <;> simp
  | case7 ka pa as kb pb bs hne hlt ih =>
    have := ih ha (fun kp h => hb kp (by simp [h]))
    simp only [absView, List.map_cons, List.map_append] at this ⊢
    rw [processPages]
    simp only [hne, hlt, if_true, if_false]
    rw [← this]
    cases ptr <;> simp

/-- every page of the merge is a page of one side or `cop` of two well-formed pages -/
theorem cmerge_ok {cop op} (hr : PageOpRefines cop op) (ptl ptr : Bool) (as bs : CView)
    (ha : ∀ kp ∈ as, CPageOk kp.2) (hb : ∀ kp ∈ bs, CPageOk kp.2) :
    ∀ kp ∈ cmerge cop ptl ptr as bs, CPageOk kp.2 := by
  fun_induction cmerge cop ptl ptr as bs with
  | case1 bs hp => exact hb
  | case2 bs hp => simp
  | case3 a as hp => exact ha
  | case4 a as hp => simp
  | case5 pa as kb pb bs ih =>
    intro kp hkp
    simp only [List.mem_cons] at hkp
    rcases hkp with rfl | hkp
    · exact hr.ok pa pb (ha (kb, pa) (by simp)) (hb (kb, pb) (by simp))
    · exact ih (fun kp h => ha kp (by simp [h])) (fun kp h => hb kp (by simp [h])) kp hkp
  | case6 ka pa as kb pb bs hne hlt ih =>
    intro kp hkp
    simp only [List.mem_append] at hkp
    rcases hkp with hkp | hkp
    · cases ptl <;> simp at hkp
      subst hkp; exact ha _ (by simp)
    · exact ih (fun kp h => ha kp (by simp [h])) hb kp hkp
  | case7 ka pa as kb pb bs hne hlt ih =>
    intro kp hkp
    simp only [List.mem_append] at hkp
    rcases hkp with hkp | hkp
    · cases ptr <;> simp at hkp
      subst hkp; exact hb _ (by simp)
    · exact ih ha (fun kp h => hb kp (by simp [h])) kp hkp

def KLt (xs ys : CView) : Prop := ∀ x ∈ xs, ∀ y ∈ ys, x.1 < y.1

/-- right prefix smaller than everything on the left: it is emitted (or dropped) first -/
theorem cmerge_right_prefix (cop : CPage → CPage → CPage) (ptl ptr : Bool) (sa pb sb : CView)
    (h : KLt pb sa) :
    cmerge cop ptl ptr sa (pb ++ sb) = (if ptr then pb else []) ++ cmerge cop ptl ptr sa sb := by
  induction pb with
  | nil => cases ptr <;> simp
  | cons q pb ih =>
    have ih' := ih (fun x hx y hy => h x (by simp [hx]) y hy)
    cases sa with
    | nil =>
      rw [cmerge_nil_left, cmerge_nil_left]
      cases ptr <;> simp
    | cons a sa =>
      obtain ⟨ka, pa⟩ := a
      obtain ⟨kq, pq⟩ := q
      have hlt : kq < ka := h (kq, pq) (by simp) (ka, pa) (by simp)
      rw [List.cons_append, cmerge]
      have h1 : ¬ ka = kq := by omega
      have h2 : ¬ ka < kq := by omega
      simp only [h1, h2, if_false]
      rw [ih']
      cases ptr <;> simp

theorem cmerge_left_prefix (cop : CPage → CPage → CPage) (ptl ptr : Bool) (pa sa sb : CView)
    (h : KLt pa sb) :
    cmerge cop ptl ptr (pa ++ sa) sb = (if ptl then pa else []) ++ cmerge cop ptl ptr sa sb := by
  induction pa with
  | nil => cases ptl <;> simp
  | cons q pa ih =>
    have ih' := ih (fun x hx y hy => h x (by simp [hx]) y hy)
    cases sb with
    | nil =>
      rw [cmerge_nil_right, cmerge_nil_right]
      cases ptl <;> simp
    | cons b sb =>
      obtain ⟨kb, pb⟩ := b
      obtain ⟨kq, pq⟩ := q
      have hlt : kq < kb := h (kq, pq) (by simp) (kb, pb) (by simp)
      rw [List.cons_append, cmerge]
      have h1 : ¬ kq = kb := by omega
      simp only [h1, hlt, if_true, if_false]
      rw [ih']
      cases ptl <;> simp

/-- the merge of two lists that split into (everything smaller) ++ (everything larger) is the
concatenation of the merges -/
theorem cmerge_append (cop : CPage → CPage → CPage) (ptl ptr : Bool) (pa pb sa sb : CView)
    (h1 : KLt pa sa) (h2 : KLt pa sb) (h3 : KLt pb sa) (h4 : KLt pb sb) :
    cmerge cop ptl ptr (pa ++ sa) (pb ++ sb) =
      cmerge cop ptl ptr pa pb ++ cmerge cop ptl ptr sa sb := by
  fun_induction cmerge cop ptl ptr pa pb with
  | case1 pb hp =>
    rw [List.nil_append, cmerge_right_prefix _ _ _ _ _ _ h3]; simp [hp]
  | case2 pb hp =>
    rw [List.nil_append, cmerge_right_prefix _ _ _ _ _ _ h3]; simp [hp]
  | case3 a as hp =>
    have := cmerge_left_prefix cop ptl ptr (a :: as) sa sb h2
    rw [List.nil_append, this]; simp [hp]
  | case4 a as hp =>
    have := cmerge_left_prefix cop ptl ptr (a :: as) sa sb h2
    rw [List.nil_append, this]; simp [hp]
  | case5 pa as kb pb bs ih =>
    rw [List.cons_append, List.cons_append, cmerge]
    simp only [if_true, List.cons_append]
    rw [ih (fun x hx => h1 x (by simp [hx])) (fun x hx => h2 x (by simp [hx]))
      (fun x hx => h3 x (by simp [hx])) (fun x hx => h4 x (by simp [hx]))]
  | case6 ka pa as kb pb bs hne hlt ih =>
    rw [List.cons_append, List.cons_append, cmerge]
    simp only [hne, hlt, if_true, if_false]
    have := ih (fun x hx => h1 x (by simp [hx])) (fun x hx => h2 x (by simp [hx])) h3 h4
    rw [List.cons_append] at this
    rw [this, List.append_assoc]
  | case7 ka pa as kb pb bs hne hlt ih =>
    rw [List.cons_append, List.cons_append, cmerge]
    simp only [hne, hlt, if_true, if_false]
    have := ih h1 h2 (fun x hx => h3 x (by simp [hx])) (fun x hx => h4 x (by simp [hx]))
    rw [List.cons_append] at this
    rw [this, List.append_assoc]

/-- lower bound: every left page produces an output page when the left side is passed through
or every left major also occurs on the right -/
theorem cmerge_length_ge (cop : CPage → CPage → CPage) (ptl ptr : Bool) (as bs : CView)
    (hs : (as.map (·.1)).Pairwise (· < ·)) (hsb : (bs.map (·.1)).Pairwise (· < ·))
    (h : ptl = true ∨ ∀ x ∈ as, ∃ y ∈ bs, x.1 = y.1) :
    as.length ≤ (cmerge cop ptl ptr as bs).length := by
  fun_induction cmerge cop ptl ptr as bs with
  | case1 bs hp => simp
  | case2 bs hp => simp
  | case3 a as hp => simp
  | case4 a as hp =>
    rcases h with h | h
    · simp [h] at hp
    · obtain ⟨y, hy, _⟩ := h a (by simp)
      simp at hy
  | case5 pa as kb pb bs ih =>
    simp only [List.length_cons]
    have hs' := hs
    have hsb' := hsb
    simp only [List.map_cons, List.pairwise_cons] at hs' hsb'
    have := ih hs'.2 hsb'.2 (by
      rcases h with h | h
      · exact Or.inl h
      · right
        intro x hx
        obtain ⟨y, hy, hxy⟩ := h x (by simp [hx])
        simp only [List.mem_cons] at hy
        rcases hy with rfl | hy
        · have := hs'.1 x.1 (List.mem_map_of_mem hx)
          simp at hxy; omega
        · exact ⟨y, hy, hxy⟩)
    omega
  | case6 ka pa as kb pb bs hne hlt ih =>
    have hs' := hs
    have hsb' := hsb
    simp only [List.map_cons, List.pairwise_cons] at hs' hsb'
    rcases h with h | h
    · subst h
      have := ih hs'.2 hsb (Or.inl rfl)
      simp; omega
    · exfalso
      obtain ⟨y, hy, hxy⟩ := h (ka, pa) (by simp)
      simp only [List.mem_cons] at hy
      rcases hy with rfl | hy
      · simp at hxy; omega
      · have := hsb'.1 y.1 (List.mem_map_of_mem hy)
        simp at hxy; omega
  | case7 ka pa as kb pb bs hne hlt ih =>
    have hs' := hs
    have hsb' := hsb
    simp only [List.map_cons, List.pairwise_cons] at hs' hsb'
    have := ih hs hsb'.2 (by
      rcases h with h | h
      · exact Or.inl h
      · right
        intro x hx
        obtain ⟨y, hy, hxy⟩ := h x hx
        simp only [List.mem_cons] at hy
        rcases hy with rfl | hy
        · exfalso
          simp only [List.mem_cons] at hx
          rcases hx with rfl | hx
          · simp at hxy; omega
          · have := hs'.1 x.1 (List.mem_map_of_mem hx)
            simp at hxy; omega
        · exact ⟨y, hy, hxy⟩)
    simp only [List.length_append]
    omega

end FontVerif.IntSet
