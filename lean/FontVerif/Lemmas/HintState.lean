/- helper lemmas about Model/HintState.lean -/
import FontVerif.Model.HintState
namespace FontVerif.HintState

/-- the array the interpreter currently sees -/
def Cow.view (c : Cow) : List Int := if c.useMut then c.dataMut else c.data

theorem cow_step_view (c : Cow) (op : CowOp) :
    (c.step op).2 = (arrStep c.view op).2 ∧ (c.step op).1.view = (arrStep c.view op).1 ∧
    (c.step op).1.data = c.data := by
  cases op with
  | get i => cases hu : c.useMut <;> simp [Cow.step, arrStep, Cow.get, Cow.view, hu]
  | len => cases hu : c.useMut <;> simp [Cow.step, arrStep, Cow.len, Cow.view, hu]
  | set i v =>
    cases hu : c.useMut
    · simp only [Cow.step, Cow.set, arrStep, Cow.view, hu, Bool.not_false, if_true]
      by_cases hi : i < c.data.length <;> simp [hi]
    · simp only [Cow.step, Cow.set, arrStep, Cow.view, hu, Bool.not_true]
      by_cases hi : i < c.dataMut.length <;> simp [hi, hu]

theorem cow_run_view : ∀ (ops : List CowOp) (c : Cow), c.run ops = arrRun c.view ops := by
  intro ops
  induction ops with
  | nil => intro c; rfl
  | cons op ops ih =>
    intro c
    have h := cow_step_view c op
    simp only [Cow.run, arrRun]
    rw [h.1, ih, h.2.1]

theorem resize_length {α : Type} (l : List α) (n : Nat) (d : α) : (resize l n d).length = n := by
  simp [resize]; omega

theorem resetDefs_resize (l : List Defn) (n : Nat) : resetDefs (resize l n none) = List.replicate n none := by
  unfold resetDefs
  apply List.ext_getElem
  · simp [resize_length]
  · intro i h1 h2; simp

end FontVerif.HintState
