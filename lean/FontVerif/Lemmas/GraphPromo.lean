/-
Helper lemmas for C05 (Model/Graph.lean): extension promotion (`actually_promote_subtables`) — what
the promoted graph looks like relative to the graph before promotion, for ANY selection.
-/
import FontVerif.Model.Graph
import FontVerif.Lemmas.GraphIso3
set_option linter.unusedVariables false
set_option linter.unusedSimpArgs false
namespace FontVerif.Graph
open FontVerif

theorem obj_addObject (g : Graph) (id : Nat) (o : Obj) (x : Nat) :
    (addObject g id o).obj x = if id = x then o else g.obj x :=
  obj_insert g (addObject g id o) id o rfl x

theorem node_addObject (g : Graph) (id : Nat) (o : Obj) (x : Nat) :
    (addObject g id o).node x = if id = x then Node.new o.size else g.node x :=
  node_insert g (addObject g id o) id (Node.new o.size) rfl x

theorem promoteLink_none (raw : Nat) (links : List Link) : links.foldl (promoteLink raw) none = none := by
  induction links with
  | nil => rfl
  | cons l rest ih => simpa [List.foldl_cons, promoteLink] using ih

/-- the `for subtable_ref in &mut lookup.offsets` loop: one fresh id per link, an extension object
behind each, everything else untouched -/
theorem promoteFold_spec (raw : Nat) (links : List Link) (ls : List Link) (g : Graph) (fresh : List Nat)
    (ls' : List Link) (g' : Graph) (fresh' : List Nat) (hnd : fresh.Nodup)
    (h : links.foldl (promoteLink raw) (some (ls, g, fresh)) = some (ls', g', fresh')) :
    ∃ new, ls' = ls ++ new ∧ fresh' <:+ fresh ∧
      (∀ x, (x ∉ fresh ∨ x ∈ fresh') → g'.obj x = g.obj x ∧ g'.node x = g.node x ∧
        g'.objects.find? x = g.objects.find? x) ∧
      new.map (fun l' => (l'.pos, l'.width, l'.adj, g'.obj l'.target)) =
        links.map (fun l => (l.pos, l.width, l.adj, makeExtension raw l.target)) ∧
      (∀ l' ∈ new, l'.target ∈ fresh ∧ l'.target ∉ fresh') ∧
      (∀ x, x ∈ fresh → x ∉ fresh' → g'.node x = Node.new 8 ∧ ∃ t, g'.obj x = makeExtension raw t ∧ ∃ l ∈ links, l.target = t) ∧
      g'.root = g.root := by
  induction links generalizing ls g fresh with
  | nil =>
    simp only [List.foldl_nil, Option.some.injEq, Prod.mk.injEq] at h
    obtain ⟨rfl, rfl, rfl⟩ := h
    exact ⟨[], by simp, List.suffix_refl _, fun x _ => ⟨rfl, rfl, rfl⟩, rfl, by simp, fun x h1 h2 => absurd h1 h2, rfl⟩
  | cons l rest ih =>
    simp only [List.foldl_cons] at h
    cases fresh with
    | nil =>
      simp only [promoteLink] at h
      rw [promoteLink_none] at h
      simp at h
    | cons e fr1 =>
      simp only [promoteLink] at h
      rw [List.nodup_cons] at hnd
      obtain ⟨new, hls, hsuf, hframe, hmap, hnew, hext, hroot⟩ := ih _ _ fr1 hnd.2 h
      have he' : e ∉ fresh' := fun hm => hnd.1 (hsuf.subset hm)
      have hge : g'.obj e = makeExtension raw l.target := by
        rw [(hframe e (Or.inl hnd.1)).1, obj_addObject]; simp
      refine ⟨{ l with target := e } :: new, by rw [hls]; simp, hsuf.trans (List.suffix_cons _ _), ?_, ?_, ?_, ?_, hroot⟩
      · intro x hx
        have hx1 : x ∉ fr1 ∨ x ∈ fresh' := by
          rcases hx with hx | hx
          · left; exact fun hm => hx (List.mem_cons_of_mem _ hm)
          · right; exact hx
        have hne : e ≠ x := by
          rintro rfl
          rcases hx with hx | hx
          · exact hx List.mem_cons_self
          · exact he' hx
        obtain ⟨f1, f2, f3⟩ := hframe x hx1
        refine ⟨?_, ?_, ?_⟩
        · rw [f1, obj_addObject, if_neg hne]
        · rw [f2, node_addObject, if_neg hne]
        · rw [f3]
          show (g.objects.insert e _).find? x = _
          rw [Map.find?_insert, if_neg hne]
      · simp only [List.map_cons, List.cons.injEq]
        exact ⟨by rw [hge], hmap⟩
      · intro l' hl'
        rcases List.mem_cons.mp hl' with rfl | hl'
        · exact ⟨List.mem_cons_self, he'⟩
        · exact ⟨List.mem_cons_of_mem _ (hnew l' hl').1, (hnew l' hl').2⟩
      · intro x hx hx'
        rcases List.mem_cons.mp hx with rfl | hx
        · refine ⟨?_, l.target, hge, l, List.mem_cons_self, rfl⟩
          rw [(hframe x (Or.inl hnd.1)).2.1, node_addObject]; simp [makeExtension]
        · obtain ⟨n1, t, ht, l0, hl0, hl0t⟩ := hext x hx hx'
          exact ⟨n1, t, ht, l0, List.mem_cons_of_mem _ hl0, hl0t⟩

theorem Map.find?_erase {α : Type} (m : Map α) (k x : Nat) :
    (Map.erase m k).find? x = if x = k then none else m.find? x := by
  unfold Map.erase
  rw [Map.find?_filter m (fun y => decide (y ≠ k)) x]
  by_cases h : x = k <;> simp [h]

/-- the extension lookup type of the table a lookup type belongs to -/
def TType.extRaw : TType → Nat
  | .gpos _ => 9
  | .gsub _ => 7
  | .other => 0

/-- same table (GPOS / GSUB) -/
def TType.sameKind : TType → TType → Prop
  | .gpos _, .gpos _ => True
  | .gsub _, .gsub _ => True
  | .other, .other => True
  | _, _ => False

/-- what one `for id in to_promote` iteration does -/
structure PromoStep (tg : TGraph) (fresh : List Nat) (id : Nat) (tg' : TGraph) (fresh' : List Nat) : Prop where
  suffix : fresh' <:+ fresh
  frame : ∀ x, x ≠ id → (x ∉ fresh ∨ x ∈ fresh') →
    tg'.g.obj x = tg.g.obj x ∧ tg'.g.node x = tg.g.node x ∧ tg'.g.objects.find? x = tg.g.objects.find? x
  present : tg.g.objects.find? id ≠ none ∧ tg'.g.objects.find? id ≠ none
  nodeId : tg'.g.node id = tg.g.node id
  raw : ∃ r, (tg.typeOf id).raw? = some r ∧ r ≠ (tg.typeOf id).extRaw ∧
    (tg'.typeOf id).raw? = some (tg.typeOf id).extRaw ∧ (tg.typeOf id).sameKind (tg'.typeOf id) ∧
    (tg'.g.obj id).links.map (fun l' => (l'.pos, l'.width, l'.adj, tg'.g.obj l'.target)) =
      (tg.g.obj id).links.map (fun l => (l.pos, l.width, l.adj, makeExtension r l.target)) ∧
    (∀ x, x ∈ fresh → x ∉ fresh' → tg'.g.node x = Node.new 8 ∧
      ∃ t, tg'.g.obj x = makeExtension r t ∧ ∃ l ∈ (tg.g.obj id).links, l.target = t)
  bytes : (tg'.g.obj id).bytes.drop 2 = (tg.g.obj id).bytes.drop 2
  blen : (tg'.g.obj id).bytes.length = (tg.g.obj id).bytes.length
  newTargets : ∀ l' ∈ (tg'.g.obj id).links, l'.target ∈ fresh ∧ l'.target ∉ fresh'
  types : ∀ x, x ≠ id → tg'.typeOf x = tg.typeOf x
  root : tg'.g.root = tg.g.root

theorem typeOf_insert (tg : TGraph) (types : Map TType) (id : Nat) (pt : TType) (g : Graph) (x : Nat) :
    (⟨g, tg.types.insert id pt⟩ : TGraph).typeOf x = if id = x then pt else tg.typeOf x := by
  unfold TGraph.typeOf
  simp only [Map.find?_insert]
  split <;> rfl

theorem promoteOne_spec (tg : TGraph) (fresh : List Nat) (id : Nat) (tg' : TGraph) (fresh' : List Nat)
    (hnd : fresh.Nodup) (hid : id ∉ fresh) (h : promoteOne tg fresh id = some (tg', fresh')) :
    PromoStep tg fresh id tg' fresh' := by
  unfold promoteOne at h
  split at h
  · simp at h
  · rename_i lookup hlook
    split at h
    · simp at h
    · rename_i raw hraw
      simp only [] at h
      split at h
      · simp at h
      · rename_i links g1 fr1 hfold
        split at h
        · simp at h
        · rename_i pt hpt
          split at h
          · simp at h
          · rename_i praw hpraw
            split at h
            · simp at h
            · rename_i lookup' hwo
              simp only [Option.some.injEq, Prod.mk.injEq] at h
              obtain ⟨rfl, rfl⟩ := h
              obtain ⟨new, hls, hsuf, hframe, hmap, hnew, hext, hroot⟩ :=
                promoteFold_spec raw lookup.links [] _ fresh links g1 fr1 hnd hfold
              simp only [List.nil_append] at hls
              subst hls
              have hobjid : tg.g.obj id = lookup := obj_of_find hlook
              -- the object at `id` after the step
              have hobj' : ∀ x, ({ g1 with objects := g1.objects.insert id lookup' } : Graph).obj x
                  = if id = x then lookup' else g1.obj x :=
                fun x => obj_insert g1 _ id lookup' rfl x
              have hl' : lookup'.links = links ∧ lookup'.bytes.drop 2 = lookup.bytes.drop 2 ∧
                  lookup'.bytes.length = lookup.bytes.length := by
                unfold writeOverU16 at hwo
                split at hwo
                · simp at hwo
                · split at hwo
                  · simp only [Option.some.injEq] at hwo; subst hwo; exact ⟨rfl, rfl, rfl⟩
                  · simp only [Option.some.injEq] at hwo; subst hwo
                    rename_i h1 h2
                    refine ⟨rfl, by simp, ?_⟩
                    simp only [List.length_append, List.length_cons, List.length_nil, List.length_drop] at h2 ⊢
                    omega
              have hne : ∀ l' ∈ links, id ≠ l'.target := by
                intro l' hl1 he
                exact hid (he ▸ (hnew l' hl1).1)
              -- kinds
              have hkind : raw ≠ (tg.typeOf id).extRaw ∧ pt.raw? = some (tg.typeOf id).extRaw ∧ (tg.typeOf id).sameKind pt := by
                cases hty : tg.typeOf id with
                | other => rw [hty] at hraw; simp [TType.raw?] at hraw
                | gpos t =>
                  rw [hty] at hraw hpt
                  simp only [TType.raw?, Option.some.injEq] at hraw
                  simp only [TType.promote?] at hpt
                  split at hpt
                  · simp at hpt
                  · simp only [Option.some.injEq] at hpt
                    subst hpt; subst hraw
                    exact ⟨by simpa [TType.extRaw] using ‹¬ t = 9›, rfl, trivial⟩
                | gsub t =>
                  rw [hty] at hraw hpt
                  simp only [TType.raw?, Option.some.injEq] at hraw
                  simp only [TType.promote?] at hpt
                  split at hpt
                  · simp at hpt
                  · simp only [Option.some.injEq] at hpt
                    subst hpt; subst hraw
                    exact ⟨by simpa [TType.extRaw] using ‹¬ t = 7›, rfl, trivial⟩
              have htype' : ∀ x, (⟨{ g1 with objects := g1.objects.insert id lookup' }, tg.types.insert id pt⟩ : TGraph).typeOf x
                  = if id = x then pt else tg.typeOf x := fun x => typeOf_insert tg tg.types id pt _ x
              constructor
              · exact hsuf
              · intro x hx hfr
                have hne' : ¬ id = x := fun e => hx e.symm
                obtain ⟨f1, f2, f3⟩ := hframe x hfr
                refine ⟨?_, ?_, ?_⟩
                · simp only []
                  rw [hobj' x, if_neg hne', f1]
                  simp only [Graph.obj, Map.find?_erase, hx, ↓reduceIte]
                · simp only []
                  rw [show ({ g1 with objects := g1.objects.insert id lookup' } : Graph).node x = g1.node x from rfl, f2]
                  rfl
                · simp only []
                  rw [Map.find?_insert, if_neg hne', f3, Map.find?_erase, if_neg hx]
              · refine ⟨by rw [hlook]; simp, ?_⟩
                simp only []
                rw [Map.find?_insert]; simp
              · simp only []
                rw [show ({ g1 with objects := g1.objects.insert id lookup' } : Graph).node id = g1.node id from rfl,
                  (hframe id (Or.inl hid)).2.1]
                rfl
              · refine ⟨raw, hraw, hkind.1, ?_, ?_, ?_, ?_⟩
                · rw [htype' id]; simp only [↓reduceIte]; exact hkind.2.1
                · rw [htype' id]; simp only [↓reduceIte]; exact hkind.2.2
                · simp only []
                  rw [hobj' id]
                  simp only [↓reduceIte]
                  rw [hl'.1, hobjid, ← hmap]
                  apply List.map_congr_left
                  intro l1 hl1
                  rw [hobj' l1.target, if_neg (hne l1 hl1)]
                · intro x hx hx'
                  obtain ⟨n1, t, ht, l0, hl0, hl0t⟩ := hext x hx hx'
                  have hne' : ¬ id = x := fun e => hid (e ▸ hx)
                  refine ⟨?_, t, ?_, l0, by rw [hobjid]; exact hl0, hl0t⟩
                  · simp only []
                    rw [show ({ g1 with objects := g1.objects.insert id lookup' } : Graph).node x = g1.node x from rfl]
                    exact n1
                  · simp only []
                    rw [hobj' x, if_neg hne']; exact ht
              · simp only []
                rw [hobj' id]
                simp only [↓reduceIte]
                rw [hl'.2.1, hobjid]
              · simp only []
                rw [hobj' id]
                simp only [↓reduceIte]
                rw [hl'.2.2, hobjid]
              · simp only []
                rw [hobj' id]
                simp only [↓reduceIte]
                rw [hl'.1]
                exact hnew
              · intro x hx
                rw [htype' x, if_neg (fun e => hx e.symm)]
              · exact hroot

/-! ### the whole of `actually_promote_subtables`, relative to the graph before -/

/-- lookup `id` of `tg0` has been promoted in `tg` -/
structure Promoted (tg0 tg : TGraph) (fr0 fr : List Nat) (id : Nat) : Prop where
  present : tg0.g.objects.find? id ≠ none ∧ tg.g.objects.find? id ≠ none
  nodeId : tg.g.node id = tg0.g.node id
  raw : ∃ r, (tg0.typeOf id).raw? = some r ∧ r ≠ (tg0.typeOf id).extRaw ∧
    (tg.typeOf id).raw? = some (tg0.typeOf id).extRaw ∧ (tg0.typeOf id).sameKind (tg.typeOf id) ∧
    (tg.g.obj id).links.map (fun l' => (l'.pos, l'.width, l'.adj, tg.g.obj l'.target)) =
      (tg0.g.obj id).links.map (fun l => (l.pos, l.width, l.adj, makeExtension r l.target))
  bytes : (tg.g.obj id).bytes.drop 2 = (tg0.g.obj id).bytes.drop 2
  blen : (tg.g.obj id).bytes.length = (tg0.g.obj id).bytes.length
  newTargets : ∀ l' ∈ (tg.g.obj id).links, l'.target ∈ fr0 ∧ l'.target ∉ fr

structure PromoInv (tg0 : TGraph) (fr0 : List Nat) (done : List Nat) (tg : TGraph) (fr : List Nat) : Prop where
  suffix : fr <:+ fr0
  frame : ∀ x, x ∉ done → (x ∉ fr0 ∨ x ∈ fr) →
    tg.g.obj x = tg0.g.obj x ∧ tg.g.node x = tg0.g.node x ∧ tg.g.objects.find? x = tg0.g.objects.find? x ∧
    tg.typeOf x = tg0.typeOf x
  doneOK : ∀ id ∈ done, Promoted tg0 tg fr0 fr id
  consumed : ∀ x, x ∈ fr0 → x ∉ fr → tg.typeOf x = TType.other ∧ tg.g.node x = Node.new 8 ∧
    ∃ r t, tg.g.obj x = makeExtension r t ∧ ∃ y, ∃ l ∈ (tg0.g.obj y).links, l.target = t
  root : tg.g.root = tg0.g.root

/-- hypotheses on the graph before promotion -/
structure PromoHyp (tg0 : TGraph) (fr0 : List Nat) : Prop where
  nodup : fr0.Nodup
  unused : ∀ n ∈ fr0, Unused tg0.g n
  typed : ∀ x, tg0.typeOf x ≠ TType.other → tg0.g.objects.find? x ≠ none

theorem promoteOne_present (tg : TGraph) (fresh : List Nat) (id : Nat) (r : TGraph × List Nat)
    (h : promoteOne tg fresh id = some r) :
    tg.g.objects.find? id ≠ none ∧ (tg.typeOf id).raw? ≠ none ∧ (tg.typeOf id).promote? ≠ none := by
  unfold promoteOne at h
  split at h
  · simp at h
  · rename_i lookup hlook
    split at h
    · simp at h
    · rename_i raw hraw
      simp only [] at h
      split at h
      · simp at h
      · split at h
        · simp at h
        · rename_i pt hpt
          exact ⟨by rw [hlook]; simp, by rw [hraw]; simp, by rw [hpt]; simp⟩

theorem sameKind_extRaw (a b : TType) (h : a.sameKind b) : a.extRaw = b.extRaw := by
  cases a <;> cases b <;> simp_all [TType.sameKind, TType.extRaw]

theorem promote_none_of_ext (t : TType) (h : t.raw? = some t.extRaw) : t.promote? = none := by
  cases t with
  | other => rfl
  | gpos n => simp only [TType.raw?, TType.extRaw, Option.some.injEq] at h; simp [TType.promote?, h]
  | gsub n => simp only [TType.raw?, TType.extRaw, Option.some.injEq] at h; simp [TType.promote?, h]

theorem promoInv_step (tg0 : TGraph) (fr0 : List Nat) (hh : PromoHyp tg0 fr0) (done : List Nat) (tg : TGraph)
    (fr : List Nat) (id : Nat) (tg' : TGraph) (fr' : List Nat) (hinv : PromoInv tg0 fr0 done tg fr)
    (h : promoteOne tg fr id = some (tg', fr')) : PromoInv tg0 fr0 (id :: done) tg' fr' := by
  obtain ⟨hpres, hrawne, hpromne⟩ := promoteOne_present tg fr id _ h
  have hfrnd : fr.Nodup := hh.nodup.sublist hinv.suffix.sublist
  -- `id` is neither done nor a fresh id
  have hnotdone : id ∉ done := by
    intro hd
    obtain ⟨r, _, _, hr3, hk, _⟩ := (hinv.doneOK id hd).raw
    apply hpromne
    apply promote_none_of_ext
    rw [hr3, sameKind_extRaw _ _ hk]
  have hnotfr0 : id ∉ fr0 := by
    intro hm
    by_cases hf : id ∈ fr
    · have := (hinv.frame id hnotdone (Or.inr hf)).2.2.1
      rw [this] at hpres
      exact hpres (hh.unused id hm).1
    · have := (hinv.consumed id hm hf).1
      rw [this] at hrawne
      exact hrawne rfl
  have hnotfr : id ∉ fr := fun hm => hnotfr0 (hinv.suffix.subset hm)
  have hstep := promoteOne_spec tg fr id tg' fr' hfrnd hnotfr h
  obtain ⟨f1, f2, f3, f4⟩ := hinv.frame id hnotdone (Or.inl hnotfr0)
  constructor
  · exact hstep.suffix.trans hinv.suffix
  · intro x hx hfr
    have hxid : x ≠ id := fun e => hx (e ▸ List.mem_cons_self)
    have hxd : x ∉ done := fun hm => hx (List.mem_cons_of_mem _ hm)
    have hc1 : x ∉ fr ∨ x ∈ fr' := by
      rcases hfr with h1 | h1
      · left; exact fun hm => h1 (hinv.suffix.subset hm)
      · right; exact h1
    have hc2 : x ∉ fr0 ∨ x ∈ fr := by
      rcases hfr with h1 | h1
      · left; exact h1
      · right; exact hstep.suffix.subset h1
    obtain ⟨s1, s2, s3⟩ := hstep.frame x hxid hc1
    obtain ⟨o1, o2, o3, o4⟩ := hinv.frame x hxd hc2
    exact ⟨s1.trans o1, s2.trans o2, s3.trans o3, (hstep.types x hxid).trans o4⟩
  · intro id' hid'
    rcases List.mem_cons.mp hid' with rfl | hid'
    · obtain ⟨r, r1, r2, r3, r4, r5, _⟩ := hstep.raw
      constructor
      · rw [← f3]; exact hstep.present
      · rw [hstep.nodeId, f2]
      · refine ⟨r, by rw [← f4]; exact r1, by rw [← f4]; exact r2, by rw [← f4]; exact r3, by rw [← f4]; exact r4, ?_⟩
        rw [r5, f1]
      · rw [hstep.bytes, f1]
      · rw [hstep.blen, f1]
      · intro l' hl'
        obtain ⟨n1, n2⟩ := hstep.newTargets l' hl'
        exact ⟨hinv.suffix.subset n1, n2⟩
    · have hp := hinv.doneOK id' hid'
      have hne : id' ≠ id := fun e => hnotdone (e ▸ hid')
      have hid'fr0 : id' ∉ fr0 := fun hm => hp.present.1 (hh.unused id' hm).1
      obtain ⟨s1, s2, s3⟩ := hstep.frame id' hne (Or.inl (fun hm => hid'fr0 (hinv.suffix.subset hm)))
      obtain ⟨r, r1, r2, r3, r4, r5⟩ := hp.raw
      constructor
      · rw [s3]; exact hp.present
      · rw [s2]; exact hp.nodeId
      · refine ⟨r, r1, r2, by rw [hstep.types id' hne]; exact r3, by rw [hstep.types id' hne]; exact r4, ?_⟩
        rw [s1, ← r5]
        apply List.map_congr_left
        intro l' hl'
        obtain ⟨n1, n2⟩ := hp.newTargets l' hl'
        have : l'.target ≠ id := fun e => hnotfr0 (e ▸ n1)
        rw [(hstep.frame l'.target this (Or.inl n2)).1]
      · rw [s1]; exact hp.bytes
      · rw [s1]; exact hp.blen
      · intro l' hl'
        rw [s1] at hl'
        obtain ⟨n1, n2⟩ := hp.newTargets l' hl'
        exact ⟨n1, fun hm => n2 (hstep.suffix.subset hm)⟩
  · intro x hx hx'
    have hxid : x ≠ id := fun e => hnotfr0 (e ▸ hx)
    by_cases hf : x ∈ fr
    · -- consumed in this step
      obtain ⟨r, _, _, _, _, _, r6⟩ := hstep.raw
      obtain ⟨n1, t, ht, l, hl, hlt⟩ := r6 x hf hx'
      refine ⟨?_, n1, r, t, ht, id, l, by rw [← f1]; exact hl, hlt⟩
      rw [hstep.types x hxid, (hinv.frame x (fun hd => (hinv.doneOK x hd).present.1 (hh.unused x hx).1) (Or.inr hf)).2.2.2]
      cases hty : tg0.typeOf x with
      | other => rfl
      | gpos t' => exact absurd (hh.unused x hx).1 (hh.typed x (by rw [hty]; simp))
      | gsub t' => exact absurd (hh.unused x hx).1 (hh.typed x (by rw [hty]; simp))
    · obtain ⟨c1, c2, r, t, c3, c4⟩ := hinv.consumed x hx hf
      obtain ⟨s1, s2, _⟩ := hstep.frame x hxid (Or.inl hf)
      exact ⟨by rw [hstep.types x hxid]; exact c1, by rw [s2]; exact c2, r, t, by rw [s1]; exact c3, c4⟩
  · rw [hstep.root, hinv.root]

theorem promoInv_init (tg0 : TGraph) (fr0 : List Nat) : PromoInv tg0 fr0 [] tg0 fr0 :=
  ⟨List.suffix_refl _, fun x _ _ => ⟨rfl, rfl, rfl, rfl⟩, fun id h => by simp at h,
    fun x h1 h2 => absurd h1 h2, rfl⟩

theorem promoFold_inv (tg0 : TGraph) (fr0 : List Nat) (hh : PromoHyp tg0 fr0) (sel : List Nat) (done : List Nat)
    (tg : TGraph) (fr : List Nat) (tg' : TGraph) (fr' : List Nat) (hinv : PromoInv tg0 fr0 done tg fr)
    (h : sel.foldl (fun (acc : Option (TGraph × List Nat)) id =>
      match acc with
      | none => none
      | some (tg, fresh) => promoteOne tg fresh id) (some (tg, fr)) = some (tg', fr')) :
    ∃ done', PromoInv tg0 fr0 done' tg' fr' ∧ ∀ x, x ∈ done' → x ∈ done ∨ x ∈ sel := by
  induction sel generalizing done tg fr with
  | nil =>
    simp only [List.foldl_nil, Option.some.injEq, Prod.mk.injEq] at h
    obtain ⟨rfl, rfl⟩ := h
    exact ⟨done, hinv, fun x hx => Or.inl hx⟩
  | cons id rest ih =>
    simp only [List.foldl_cons] at h
    cases hstep : promoteOne tg fr id with
    | none =>
      rw [hstep] at h
      have : ∀ (xs : List Nat), xs.foldl (fun (acc : Option (TGraph × List Nat)) id =>
          match acc with
          | none => none
          | some (tg, fresh) => promoteOne tg fresh id) none = none := by
        intro xs; induction xs with
        | nil => rfl
        | cons y ys ihy => simpa [List.foldl_cons] using ihy
      rw [this] at h
      simp at h
    | some pr =>
      obtain ⟨tg1, fr1⟩ := pr
      rw [hstep] at h
      obtain ⟨done', hd, hsub⟩ := ih (id :: done) tg1 fr1 (promoInv_step tg0 fr0 hh done tg fr id tg1 fr1 hinv hstep) h
      refine ⟨done', hd, ?_⟩
      intro x hx
      rcases hsub x hx with h1 | h1
      · rcases List.mem_cons.mp h1 with rfl | h1
        · right; exact List.mem_cons_self
        · left; exact h1
      · right; exact List.mem_cons_of_mem _ h1

end FontVerif.Graph
