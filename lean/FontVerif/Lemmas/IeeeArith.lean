/-
Lemmas about the rounding step of the exact IEEE model (Model/Ieee.lean `roundNE`) and the
operations of Model/IeeeArith.lean: ordering of non-negative dyadic values, "rounding never
crosses a representable value" (monotonicity of `roundNE` at representables), exactness on
representable inputs.
-/
import FontVerif.Model.IeeeArith
import FontVerif.Lemmas.Ieee
set_option linter.unusedVariables false
namespace FontVerif.Ieee

/-- `m · 2^e ≤ n · 2^g` for non-negative dyadic values, in integers. -/
def dle (m : Nat) (e : Int) (n : Nat) (g : Int) : Prop :=
  m * 2 ^ (e - min e g).toNat ≤ n * 2 ^ (g - min e g).toNat

instance (m : Nat) (e : Int) (n : Nat) (g : Int) : Decidable (dle m e n g) := by
  unfold dle; infer_instance

theorem pow_toNat_add (x y : Int) (hx : 0 ≤ x) (hy : 0 ≤ y) :
    (2 : Nat) ^ (x + y).toNat = 2 ^ x.toNat * 2 ^ y.toNat := by
  rw [Int.toNat_add hx hy, Nat.pow_add]

/-- the comparison may be made over any common exponent. -/
theorem dle_common {m : Nat} {e : Int} {n : Nat} {g : Int} (c : Int) (hc1 : c ≤ e) (hc2 : c ≤ g) :
    dle m e n g ↔ m * 2 ^ (e - c).toNat ≤ n * 2 ^ (g - c).toNat := by
  unfold dle
  have h1 : e - c = (e - min e g) + (min e g - c) := by omega
  have h2 : g - c = (g - min e g) + (min e g - c) := by omega
  rw [h1, h2, pow_toNat_add _ _ (by omega) (by omega), pow_toNat_add _ _ (by omega) (by omega)]
  have hpos : 0 < 2 ^ (min e g - c).toNat := two_pow_pos _
  rw [← Nat.mul_assoc, ← Nat.mul_assoc]
  exact (Nat.mul_le_mul_right_iff hpos).symm

theorem dle_refl (m : Nat) (e : Int) : dle m e m e := by unfold dle; simp

theorem dle_trans {a : Nat} {e : Int} {b : Nat} {g : Int} {c : Nat} {h : Int}
    (h1 : dle a e b g) (h2 : dle b g c h) : dle a e c h := by
  let k := min e (min g h)
  rw [dle_common k (by omega) (by omega)] at h1 h2 ⊢
  exact Nat.le_trans h1 h2

theorem dle_zero (e : Int) (n : Nat) (g : Int) : dle 0 e n g := by unfold dle; simp

/-- a value below `2^x`: `m · 2^e < 2^x`. -/
def dltPow (m : Nat) (e : Int) (x : Int) : Prop := m * 2 ^ (e - min e x).toNat < 2 ^ (x - min e x).toNat

theorem repr_lt_pow (r : Nat) (g : Int) : dltPow r g (g + bitLen r) := by
  unfold dltPow
  have : min g (g + (bitLen r : Int)) = g := by omega
  rw [this]
  simp only [Int.sub_self, Int.toNat_zero, Nat.pow_zero, Nat.mul_one]
  have : (g + (bitLen r : Int) - g).toNat = bitLen r := by omega
  rw [this]
  exact lt_pow_bitLen r

/-- if `n · 2^q ≤ r · 2^g` then `q + bitLen n ≤ g + bitLen r` (no overflow below a finite bound). -/
theorem bitLen_le_of_dle {n : Nat} {q : Int} {r : Nat} {g : Int} (hn : n ≠ 0) (h : dle n q r g) :
    q + (bitLen n : Int) ≤ g + (bitLen r : Int) := by
  let c := min q g
  rw [dle_common c (by omega) (by omega)] at h
  have h1 := pow_bitLen_le hn
  have h2 := lt_pow_bitLen r
  -- 2^(bitLen n - 1) * 2^(q-c) ≤ n * 2^(q-c) ≤ r * 2^(g-c) < 2^(bitLen r) * 2^(g-c)
  have h3 : 2 ^ (bitLen n - 1) * 2 ^ (q - c).toNat < 2 ^ bitLen r * 2 ^ (g - c).toNat :=
    Nat.lt_of_le_of_lt (Nat.le_trans (Nat.mul_le_mul_right _ h1) h)
      (Nat.mul_lt_mul_of_pos_right h2 (two_pow_pos _))
  rw [← Nat.pow_add, ← Nat.pow_add] at h3
  have h4 := (Nat.pow_lt_pow_iff_right (by decide : 1 < 2)).mp h3
  have := bitLen_pos hn
  omega

/-- **rounding never crosses a representable value** (upper side): if the exact non-negative value
`a · 2^e` is at most a representable `r · 2^g` (`r < 2^p`, `g ≥ emin`, finite: `g + bitLen r ≤ etop`),
then so is its rounding — which therefore is finite. -/
theorem roundNE_le_repr (f : Fmt) (hp : 1 ≤ f.p) (neg : Bool) (a : Nat) (e : Int) (r : Nat) (g : Int)
    (hr : r < 2 ^ f.p) (hg : f.emin ≤ g) (htop : g + (bitLen r : Int) ≤ f.etop)
    (hle : dle a e r g) :
    ∃ n q, roundNE f neg a e = .fin neg n q ∧ dle n q r g := by
  by_cases ha : a = 0
  · subst ha
    exact ⟨0, 0, by simp [roundNE], dle_zero _ _ _⟩
  unfold roundNE
  simp only [ha, if_false]
  have hL1 := pow_bitLen_le ha
  have hL2 := lt_pow_bitLen a
  have hLpos := bitLen_pos ha
  generalize hL : bitLen a = L at *
  generalize hq : (if e + (L : Int) - (f.p : Int) < f.emin then f.emin else e + (L : Int) - (f.p : Int)) = q
  have hnofl := bitLen_le_of_dle ha hle
  rw [hL] at hnofl
  by_cases hqe : q ≤ e
  · simp only [hqe, if_true]
    have : ¬ (e + (L : Int) > f.etop) := by omega
    simp only [this, if_false]
    exact ⟨a, e, rfl, hle⟩
  · simp only [hqe, if_false]
    have hqe' : e < q := by omega
    generalize hs : (q - e).toNat = s
    have hs1 : 1 ≤ s := by omega
    have hqs : q = e + (s : Int) := by omega
    have hS : 2 ≤ 2 ^ s := by
      have := Nat.pow_le_pow_right (by decide : 1 ≤ 2) hs1
      simpa using this
    have hdm := Nat.div_add_mod a (2 ^ s)
    have hmod := Nat.mod_lt a (two_pow_pos s)
    generalize hn0 : a / 2 ^ s = n0 at *
    generalize hr0 : a % 2 ^ s = r0 at *
    -- the rounded significand is `n0` or `n0 + 1`; in both cases `n' · 2^q ≤ r · 2^g`
    have key : ∀ n', (n' = n0 ∨ (n' = n0 + 1 ∧ 1 ≤ r0)) → dle n' q r g := by
      intro n' hn'
      let c := min e g
      rw [dle_common c (by omega) (by omega)] at hle ⊢
      have hqc : q - c = (s : Int) + (e - c) := by omega
      rw [hqc, pow_toNat_add _ _ (by omega) (by omega)]
      simp only [Int.toNat_natCast]
      generalize hE : 2 ^ (e - c).toNat = E at *
      generalize hG : 2 ^ (g - c).toNat = G at *
      have hEpos : 0 < E := by rw [← hE]; exact two_pow_pos _
      have hGpos : 0 < G := by rw [← hG]; exact two_pow_pos _
      generalize hSv : 2 ^ s = S at *
      have haE : a * E = n0 * (S * E) + r0 * E := by
        rw [← hdm, Nat.add_mul, Nat.mul_comm S n0, Nat.mul_assoc]
      rcases hn' with h | ⟨h, hr01⟩
      · rw [h]
        calc n0 * (S * E) ≤ a * E := by rw [haE]; exact Nat.le_add_right _ _
          _ ≤ r * G := hle
      · rw [h]
        apply Classical.byContradiction
        intro hcon
        have hcon : r * G < (n0 + 1) * (S * E) := by omega
        have h3 : n0 * (S * E) < r * G := by
          have : 0 < r0 * E := Nat.mul_pos (by omega) hEpos
          omega
        by_cases hgq : q ≤ g
        · -- `r · 2^g` is a multiple of `2^q`
          have hgc : g - c = (g - q) + ((s : Int) + (e - c)) := by omega
          have hGe : G = 2 ^ (g - q).toNat * (S * E) := by
            rw [← hG, hgc, pow_toNat_add _ _ (by omega) (by omega),
              pow_toNat_add _ _ (by omega) (by omega), hE]
            simp only [Int.toNat_natCast, hSv]
          generalize 2 ^ (g - q).toNat = X at hGe
          have h3' : n0 * (S * E) < (r * X) * (S * E) := by rw [Nat.mul_assoc, ← hGe]; exact h3
          have hcon' : (r * X) * (S * E) < (n0 + 1) * (S * E) := by rw [Nat.mul_assoc, ← hGe]; exact hcon
          have l1 := Nat.lt_of_mul_lt_mul_right h3'
          have l2 := Nat.lt_of_mul_lt_mul_right hcon'
          omega
        · -- `g < q`: then `q` is the normal exponent and `n0 ≥ 2^(p-1)`, which makes `r ≥ 2^p`
          have hgq' : g < q := by omega
          have hqn : q = e + (L : Int) - (f.p : Int) := by
            rw [← hq]; split
            · rename_i h; rw [← hq] at hgq'; simp only [h, if_true] at hgq'; omega
            · rfl
          have hsL : s + f.p = L := by omega
          have hn0big : 2 ^ (f.p - 1) ≤ n0 := by
            rw [← hn0, ← hSv, Nat.le_div_iff_mul_le (two_pow_pos s), ← Nat.pow_add]
            have : f.p - 1 + s = L - 1 := by omega
            rw [this]; exact hL1
          have hqc2 : (s : Int) + (e - c) = (q - g) + (g - c) := by omega
          have hSEe : S * E = 2 ^ (q - g).toNat * G := by
            rw [← hSv, ← hE, ← hG]
            have := pow_toNat_add (s : Int) (e - c) (by omega) (by omega)
            simp only [Int.toNat_natCast] at this
            rw [← this, hqc2, pow_toNat_add _ _ (by omega) (by omega)]
          have hY : 2 ≤ 2 ^ (q - g).toNat := by
            have : 1 ≤ (q - g).toNat := by omega
            have := Nat.pow_le_pow_right (by decide : 1 ≤ 2) this
            simpa using this
          generalize 2 ^ (q - g).toNat = Y at *
          have h3' : (n0 * Y) * G < r * G := by rw [Nat.mul_assoc, ← hSEe]; exact h3
          have l1 := Nat.lt_of_mul_lt_mul_right h3'
          have : 2 ^ f.p ≤ n0 * Y := by
            have e1 : 2 ^ f.p = 2 ^ (f.p - 1) * 2 := by
              rw [← Nat.pow_succ]; congr 1; omega
            rw [e1]
            exact Nat.mul_le_mul hn0big hY
          omega
    -- assemble
    have hr0pos : ∀ (hup : 2 * r0 > 2 ^ s ∨ (2 * r0 = 2 ^ s ∧ n0 % 2 = 1)), 1 ≤ r0 := by
      intro hup; rcases hup with h | h <;> omega
    by_cases hup : 2 * r0 > 2 ^ s ∨ (2 * r0 = 2 ^ s ∧ n0 % 2 = 1)
    · simp only [hup, if_true]
      have hd := key (n0 + 1) (Or.inr ⟨rfl, hr0pos hup⟩)
      have := bitLen_le_of_dle (by omega : n0 + 1 ≠ 0) hd
      have : ¬ (q + (bitLen (n0 + 1) : Int) > f.etop) := by omega
      simp only [this, if_false]
      exact ⟨n0 + 1, q, rfl, hd⟩
    · simp only [hup, if_false]
      have hd := key n0 (Or.inl rfl)
      by_cases hz : n0 = 0
      · subst hz
        have : ¬ (q + (bitLen 0 : Int) > f.etop) := by rw [bitLen_zero]; omega
        simp only [this, if_false]
        exact ⟨0, q, rfl, hd⟩
      · have := bitLen_le_of_dle hz hd
        have : ¬ (q + (bitLen n0 : Int) > f.etop) := by omega
        simp only [this, if_false]
        exact ⟨n0, q, rfl, hd⟩

/-- a finite non-negative value of the format that is at most one. -/
def InUnit (f : Fmt) (x : FVal) : Prop := ∃ n q, x = .fin false n q ∧ dle n q 1 0

theorem inUnit_one (f : Fmt) : InUnit f one := ⟨1, 0, rfl, dle_refl 1 0⟩
theorem inUnit_zero (f : Fmt) : InUnit f zero := ⟨0, 0, rfl, dle_zero _ _ _⟩

/-- `x · A ≤ A` for `0 ≤ x ≤ 1` and a representable `A ≥ 0`, after rounding. -/
theorem mul_unit_le (f : Fmt) (hp : 1 ≤ f.p) (m : Nat) (e : Int) (a : Nat) (ea : Int)
    (hx : dle m e 1 0) (ha : a < 2 ^ f.p) (hea : f.emin ≤ ea) (htop : ea + (bitLen a : Int) ≤ f.etop) :
    ∃ n q, mul f (.fin false m e) (.fin false a ea) = .fin false n q ∧ dle n q a ea := by
  have hd : dle (m * a) (e + ea) a ea := by
    let c1 := min e 0
    rw [dle_common c1 (by omega) (by omega)] at hx
    rw [dle_common (ea + c1) (by omega) (by omega)]
    have e1 : e + ea - (ea + c1) = e - c1 := by omega
    have e2 : ea - (ea + c1) = 0 - c1 := by omega
    rw [e1, e2]
    simp only [Nat.one_mul] at hx
    calc m * a * 2 ^ (e - c1).toNat = (m * 2 ^ (e - c1).toNat) * a := by
          rw [Nat.mul_assoc, Nat.mul_comm a, ← Nat.mul_assoc]
      _ ≤ 2 ^ (0 - c1).toNat * a := Nat.mul_le_mul_right _ hx
      _ = a * 2 ^ (0 - c1).toNat := Nat.mul_comm _ _
  have := roundNE_le_repr f hp false (m * a) (e + ea) a ea ha hea htop hd
  simpa [mul] using this

/-- `X / B ≤ 1` for `0 ≤ X ≤ B`, `B > 0`, after rounding. -/
theorem div_le_one (f : Fmt) (hp : 1 ≤ f.p) (hemin : f.emin ≤ 0) (hetop : 1 ≤ f.etop)
    (x : Nat) (ex : Int) (b : Nat) (eb : Int) (hb : b ≠ 0) (hle : dle x ex b eb) :
    InUnit f (div f (.fin false x ex) (.fin false b eb)) := by
  unfold div
  simp only [hb, if_false]
  by_cases hx : x = 0
  · simp only [hx, if_true]
    exact ⟨0, 0, by simp, dle_zero _ _ _⟩
  simp only [hx, if_false]
  generalize hk : f.p + 2 + bitLen b = k
  have hbpos : 0 < b := Nat.pos_of_ne_zero hb
  have hdm := Nat.div_add_mod (x * 2 ^ k) b
  have hmod := Nat.mod_lt (x * 2 ^ k) hbpos
  generalize hq' : x * 2 ^ k / b = q' at *
  generalize hrem : x * 2 ^ k % b = rem at *
  -- q' ≥ 1
  have hbk : b < 2 ^ k := by
    have h1 := lt_pow_bitLen b
    have h2 : 2 ^ bitLen b ≤ 2 ^ k := Nat.pow_le_pow_right (by decide) (by omega)
    omega
  have hq1 : 1 ≤ q' := by
    rw [← hq']
    apply (Nat.le_div_iff_mul_le hbpos).mpr
    have : 2 ^ k ≤ x * 2 ^ k := Nat.le_mul_of_pos_left _ (Nat.pos_of_ne_zero hx)
    omega
  -- the bound on q'
  let c := min ex eb
  rw [dle_common c (by omega) (by omega)] at hle
  generalize hEX : 2 ^ (ex - c).toNat = EX at *
  generalize hEB : 2 ^ (eb - c).toNat = EB at *
  have hEXpos : 0 < EX := by rw [← hEX]; exact two_pow_pos _
  have hEBpos : 0 < EB := by rw [← hEB]; exact two_pow_pos _
  -- (q' b + rem) EX ≤ b 2^k EB
  have hmain : (b * q' + rem) * EX ≤ b * (2 ^ k * EB) := by
    rw [hdm]
    calc x * 2 ^ k * EX = (x * EX) * 2 ^ k := by rw [Nat.mul_assoc, Nat.mul_comm (2 ^ k), ← Nat.mul_assoc]
      _ ≤ (b * EB) * 2 ^ k := Nat.mul_le_mul_right _ hle
      _ = b * (2 ^ k * EB) := by rw [Nat.mul_assoc, Nat.mul_comm EB]
  -- the integer t = k - ex + eb and q' ≤ 2^t, strictly if rem ≠ 0
  have hqb : q' * EX ≤ 2 ^ k * EB ∧ (rem ≠ 0 → q' * EX < 2 ^ k * EB) := by
    constructor
    · have : b * (q' * EX) ≤ b * (2 ^ k * EB) := by
        calc b * (q' * EX) = (b * q') * EX := by rw [Nat.mul_assoc]
          _ ≤ (b * q' + rem) * EX := Nat.mul_le_mul_right _ (Nat.le_add_right _ _)
          _ ≤ _ := hmain
      exact Nat.le_of_mul_le_mul_left this hbpos
    · intro hr
      have : b * (q' * EX) < b * (2 ^ k * EB) := by
        calc b * (q' * EX) = (b * q') * EX := by rw [Nat.mul_assoc]
          _ < (b * q' + rem) * EX := Nat.mul_lt_mul_of_pos_right (by omega) hEXpos
          _ ≤ _ := hmain
      exact Nat.lt_of_mul_lt_mul_left this
  -- target: (2 q' + sticky) · 2^(ex - eb - k - 1) ≤ 1
  have htarget : dle (2 * q' + if rem = 0 then 0 else 1) (ex - eb - (k : Int) - 1) 1 0 := by
    by_cases hcase : ex ≤ eb
    · -- EX = 1
      have hc : c = ex := by simp only [c]; omega
      have hEX1 : EX = 1 := by rw [← hEX, hc]; simp
      rw [hEX1, Nat.mul_one] at hqb
      have hEBv : 2 ^ k * EB = 2 ^ (k + (eb - ex).toNat) := by rw [← hEB, hc, Nat.pow_add]
      rw [hEBv] at hqb
      rw [dle_common (ex - eb - (k : Int) - 1) (by omega) (by omega)]
      simp only [Int.sub_self, Int.toNat_zero, Nat.pow_zero, Nat.mul_one, Nat.one_mul]
      have : (0 - (ex - eb - (k : Int) - 1)).toNat = (k + (eb - ex).toNat) + 1 := by omega
      rw [this, Nat.pow_succ]
      split
      · rename_i h0; have := hqb.1; omega
      · rename_i h0; have := hqb.2 h0; omega
    · -- EB = 1, and 2^(ex-eb) ≤ 2^k
      have hc : c = eb := by simp only [c]; omega
      have hEB1 : EB = 1 := by rw [← hEB, hc]; simp
      rw [hEB1, Nat.mul_one] at hqb
      generalize hu : (ex - eb).toNat = u at *
      have hEXv : EX = 2 ^ u := by rw [← hEX, hc, hu]
      rw [hEXv] at hqb
      have hule : u ≤ k := by
        apply Classical.byContradiction; intro hc2
        have h1 : 2 ^ k < 2 ^ u := Nat.pow_lt_pow_right (by decide) (by omega)
        have h2 : 2 ^ u ≤ q' * 2 ^ u := Nat.le_mul_of_pos_left _ hq1
        have := hqb.1; omega
      have hsplit : 2 ^ k = 2 ^ (k - u) * 2 ^ u := by rw [← Nat.pow_add]; congr 1; omega
      rw [hsplit] at hqb
      have hq2 : q' ≤ 2 ^ (k - u) ∧ (rem ≠ 0 → q' < 2 ^ (k - u)) :=
        ⟨Nat.le_of_mul_le_mul_right hqb.1 (two_pow_pos u),
         fun hr => Nat.lt_of_mul_lt_mul_right (hqb.2 hr)⟩
      rw [dle_common (ex - eb - (k : Int) - 1) (by omega) (by omega)]
      simp only [Int.sub_self, Int.toNat_zero, Nat.pow_zero, Nat.mul_one, Nat.one_mul]
      have : (0 - (ex - eb - (k : Int) - 1)).toNat = (k - u) + 1 := by omega
      rw [this, Nat.pow_succ]
      split
      · rename_i h0; have := hq2.1; omega
      · rename_i h0; have := hq2.2 h0; omega
  have h1p : 1 < 2 ^ f.p := by
    have := Nat.pow_le_pow_right (by decide : 1 ≤ 2) hp
    simp at this; omega
  have hb1 : bitLen 1 = 1 := by decide
  have := roundNE_le_repr f hp false (2 * q' + if rem = 0 then 0 else 1) (ex - eb - (k : Int) - 1) 1 0
    h1p hemin (by rw [hb1]; omega) htarget
  simpa [InUnit] using this

/-- **half-ulp error of one rounding**: a finite result `n · 2^q` of rounding `a · 2^e` is either the
input itself (`q = e`, `n = a`) or has a coarser exponent `q = e + s` and `|n · 2^s − a| ≤ 2^s / 2`;
in the latter case the significand is normalised (`n ≥ 2^(p−1)`) unless `q` is the subnormal
exponent `emin`. -/
theorem roundNE_half_ulp (f : Fmt) (hp : 1 ≤ f.p) (neg : Bool) (a : Nat) (e : Int) (n : Nat) (q : Int)
    (ha : a ≠ 0) (h : roundNE f neg a e = .fin neg n q) :
    e + (bitLen a : Int) - (f.p : Int) ≤ q ∧
    ((q = e ∧ n = a) ∨
    (e < q ∧ 2 * n * 2 ^ (q - e).toNat ≤ 2 * a + 2 ^ (q - e).toNat ∧
      2 * a ≤ 2 * n * 2 ^ (q - e).toNat + 2 ^ (q - e).toNat ∧
      (2 ^ (f.p - 1) ≤ n ∨ q = f.emin))) := by
  unfold roundNE at h
  simp only [ha, if_false] at h
  have hL1 := pow_bitLen_le ha
  have hL2 := lt_pow_bitLen a
  have hLpos := bitLen_pos ha
  generalize hL : bitLen a = L at *
  generalize hq : (if e + (L : Int) - (f.p : Int) < f.emin then f.emin else e + (L : Int) - (f.p : Int)) = q0 at h
  have hq0ge : e + (L : Int) - (f.p : Int) ≤ q0 := by rw [← hq]; split <;> omega
  by_cases hqe : q0 ≤ e
  · simp only [hqe, if_true] at h
    split at h
    · cases h
    · cases h; exact ⟨by omega, Or.inl ⟨rfl, rfl⟩⟩
  · simp only [hqe, if_false] at h
    have hqq : q = q0 := by
      repeat' split at h
      all_goals first | (cases h; done) | (cases h; rfl)
    refine ⟨by omega, Or.inr ?_⟩
    generalize hs : (q0 - e).toNat = s at h
    have hs1 : 1 ≤ s := by omega
    have hdm := Nat.div_add_mod a (2 ^ s)
    have hmod := Nat.mod_lt a (two_pow_pos s)
    generalize hn0 : a / 2 ^ s = n0 at *
    generalize hr0 : a % 2 ^ s = r0 at *
    have hnorm : 2 ^ (f.p - 1) ≤ n0 ∨ q0 = f.emin := by
      by_cases hsub : e + (L : Int) - (f.p : Int) < f.emin
      · right; rw [← hq]; simp [hsub]
      · left
        have hq0 : q0 = e + (L : Int) - (f.p : Int) := by rw [← hq]; simp [hsub]
        have hsL : s + f.p = L := by omega
        rw [← hn0, Nat.le_div_iff_mul_le (two_pow_pos s), ← Nat.pow_add]
        have : f.p - 1 + s = L - 1 := by omega
        rw [this]; exact hL1
    generalize hS : 2 ^ s = S at *
    by_cases hup : 2 * r0 > S ∨ (2 * r0 = S ∧ n0 % 2 = 1)
    · simp only [hup, if_true] at h
      split at h
      · cases h
      · cases h
        rw [hs, hS]
        refine ⟨by omega, ?_, ?_, ?_⟩
        · have : 2 * (n0 + 1) * S = 2 * (S * n0) + 2 * S := by
            rw [Nat.mul_comm S n0, Nat.mul_assoc, Nat.add_mul, Nat.mul_add]; omega
          rcases hup with h1 | h1 <;> omega
        · have : 2 * (n0 + 1) * S = 2 * (S * n0) + 2 * S := by
            rw [Nat.mul_comm S n0, Nat.mul_assoc, Nat.add_mul, Nat.mul_add]; omega
          omega
        · rcases hnorm with h1 | h1
          · left; omega
          · right; exact h1
    · simp only [hup, if_false] at h
      split at h
      · cases h
      · cases h
        rw [hs, hS]
        have : 2 * n * S = 2 * (S * n) := by rw [Nat.mul_comm S n, Nat.mul_assoc]
        refine ⟨by omega, by omega, ?_, hnorm⟩
        have hnot : ¬ (2 * r0 > S) := fun h1 => hup (Or.inl h1)
        omega

/-- **half-ulp error of a division**: a finite quotient `n · 2^q` of `x·2^ex / b·2^eb` (`x, b ≠ 0`)
is within `2^q / 2` of the exact rational quotient.  With `E = ex − eb − k − 1`
(`k = p + 2 + bitLen b` guard bits) the exact quotient is `(2·x·2^k / b) · 2^E`; the statement is
`|n · 2^(q−E) · b − 2·x·2^k| ≤ 2^(q−E−1) · b`, and the significand is normalised unless
`q = emin`. -/
theorem div_half_ulp (f : Fmt) (hp : 1 ≤ f.p) (x : Nat) (ex : Int) (b : Nat) (eb : Int) (n : Nat) (q : Int)
    (hx : x ≠ 0) (hb : b ≠ 0)
    (h : div f (.fin false x ex) (.fin false b eb) = .fin false n q) :
    let k := f.p + 2 + bitLen b
    let E := ex - eb - (k : Int) - 1
    E + 2 ≤ q ∧
    n * 2 ^ (q - E).toNat * b ≤ 2 * x * 2 ^ k + 2 ^ (q - E - 1).toNat * b ∧
    2 * x * 2 ^ k ≤ n * 2 ^ (q - E).toNat * b + 2 ^ (q - E - 1).toNat * b ∧
    (2 ^ (f.p - 1) ≤ n ∨ q = f.emin) := by
  intro k E
  unfold div at h
  simp only [hb, hx, if_false] at h
  have hbpos : 0 < b := Nat.pos_of_ne_zero hb
  have hdm := Nat.div_add_mod (x * 2 ^ k) b
  have hmod := Nat.mod_lt (x * 2 ^ k) hbpos
  change roundNE f false (2 * (x * 2 ^ k / b) + if x * 2 ^ k % b = 0 then 0 else 1) E = .fin false n q at h
  generalize hq' : x * 2 ^ k / b = q' at *
  generalize hrem : x * 2 ^ k % b = rem at *
  -- q' ≥ 2^(p+2)
  have hbk : 2 ^ (f.p + 2) * b < 2 ^ k := by
    have h1 := lt_pow_bitLen b
    have : 2 ^ k = 2 ^ (f.p + 2) * 2 ^ bitLen b := by rw [← Nat.pow_add]
    rw [this]
    exact Nat.mul_lt_mul_of_pos_left h1 (two_pow_pos _)
  have hq1 : 2 ^ (f.p + 2) ≤ q' := by
    rw [← hq']
    apply (Nat.le_div_iff_mul_le hbpos).mpr
    have : 2 ^ k ≤ x * 2 ^ k := Nat.le_mul_of_pos_left _ (Nat.pos_of_ne_zero hx)
    omega
  generalize hQt : (2 * q' + if rem = 0 then 0 else 1) = Qt at h
  have hQt0 : Qt ≠ 0 := by
    have := two_pow_pos (f.p + 2); rw [← hQt]; omega
  have hQtbig : 2 ^ (f.p + 3) ≤ Qt := by
    have : 2 ^ (f.p + 3) = 2 * 2 ^ (f.p + 2) := by rw [Nat.pow_succ]; omega
    rw [← hQt]; omega
  have hLQ : f.p + 4 ≤ bitLen Qt := by
    have h1 := lt_pow_bitLen Qt
    have h2 : 2 ^ (f.p + 3) < 2 ^ bitLen Qt := Nat.lt_of_le_of_lt hQtbig h1
    have := (Nat.pow_lt_pow_iff_right (by decide : 1 < 2)).mp h2
    omega
  obtain ⟨hexp, hcase⟩ := roundNE_half_ulp f hp false Qt E n q hQt0 h
  have hqE : E + 4 ≤ q := by omega
  rcases hcase with ⟨h1, _⟩ | ⟨_, hlo, hhi, hnorm⟩
  · omega
  refine ⟨by omega, ?_, ?_, hnorm⟩
  all_goals
    generalize hs : (q - E).toNat = s at *
    have hs4 : 4 ≤ s := by omega
    have hs1 : (q - E - 1).toNat = s - 1 := by omega
    rw [hs1]
    have hS : 2 ^ s = 4 * 2 ^ (s - 2) := by
      have : s = (s - 2) + 2 := by omega
      rw [this, Nat.pow_add]; simp; omega
    have hS2 : 2 ^ (s - 1) = 2 * 2 ^ (s - 2) := by
      have : s - 1 = (s - 2) + 1 := by omega
      rw [this, Nat.pow_succ]; omega
    rw [hS] at hlo hhi ⊢
    rw [hS2]
    generalize 2 ^ (s - 2) = S4 at *
    generalize hN : n * S4 = N at *
    have e1 : 2 * n * (4 * S4) = 8 * N := by rw [← hN, Nat.mul_assoc, Nat.mul_left_comm n 4 S4]; omega
    have e2 : n * (4 * S4) * b = 4 * (N * b) := by rw [← hN, Nat.mul_left_comm n 4 S4, Nat.mul_assoc]
    rw [e1] at hlo hhi
    rw [e2]
    have e3 : 2 * x * 2 ^ k = 2 * (b * q' + rem) := by rw [hdm, Nat.mul_assoc]
    rw [e3]
  · -- upper side of the result: 4 N b ≤ 2 (b q' + rem) + 2 S4 b
    have key : 2 * N ≤ q' + S4 := by
      by_cases hr : rem = 0
      · simp only [hr, if_true] at hQt; omega
      · simp only [hr, if_false] at hQt; omega
    have := Nat.mul_le_mul_right b key
    rw [Nat.add_mul, Nat.mul_assoc] at this
    rw [Nat.mul_comm b q', Nat.mul_assoc 2 S4 b]
    generalize N * b = P1 at *
    generalize q' * b = P2 at *
    generalize S4 * b = P3 at *
    omega
  · by_cases hr : rem = 0
    · simp only [hr, if_true] at hQt
      have key : q' ≤ 2 * N + S4 := by omega
      have := Nat.mul_le_mul_right b key
      rw [Nat.add_mul, Nat.mul_assoc] at this
      rw [Nat.mul_comm b q', Nat.mul_assoc 2 S4 b, hr]
      generalize N * b = P1 at *
      generalize q' * b = P2 at *
      generalize S4 * b = P3 at *
      omega
    · simp only [hr, if_false] at hQt
      have key : q' + 1 ≤ 2 * N + S4 := by omega
      have := Nat.mul_le_mul_right b key
      rw [Nat.add_mul, Nat.add_mul, Nat.mul_assoc, Nat.one_mul] at this
      rw [Nat.mul_comm b q', Nat.mul_assoc 2 S4 b]
      generalize N * b = P1 at *
      generalize q' * b = P2 at *
      generalize S4 * b = P3 at *
      omega

end FontVerif.Ieee
