/-
Lemmas for C17 drawn-outline preservation, part 5: the component walk of `subset_composite_glyph` as read-fonts reads it.
-/
import FontVerif.Lemmas.SubsetOutline4
set_option linter.unusedVariables false
set_option linter.unusedSimpArgs false
namespace FontVerif.SubsetOutline
open FontVerif FontVerif.Subset

/-- the component list of the subset: glyph ids through the glyph map (`as u16`), WE_HAVE_INSTRUCTIONS removed
under NO_HINTING, OVERLAP_COMPOUND set on the first component under SET_OVERLAPS_FLAG; anchors and transforms
untouched.  `none` when some component glyph has no image. -/
def mapComps (flags : Nat) (gmap : Nat → Option Nat) : Bool → List Glyf.RComponent → Option (List Glyf.RComponent)
  | _, [] => some []
  | first, c :: cs =>
    match gmap c.glyph, mapComps flags gmap false cs with
    | some n, some rest =>
      some ({ c with flags := compFlags flags (if first then 10 else 0) c.flags, glyph := n % 65536 } :: rest)
    | _, _ => none

theorem compLoop_iend (flags : Nat) (gmap : Nat → Option Nat) (len : Nat) :
    ∀ (fuel : Nat) (out : Bytes) (i : Nat) (whi : Bool) (res : Bytes × Nat × Bool),
      compLoop flags gmap len fuel out i whi = some res → i + 6 ≤ res.2.1 := by
  intro fuel
  induction fuel with
  | zero => intro out i whi res h; simp [compLoop] at h
  | succ n ih =>
    intro out i whi res h
    unfold compLoop at h
    split at h
    · cases h
    · simp only at h
      split at h
      · cases h
      · split at h
        · have := ih _ _ _ _ h
          split at this <;> split at this <;> omega
        · simp only [Option.some.injEq] at h
          subst h
          simp only
          split <;> split <;> omega

theorem u16At_getD (X : Bytes) (i : Nat) : X.getD i 0 * 256 + X.getD (i + 1) 0 = u16At X i := rfl

/-- **the component walk of the rewriter, as read-fonts reads it.** -/
theorem compLoop_read (flags : Nat) (gmap : Nat → Option Nat) (len : Nat) :
    ∀ (F fuel : Nat) (out : Bytes) (i : Nat) (whi : Bool) (res : Bytes × Nat × Bool),
      out.length = len → 10 ≤ i → compLoop flags gmap len fuel out i whi = some res →
      ∀ cut, res.2.1 ≤ cut →
        mapComps flags gmap (decide (i = 10)) (Glyf.readComponents F (out.drop i)) =
          some (Glyf.readComponents F ((res.1.take cut).drop i)) := by
  intro F
  induction F with
  | zero => intro fuel out i whi res hlen h10 h cut hcut; simp [Glyf.readComponents, mapComps]
  | succ F ih =>
    intro fuel out i whi res hlen h10 h cut hcut
    have hiend := compLoop_iend flags gmap len fuel out i whi res h
    cases fuel with
    | zero => simp [compLoop] at h
    | succ fuel =>
    obtain ⟨hfl, hbelow, _⟩ := compLoop_spec flags gmap len (fuel + 1) out i whi res (by omega) h
    unfold compLoop at h
    split at h
    · cases h
    rename_i hbound
    simp only at h
    have hi1 : i + 1 < out.length := by omega
    generalize hf0 : u16At out i &&& COMPOSITE_KNOWN_BITS = f0 at h
    generalize hout2 : compWriteFlags flags i f0 out = out2 at h
    have hlen2 : out2.length = out.length := by rw [← hout2]; exact compWriteFlags_length _ _ _ _
    have hgid : u16At out2 (i + 2) = u16At out (i + 2) := by
      rw [← hout2]
      exact u16At_congr _ _ _ (compWriteFlags_getD_ne _ _ _ _ _ (by omega) (by omega))
        (compWriteFlags_getD_ne _ _ _ _ _ (by omega) (by omega))
    have hread : u16At out2 i &&& COMPOSITE_KNOWN_BITS = compFlags flags i f0 := by
      rw [← hout2, ← hf0]; exact compWriteFlags_read flags i out hi1
    split at h
    · cases h
    rename_i new hnew
    rw [hgid] at hnew
    generalize hout3 : putU16 out2 (i + 2) (new % 65536) = out3 at h
    have hlen3 : out3.length = out.length := by rw [← hout3, putU16_length, hlen2]
    -- out3 vs out
    have h3out : ∀ j, i + 4 ≤ j → out3.getD j 0 = out.getD j 0 := by
      intro j hj
      rw [← hout3, putU16_getD_ne _ _ _ _ (by omega) (by omega), ← hout2,
        compWriteFlags_getD_ne _ _ _ _ _ (by omega) (by omega)]
    have h3flag : u16At out3 i &&& COMPOSITE_KNOWN_BITS = compFlags flags i f0 := by
      have e : u16At out3 i = u16At out2 i := by
        rw [← hout3]
        exact u16At_congr _ _ _ (putU16_getD_ne _ _ _ _ (by omega) (by omega)) (putU16_getD_ne _ _ _ _ (by omega) (by omega))
      rw [e, hread]
    have h3gid : u16At out3 (i + 2) = new % 65536 := by
      rw [← hout3]; exact putU16_read _ _ _ (Nat.mod_lt _ (by omega)) (by omega)
    -- sizes
    have hf0k : f0 = f0 &&& COMPOSITE_KNOWN_BITS := by
      have hkk : COMPOSITE_KNOWN_BITS &&& COMPOSITE_KNOWN_BITS = COMPOSITE_KNOWN_BITS := by decide
      rw [← hf0, Nat.and_assoc, hkk]
    have hbit : ∀ m, (0x1EEF &&& m = m ∧ 0x0400 &&& m = 0) → Glyf.hasBit (compFlags flags i f0) m = Glyf.hasBit f0 m := by
      intro m hm
      rw [hf0k]; exact hasBit_compFlags flags i f0 m hm
    have hsz : compRecSize (compFlags flags i f0) = compRecSize f0 := by
      rw [hf0k]; exact compRecSize_compFlags flags i f0
    generalize hi' : i + 4 + (if compFlags flags i f0 &&& 0x0001 != 0 then 4 else 2) +
        (if compFlags flags i f0 &&& 0x0008 != 0 then 2 else if compFlags flags i f0 &&& 0x0040 != 0 then 4
         else if compFlags flags i f0 &&& 0x0080 != 0 then 8 else 0) = i' at h
    have hi'eq : i' = i + 4 + tailSz f0 := by
      have : i' = i + compRecSize (compFlags flags i f0) := by rw [← hi']; unfold compRecSize; omega
      rw [this, hsz, compRecSize_eq]; omega
    -- what `full` looks like below i'
    have hfull : res.1.length = out.length ∧ (∀ j, j < i' → res.1.getD j 0 = out3.getD j 0) ∧ i' ≤ res.2.1 := by
      split at h
      · obtain ⟨a, b, _⟩ := compLoop_spec flags gmap len fuel out3 i' _ res (by omega) h
        have c := compLoop_iend flags gmap len fuel out3 i' _ res h
        exact ⟨by omega, b, by omega⟩
      · simp only [Option.some.injEq] at h
        subst h
        exact ⟨hlen3, fun _ _ => rfl, Nat.le_refl _⟩
    obtain ⟨hfl', hfb, hi'le⟩ := hfull
    -- the two cursors
    have hA := drop_four out i (by omega)
    have hYlen : (res.1.take cut).length = min cut out.length := by simp [hfl']
    have hB := drop_four (res.1.take cut) i (by rw [hYlen]; omega)
    have hYget : ∀ j, j < i' → (res.1.take cut).getD j 0 = out3.getD j 0 := by
      intro j hj
      rw [getD_take _ _ _ (by omega), hfb j hj]
    rw [hA, hB]
    unfold Glyf.readComponents
    rw [readComponent_cons, readComponent_cons]
    rw [u16At_getD out i, u16At_getD (res.1.take cut) i]
    have e2 : out.getD (i + 2) 0 * 256 + out.getD (i + 3) 0 = u16At out (i + 2) := rfl
    have e2' : (res.1.take cut).getD (i + 2) 0 * 256 + (res.1.take cut).getD (i + 3) 0 = u16At (res.1.take cut) (i + 2) := rfl
    rw [e2, e2']
    have hall : Glyf.COMPOSITE_ALL = COMPOSITE_KNOWN_BITS := by decide
    rw [hall]
    have hYflag : u16At (res.1.take cut) i &&& COMPOSITE_KNOWN_BITS = compFlags flags i f0 := by
      have e : u16At (res.1.take cut) i = u16At out3 i :=
        u16At_congr _ _ _ (hYget i (by omega)) (hYget (i + 1) (by omega))
      rw [e, h3flag]
    have hYgid : u16At (res.1.take cut) (i + 2) = new % 65536 := by
      rw [← h3gid]
      exact u16At_congr _ _ _ (hYget (i + 2) (by omega)) (hYget (i + 3) (by omega))
    have hAflag : u16At out i &&& COMPOSITE_KNOWN_BITS = f0 := hf0
    rw [hYflag, hYgid, hAflag]
    -- the tails
    have htl : tailRead (compFlags flags i f0) ((res.1.take cut).drop (i + 4)) = tailRead f0 ((res.1.take cut).drop (i + 4)) :=
      tailRead_bits _ _ (hbit _ ⟨rfl, rfl⟩) (hbit _ ⟨rfl, rfl⟩) (hbit _ ⟨rfl, rfl⟩) (hbit _ ⟨rfl, rfl⟩) (hbit _ ⟨rfl, rfl⟩) _
    rw [htl]
    have hslice : (out.drop (i + 4)).take (tailSz f0) = ((res.1.take cut).drop (i + 4)).take (tailSz f0) := by
      apply slice_congr
      · rw [hYlen]; omega
      · intro j hj1 hj2 hj3
        rw [hYget j (by omega), h3out j hj1]
    rcases tail_congr f0 _ _ hslice with ⟨hn1, hn2⟩ | ⟨v, hv1, hv2⟩
    · rw [hn1, hn2]; simp [mapComps]
    · rw [hv1, hv2]
      simp only [Option.map_some]
      have hmore : Glyf.hasBit (compFlags flags i f0) Glyf.MORE_COMPONENTS = Glyf.hasBit f0 Glyf.MORE_COMPONENTS :=
        hbit _ ⟨rfl, rfl⟩
      rw [hmore]
      have hcf : compFlags flags (if decide (i = 10) = true then 10 else 0) f0 = compFlags flags i f0 := by
        rw [compFlags_first flags i f0]; simp
      by_cases hm : Glyf.hasBit f0 Glyf.MORE_COMPONENTS = true
      · simp only [hm, if_true]
        have hm2 : (compFlags flags i f0 &&& 0x0020 != 0) = true := by
          have := hmore; rw [hm] at this
          simpa [Glyf.hasBit, Glyf.MORE_COMPONENTS] using this
        simp only [hm2, if_true] at h
        have hrec := ih fuel out3 i' _ res (by omega) (by omega) h cut hcut
        have hne10 : decide (i' = 10) = false := by simp; omega
        rw [hne10] at hrec
        have hdrop : out3.drop i' = out.drop i' := drop_congr _ _ _ hlen3 (fun j hj => h3out j (by omega))
        rw [hdrop] at hrec
        have e1 : (out.drop (i + 4)).drop (tailSz f0) = out.drop i' := by rw [List.drop_drop, hi'eq]
        have e3 : ((res.1.take cut).drop (i + 4)).drop (tailSz f0) = (res.1.take cut).drop i' := by
          rw [List.drop_drop, hi'eq]
        rw [e1, e3]
        simp only [mapComps, hnew, hrec, hcf]
      · simp only [hm, Bool.false_eq_true, if_false]
        simp only [mapComps, hnew, hcf]

end FontVerif.SubsetOutline
