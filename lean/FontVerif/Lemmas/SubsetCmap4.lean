/-
Helper lemmas for C17 (Model/SubsetCmap.lean): klippa's format 4 range splitting (`to_ranges`) yields,
for EVERY outcome of its two cost decisions, a valid segmentation of the listed pairs.
-/
import FontVerif.Model.SubsetCmap
import FontVerif.Lemmas.Cmap
import FontVerif.Lemmas.Cmap4
import FontVerif.Lemmas.Cmap4Iter
set_option linter.unusedVariables false
namespace FontVerif.SubsetCmap
open FontVerif FontVerif.Cmap

/-- index-based validity of the ranges written for the pairs with index in `[lo, n)`:
each range covers a block of consecutive code points; a range with a non-zero idDelta has constant
`gid − cp`, and its idDelta is that difference as an `i16` -/
def BodyOk (cp gid : Nat → Nat) : Nat → Nat → List Range → Prop
  | lo, n, [] => lo = n
  | lo, n, r :: rest =>
    r.1 = cp lo ∧ r.1 ≤ r.2.1 ∧ lo + (r.2.1 - r.1) < n ∧
    (∀ k, lo ≤ k → k ≤ lo + (r.2.1 - r.1) → cp k = r.1 + (k - lo)) ∧
    (r.2.2 ≠ 0 → r.2.2 = wrapI16 ((gid lo : Int) - (cp lo : Int)) ∧
       ∀ k, lo ≤ k → k ≤ lo + (r.2.1 - r.1) → (gid k : Int) - (cp k : Int) = (gid lo : Int) - (cp lo : Int)) ∧
    BodyOk cp gid (lo + (r.2.1 - r.1) + 1) n rest

theorem BodyOk.append {cp gid : Nat → Nat} : ∀ {xs ys : List Range} {lo mid n : Nat},
    BodyOk cp gid lo mid xs → mid ≤ n → BodyOk cp gid mid n ys → BodyOk cp gid lo n (xs ++ ys) := by
  intro xs
  induction xs with
  | nil => intro ys lo mid n h1 _ h2; cases h1; exact h2
  | cons r rest ih =>
    intro ys lo mid n h1 hmn h2
    obtain ⟨a, b, c, d, e, f⟩ := h1
    exact ⟨a, b, by omega, d, e, ih f hmn h2⟩

/-- one range `(cp a, e, d)` covering the indices `[a, b)` -/
theorem bodyOk_cons (cp gid : Nat → Nat) (a b n : Nat) (d : Int) (e : Nat) (rest : List Range)
    (hab : a < b) (hbn : b ≤ n) (he : e = cp a + (b - 1 - a))
    (hcon : ∀ k, a ≤ k → k < b → cp k = cp a + (k - a))
    (hd : d ≠ 0 → d = wrapI16 ((gid a : Int) - (cp a : Int)) ∧
      ∀ k, a ≤ k → k < b → (gid k : Int) - (cp k : Int) = (gid a : Int) - (cp a : Int))
    (hrest : BodyOk cp gid b n rest) : BodyOk cp gid a n ((cp a, e, d) :: rest) := by
  have hb : a + (e - cp a) + 1 = b := by omega
  refine ⟨rfl, by simp only; omega, by simp only; omega, ?_, ?_, ?_⟩
  · intro k h1 h2
    simp only at h2 ⊢
    exact hcon k h1 (by omega)
  · intro h0
    obtain ⟨h3, h4⟩ := hd h0
    refine ⟨h3, fun k h1 h2 => ?_⟩
    simp only at h2
    exact h4 k h1 (by omega)
  · simp only
    rw [hb]
    exact hrest

/-- the loop invariant of `to_ranges`: the open range covers the indices `[i0, i)`, its current run
starts at index `ir` -/
structure Inv (cp gid : Nat → Nat) (st : St) (i0 ir i : Nat) : Prop where
  h0 : i0 ≤ ir
  h1 : ir < i
  start : st.start = cp i0
  runStart : st.runStart = cp ir
  endCp : st.endCp = cp (i - 1)
  lastGid : st.lastGid = gid (i - 1)
  consec : ∀ k, i0 ≤ k → k < i → cp k = cp i0 + (k - i0)
  delta : st.delta = wrapI16 ((gid ir : Int) - (cp ir : Int))
  run : ∀ k, ir ≤ k → k < i → (gid k : Int) - (cp k : Int) = (gid ir : Int) - (cp ir : Int)
  prev : st.start = st.prevRunStart → i0 < ir →
    st.prevDelta = wrapI16 ((gid i0 : Int) - (cp i0 : Int)) ∧
    ∀ k, i0 ≤ k → k < ir → (gid k : Int) - (cp k : Int) = (gid i0 : Int) - (cp i0 : Int)

/-- `commit_current_range` writes a valid cover of the open range, whatever the cost test says -/
theorem commit_ok (h : Heur) (cp gid : Nat → Nat) (st : St) (i0 ir i n : Nat) (final : Bool)
    (c rest : List Range) (hinv : Inv cp gid st i0 ir i) (hin : i ≤ n)
    (hc : commit h st final = some c) (hrest : BodyOk cp gid i n rest) :
    BodyOk cp gid i0 n (c ++ rest) := by
  have hir : cp ir = cp i0 + (ir - i0) := hinv.consec ir hinv.h0 hinv.h1
  have hlast : cp (i - 1) = cp i0 + (i - 1 - i0) := hinv.consec (i - 1) (by have := hinv.h0; have := hinv.h1; omega) (by have := hinv.h1; omega)
  have h0 := hinv.h0
  have h1 := hinv.h1
  -- the single range alternatives
  have single : BodyOk cp gid i0 n
      ((if st.start = st.runStart then [(st.start, st.endCp, st.delta)] else [(st.start, st.endCp, 0)]) ++ rest) := by
    by_cases hs : st.start = st.runStart
    · simp only [hs, if_true, List.cons_append, List.nil_append]
      rw [hinv.runStart, hinv.endCp]
      have hii : i0 = ir := by
        have := hinv.start; have := hinv.runStart; omega
      subst hii
      exact bodyOk_cons cp gid i0 i n st.delta _ rest (by omega) hin hlast hinv.consec
        (fun _ => ⟨hinv.delta, hinv.run⟩) hrest
    · simp only [hs, if_false, List.cons_append, List.nil_append]
      rw [hinv.start, hinv.endCp]
      exact bodyOk_cons cp gid i0 i n 0 _ rest (by omega) hin hlast hinv.consec
        (fun hne => absurd rfl hne) hrest
  unfold commit at hc
  simp only [] at hc
  by_cases hcond : st.start < st.runStart ∧ st.runStart < st.endCp
  · simp only [hcond, and_self, if_true] at hc
    cases hsp : h.splitTail st final with
    | none => simp [hsp] at hc
    | some b =>
      cases b with
      | false =>
        simp only [hsp] at hc
        cases Option.some.inj hc
        exact single
      | true =>
        simp only [hsp] at hc
        cases Option.some.inj hc
        obtain ⟨hc1, hc2⟩ := hcond
        rw [hinv.start, hinv.runStart] at hc1
        rw [hinv.runStart, hinv.endCp] at hc2
        have hlt : i0 < ir := by omega
        have hlt2 : ir < i - 1 := by omega
        simp only [List.cons_append, List.nil_append]
        have e1 : st.runStart - 1 = cp i0 + (ir - 1 - i0) := by rw [hinv.runStart]; omega
        have hrun2 : BodyOk cp gid ir n ((st.runStart, st.endCp, st.delta) :: rest) := by
          rw [hinv.runStart, hinv.endCp]
          refine bodyOk_cons cp gid ir i n st.delta _ rest h1 hin (by omega) ?_ (fun _ => ⟨hinv.delta, hinv.run⟩) hrest
          intro k hk1 hk2
          have := hinv.consec k (by omega) hk2
          omega
        have hdd : (if st.start = st.prevRunStart then st.prevDelta else 0) ≠ 0 →
            (if st.start = st.prevRunStart then st.prevDelta else 0) = wrapI16 ((gid i0 : Int) - (cp i0 : Int)) ∧
            ∀ k, i0 ≤ k → k < ir → (gid k : Int) - (cp k : Int) = (gid i0 : Int) - (cp i0 : Int) := by
          intro hne
          by_cases hp : st.start = st.prevRunStart
          · simp only [hp, if_true] at hne ⊢
            exact hinv.prev hp hlt
          · simp [hp] at hne
        generalize (if st.start = st.prevRunStart then st.prevDelta else 0) = dd at hdd ⊢
        rw [hinv.start]
        exact bodyOk_cons cp gid i0 ir n dd _ _ hlt (by omega) e1
          (fun k hk1 hk2 => hinv.consec k hk1 (by omega)) hdd hrun2
  · simp only [hcond, if_false] at hc
    cases Option.some.inj hc
    exact single

theorem pairsFrom_cons (cp gid : Nat → Nat) (i n : Nat) (h : i < n) :
    pairsFrom cp gid i n = (cp i, gid i) :: pairsFrom cp gid (i + 1) n := by
  unfold pairsFrom
  have : n - i = (n - (i + 1)) + 1 := by omega
  rw [this, List.range'_succ]
  simp

theorem pairsFrom_nil (cp gid : Nat → Nat) (n : Nat) : pairsFrom cp gid n n = [] := by
  simp [pairsFrom]

theorem inv_init (cp gid : Nat → Nat) (i : Nat) (hc : cp i ≤ 0xFFFF) (hg : gid i ≤ 0xFFFF) :
    Inv cp gid (initSt (cp i, gid i)) i i (i + 1) := by
  have e1 : cp i % 65536 = cp i := by omega
  have e2 : gid i % 65536 = gid i := by omega
  refine ⟨Nat.le_refl _, by omega, ?_, ?_, ?_, ?_, ?_, ?_, ?_, ?_⟩
  · simp [initSt, e1]
  · simp [initSt, e1]
  · simp [initSt, e1]
  · simp [initSt, e2]
  · intro k h1 h2
    have : k = i := by omega
    subst this; simp
  · simp [initSt, e1, e2]
  · intro k h1 h2
    have : k = i := by omega
    subst this; rfl
  · intro _ h; omega

/-- the state after "Start the new run" -/
def stNew (st : St) (dec : Bool) (g : Nat) : St :=
  { start := if dec then st.endCp + 1 else st.start, prevRunStart := st.runStart, runStart := st.endCp + 1,
    endCp := st.endCp + 1, lastGid := g, runLength := 1,
    delta := wrapI16 ((g : Int) - ((st.endCp + 1 : Nat) : Int)), prevDelta := st.delta, first := false }

/-- the two loops of `to_ranges`, from any reachable state, for ANY heuristic: if they finish, the
written ranges are a valid cover of the open range and the remaining pairs, followed by the
terminating segment unless the last end code is U+FFFF -/
theorem go_body (h : Heur) (cp gid : Nat → Nat) (n : Nat)
    (hcp : ∀ k, k < n → cp k ≤ 0xFFFF) (hgid : ∀ k, k < n → gid k ≤ 0xFFFF) :
    ∀ (m i : Nat), n - i = m → i ≤ n → ∀ (st : St) (i0 ir : Nat) (rs : List Range),
      Inv cp gid st i0 ir i → go h st (pairsFrom cp gid i n) = some rs →
      ∃ body, rs = body ++ sentinel (cp (n - 1)) ∧ BodyOk cp gid i0 n body := by
  intro m
  induction m with
  | zero =>
    intro i hm hin st i0 ir rs hinv hgo
    have hi : i = n := by omega
    subst hi
    rw [pairsFrom_nil, go] at hgo
    cases hc : commit h st true with
    | none => simp [hc] at hgo
    | some c =>
      simp only [hc] at hgo
      cases Option.some.inj hgo
      refine ⟨c, by rw [hinv.endCp], ?_⟩
      have := commit_ok h cp gid st i0 ir i i true c [] hinv (Nat.le_refl _) hc rfl
      simpa using this
  | succ m ih =>
    intro i hm hin st i0 ir rs hinv hgo
    have hi : i < n := by omega
    have hci := hcp i hi
    have hgi := hgid i hi
    have e1 : cp i % 65536 = cp i := by omega
    have e2 : gid i % 65536 = gid i := by omega
    have h0 := hinv.h0
    have h1 := hinv.h1
    rw [pairsFrom_cons cp gid i n hi, go] at hgo
    simp only [e1, e2] at hgo
    by_cases hov : st.endCp + 1 > 65535
    · simp [hov] at hgo
    · simp only [hov, if_false] at hgo
      by_cases hbrk : cp i ≠ st.endCp + 1
      · -- the range is over
        simp only [hbrk, ne_eq, not_false_eq_true, if_true] at hgo
        cases hc : commit h st true with
        | none => simp [hc] at hgo
        | some c =>
          simp only [hc] at hgo
          cases hr : go h (initSt (cp i, gid i)) (pairsFrom cp gid (i + 1) n) with
          | none => simp [hr] at hgo
          | some r =>
            simp only [hr] at hgo
            cases Option.some.inj hgo
            obtain ⟨body, hb1, hb2⟩ := ih (i + 1) (by omega) (by omega) _ i i r (inv_init cp gid i hci hgi) hr
            refine ⟨c ++ body, by rw [hb1, List.append_assoc], ?_⟩
            exact commit_ok h cp gid st i0 ir i n true c body hinv hin hc hb2
      · have hnext : cp i = st.endCp + 1 := by omega
        simp only [hnext, ne_eq, not_true_eq_false, if_false] at hgo
        have hconsec' : ∀ k, i0 ≤ k → k < i + 1 → cp k = cp i0 + (k - i0) := by
          intro k hk1 hk2
          by_cases hk : k = i
          · subst hk
            have := hinv.consec (k - 1) (by omega) (by omega)
            have := hinv.endCp
            omega
          · exact hinv.consec k hk1 (by omega)
        by_cases hgov : st.lastGid + 1 > 65535
        · simp [hgov] at hgo
        · simp only [hgov, if_false] at hgo
          by_cases hcont : gid i = st.lastGid + 1
          · -- the run continues
            simp only [hcont, if_true] at hgo
            by_cases hrl : st.runLength + 1 > 65535
            · simp [hrl] at hgo
            · simp only [hrl, if_false] at hgo
              refine ih (i + 1) (by omega) (by omega) _ i0 ir rs ?_ hgo
              refine ⟨h0, by omega, hinv.start, hinv.runStart, ?_, ?_, hconsec', hinv.delta, ?_, hinv.prev⟩
              · simp [hnext]
              · simp [hcont]
              · intro k hk1 hk2
                by_cases hk : k = i
                · subst hk
                  have := hinv.run (k - 1) (by omega) (by omega)
                  have := hinv.lastGid
                  have := hinv.endCp
                  omega
                · exact hinv.run k hk1 (by omega)
          · -- a new run starts
            simp only [hcont, if_false] at hgo
            cases hd : h.commitAtRun st with
            | none => simp [hd] at hgo
            | some dec =>
              simp only [hd] at hgo
              cases dec with
              | true =>
                simp only [if_true] at hgo
                cases hc : commit h st false with
                | none => simp [hc] at hgo
                | some c =>
                  simp only [hc] at hgo
                  split at hgo
                  · cases hgo
                  · rename_i r hr
                    cases Option.some.inj hgo
                    have hinv' : Inv cp gid (stNew st true (gid i)) i i (i + 1) := by
                      refine ⟨Nat.le_refl _, by omega, ?_, ?_, ?_, ?_, ?_, ?_, ?_, ?_⟩
                      · simp [stNew, hnext]
                      · simp [stNew, hnext]
                      · simp [stNew, hnext]
                      · simp [stNew]
                      · intro k hk1 hk2
                        have : k = i := by omega
                        subst this; simp
                      · simp [stNew, hnext]
                      · intro k hk1 hk2
                        have : k = i := by omega
                        subst this; rfl
                      · intro _ hlt; omega
                    obtain ⟨body, hb1, hb2⟩ := ih (i + 1) (by omega) (by omega) (stNew st true (gid i)) i i r hinv' hr
                    refine ⟨c ++ body, by rw [hb1, List.append_assoc], ?_⟩
                    exact commit_ok h cp gid st i0 ir i n false c body hinv hin hc hb2
              | false =>
                simp only [Bool.false_eq_true, if_false] at hgo
                split at hgo
                · cases hgo
                · rename_i r hr
                  simp only [List.nil_append] at hgo
                  cases Option.some.inj hgo
                  have hinv' : Inv cp gid (stNew st false (gid i)) i0 i (i + 1) := by
                    refine ⟨by omega, by omega, ?_, ?_, ?_, ?_, hconsec', ?_, ?_, ?_⟩
                    · simpa [stNew] using hinv.start
                    · simp [stNew, hnext]
                    · simp [stNew, hnext]
                    · simp [stNew]
                    · simp [stNew, hnext]
                    · intro k hk1 hk2
                      have : k = i := by omega
                      subst this; rfl
                    · intro heq hlt
                      simp only [stNew, Bool.false_eq_true, if_false] at heq ⊢
                      -- start = old run start: the open range so far is a single run
                      have hir : cp ir = cp i0 + (ir - i0) := hinv.consec ir h0 h1
                      have hii : i0 = ir := by
                        have := hinv.start; have := hinv.runStart; omega
                      subst hii
                      exact ⟨hinv.delta, hinv.run⟩
                  exact ih (i + 1) (by omega) (by omega) (stNew st false (gid i)) i0 i rs hinv' hr

end FontVerif.SubsetCmap
