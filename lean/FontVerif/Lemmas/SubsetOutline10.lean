/-
Lemmas for C17 drawn-outline preservation, part 10: klippa's trim walk and `subset_simple_glyph` computed forwards on a
record given by its parts; re-subsetting a rewritten simple glyph changes nothing.
-/
import FontVerif.Lemmas.SubsetOutline9
set_option linter.unusedVariables false
set_option linter.unusedSimpArgs false
namespace FontVerif.SubsetOutline
open FontVerif FontVerif.Subset

def coordTot (R : List (Nat × Nat)) : Nat := (R.map (fun r => coordSize r.1 * r.2)).sum

/-- klippa's trim walk on data that starts with well-formed flag runs covering exactly the points that are left -/
theorem trimGo_runs (n : Nat) : ∀ (R : List (Nat × Nat)) (more : Bytes) (i cb cwf : Nat),
    (∀ r ∈ R, runOk r) → R ≠ [] → cwf + counts R = n →
    trimGo n (encRuns R ++ more) i cb cwf = i + (encRuns R).length + cb + coordTot R
  | [], _, _, _, _, _, h, _ => absurd rfl h
  | (f, m) :: rs, more, i, cb, cwf, hok, _, hn => by
    have hr : runOk (f, m) := hok _ (List.mem_cons_self ..)
    have hrs : ∀ r ∈ rs, runOk r := fun r hr => hok r (List.mem_cons_of_mem _ hr)
    have hcnt : counts ((f, m) :: rs) = m + counts rs := by simp [counts]
    have hct : coordTot ((f, m) :: rs) = coordSize f * m + coordTot rs := by simp [coordTot]
    rw [encRuns_cons, hct]
    rw [hcnt] at hn
    unfold runOk at hr
    simp only at hr
    by_cases hb : (f &&& 0x08 != 0) = true
    · simp only [hb, if_true] at hr
      have e : encRun (f, m) = [f, m - 1] := by simp [encRun, hb]
      rw [e]
      simp only [List.cons_append, List.nil_append, trimGo, hb, if_true]
      have hm1 : m - 1 + 1 = m := by omega
      rw [hm1]
      by_cases hz : rs = []
      · subst hz
        have hge : cwf + m ≥ n := by simp [counts] at hn; omega
        have hne : ¬ (n ≠ cwf + m) := by simp [counts] at hn; omega
        simp only [hge, if_true, hne, if_false, encRuns, coordTot]
        simp
        omega
      · have hpos := counts_pos_of_ne_nil rs hrs hz
        have hge : ¬ (cwf + m ≥ n) := by omega
        simp only [hge, if_false]
        rw [trimGo_runs n rs more _ _ _ hrs hz (by omega)]
        simp
        omega
    · simp only [hb] at hr
      subst hr
      have e : encRun (f, 1) = [f] := by simp [encRun, hb]
      rw [e]
      simp only [List.cons_append, List.nil_append]
      by_cases hz : rs = []
      · subst hz
        have hne : ¬ (n ≠ cwf + 1) := by simp [counts] at hn; omega
        have hge : cwf + 1 ≥ n := by simp [counts] at hn; omega
        simp only [encRuns, List.flatMap_nil, List.nil_append, coordTot, List.map_nil, List.sum_nil]
        cases more with
        | nil => simp only [trimGo, hb, Bool.false_eq_true, if_false, hne]; simp; omega
        | cons a t => simp only [trimGo, hb, Bool.false_eq_true, if_false, hge, if_true, hne]; simp; omega
      · have hpos := counts_pos_of_ne_nil rs hrs hz
        have hge : ¬ (cwf + 1 ≥ n) := by omega
        have hne2 : encRuns rs ++ more ≠ [] := by
          cases rs with
          | nil => exact absurd rfl hz
          | cons r rs' =>
            rw [encRuns_cons]
            have := encRun_ne_nil r
            cases hh : encRun r with
            | nil => exact absurd hh this
            | cons a t => simp
        cases hd : encRuns rs ++ more with
        | nil => exact absurd hd hne2
        | cons a t =>
          simp only [trimGo, hb, Bool.false_eq_true, if_false, hge]
          rw [← hd, trimGo_runs n rs more _ _ _ hrs hz (by omega)]
          simp
          omega

theorem getD_append_left' (a b : Bytes) (j : Nat) (h : j < a.length) : (a ++ b).getD j 0 = a.getD j 0 := by
  rw [List.getD_eq_getElem?_getD, List.getElem?_append_left h, ← List.getD_eq_getElem?_getD]

theorem getD_append_right' (a b : Bytes) (j : Nat) (h : a.length ≤ j) : (a ++ b).getD j 0 = b.getD (j - a.length) 0 := by
  rw [List.getD_eq_getElem?_getD, List.getElem?_append_right h, ← List.getD_eq_getElem?_getD]

theorem sU16At_append_left (a b : Bytes) (p : Nat) (h : p + 2 ≤ a.length) : u16At (a ++ b) p = u16At a p := by
  unfold u16At
  rw [getD_append_left' a b p (by omega), getD_append_left' a b (p + 1) (by omega)]

theorem sU16At_at_end (a : Bytes) (x y : Nat) (r : Bytes) : u16At (a ++ x :: y :: r) a.length = x * 256 + y := by
  unfold u16At
  rw [getD_append_right' _ _ _ (Nat.le_refl _), getD_append_right' _ _ _ (by omega)]
  simp

theorem coordTot_split (R : List (Nat × Nat)) : coordTot R = xTot R + yTot R := coordTot_eq R

/-- `subset_simple_glyph` computed on a record given by its parts -/
theorem subsetSimple_on_shape (flags : Nat) (hdr instr C : Bytes) (x y nc : Nat) (R : List (Nat × Nat))
    (hhl : hdr.length = 10 + 2 * nc) (hnc : nc ≠ 0) (hil : instr.length = x * 256 + y)
    (hok : ∀ r ∈ R, runOk r) (hR : R ≠ []) (hcnt : counts R = u16At hdr (10 + 2 * (nc - 1)) + 1)
    (hC : C.length = xTot R + yTot R) :
    subsetSimple flags (hdr ++ x :: y :: (instr ++ (encRuns R ++ C))) nc =
      .bytes (hdr ++ (if hasFlag flags F_NO_HINTING then 0 :: 0 :: ovl flags (encRuns R ++ C)
                      else x :: y :: (instr ++ ovl flags (encRuns R ++ C)))) := by
  generalize hD : hdr ++ x :: y :: (instr ++ (encRuns R ++ C)) = D
  have hlast : u16At D (10 + 2 * (nc - 1)) = u16At hdr (10 + 2 * (nc - 1)) := by
    rw [← hD]; exact sU16At_append_left _ _ _ (by omega)
  have hilD : u16At D (10 + 2 * nc) = x * 256 + y := by
    rw [← hD, ← hhl]; exact sU16At_at_end _ _ _ _
  have hDlen : D.length = 12 + 2 * nc + (x * 256 + y) + ((encRuns R).length + C.length) := by
    rw [← hD]; simp; omega
  have hdropG : D.drop (12 + 2 * nc + (x * 256 + y)) = encRuns R ++ C := by
    rw [← hD]
    have e : 12 + 2 * nc + (x * 256 + y) = hdr.length + (2 + instr.length) := by omega
    rw [e, ← List.drop_drop, List.drop_left]
    have e' : 2 + instr.length = instr.length + 1 + 1 := by omega
    rw [e', List.drop_succ_cons, List.drop_succ_cons, List.drop_left]
  have htake12 : D.take (12 + 2 * nc) = hdr ++ [x, y] := by
    rw [← hD]
    have e : 12 + 2 * nc = hdr.length + 2 := by omega
    rw [e, List.take_append]
    simp [List.take_of_length_le]
  have hinstr : (D.drop (12 + 2 * nc)).take (x * 256 + y) = instr := by
    rw [← hD]
    have e : 12 + 2 * nc = hdr.length + 2 := by omega
    rw [e, ← List.drop_drop, List.drop_left, ← hil]
    simp
  have htrim : trimSimpleGlyphPadding (encRuns R ++ C) (u16At hdr (10 + 2 * (nc - 1)) + 1) = (encRuns R ++ C).length := by
    unfold trimSimpleGlyphPadding
    rw [trimGo_runs _ R C 0 0 0 hok hR (by omega), coordTot_split]
    simp; omega
  have hGne : (encRuns R ++ C).length ≠ 0 := by
    cases R with
    | nil => exact absurd rfl hR
    | cons r rs =>
      rw [encRuns_cons]
      have := List.length_pos_iff.mpr (encRun_ne_nil r)
      simp only [List.length_append]; omega
  unfold subsetSimple
  simp only [hnc, if_false]
  have e1 : 10 + 2 * nc + 2 = 12 + 2 * nc := by omega
  have e3 : 12 + 2 * nc - 2 = 10 + 2 * nc := by omega
  have e4 : 12 + 2 * nc - 1 = 11 + 2 * nc := by omega
  simp only [e1, e3, e4, hilD, hdropG, hlast, htrim, hGne, if_false, htake12, hinstr]
  have hslice : sliceGet (encRuns R ++ C) 0 (encRuns R ++ C).length = some (encRuns R ++ C) := by
    unfold sliceGet
    generalize encRuns R ++ C = G
    simp
  rw [hslice]
  simp only
  by_cases hnh : hasFlag flags F_NO_HINTING = true
  · simp only [hnh, if_true]
    have hset : ((hdr ++ [x, y]).set (10 + 2 * nc) 0).set (11 + 2 * nc) 0 = hdr ++ [0, 0] := by
      rw [List.set_append_right _ _ (by omega), List.set_append_right _ _ (by first | omega | (simp; omega))]
      simp [hhl]
      have : 11 + 2 * nc - (10 + 2 * nc) = 1 := by omega
      simp [this]
    rw [hset]
    by_cases hov : hasFlag flags F_SET_OVERLAPS = true
    · simp only [hov, if_true, ovl]
      rw [set_at_append _ _ _ rfl]
      simp
    · simp only [hov, ovl]
      simp
  · simp only [hnh]
    by_cases hov : hasFlag flags F_SET_OVERLAPS = true
    · simp only [hov, if_true, ovl]
      rw [set_at_append _ _ _ rfl]
      simp
    · simp only [hov, ovl]
      simp

/-- the shape of a simple glyph that `subset_glyph` writes non-empty -/
theorem simple_shape (flags : Nat) (gmap : Nat → Option Nat) (d out : Bytes) (hs : u16At d 0 < 32768)
    (h : subsetGlyphBytes flags gmap d = .bytes out) (hne : out ≠ []) :
    ∃ (hdr instr C : Bytes) (x y nc : Nat) (R : List (Nat × Nat)),
      hdr.length = 10 + 2 * nc ∧ nc ≠ 0 ∧ nc < 32768 ∧ u16At hdr 0 = nc ∧ instr.length = x * 256 + y ∧
      (∀ r ∈ R, runOk r) ∧ R ≠ [] ∧ counts R = u16At hdr (10 + 2 * (nc - 1)) + 1 ∧ C.length = xTot R + yTot R ∧
      out = hdr ++ (if hasFlag flags F_NO_HINTING then 0 :: 0 :: ovl flags (encRuns R ++ C)
                    else x :: y :: (instr ++ ovl flags (encRuns R ++ C))) := by
  unfold subsetGlyphBytes at h
  split at h
  · cases h
  simp only [hs, if_true] at h
  split at h
  · cases h
  split at h
  · cases h
  rename_i hl2 hl12 hlil
  generalize hnc : u16At d 0 = nc at *
  generalize hil : u16At d (10 + 2 * nc) = il at *
  have hlen : 12 + 2 * nc + il ≤ d.length := by omega
  obtain ⟨hnc0, k, hk, hk0, hkl, hout⟩ := subsetSimple_parts flags d nc il out hil.symm hlen h hne
  generalize hhdr : d.take (10 + 2 * nc) = hdr at *
  generalize hx : d.getD (10 + 2 * nc) 0 = x at *
  generalize hy : d.getD (11 + 2 * nc) 0 = y at *
  generalize hins : (d.drop (12 + 2 * nc)).take il = instr at *
  generalize hgd : d.drop (12 + 2 * nc + il) = gd at *
  have hhl : hdr.length = 10 + 2 * nc := by rw [← hhdr]; simp; omega
  have hilxy : il = x * 256 + y := by
    rw [← hil, ← hx, ← hy]; unfold u16At
    have : 10 + 2 * nc + 1 = 11 + 2 * nc := by omega
    rw [this]
  have hinsl : instr.length = x * 256 + y := by
    rw [← hins, ← hilxy]; simp; omega
  obtain ⟨R, hok, ⟨M, hM⟩, hcnt, hkk⟩ := trimGo_spec _ gd 0 0 0 k hk.symm hk0
  rw [coordTot_eq] at hkk
  have hkk : k = (encRuns R).length + (xTot R + yTot R) := by omega
  have hcnt' : counts R = u16At d (10 + 2 * (nc - 1)) + 1 := by unfold counts; omega
  have hRne : R ≠ [] := by intro h0; subst h0; simp [counts] at hcnt'
  have hMl : xTot R + yTot R ≤ M.length := by
    have : gd.length = (encRuns R).length + M.length := by rw [← hM]; simp
    omega
  have htk : gd.take k = encRuns R ++ M.take (xTot R + yTot R) := by
    rw [← hM, hkk, List.take_append]
    have : (encRuns R).take ((encRuns R).length + (xTot R + yTot R)) = encRuns R :=
      List.take_of_length_le (by omega)
    rw [this]
    congr 2
    omega
  refine ⟨hdr, instr, M.take (xTot R + yTot R), x, y, nc, R, hhl, hnc0, hs, ?_, hinsl, hok, hRne, ?_, by simp; omega, ?_⟩
  · rw [← hhdr, u16At_take d _ 0 (by omega), hnc]
  · rw [hcnt', ← hhdr, u16At_take d _ _ (by omega)]
  · rw [hout, htk]
    split <;> simp

/-- **re-subsetting a rewritten simple glyph changes nothing** (any glyph map: simple glyphs do not look at it) -/
theorem simple_resubset_idempotent (flags : Nat) (gmap gmap' : Nat → Option Nat) (d out : Bytes)
    (hs : u16At d 0 < 32768) (h : subsetGlyphBytes flags gmap d = .bytes out) (hne : out ≠ []) :
    subsetGlyphBytes flags gmap' out = .bytes out := by
  obtain ⟨hdr, instr, C, x, y, nc, R, hhl, hnc0, hlt, hh0, hil, hok, hR, hcnt, hC, hout⟩ :=
    simple_shape flags gmap d out hs h hne
  -- the subset as a record by parts
  have hshape : ∃ (x' y' : Nat) (instr' : Bytes), instr'.length = x' * 256 + y' ∧
      out = hdr ++ x' :: y' :: (instr' ++ (encRuns (ovlRuns flags R) ++ C)) ∧
      (hasFlag flags F_NO_HINTING = true → x' = 0 ∧ y' = 0 ∧ instr' = []) := by
    by_cases hnh : hasFlag flags F_NO_HINTING = true
    · refine ⟨0, 0, [], by simp, ?_, fun _ => ⟨rfl, rfl, rfl⟩⟩
      rw [hout, ovl_runs flags R C hR]; simp [hnh]
    · refine ⟨x, y, instr, hil, ?_, fun hh => absurd hh hnh⟩
      rw [hout, ovl_runs flags R C hR]; simp [hnh]
  obtain ⟨x', y', instr', hil', hout', hnh'⟩ := hshape
  have hcomp := subsetSimple_on_shape flags hdr instr' C x' y' nc (ovlRuns flags R) hhl hnc0 hil'
    (ovlRuns_ok flags R hok) (by cases R with | nil => exact absurd rfl hR | cons r rs => obtain ⟨f, n⟩ := r; simp only [ovlRuns]; split <;> simp)
    (by rw [ovlRuns_counts]; exact hcnt) (by rw [ovlRuns_xTot, ovlRuns_yTot]; exact hC)
  rw [← hout'] at hcomp
  -- `ovl` is idempotent on the runs
  have hidem : ovl flags (encRuns (ovlRuns flags R) ++ C) = encRuns (ovlRuns flags R) ++ C := by
    have hne' : ovlRuns flags R ≠ [] := by
      cases R with
      | nil => exact absurd rfl hR
      | cons r rs => obtain ⟨f, n⟩ := r; simp only [ovlRuns]; split <;> simp
    rw [ovl_runs flags _ C hne']
    congr 1
    cases R with
    | nil => exact absurd rfl hR
    | cons r rs =>
      obtain ⟨f, n⟩ := r
      simp only [ovlRuns]
      by_cases hov : hasFlag flags F_SET_OVERLAPS = true
      · simp only [hov, if_true, ovlRuns]
        have : (f ||| 0x40) ||| 0x40 = f ||| 0x40 := by rw [Nat.or_assoc]; rfl
        rw [this]
      · simp only [hov, ovlRuns]
        simp
  rw [hidem] at hcomp
  -- dispatch of subsetGlyphBytes on `out`
  have hlen : out.length = 12 + 2 * nc + (x' * 256 + y') + ((encRuns (ovlRuns flags R)).length + C.length) := by
    rw [hout']; simp; omega
  have ho0 : u16At out 0 = nc := by
    rw [hout', sU16At_append_left _ _ _ (by omega), hh0]
  have hoil : u16At out (10 + 2 * nc) = x' * 256 + y' := by
    rw [hout', ← hhl]; exact sU16At_at_end _ _ _ _
  unfold subsetGlyphBytes
  have c1 : ¬ (out.length < 2) := by omega
  have c2 : ¬ (out.length < 12 + 2 * nc) := by omega
  have c3 : ¬ (out.length < 12 + 2 * nc + (x' * 256 + y')) := by omega
  simp only [c1, if_false, ho0, hlt, if_true, c2, hoil, c3, hcomp]
  congr 1
  by_cases hnh : hasFlag flags F_NO_HINTING = true
  · obtain ⟨e1, e2, e3⟩ := hnh' hnh
    subst e1 e2 e3
    rw [hout']; simp [hnh]
  · rw [hout']; simp [hnh]

end FontVerif.SubsetOutline
